#!/usr/bin/env python3
"""Writes adversarial.case (hand-built adversarial inputs of C01). Run once; the output is committed."""
import struct
out = []
def H(b): return b.hex() if b else "-"
def L(op, b, tail=""):
    return (op + " " + H(b) + " " + tail).strip()
def add(c, line): out.append("# " + c); out.append(line)
def hdr(id=0x1234, flags=0x0100, qd=0, an=0, ns=0, ar=0): return struct.pack(">HHHHHH", id, flags, qd, an, ns, ar)
def nm(*labels): return b"".join(bytes([len(l)]) + l for l in labels) + b"\0"
def ptr(o): return struct.pack(">H", 0xC000 | o)
def rr(owner, t, cls=1, ttl=60, rdata=b"", rdlen=None):
    return owner + struct.pack(">HHIH", t, cls, ttl, len(rdata) if rdlen is None else rdlen) + rdata
Q = nm(b"www", b"example", b"com") + struct.pack(">HH", 1, 1)   # question at 12, name at 12, "example" at 16, "com" at 24
A4 = bytes([10, 0, 0, 1])
UPD = 0x2800
TSIG = nm(b"hmac-sha256") + b"\0\0\0\0\0\1" + struct.pack(">HH", 300, 4) + b"MACC" + struct.pack(">HHH", 0x1234, 0, 0)
OPT0 = rr(b"\0", 41, 4096, 0, b"")

# --- names
add("self pointer", L("name", ptr(0), "0"))
add("self pointer at 12 inside a message", L("msg", hdr(qd=1) + ptr(12) + b'\0\1\0\1', ""))
add("forward pointer", L("name", ptr(2) + nm(b'a'), "0"))
add("pointer to itself + 1 (second byte of the pointer)", L("name", b'\0' + ptr(2), "1"))
add("two pointers pointing at each other", L("name", ptr(2) + ptr(0), "2"))
add("pointer with the second byte missing", L("name", b'\0\xc0', "1"))
add("pointer into the middle of a label (bytes re-read as a length)", L("name", nm(b'\x01a\x00b') + ptr(2), "7"))
add("pointer into the middle of a label, label runs into the pointer itself (overlap guard)", L("name", b'\x05ab\x03c' + ptr(3), "5"))
add("label whose data reaches exactly up to name_start after a jump", L("name", b'\x02ab' + ptr(0), "3"))
add("label of 63 octets", L("name", nm(b'x'*63), "0"))
add("label code 0x40 (length 64 is not expressible)", L("name", b'\x40' + b'x'*64 + b'\0', "0"))
add("label code 0x80", L("name", b'\x80\0', "0"))
n254 = nm(b"a"*63, b"b"*63, b"c"*63, b"d"*61)   # 255 octets on the wire
assert len(n254) == 255
add("name of exactly 255 octets", L("name", n254, "0"))
n256 = nm(b"a"*63, b"b"*63, b"c"*63, b"d"*62)
add("name of 256 octets", L("name", n256, "0"))
add("name of 256 octets assembled through a pointer", L("name", nm(b'c'*63, b'd'*62) + nm(b'a'*63, b'b'*63)[:-1] + ptr(0), "128"))
add("name of 255 octets assembled through a pointer", L("name", nm(b'c'*63, b'd'*61) + nm(b'a'*63, b'b'*63)[:-1] + ptr(0), "127"))
add("127 one-octet labels + root = 255", L("name", nm(*[b'a']*127), "0"))
add("128 one-octet labels", L("name", nm(*[b'a']*128), "0"))
add("buffer ends inside a label", L("name", b'\x05abc', "0"))
add("no terminating root", L("name", b'\x01a\x01b', "0"))
add("empty buffer", "name - 0")
# chain of 300 pointers, each to the previous one (model side runs; the maximal chain is generated as msg!)
buf = b"\x01z\0"
prev = 0
for i in range(300):
    at = len(buf); buf += ptr(prev); prev = at
add("chain of 300 pointers", L("name", buf, f"{prev}"))
buf2 = b"\0" + b"".join(ptr(max(0, 1 + 2*i - 2) if i else 0) for i in range(100))
add("chain of 100 pointers ending at the root", L("name", buf2, f"{1 + 2*99}"))

# --- header / counts
add("empty message", "msg -")
add("11-byte message", L("msg", hdr()[:11], ""))
add("header only", L("msg", hdr(), ""))
add("header only, response, all flags, rcode 15", L("msg", hdr(flags=0xFFFF), ""))
add("counts 0xFFFF, no body", L("msg", hdr(qd=0xFFFF, an=0xFFFF, ns=0xFFFF, ar=0xFFFF), ""))
add("counts 0xFFFF after one question", L("msg", hdr(qd=1, an=0xFFFF, ns=0xFFFF, ar=0xFFFF) + Q, ""))
add("request with QDCOUNT 0", L("req", hdr(qd=0), ""))
add("request with QDCOUNT 2", L("req", hdr(qd=2) + Q + Q, ""))
add("request, one question", L("req", hdr(qd=1) + Q, ""))
add("request that is a response with unknown opcode", L("req", hdr(flags=0xF800, qd=1) + Q, ""))
add("request truncated inside the question", L("req", hdr(qd=1) + Q[:-3], ""))

# --- RDLENGTH
add("A record, compressed owner", L("msg", hdr(flags=0x8180, qd=1, an=1) + Q + rr(ptr(12), 1, rdata=A4), ""))
add("RDLENGTH past the end", L("msg", hdr(flags=0x8180, qd=1, an=1) + Q + rr(ptr(12), 1, rdata=A4, rdlen=5), ""))
add("RDLENGTH 0xFFFF", L("msg", hdr(flags=0x8180, qd=1, an=1) + Q + rr(ptr(12), 1, rdata=A4, rdlen=0xFFFF), ""))
add("RDLENGTH short of the RDATA (A in 3 octets)", L("msg", hdr(flags=0x8180, qd=1, an=1) + Q + rr(ptr(12), 1, rdata=A4, rdlen=3), ""))
add("RDLENGTH longer than the RDATA needs (A in 5 octets)", L("msg", hdr(flags=0x8180, qd=1, an=1) + Q + rr(ptr(12), 1, rdata=A4 + b'x'), ""))
add("NS whose name is cut by RDLENGTH", L("msg", hdr(flags=0x8180, qd=1, an=1) + Q + rr(ptr(12), 2, rdata=nm(b'ns1') + b'', rdlen=3), ""))
add("NS with a pointer past the clamped buffer but inside the message (forward)", L("msg", hdr(flags=0x8180, qd=1, an=2) + Q + rr(ptr(12), 2, rdata=ptr(60)) + rr(ptr(12), 1, rdata=A4), ""))
add("RDLENGTH 0 in a query (Update0 gate)", L("msg", hdr(flags=0x8180, qd=1, an=1) + Q + rr(ptr(12), 1, rdata=b''), ""))
add("RDLENGTH 0 in an update", L("msg", hdr(flags=UPD, qd=1, ns=1) + Q + rr(ptr(12), 1, cls=255, ttl=0, rdata=b''), ""))
add("record header truncated after the type", L("msg", hdr(flags=0x8180, qd=1, an=1) + Q + ptr(12) + b'\0\1', ""))
add("type ANY with data", L("msg", hdr(flags=0x8180, qd=1, an=1) + Q + rr(ptr(12), 255, rdata=A4), ""))
add("type 0 with data", L("msg", hdr(flags=0x8180, qd=1, an=1) + Q + rr(ptr(12), 0, rdata=A4), ""))
add("SOA with negative timers, compressed names", L("msg", hdr(flags=0x8180, qd=1, ns=1) + Q + rr(ptr(16), 6, rdata=nm(b'ns') [:-1] + ptr(16) + ptr(24) + struct.pack('>IiiiI', 0xFFFFFFFF, -1, -2147483648, 2147483647, 0)), ""))
add("TXT whose last string overruns", L("msg", hdr(flags=0x8180, qd=1, an=1) + Q + rr(ptr(12), 16, rdata=b'\x02ab\x05cd'), ""))
add("TXT of empty strings", L("msg", hdr(flags=0x8180, qd=1, an=1) + Q + rr(ptr(12), 16, rdata=b'\0\0\0'), ""))
add("HINFO with trailing octets", L("msg", hdr(flags=0x8180, qd=1, an=1) + Q + rr(ptr(12), 13, rdata=b'\x01a\x01bX'), ""))
add("AAAA in 15 octets", L("msg", hdr(flags=0x8180, qd=1, an=1) + Q + rr(ptr(12), 28, rdata=b'x'*15), ""))
add("MX pointing at itself", L("msg", hdr(flags=0x8180, qd=1, an=1) + Q + rr(ptr(12), 15, rdata=b'\0\1' + ptr(12+len(Q)+12+2)), ""))

# --- OPT / SIG / TSIG placement
add("OPT with non-root owner", L("msg", hdr(qd=1, ar=1) + Q + rr(ptr(24), 41, 4096, 0, b''), ""))
add("OPT, root owner, no options (RDLENGTH 0)", L("msg", hdr(qd=1, ar=1) + Q + OPT0, ""))
add("two OPTs", L("msg", hdr(qd=1, ar=2) + Q + OPT0 + OPT0, ""))
add("two OPTs, second with an option", L("msg", hdr(qd=1, ar=2) + Q + OPT0 + rr(b'\0', 41, 1232, 0, b'\0\x0a\0\0'), ""))
add("OPT in the answer section", L("msg", hdr(qd=1, an=1) + Q + OPT0, ""))
add("OPT payload below 512, extended rcode 0xFF, version 1, DO", L("msg", hdr(flags=0x8185, qd=1, ar=1) + Q + rr(b'\0', 41, 100, 0xFF018000, b''), ""))
add("TSIG last in additionals", L("msg!", hdr(qd=1, ar=1) + Q + rr(nm(b'key'), 250, 255, 0, TSIG), ""))
add("record after TSIG", L("msg!", hdr(qd=1, ar=2) + Q + rr(nm(b'key'), 250, 255, 0, TSIG) + rr(ptr(12), 1, rdata=A4), ""))
add("OPT after TSIG", L("msg!", hdr(qd=1, ar=2) + Q + rr(nm(b'key'), 250, 255, 0, TSIG) + OPT0, ""))
add("TSIG in the answer section", L("msg!", hdr(qd=1, an=1) + Q + rr(nm(b'key'), 250, 255, 0, TSIG), ""))
add("TSIG in the answer section of a request", L("req!", hdr(qd=1, an=1) + Q + rr(nm(b'key'), 250, 255, 0, TSIG), ""))
add("two TSIGs", L("req!", hdr(qd=1, ar=2) + Q + rr(nm(b'key'), 250, 255, 0, TSIG) + rr(nm(b'key'), 250, 255, 0, TSIG), ""))
add("TSIG with RDLENGTH 0 in an update, followed by a record (Update0 is not a signature)", L("msg", hdr(flags=UPD, qd=1, ar=2) + Q + rr(nm(b'key'), 250, 255, 0, b'') + rr(ptr(12), 1, rdata=A4), ""))
add("SIG with RDLENGTH 0 in the answer section of an update", L("msg", hdr(flags=UPD, qd=1, an=1) + Q + rr(nm(b'key'), 24, 255, 0, b''), ""))
add("OPT with RDLENGTH 0 and a second OPT with RDLENGTH 0 in an update", L("msg", hdr(flags=UPD, qd=1, ar=2) + Q + OPT0 + OPT0, ""))

# --- OPT option TLVs (RData::read directly)
def opt(*tlvs): return b"".join(struct.pack(">HH", c, len(d) if l is None else l) + d for (c, d, l) in tlvs)
add("OPT: cookie + empty padding", L("rdata 41", opt((10, b'12345678', None), (12, b'', None)), "0"))
add("OPT: one octet", L("rdata 41", b'x', "0"))
add("OPT: code only", L("rdata 41", b'\0\x0a', "0"))
add("OPT: code + half a length", L("rdata 41", b'\0\x0a\0', "0"))
add("OPT: option data short (options dropped, still Ok)", L("rdata 41", opt((10, b'1234', 8)), "0"))
add("OPT: option length larger than the RDATA", L("rdata 41", opt((10, b'1234', 100)), "0"))
add("OPT: option length equal to the RDATA length but more than what is left", L("rdata 41", opt((10, b'1234', 8)), "0"))
add("OPT: good option then a broken one (all dropped)", L("rdata 41", opt((3, b'id', None), (10, b'12', 4)), "0"))
add("OPT: DAU with known, unknown and duplicate algorithms", L("rdata 41", opt((5, bytes([15, 8, 8, 200, 1, 3, 5, 7, 10, 13, 14]), None)), "0"))
add("OPT: subnet v4 /24", L("rdata 41", opt((8, bytes([0, 1, 24, 0, 192, 0, 2]), None)), "0"))
add("OPT: subnet v4 /25 with trailing octets", L("rdata 41", opt((8, bytes([0, 1, 25, 7, 192, 0, 2, 128, 9, 9]), None)), "0"))
add("OPT: subnet v4 /33", L("rdata 41", opt((8, bytes([0, 1, 33, 0, 1, 2, 3, 4, 5]), None)), "0"))
add("OPT: subnet v4 /255", L("rdata 41", opt((8, bytes([0, 1, 255, 0]) + bytes(40), None)), "0"))
add("OPT: subnet v6 /128", L("rdata 41", opt((8, bytes([0, 2, 128, 0]) + bytes(range(16)), None)), "0"))
add("OPT: subnet v6 /129", L("rdata 41", opt((8, bytes([0, 2, 129, 0]) + bytes(range(17)), None)), "0"))
add("OPT: subnet family 3", L("rdata 41", opt((8, bytes([0, 3, 0, 0]), None)), "0"))
add("OPT: subnet, address short", L("rdata 41", opt((8, bytes([0, 1, 24, 0, 192, 0]), None)), "0"))
add("OPT: subnet of length 0", L("rdata 41", opt((8, b'', None)), "0"))
add("OPT: subnet /0", L("rdata 41", opt((8, bytes([0, 1, 0, 0]), None)), "0"))
add("OPT: NSID empty and unknown code 65535", L("rdata 41", opt((3, b'', None), (65535, b'zz', None)), "0"))

# --- RData::read on an empty decoder, every tier-1 type
for t in (1, 28, 2, 5, 12, 65305, 15, 6, 16, 33, 13, 10, 41, 0, 255, 251, 252, 99):
    add(f"RData::read type {t} on nothing", f"rdata {t} - 0")
add("RData::read type 0 on one octet", "rdata 0 00 0")
add("RData::read NS with a pointer before the decoder start", L("rdata 2", nm(b'a') + ptr(0), "3"))
add("Record::read at the end of the buffer", L("record", nm(b'a'), "3"))
open("adversarial.case", "w").write("\n".join(out) + "\n")
print(len([l for l in out if not l.startswith('#')]), "cases")
