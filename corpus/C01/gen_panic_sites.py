#!/usr/bin/env python3
"""Writes panic-sites.case: for every panic-capable site on the wire-decoding path (audit of
crates/proto/src/{serialize/binary,op,rr,dnssec/rdata} and crates/server/src/server at /repo HEAD) a
comment naming file:line, why it is safe (the guard), and inputs sitting on the guard's boundary.
Run once; the output is committed.  Line numbers are those of the audited tree."""
import struct
out = []
def H(b): return b.hex() if b else "-"
def site(text): out.append("# " + text)
def case(op, b, tail=""): out.append((op + " " + H(b) + " " + str(tail)).strip())
def hdr(id=0x1234, flags=0x0100, qd=0, an=0, ns=0, ar=0): return struct.pack(">HHHHHH", id, flags, qd, an, ns, ar)
def nm(*labels): return b"".join(bytes([len(l)]) + l for l in labels) + b"\0"
def ptr(o): return struct.pack(">H", 0xC000 | o)
def rr(owner, t, cls=1, ttl=60, rdata=b"", rdlen=None):
    return owner + struct.pack(">HHIH", t, cls, ttl, len(rdata) if rdlen is None else rdlen) + rdata
Q = nm(b"www", b"example", b"com") + struct.pack(">HH", 1, 1)
A4 = bytes([10, 0, 0, 1])
P = "crates/proto/src/"

# ------------------------------------------------------------------ BinDecoder
site(P + "serialize/binary/decoder.rs:87 index(): `buffer.len() - remaining.len()` — UNREACHABLE underflow: `remaining` is always a suffix of `buffer` (new, clone, split_off, pop, read_slice keep that)")
case("name", nm(b"a"), 0)
site(P + "serialize/binary/decoder.rs:95 clone(): `&self.buffer[index_at..]` — REACHABLE, guarded by name.rs:1334 `ptr < name_start` and name_start <= index() <= buffer.len(); boundary: target = name_start-1 (largest legal), = name_start (rejected), pointer as the last two octets, pointer inside a split_off sub-buffer to the octet just before the RDATA")
case("name", b"\0" + ptr(0), 1); case("name", b"\0" + ptr(1), 1); case("name", b"\0\0" + ptr(1), 2)
case("name", bytes(16383) + b"\0" + ptr(16383), 16384)          # highest 14-bit target
case("name", bytes(16384) + b"\0" + ptr(0x3FFF), 16385)
case("msg", hdr(flags=0x8180, qd=1, an=1) + Q + rr(ptr(12), 2, rdata=ptr(len(hdr()) + len(Q) + 11)))   # target = last octet before the RDATA (RDLENGTH low octet)
case("msg", hdr(flags=0x8180, qd=1, an=1) + Q + rr(ptr(12), 2, rdata=ptr(len(hdr()) + len(Q) + 12)))   # target = the pointer itself
site(P + "serialize/binary/decoder.rs:169 split_off(): `&self.buffer[..index()+length]` — REACHABLE, guarded by `split_at_checked(length)` (and record.rs:338 RDLENGTH <= decoder.len()); boundary: RDLENGTH = exactly what is left / one more / 0xFFFF")
case("record", rr(b"\0", 1, rdata=A4), 0); case("record", rr(b"\0", 1, rdata=A4, rdlen=5), 0); case("record", rr(b"\0", 1, rdata=A4, rdlen=0xFFFF), 0)
case("record", rr(b"\0", 10, rdata=bytes(65524)), 0)              # RDLENGTH 65524 exactly filling a 65535-octet buffer
site(P + "serialize/binary/decoder.rs:184 slice_from(): `&self.buffer[index..self.index()]` — REACHABLE (Queries::read), guarded by `index > self.index()` => Err; the only caller passes an earlier index()")
case("req", hdr(qd=1) + Q); case("req", hdr(qd=1) + b"\0\0\1\0\1")
site(P + "serialize/binary/decoder.rs:203 read_u16: `s[0], s[1]` — REACHABLE, guarded by read_slice(2) returning exactly 2 octets; boundary: 0 / 1 octet left where a u16 is expected")
case("msg", b"\x12"); case("msg", hdr()[:3]); case("record", b"\0\0", 0); case("record", b"\0\0\1\0", 0); case("rdata 15", b"\0", 0)
site(P + "serialize/binary/decoder.rs:216-217,231-232 read_i32/read_u32: `assert!(s.len()==4)`, `s[0..3]` — REACHABLE, guarded by read_slice(4); boundary: 3 octets where the TTL / SOA timers are expected")
case("record", b"\0\0\1\0\1\0\0\0", 0); case("record", b"\0\0\1\0\1\0\0\0\0", 0)
case("rdata 6", b"\0\0" + bytes(19), 0); case("rdata 6", b"\0\0" + bytes(20), 0); case("rdata 6", b"\0\0" + bytes(3), 0)
site(P + "serialize/binary/decoder.rs:112 read_character_data `as usize`, restrict.rs checked_* — widening cast / checked arithmetic only: no site")
case("rdata 13", b"\xff" + bytes(255) + b"\0", 0); case("rdata 13", b"\xff" + bytes(254), 0)

# ------------------------------------------------------------------ header / message
site(P + "op/header.rs:119-158 Header::read — masks and `>> 3` on u8 only: no site; boundary: all-ones flags")
case("msg", hdr(id=0xFFFF, flags=0xFFFF)); case("req", hdr(id=0xFFFF, flags=0xFFFF, qd=1) + Q)
site(P + "op/message.rs:399,428,686 `Vec::with_capacity(count)` with count from the header (<= 65535; size_of::<Record>() = 280, Query = 88: up to ~18 MB per section, ~61 MB for a 12-octet message, freed at once) — REACHABLE, no panic (allocation succeeds or aborts, not modelled); boundary: counts 0xFFFF with no body; rr/rdata/tsig.rs:765 adds two u16 counts as usize (131070)")
case("msg", hdr(qd=0xFFFF, an=0xFFFF, ns=0xFFFF, ar=0xFFFF)); case("req", hdr(qd=1, an=0xFFFF, ns=0xFFFF, ar=0xFFFF) + Q)
case("msg", hdr(qd=0, an=0xFFFF, ns=0xFFFF, ar=1))
site(P + "op/message.rs:477 `record.map(..).unwrap()` in the `RData::TSIG(_)` arm — REACHABLE, safe: the closure matches the same variant as the arm")
TS = nm(b"hmac-sha256") + b"\0\0\0\0\0\1" + struct.pack(">HH", 300, 4) + b"MACC" + struct.pack(">HHH", 0x1234, 0, 0)
case("msg", hdr(qd=1, ar=1) + Q + rr(nm(b"key"), 250, 255, 0, TS))
site(P + "op/edns.rs:163 `assert!(record_type()==OPT)`, :180 `panic!(rr_type doesn't match)` in Edns::from(&Record) — REACHABLE, safe: only called from the `Update0(OPT) | OPT(_)` arm of read_records; :165-167 `as u8/u16` after masks; boundary: OPT with options, OPT with RDLENGTH 0, TTL all ones")
case("msg", hdr(qd=1, ar=1) + Q + rr(b"\0", 41, 4096, 0xFFFFFFFF, b"\0\x0a\0\0")); case("msg", hdr(qd=1, ar=1) + Q + rr(b"\0", 41, 0, 0xFFFFFFFF, b""))
site(P + "op/response_code.rs:158 `(u16::from(high) << 4) | low` — REACHABLE via merge_response_code, max 0xFF0|0xF: no overflow; boundary: rcode_high 0xFF, header rcode 0xF")
case("msg", hdr(flags=0x818F, qd=1, ar=1) + Q + rr(b"\0", 41, 4096, 0xFF000000, b""))
site(P + "op/message_request.rs:193-201 Queries::read echo: `original[original.len()-4..]`, `label.len() as u8`, `plain_len + 4` — REACHABLE, safe: original holds a name (>= 1 octet) + 4 octets, labels are <= 63; boundary: root QNAME (5 octets, no rewrite), pointer QNAME (6 octets -> rewritten), 255-octet QNAME")
n255 = nm(b"a"*63, b"b"*63, b"c"*63, b"d"*61)
case("req", hdr(qd=1) + b"\0\0\1\0\1"); case("req", hdr(qd=1) + ptr(4) + b"\0\1\0\1"); case("req", hdr(qd=1) + n255 + b"\0\1\0\1")
case("req", hdr(qd=1) + nm(b"A"*63, b"B"*63, b"C"*63)[:-1] + ptr(4) + b"\0\xff\0\xff")
site("crates/server/src/server/request_handler.rs:42-55 Request::from_bytes and server/mod.rs:714-781 handle_request — the same Header::read / Queries::read / MessageRequest::read_with_queries calls, `counts.queries as usize` widening: no site of their own")
case("req", hdr(qd=1, ar=1) + Q + rr(b"\0", 41, 1232, 0x8000, b""))

# ------------------------------------------------------------------ record / rdata frame
site(P + "rr/record.rs:338 RDLENGTH `<= decoder.len()`, :352 split_off — see decoder.rs:169; OPT owner check :296; boundary: RDLENGTH 0 / 1, header cut after every field")
full = rr(b"\0", 1, rdata=A4)
for n in range(len(full) + 1): case("record", full[:n], 0)
site(P + "rr/record_data.rs:1021 `decoder.index() - start_idx` — REACHABLE, safe: the decoder only moves forward (names chase pointers on a temporary decoder); boundary: RDATA that is only a pointer far back")
case("rdata 2", nm(b"a") + bytes(300) + ptr(0), 303)
site(P + "rr/record_data.rs:916 ANY/AXFR/IXFR early Err, :943 ZERO — no site")
case("rdata 255", A4, 0); case("rdata 0", b"", 0)

# ------------------------------------------------------------------ names
site(P + "rr/domain/name.rs:1334-1343 pointer guard + clone — see decoder.rs:95; :1252 overlap guard; hang-freedom: pointers strictly decrease name_start")
case("name", ptr(0) + ptr(0), 2); case("name", b"\x01a" + ptr(0) + ptr(2), 4)
site(P + "rr/domain/name.rs:60-67 extend_name: `label_data.len() as u8` — REACHABLE, safe: new_len <= 255 is checked first, so label_data.len() <= 253; :1358 `len >= 255`; boundary: names of 254 / 255 / 256 octets, 127 / 128 one-octet labels")
case("name", n255, 0); case("name", nm(b"a"*63, b"b"*63, b"c"*63, b"d"*62), 0); case("name", nm(b"a"*63, b"b"*63, b"c"*63, b"d"*60), 0)
case("name", nm(*[b"a"]*127), 0); case("name", nm(*[b"a"]*128), 0)
site(P + "rr/domain/label.rs:113 `lower_label[idx..]` (Label::to_lowercase), rr/domain/name.rs:318 Name::to_lowercase via LowerName::new — REACHABLE on the request path (LowerQuery::read), safe: idx comes from `position()` on the same vector; boundary: upper-case first / last octet, 255-octet upper-case QNAME")
case("req", hdr(qd=1) + nm(b"Awww", b"wwwZ") + b"\0\1\0\1"); case("req", hdr(qd=1) + nm(b"A"*63, b"B"*63, b"C"*63, b"D"*61) + b"\0\1\0\1")
site(P + "rr/domain/name.rs:846 `Label::from_raw_bytes(b).unwrap()` (write_labels), :772 / label.rs:174 `.expect(..)` on writing to a String — REACHABLE from the wire through TsigAlgorithm::from_name -> Name::to_ascii (rr/rdata/tsig.rs:556-570), safe: every label of a decoded Name is 1..63 octets and String writes cannot fail; boundary: algorithm names with octets that are escaped (dot, backslash, space, NUL, 0xFF, '*' not first, leading '-'), a 63-octet label, a 255-octet name")
def tsig(alg): return alg + b"\0\0\0\0\0\1" + struct.pack(">HH", 300, 0) + struct.pack(">HHH", 1, 0, 0)
for a in (nm(b"hmac.sha256"), nm(b"a\\b"), nm(b" \0\xff"), nm(b"a*"), nm(b"-a"), nm(b"x"*63), n255, b"\0", nm(b"\xe2\x82\xac")):
    case("rdata 250", tsig(a), 0)
site(P + "rr/rdata/tsig.rs:552 TsigAlgorithm::to_name `.unwrap()` on Name::from_ascii of ten static strings — reachable only with constants; every known algorithm name decoded and printed back")
for a in ("HMAC-MD5.SIG-ALG.REG.INT", "gss-tsig", "hmac-sha1", "hmac-sha224", "hmac-sha256", "hmac-sha256-128", "hmac-sha384", "hmac-sha384-192", "hmac-sha512", "hmac-sha512-256"):
    case("rdata 250", tsig(nm(*[l.encode() for l in a.split(".")])), 0)

# ------------------------------------------------------------------ RDATA codecs
site(P + "rr/rdata/null.rs:57 `debug_assert!(!anything.is_empty())` in NULL::with — REACHABLE (NULL and every unknown type), safe: read_data calls it only when the decoder is not empty; boundary: 0 / 1 octet")
case("rdata 10", b"", 0); case("rdata 10", b"x", 0); case("rdata 65280", b"", 0); case("rdata 65280", b"x", 0)
site(P + "rr/rdata/opt.rs:283 option length `<= rdata_length`, :301 `Vec::with_capacity(length)` (<= 65535) — REACHABLE, guarded; boundary: option length = RDATA length (accepted by the guard, then short: options dropped), = RDATA length - 4 (exact), RDATA length + 1 (Err), 0")
def opt(code, d, l=None): return struct.pack(">HH", code, len(d) if l is None else l) + d
case("rdata 41", opt(10, b"12345678"), 0); case("rdata 41", opt(10, b"12345678", 12), 0); case("rdata 41", opt(10, b"12345678", 13), 0); case("rdata 41", opt(10, b"", 0), 0)
case("rdata 41", opt(10, bytes(2996)), 0)
site(P + "rr/rdata/opt.rs:722,744 ClientSubnet `(source_prefix / 8 + if source_prefix % 8 > 0 {1} else {0})` in u8 — REACHABLE, max 31 + 1 = 32: no overflow; :723-728 addr_len > 4 / 16 => Err; boundary: prefixes 32/33 (v4), 128/129 (v6), 255")
for fam, sp, n in ((1, 32, 4), (1, 33, 5), (1, 255, 32), (2, 128, 16), (2, 129, 17), (2, 255, 32), (1, 0, 0), (3, 0, 0)):
    case("rdata 41", opt(8, bytes([0, fam, sp, 0]) + bytes(n)), 0)
site(P + "rr/rdata/opt.rs:831 NSID `value.len() > u16::MAX` — UNREACHABLE from the wire (the option length is a u16); " + P + "dnssec/supported_algorithm.rs:77 `1u8 << b` with b <= 6: no site; boundary: DAU listing all 256 algorithm codes")
case("rdata 41", opt(5, bytes(range(256))), 0); case("rdata 41", opt(3, bytes(300)), 0)
site(P + "rr/rdata/tsig.rs:390 checked_add, :404 `index + size + 6 <= end_idx`, :406/:420 `end_idx - index()` (only on the Err path), :418 `index + size == end_idx` — REACHABLE, safe: end_idx is the end of the buffer and index() <= it; usize additions of u16 values cannot overflow; boundary: MAC size leaving exactly 6 / 5 octets, 0xFFFF, other length one more / one less")
def ts(mac=b"MACC", other=b"", macsize=None, otherlen=None):
    return nm(b"hmac-sha256") + b"\0\0\0\0\0\1" + struct.pack(">HH", 300, len(mac) if macsize is None else macsize) + mac + struct.pack(">HHH", 1, 0, len(other) if otherlen is None else otherlen) + other
case("rdata 250", ts(), 0); case("rdata 250", ts()[:-1], 0); case("rdata 250", ts(macsize=0xFFFF), 0); case("rdata 250", ts(macsize=5), 0); case("rdata 250", ts(macsize=3), 0)
case("rdata 250", ts(otherlen=1), 0); case("rdata 250", ts(other=b"x", otherlen=0), 0); case("rdata 250", ts(other=b"xy", otherlen=0xFFFF), 0)
site(P + "rr/rdata/tsig.rs:716-835 signed_bitmessage_to_buf (re-parses a received message; run by the harness on every `msg` line): :748 `counts.additionals -= 1` guarded by `> 0`; :756,:787 `message.len() - decoder.len()` (decoder over the same slice); :765 usize addition; :772 `debug_assert!(sig.is_none())` safe because a TSIG outside the additional section is an Err in read_records; :817 `message[..12]` after Header::read succeeded; :823 `message[start_data..end_data]` with 12 <= start <= end — REACHABLE, safe; boundary: ARCOUNT 0, TSIG only, TSIG in the answer section, TSIG not last, two TSIGs, class != ANY, TTL != 0, ANCOUNT+NSCOUNT = 0x1FFFE")
T = rr(nm(b"key"), 250, 255, 0, TS)
case("msg", hdr(qd=1, ar=0) + Q); case("msg", hdr(qd=1, ar=1) + Q + T); case("msg", hdr(qd=0, ar=1) + T); case("msg", hdr(qd=1, an=1) + Q + T)
case("msg", hdr(qd=1, ar=2) + Q + T + rr(ptr(12), 1, rdata=A4)); case("msg", hdr(qd=1, ar=2) + Q + T + T); case("msg", hdr(qd=1, ar=2) + Q + rr(ptr(12), 1, rdata=A4) + T)
case("msg", hdr(qd=1, ar=1) + Q + rr(nm(b"key"), 250, 1, 0, TS)); case("msg", hdr(qd=1, ar=1) + Q + rr(nm(b"key"), 250, 255, 5, TS))
case("msg", hdr(qd=0, an=0xFFFF, ns=0xFFFF, ar=1) + T); case("msg", hdr(flags=0x2800, qd=1, ar=1) + Q + rr(nm(b"key"), 250, 255, 0, b""))
site(P + "rr/rdata/caa.rs:568 tag length 1..=15, :570 `String::with_capacity(len)` (<= 15), :573-577 pop per character — REACHABLE, guarded; boundary: tag length 0 / 15 / 16 / 255, tag cut short, non-alphanumeric last character")
for l, tag in ((0, b""), (15, b"a"*15), (16, b"a"*16), (255, b"a"*255), (5, b"iss"), (3, b"ab-"), (1, b"a")):
    case("rdata 257", bytes([0, l]) + tag, 0)
site(P + "rr/rdata/svcb.rs:780 value length `<= decoder.len()`, :1358 Unknown::read `read_vec(decoder.len())`, :1111 `String::from_utf8(..)?`, :803 port = exactly two octets (fix ebb7968) — REACHABLE, guarded; boundary: value length = what is left / one more, 1-3 octets left over after the last parameter, empty mandatory / alpn, invalid UTF-8")
SV = b"\0\1" + nm(b"svc")
def sp(k, v, l=None): return struct.pack(">HH", k, len(v) if l is None else l) + v
case("rdata 64", SV + sp(5, b"ech"), 0); case("rdata 64", SV + sp(5, b"ech", 4), 0); case("rdata 64", SV + sp(5, b"ech") + b"\0", 0); case("rdata 64", SV + sp(5, b"ech") + b"\0\7\0", 0)
case("rdata 64", SV + sp(3, b"\0\x50"), 0); case("rdata 64", SV + sp(3, b"\x50"), 0); case("rdata 64", SV + sp(3, b"\0\x50\0"), 0)
case("rdata 64", SV + sp(0, b""), 0); case("rdata 64", SV + sp(1, b""), 0); case("rdata 64", SV + sp(1, b"\x02\xc3\x28"), 0); case("rdata 65", SV + sp(65535, bytes(300)), 0)
site(P + "rr/record_type_set.rs:193-195 `len.checked_sub(left).checked_mul(8).checked_add(i)` and :207 `left.checked_sub(1)` on u8 (Restrict checked ops => Err, not panic), :198 `u16::from(window) << 8`, :202 `bit_map <<= 1` (shift amount 1: no overflow check fires) — REACHABLE, safe; boundary: bitmap length 0 followed by an octet, length 32 last bit, length 33 with / without a set bit, window 255")
NX = nm(b"n")
for b in (b"\0\0\x40", b"\0\0", bytes([0, 32]) + bytes(31) + b"\x01", bytes([0, 33]) + bytes(32) + b"\x01", bytes([0, 33]) + bytes(33), bytes([255, 32]) + b"\xff"*32, bytes([255, 255]) + bytes(255)):
    case("rdata 47", NX + b, 0)
site(P + "dnssec/rdata/key.rs:342 reserved-bits mask, :496 / :544 `panic!(\"All other bit fields should have been cleared\")` in KeyTrust::from / KeyUsage::from — REACHABLE functions, UNREACHABLE arms (the match is on a 2-bit mask and lists all four values); boundary: every value of the two 2-bit fields")
for fl in (0x0000, 0x4000, 0x8000, 0xC000, 0x0100, 0x0200, 0x0300, 0xC30F, 0x1000, 0x2000, 0x0400, 0x0010):
    case("rdata 25", struct.pack(">H", fl) + b"\x03\x08k", 0)
site(P + "dnssec/rdata/mod.rs:502 `panic!(\"not a dnssec RecordType\")` — UNREACHABLE: RData::read enters DNSSECRData::read only for `is_dnssec()` types and takes TSIG earlier; every dnssec type code with one octet of RDATA")
for t in (48, 60, 59, 43, 25, 47, 50, 51, 46, 24, 250):
    case("rdata %d" % t, b"\x01", 0)
site(P + "dnssec/rdata/nsec3.rs:319,:331 salt / hash length `<= decoder.len()`, :153 `Label::from_ascii(BASE32_DNSSEC.encode(hash)).ok()` (allocating encode; a label > 63 characters is `None`) — REACHABLE, guarded; boundary: hash 0 / 39 / 40 / 255 octets, salt 255, lengths one past the end")
def n3(salt=b"\xab", h=b"h"*20, saltlen=None, hlen=None, maps=b"\0\1\x40"):
    return bytes([1, 0, 0, 5, len(salt) if saltlen is None else saltlen]) + salt + bytes([len(h) if hlen is None else hlen]) + h + maps
for h in (0, 1, 39, 40, 63, 64, 255):
    case("rdata 50", n3(h=bytes(h)), 0)
case("rdata 50", n3(salt=bytes(255), h=bytes(255)), 0); case("rdata 50", n3(hlen=21, maps=b""), 0); case("rdata 50", n3(saltlen=2, h=b"", maps=b""), 0)
site(P + "dnssec/rdata/nsec3param.rs:200 salt length `<= decoder.len()` — boundary: exact / one more")
case("rdata 51", bytes([1, 0, 0, 5, 2, 1, 2]), 0); case("rdata 51", bytes([1, 0, 0, 5, 3, 1, 2]), 0); case("rdata 51", bytes([1, 0, 0, 5, 0]), 0)
site(P + "rr/rdata/cert.rs:515 `rdata_length <= 5` => Err; csync.rs:213 flags mask (low octet only); dnskey.rs:423 / cdnskey.rs:151 protocol == 3 — value guards, no site; boundary values")
case("rdata 37", bytes(5), 0); case("rdata 37", bytes(6), 0); case("rdata 62", bytes(4) + b"\0\3", 0); case("rdata 62", bytes(4) + b"\0\4", 0); case("rdata 62", bytes(4) + b"\xff\0", 0)
case("rdata 48", b"\1\1\3\x08", 0); case("rdata 48", b"\1\1\2\x08", 0); case("rdata 60", b"\0\0\3\0", 0); case("rdata 60", b"\0\0\4\0", 0)
site(P + "rr/rdata/{a,aaaa,name,mx,soa,srv,txt,hinfo,naptr,tlsa,smimea,sshfp,openpgpkey,https}.rs, dnssec/rdata/{ds,cds,sig,rrsig,nsec}.rs — sequences of checked decoder reads and From<u8/u16> tables with a catch-all arm: no site of their own (txt.rs:110 with_capacity(1)); exact-length and one-short inputs")
for t, n in ((1, 4), (28, 16), (33, 7), (15, 3), (43, 4), (46, 19), (52, 3), (44, 2)):
    case("rdata %d" % t, bytes(n), 0); case("rdata %d" % t, bytes(n - 1), 0)
case("rdata 16", b"\xff" + bytes(255) + b"\0", 0); case("rdata 35", bytes(4) + b"\0\0\0\0", 0); case("rdata 35", bytes(4) + b"\x01!\0\0\0", 0)
site(P + "op/dns_response.rs:54-61 DnsResponse::from_buffer — Message::from_vec + QR check (run by the harness on every `msg` line): no site")
case("msg", hdr(flags=0x8180)); case("msg", hdr(flags=0x0100))
open("panic-sites.case", "w").write("\n".join(out) + "\n")
print(sum(1 for l in out if l.startswith("#")), "sites,", sum(1 for l in out if not l.startswith("#")), "cases")
