#!/usr/bin/env python3
"""Writes the hand-built C20 corpus (*.case).  Case line format: see harness/src/props/c20.rs."""
import os
HERE = os.path.dirname(os.path.abspath(__file__))

def hx(b): return b.hex() if b else "-"
def name(s):
    """absolute name given as dotted text of plain labels -> token, lower-cased"""
    s = s.rstrip(".")
    labels = [l for l in s.split(".")] if s else []
    return "F:" + ".".join(hx(l.lower().encode()) for l in labels)
def nameb(labels): return "F:" + ".".join(hx(l) for l in labels)
def rec(owner, code, ttl, rdata, cls=1): return f"{owner}/{code}/{cls}/{ttl}/{rdata}"
def A(ip): return "A," + bytes(int(x) for x in ip.split(".")).hex()
def TXT(*ss): return ",".join(["TXT"] + [hx(s) for s in ss])
def N(n): return "N," + name(n)
def case(flag, origin, text, exp_origin=None, recs=None):
    l = f"zone {flag} {name(origin) if origin != '-' else '-'} {hx(text.encode())}"
    if recs is not None:
        l += f" {name(exp_origin or origin)} " + ("|".join(recs) if recs else "0")
    return l

O = "example.com."
WWW = rec(name("www.example.com"), 1, 60, A("1.2.3.4"))
files = {}

# ---- regression: the repaired 4 096-iteration cap (DESIGN §9-C20 finding (i), fix: commit 61a76eb)
reg = ["# comment / blank run / quoted string / parenthesised list / token of 4094..10000 characters:",
       "# before the repair every one of >= 4095 panicked at `assert!(i < 4095)`"]
for n in (4094, 4095, 4096, 10000):
    reg.append(case("m", O, "; " + "c" * n + "\nwww 60 IN A 1.2.3.4\n", recs=[WWW]))
    reg.append(case("m", O, "www 60 IN A" + " " * n + "1.2.3.4\n", recs=[WWW]))
    reg.append(case("m", O, "www 60 IN TXT \"" + "q" * n + "\"\n"))
    reg.append(case("m", O, "www 60 IN TXT (" + " x" * (n // 2) + " )\n",
                    recs=[rec(name("www.example.com"), 16, 60, TXT(*([b"x"] * (n // 2))))]))
    reg.append(case("m", O, "www 60 IN TXT " + "t" * n + "\n"))
    reg.append(case("m", O, "www 60 IN A 1.2.3.4 ;" + "c" * n))
    reg.append(case("m", O, "www 60 IN A ( ;" + "c" * n + "\n 1.2.3.4 )\n", recs=[WWW]))
files["regression-iteration-cap.case"] = reg

# ---- regression: quoted strings inside ( ... ) (findings (ii)/(ii'), fix: commit 055beb6)
rq = ["# before the repair: `( \"hello world\" )` loaded as the two strings `\"hello` and `world\"`,",
      "# and a semicolon inside the quoted string started a comment (UnclosedList)",
      case("m", O, 'a 60 IN TXT ( "hello world" )\n', recs=[rec(name("a.example.com"), 16, 60, TXT(b"hello world"))]),
      case("m", O, 'a 60 IN TXT ( "abc" )\n', recs=[rec(name("a.example.com"), 16, 60, TXT(b"abc"))]),
      case("m", O, 'a 60 IN TXT ( "v=DKIM1; k=rsa" )\n', recs=[rec(name("a.example.com"), 16, 60, TXT(b"v=DKIM1; k=rsa"))]),
      case("m", O, 'c 60 IN CAA 0 issue ( "ca.example.net; account=230123" )\n',
           recs=[rec(name("c.example.com"), 257, 60, "CAA,0,0," + hx(b"issue") + "," + hx(b"ca.example.net; account=230123"))]),
      case("m", O, 'a 60 IN TXT ( "p ) q" ; c "\n "line1\nline2" plain"x" "" "q\\"q" )\n',
           recs=[rec(name("a.example.com"), 16, 60, TXT(b"p ) q", b"line1\nline2", b'plain"x"', b"", b'q"q'))]),
      "# malformed: unclosed quote inside a group", case("m", O, 'a 60 IN TXT ( "open )\n'), case("m", O, 'a 60 IN TXT ( "open'),
      ]
files["regression-quote-inside-list.case"] = rq

# ---- known findings (open): each line fails the oracle on the unchanged tree with exactly this class
kf = ["# (iii) \\DDD in a quoted string is decoded as (d1<<16)+(d2<<8)+d3 -> class decimal-escape-arithmetic",
      case("e", O, 'a 60 IN TXT "\\065bc"\n', recs=[rec(name("a.example.com"), 16, 60, TXT(b"Abc"))]),
      case("e", O, 'a 60 IN TXT "tab\\009 ok" "\\255"\n', recs=[rec(name("a.example.com"), 16, 60, TXT(b"tab\t ok", b"\xff"))]),
      case("e", O, 'a 60 IN TXT ( "\\065bc" )\n', recs=[rec(name("a.example.com"), 16, 60, TXT(b"Abc"))]),
      "# (iv) labels outside letters/digits/hyphen (and _-led labels) cannot be loaded -> class name-label-not-ldh",
      case("m", O, 'a_b 60 IN A 1.2.3.4\n', recs=[rec(nameb([b"a_b", b"example", b"com"]), 1, 60, A("1.2.3.4"))]),
      case("i", O, 'a\\032b 60 IN A 1.2.3.4\n', recs=[rec(nameb([b"a b", b"example", b"com"]), 1, 60, A("1.2.3.4"))]),
      case("m", O, '-a 60 IN A 1.2.3.4\n', recs=[rec(nameb([b"-a", b"example", b"com"]), 1, 60, A("1.2.3.4"))]),
      case("m", O, 'x 60 IN MX 10 mail+1\n', recs=[rec(name("x.example.com"), 15, 60, "MX,10," + nameb([b"mail+1", b"example", b"com"]))]),
      "# (v) an escaped semicolon in a contiguous item is not honoured: the item ends there and the rest of the line",
      "#     is a comment -> class escaped-semicolon-in-item (owner: no record and no error; RDATA name: a wrong record)",
      case("m", O, 'a\\;b 60 IN A 1.2.3.4\n', recs=[rec(nameb([b"a;b", b"example", b"com"]), 1, 60, A("1.2.3.4"))]),
      case("m", O, 'x 60 IN NS a\\;b\n', recs=[rec(name("x.example.com"), 2, 60, "N," + nameb([b"a;b", b"example", b"com"]))]),
      ]
kf += ["# (vi) a $ORIGIN inside an included file stays in force in the parent after the include (RFC 1035 5.1: it must not) -> class include-origin-leaks",
       "zoneinc " + name(O) + " " + hx(b"$INCLUDE b.zone" + bytes([10]) + b"x 60 A 1.2.3.4" + bytes([10])) + " b.zone:" + hx(b"$ORIGIN other." + bytes([10]) + b"y 60 A 5.6.7.8" + bytes([10]))
       + " " + name(O) + " " + rec(name("x.example.com"), 1, 60, A("1.2.3.4")) + "|" + rec(name("y.other"), 1, 60, A("5.6.7.8"))]
files["known-findings.case"] = kf

# ---- layouts that must load (RFC 1035 §5.3 example, with a $TTL because RFC 2308 removed the SOA-minimum default)
isi = """$TTL 3600
@   IN  SOA     VENERA      Action\\.domains (
                                 20     ; SERIAL
                                 7200   ; REFRESH
                                 600    ; RETRY
                                 3600000; EXPIRE
                                 60)    ; MINIMUM

        NS      A.ISI.EDU.
        NS      VENERA
        NS      VAXA
        MX      10      VENERA
        MX      20      VAXA

A       A       26.3.0.103

VENERA  A       10.1.0.52
        A       128.9.0.32

VAXA    A       10.2.0.27
        A       128.9.0.33
"""
IO = "ISI.EDU."
apex = name("isi.edu")
isi_recs = [
    rec(apex, 6, 3600, "SOA," + name("venera.isi.edu") + "," + nameb([b"action.domains", b"isi", b"edu"]) + ",20,7200,600,3600000,60"),
    rec(apex, 2, 3600, N("a.isi.edu")), rec(apex, 2, 3600, N("venera.isi.edu")), rec(apex, 2, 3600, N("vaxa.isi.edu")),
    rec(apex, 15, 3600, "MX,10," + name("venera.isi.edu")), rec(apex, 15, 3600, "MX,20," + name("vaxa.isi.edu")),
    rec(name("a.isi.edu"), 1, 3600, A("26.3.0.103")),
    rec(name("venera.isi.edu"), 1, 3600, A("10.1.0.52")), rec(name("venera.isi.edu"), 1, 3600, A("128.9.0.32")),
    rec(name("vaxa.isi.edu"), 1, 3600, A("10.2.0.27")), rec(name("vaxa.isi.edu"), 1, 3600, A("128.9.0.33")),
]
lay = ["# RFC 1035 §5.3 example zone (+ $TTL)", case("m", IO, isi, recs=isi_recs),
       "# the same with CRLF line ends and no final newline", case("m", IO, isi.replace("\n", "\r\n").rstrip("\r\n"), recs=isi_recs),
       "# TTL / class inheritance: this line -> $TTL -> last explicit",
       case("m", O, "a 100 IN A 1.1.1.1\n  A 2.2.2.2\n$TTL 7\n A 3.3.3.3\n 50 A 4.4.4.4\n A 5.5.5.5\nb CH A 6.6.6.6\nc A 7.7.7.7\n",
            recs=[rec(name("a.example.com"), 1, 100, A("1.1.1.1")), rec(name("a.example.com"), 1, 100, A("2.2.2.2")),
                  rec(name("a.example.com"), 1, 7, A("3.3.3.3")), rec(name("a.example.com"), 1, 50, A("4.4.4.4")),
                  rec(name("a.example.com"), 1, 7, A("5.5.5.5")),
                  rec(name("b.example.com"), 1, 7, A("6.6.6.6"), cls=3), rec(name("c.example.com"), 1, 7, A("7.7.7.7"), cls=3)]),
       "# class before TTL, lower-case mnemonics, units",
       case("m", O, "a in 1h a 1.1.1.1\nb 1W2d IN txt \"x\"\n",
            recs=[rec(name("a.example.com"), 1, 3600, A("1.1.1.1")), rec(name("b.example.com"), 16, 777600, TXT(b"x"))]),
       "# $ORIGIN switches, @, relative and absolute names, escaped dot",
       case("m", O, "$ORIGIN sub.example.com.\n@ 60 NS ns\nx\\.y 60 CNAME z.example.com.\n$ORIGIN other.\nw 60 PTR @host.\n"),
       case("m", O, "$ORIGIN sub.example.com.\n@ 60 NS ns\nx\\.y 60 CNAME z.example.com.\n$ORIGIN other.\nw 60 PTR host\n", exp_origin="other.",
            recs=[rec(name("sub.example.com"), 2, 60, N("ns.sub.example.com")),
                  rec(nameb([b"x.y", b"sub", b"example", b"com"]), 5, 60, N("z.example.com")),
                  rec(name("w.other"), 12, 60, N("host.other"))]),
       "# quoted / unquoted strings, escaped quote and backslash, semicolon and parens inside quotes, raw newline inside quotes",
       case("m", O, 'a 60 TXT plain "two words" "q\\"q" "b\\\\b" "se;mi" "(p)" "line1\nline2" ""\n',
            recs=[rec(name("a.example.com"), 16, 60, TXT(b"plain", b"two words", b'q"q', b"b\\b", b"se;mi", b"(p)", b"line1\nline2", b""))]),
       "# comments and blank lines everywhere",
       case("m", O, "; c1\n\n   \n  ; indented\nwww 60 IN A 1.2.3.4 ; tail \" ( \n;end"),
       case("m", O, "; c1\n\n   \n  ; indented\nwww 60 IN A 1.2.3.4 ; tail \" ( \n;end", recs=[WWW]),
       "# AAAA forms", case("m", O, "a 60 AAAA ::\n 60 AAAA ::ffff:1.2.3.4\n 60 AAAA 1:2:3:4:5:6:7:8\n 60 AAAA fe80::1\n",
            recs=[rec(name("a.example.com"), 28, 60, "AAAA," + "00" * 16), rec(name("a.example.com"), 28, 60, "AAAA," + "00" * 10 + "ffff01020304"),
                  rec(name("a.example.com"), 28, 60, "AAAA,00010002000300040005000600070008"), rec(name("a.example.com"), 28, 60, "AAAA,fe80" + "00" * 13 + "01")]),
       "# SRV with underscore labels, wildcard owner",
       case("m", O, "_sip._tcp 60 SRV 1 2 5060 sip\n*.w 60 A 1.2.3.4\n",
            recs=[rec(name("_sip._tcp.example.com"), 33, 60, "SRV,1,2,5060," + name("sip.example.com")), rec(name("*.w.example.com"), 1, 60, A("1.2.3.4"))]),
       "# HINFO and CAA: character strings, a semicolon inside a quoted CAA value",
       case("m", O, 'h 60 HINFO "VAX-11/780" UNIX\nc 60 CAA 0 issue "ca.example.net; account=230123"\nc 60 CAA 128 iodef mailto:security@example.com\n',
            recs=[rec(name("h.example.com"), 13, 60, "HINFO," + hx(b"VAX-11/780") + "," + hx(b"UNIX")),
                  rec(name("c.example.com"), 257, 60, "CAA,0,0," + hx(b"issue") + "," + hx(b"ca.example.net; account=230123")),
                  rec(name("c.example.com"), 257, 60, "CAA,1,0," + hx(b"iodef") + "," + hx(b"mailto:security@example.com"))]),
       ]
files["layouts.case"] = lay

# ---- malformed texts: Ok or Err, never a panic or a hang; and observations about accepted oddities
mal = ["# unbalanced / stray delimiters", ] + [case("m", O, t) for t in [
    "a 60 TXT ( x\n", "a 60 TXT ( x", "a 60 TXT ( x ", "a 60 A 1.2.3.4 )\n", "a 60 TXT \"open\n", ")\n", "(\n", "\"", "a 60 TXT \"x\\", "a 60 TXT \"x\\0", "a 60 TXT \"x\\01\"",
    "a 60 A 1.2.3.4\r", "a 60 A 1.2.3.4\rb", "\r\r\n", "$", "$TT", "$TTL", "$TTL\n", "$TTL x\n", "$TTL 1 2\n", "$ORIGIN\n", "$ORIGIN rel\nx 1 A 1.1.1.1\n", "$INCLUDE\n",
    "$INCLUDE file\n", "$INCLUDE file origin\n", "$INCLUDE /nonexistent-c20\n", "$FOO\n", "a 60 NS @\n", "a 60\n b A 1.1.1.1\n", "a A 1.1.1.1\n", "a 60 IN\n", "a 60 IN IN CH 5 A 1.1.1.1\n",
    "a 60 SOA a b 1 2 3 4 5\na 60 SOA a b 1 2 3 4 5\n", "a 60 CNAME b\na 60 CNAME c\n", "a 60 A 1.1.1.1\nA 60 A 1.1.1.1\na 70 A 1.1.1.1\na 80 CH A 1.1.1.1\n",
    "a 4294967296 A 1.1.1.1\n", "a 7102w A 1.1.1.1\n", "a 60 MX 65536 b\n", "a 60 MX +5 b\n", "a 60 MX -5 b\n", "a 60 SOA a b 1 2147483648 3 4 5\n", "a 60 A 1.2.3\n", "a 60 A 01.2.3.4\n",
    "a 60 A 1.2.3.4 extra\n", "a 60 AAAA 1::2::3\n", "a 60 AAAA 1:2:3:4:5:6:7:8:9\n", "a 60 AAAA ::1.2.3.4.5\n", "a 60 AAAA 12345::\n", "a 60 AAAA 1.2.3.4::\n", "a 60 TYPE1 \\# 4 01020304\n",
    "a 60 NSEC b A\n", "a 60 ANY x\n", "a 60 * x\n", "a 60 NULL\n", "a..b 60 A 1.1.1.1\n", ".a 60 A 1.1.1.1\n", "\\ 60 A 1.1.1.1\n", "a\\09 60 A 1.1.1.1\n", "a\\400 60 A 1.1.1.1\n",
    "\x00", "a\x00b 60 A 1.1.1.1\n", "a 60 TXT \x01\n", "a 60 TXT \"\x01\"\n", "a 60 TXT \x7f\n", "\x0b\x0c a 60 A 1.1.1.1\n", "@", "@@ 60 A 1.1.1.1\n", "@ 60 A 1.1.1.1",
    "\"\" 60 A 1.1.1.1\n", "\"a b\" 60 A 1.1.1.1\n", "a \"60\" \"IN\" \"A\" \"1.1.1.1\"\n", "a 60 TXT (a)(b)\n", "a 60 TXT ((a))\n", "a 60 TXT ( a ;c )\n b )\n",
    "a 60 TXT ( a\x01 )\n", "x" * 64 + " 60 A 1.1.1.1\n", ".".join(["a" * 63] * 4) + ". 60 A 1.1.1.1\n", "", "\n", " ", ";",
]]
mal += ["# RecordSet::insert rules (as repaired by 4cf469c / 24305ec): same data with a new TTL replaces, identical record ignored,",
        "# identical CNAME is no change, different CNAME replaces, second SOA refused"] + [case("m", O, t) for t in [
    "a 60 A 1.1.1.1\na 70 A 1.1.1.1\n", "a 60 A 1.1.1.1\nA 60 A 1.1.1.1\n", "a 60 A 1.1.1.1\na 60 A 2.2.2.2\na 70 A 1.1.1.1\n",
    "a 60 CNAME x\nA 60 CNAME X\n", "a 60 CNAME x\na 70 CNAME x\n", "a 60 CNAME x\na 60 CNAME y\n", "a 60 NS n\na 60 CH NS N\n",
    "a 60 MX 1 m\na 60 MX 1 M\na 70 MX 1 m\n", "a 60 SOA a b 1 2 3 4 5\nA 60 SOA a b 2 2 3 4 5\n"]]
mal += ["# no origin at all", "zone m - " + hx(b"a 60 A 1.1.1.1\n"), "zone m - " + hx(b"a. 60 A 1.1.1.1\n"), "zone m - " + hx(b"$ORIGIN x.\na 60 A 1.1.1.1\n"),
        "# non-ASCII (implementation only)", case("m", O, "é 60 A 1.1.1.1\n"), case("m", O, "a 60 TXT \"é\u00a0\u2028\"\n"), case("m", O, "a\u00a060 A 1.1.1.1\n"),
        case("m", O, "a 60 TXT \"\\½\"\n"), case("m", O, "a 60 TXT \"\\٣٣٣\"\n")]
files["malformed.case"] = mal

# ---- names at the length limits, and the same relative text across $ORIGIN changes (seeded changes C20-1, C20-2)
def big(n_last): return ".".join(["a" * 63, "b" * 63, "c" * 63, "d" * n_last])
def musterr(origin, text): return f"zone m {name(origin)} {hx(text.encode())} {name(origin)} !"
B255, B256 = big(49), big(50)          # + example.com. = 255 / 256 octets on the wire
lim = ["# 63.63.63.49 under example.com. is exactly 255 octets: must load, written relative or absolute, as owner or in RDATA",
       case("m", O, f"{B255} 60 IN A 1.2.3.4\n", recs=[rec(name(B255 + ".example.com"), 1, 60, A("1.2.3.4"))]),
       case("m", O, f"{B255}.example.com. 60 IN A 1.2.3.4\n", recs=[rec(name(B255 + ".example.com"), 1, 60, A("1.2.3.4"))]),
       case("m", O, f"w 60 IN CNAME {B255}\n", recs=[rec(name("w.example.com"), 5, 60, N(B255 + ".example.com"))]),
       case("m", O, f"w 60 IN MX 10 {B255}\nw 60 SRV 1 2 3 {B255}\nw 60 NS {B255}\n",
            recs=[rec(name("w.example.com"), 15, 60, "MX,10," + name(B255 + ".example.com")),
                  rec(name("w.example.com"), 33, 60, "SRV,1,2,3," + name(B255 + ".example.com")),
                  rec(name("w.example.com"), 2, 60, N(B255 + ".example.com"))]),
       case("m", O, f"w 60 IN SOA {B255} {B255} 1 2 3 4 5\n",
            recs=[rec(name("w.example.com"), 6, 60, "SOA," + name(B255 + ".example.com") + "," + name(B255 + ".example.com") + ",1,2,3,4,5")]),
       case("m", "other.", f"$ORIGIN example.com.\n{B255} 60 IN A 1.2.3.4\nw 60 CNAME {B255}\n", exp_origin="example.com.",
            recs=[rec(name(B255 + ".example.com"), 1, 60, A("1.2.3.4")), rec(name("w.example.com"), 5, 60, N(B255 + ".example.com"))]),
       "# 256 octets / a 64-octet label: not a domain name, must be an error",
       musterr(O, f"{B256} 60 IN A 1.2.3.4\n"), musterr(O, f"{B256}.example.com. 60 IN A 1.2.3.4\n"), musterr(O, f"w 60 IN NS {B256}\n"),
       musterr(O, "x" * 64 + " 60 IN A 1.2.3.4\n"), musterr(O, "w 60 IN MX 1 " + "x" * 64 + ".example.com.\n"),
       case("m", O, "x" * 63 + " 60 IN A 1.2.3.4\n", recs=[rec(name("x" * 63 + ".example.com"), 1, 60, A("1.2.3.4"))]),
       "# the same relative owner text / RDATA name after $ORIGIN denotes a different name; inherited owners follow the new one",
       case("m", O, "x 60 A 1.1.1.1\n$ORIGIN other.\nx 60 A 2.2.2.2\n 60 TXT t\n", exp_origin="other.",
            recs=[rec(name("x.example.com"), 1, 60, A("1.1.1.1")), rec(name("x.other"), 1, 60, A("2.2.2.2")), rec(name("x.other"), 16, 60, TXT(b"t"))]),
       case("m", O, "x 60 A 1.1.1.1\n; c\n\n$TTL 5\n$ORIGIN sub.example.com. ; down\n  ; still nothing\nx A 2.2.2.2\n\tNS n\n$ORIGIN com.\nx A 3.3.3.3\n", exp_origin="com.",
            recs=[rec(name("x.example.com"), 1, 60, A("1.1.1.1")), rec(name("x.sub.example.com"), 1, 5, A("2.2.2.2")),
                  rec(name("x.sub.example.com"), 2, 5, N("n.sub.example.com")), rec(name("x.com"), 1, 5, A("3.3.3.3"))]),
       case("m", O, "a 60 NS n\n$ORIGIN other.\nb 60 NS n\nb 60 MX 1 n\n", exp_origin="other.",
            recs=[rec(name("a.example.com"), 2, 60, N("n.example.com")), rec(name("b.other"), 2, 60, N("n.other")), rec(name("b.other"), 15, 60, "MX,1," + name("n.other"))]),
       ]
files["name-limits-and-origin-switch.case"] = lim

# ---- data written in pieces (RFC 6698 2.2, RFC 4034 5.3), parenthesis edge cases (seeded changes round 2)
W = name("w.example.com")
sp = ["# hex data split anywhere — odd offsets, several pieces, over parenthesised lines with comments — is the same data",
      case("m", O, "w 60 TLSA 3 1 1 a1b2c3d4\n", recs=[rec(W, 52, 60, "TLSA,3,1,1,a1b2c3d4")]),
      case("m", O, "w 60 TLSA 3 1 1 a1b 2c3 d4\n", recs=[rec(W, 52, 60, "TLSA,3,1,1,a1b2c3d4")]),
      case("m", O, "w 60 TLSA 3 1 1 a 1 b 2 c 3 d 4\n", recs=[rec(W, 52, 60, "TLSA,3,1,1,a1b2c3d4")]),
      case("m", O, "w 60 TLSA 3 1 1 ( A1b ; odd\n\t2C3 ; again\n d4 )\n", recs=[rec(W, 52, 60, "TLSA,3,1,1,a1b2c3d4")]),
      case("m", O, "w 60 TLSA ( 3 1\n 1 a1b2c ) 3d4\n", recs=[rec(W, 52, 60, "TLSA,3,1,1,a1b2c3d4")]),
      case("m", O, "w 60 SMIMEA 0 0 1 ( 0 ; one digit\n 0ff )\n", recs=[rec(W, 53, 60, "SMIMEA,0,0,1,00ff")]),
      case("m", O, "w 60 DS 12345 RSASHA1 2 ( 0a1 ; c\n b2c3d )\n", recs=[rec(W, 43, 60, "DS,12345,5,2,0a1b2c3d")]),
      case("m", O, "w 60 DS 60485 8 2 2BB183AF5F22588179A53B0A 98631FAD1A292118\n", recs=[rec(W, 43, 60, "DS,60485,8,2,2bb183af5f22588179a53b0a98631fad1a292118")]),
      case("m", O, "w 60 SSHFP 2 1 123456789abcdef67890123456789abcdef67890\n", recs=[rec(W, 44, 60, "SSHFP,2,1,123456789abcdef67890123456789abcdef67890")]),
      case("m", O, "w 60 CERT 1 2 3 QUJDREVG\n", recs=[rec(W, 37, 60, "CERT,1,2,3,414243444546")]),
      case("m", O, "w 60 OPENPGPKEY QUJDREU=\n", recs=[rec(W, 61, 60, "OPENPGPKEY,4142434445")]),
      "# regression of finding cert-base64-split (fix 1479f5a): CERT data in several pieces, down to single base64 digits",
      case("m", O, "c 60 CERT 1 2 3 QUJD REVG\n", recs=[rec(name("c.example.com"), 37, 60, "CERT,1,2,3,414243444546")]),
      case("m", O, "c 60 CERT 1 2 3 ( QUJ ; piece\n DREVG )\n", recs=[rec(name("c.example.com"), 37, 60, "CERT,1,2,3,414243444546")]),
      case("m", O, "c 60 CERT 1 2 3 Q U J D R E V G\n", recs=[rec(name("c.example.com"), 37, 60, "CERT,1,2,3,414243444546")]),
      case("m", O, "c 60 CERT 10528 64251 126 3 ( ) lg =\n", recs=[rec(name("c.example.com"), 37, 60, "CERT,10528,64251,126,de58")]),
      case("m", O, "c 60 cerT 63858 971 121 hw= =\n", recs=[rec(name("c.example.com"), 37, 60, "CERT,63858,971,121,87")]),
      "# malformed data: odd number of digits / not hex / nothing (observations: DS drops a trailing odd digit, SSHFP and OPENPGPKEY refuse pieces)",
      ] + [case("m", O, t) for t in ["w 60 TLSA 3 1 1 a1b\n", "w 60 TLSA 3 1 1 a1 g2\n", "w 60 TLSA 3 1 1\n", "w 60 TLSA 3 1 1 \"a1 b2\"\n", "w 60 TLSA 256 1 1 aa\n", "w 60 TLSA +3 1 1 aa\n",
          "w 60 DS 1 5 2 abc\n", "w 60 DS 1 5 2 +a+b\n", "w 60 DS 1 5 2\n", "w 60 DS 1 rsasha1 2 aa\n", "w 60 DS 65536 5 2 aa\n", "w 60 DS 1 5 2 zz\n",
          "w 60 SSHFP 2 1 1234 5678\n", "w 60 SSHFP 2 1 \"12 34\"\n", "w 60 SSHFP 2 1 \"\"\n", "w 60 OPENPGPKEY QUJD REU=\n", "w 60 CERT 1 2 3\n", "w 60 CERT 1 2 3 QQ== QQ==\n", "w 60 CERT 1 2 3 QR==\n", "w 60 CERT 1 2 3 Q===\n", "w 60 CERT 1 2 3 \"\"\n", "w 60 CERT 1 2 3 QU=D\n", "w 60 CERT 1 2 3 QUJD=\n", "w 60 OPENPGPKEY QQ==QQ==\n", "w 60 CERT 65536 2 3 QQ==\n", "w 60 CERT 1 2 3 QUJ\n"]] + [
      "# several groups per record, parentheses inside quoted strings and comments: must load",
      case("m", O, "w 60 TXT ( a ) ( b ) c\n", recs=[rec(W, 16, 60, TXT(b"a", b"b", b"c"))]),
      case("m", O, "w 60 TXT ( a\n) (\nb ) ( ) c\n", recs=[rec(W, 16, 60, TXT(b"a", b"b", b"c"))]),
      case("m", O, 'w 60 TXT "( x" ")" "(("\n', recs=[rec(W, 16, 60, TXT(b"( x", b")", b"(("))]),
      case("m", O, 'w 60 TXT ( "a(b"\n")" ) "("\n', recs=[rec(W, 16, 60, TXT(b"a(b", b")", b"("))]),
      case("m", O, "; ( ( (\nw 60 TXT a ; ) ) ( \n ; )\n", recs=[rec(W, 16, 60, TXT(b"a"))]),
      case("m", O, "w 60 TXT ( a ; ( ) (( \n b ; )\n )\n", recs=[rec(W, 16, 60, TXT(b"a", b"b"))]),
      "# nesting, stray and unbalanced parentheses: Ok or Err, never a panic or a hang",
      ] + [case("m", O, t) for t in ["w 60 TXT ( a ( b ) c )\n", "w 60 TXT ( (\n", "w 60 TXT ( ( x", "w 60 TXT (((((((((( x ))))))))))\n", "w 60 TXT " + "(" * 1000 + " x\n",
          "w 60 TXT " + "( " * 1000 + "x " + ") " * 1000 + "\n", "w 60 TXT " + "(\n" * 300, "w 60 TXT ) (\n", "w 60 TXT ( ) )\n", "w 60 TXT (a (b\n", "w 60 TXT ( \"a ( \n",
          "w 60 TXT ( ; (\n", "w 60 TXT ( a ; )", "( w 60 TXT a )\n", "w ( 60 TXT a )\n", "w 60 ( TXT a )\n", "w 60 TXT \\( a\n", "w 60 TXT a\\) b\n"]]
files["split-data-and-parens.case"] = sp

# ---- every panic-capable site on the text path (expect / unwrap / slicing / casts / assert / unreachable in
# serialize/txt/** and the from_tokens / FromStr of rr/rdata/**, dnssec/rdata/**), with inputs that reach it or the reason why none can
def ta(text): return "tanchor " + hx(text.encode())
def zp(path, origin, text): return f"zonep {hx(path.encode())} {name(origin)} {hx(text.encode())}"
KEY = "AwEAAagAIKlVZrpC6Ia7gEzahOR+9W29euxhJhVVLOyQbSEW0O8gcCjF"
ps = [
 "# rr/record_type.rs:216  debug_assert!(no ASCII lower-case letter) in RecordType::from_str",
 "#   zone.rs TtlClassType: unreachable — the token is upper-cased first (make_ascii_uppercase); non-ASCII lower case is not 'ascii lowercase'",
 case("m", O, "a 60 in a 1.2.3.4\nb 60 In tXt x\nc 60 \u00e9 x\n"),
 "#   CSYNC::from_tokens (type list, not upper-cased): was REACHABLE (panic in builds with debug assertions) — fixed by aeb765a: upper-cased first",
 case("m", O, "a 60 CSYNC 66 3 A NS AAAA\n"),
 "#   trust_anchor::Parser (State::Type, not upper-cased): was REACHABLE — fixed by aeb765a",
 ta(f". 172800 IN DNSKEY 257 3 8 {KEY}\n"), ta(f"example.com. IN DNSKEY 257 3 8 {KEY}\n"), ta(f"example.com. 1h CH DNSKEY 256 3 13 {KEY}\n"),
 ta("example.com. 60 IN A 1.2.3.4\n"), ta(". 1 IN DNSKEY 257 2 8 QQ==\n"), ta(". 1 IN DNSKEY 257 3 8\n"), ta(". 1 IN DNSKEY 257 3 8 Q\n"), ta(". 1 IN DNSKEY 65536 3 8 QQ==\n"), ta(". ( 1 IN DNSKEY )\n"), ta(". 1 IN"), ta("\"\n"),
 "# rr/dns_class.rs:59  the same debug_assert in DNSClass::from_str",
 "#   zone.rs: unreachable (upper-cased first).  trust_anchor::Parser State::Ttl (tries the class BEFORE upper-casing): was REACHABLE with a lower-case class or a TTL with a unit letter — fixed by aeb765a",
 "# rr/rdata/svcb.rs:233  &value[1..value.len()-1]  — guarded by len >= 2 since 31a6507; both quotes are ASCII so the indices are char boundaries",
 ] + [case("m", O, t) for t in ['a 60 HTTPS 1 . alpn="\n', 'a 60 HTTPS 1 . alpn=""\n', 'a 60 HTTPS 1 . alpn="h2"\n', 'a 60 HTTPS 1 . alpn="\u00e9"\n', 'a 60 HTTPS 1 . key1="\u00e9\n', 'a 60 SVCB 1 . key1=\u00e9"\n', 'a 60 SVCB 1 . ="\n', 'a 60 SVCB 1 . "="\n']] + [
 "# rr/rdata/svcb.rs parse_char_data / parse_list (inner Lexer on a value): lexer errors are propagated since 0119207; escapes, commas, quotes",
 ] + [case("m", O, t) for t in ['a 60 HTTPS 1 . alpn=\\"\n', 'a 60 HTTPS 1 . alpn=h2,\n', 'a 60 HTTPS 1 . alpn=,\n', 'a 60 HTTPS 1 . alpn=,,\n', 'a 60 HTTPS 1 . alpn=a\\,b,c\\\\,d\n', 'a 60 HTTPS 1 . alpn=\\\n',
      'a 60 HTTPS 1 . alpn=\\256\n', 'a 60 HTTPS 1 . alpn=\\1\n', 'a 60 HTTPS 1 . alpn=(\n', 'a 60 HTTPS 1 . alpn=$TTL\n', 'a 60 HTTPS 1 . alpn=@\n', 'a 60 HTTPS 1 . port=\n', 'a 60 HTTPS 1 . port="\n', 'a 60 HTTPS 1 . port=65536\n', 'a 60 HTTPS 1 . port=@\n',
      'a 60 HTTPS 1 . ech=\n', 'a 60 HTTPS 1 . ech=Q===\n', 'a 60 HTTPS 1 . ech=(\n', 'a 60 HTTPS 1 . mandatory=\n', 'a 60 HTTPS 1 . mandatory=mandatory\n', 'a 60 HTTPS 1 . mandatory=key65535\n', 'a 60 HTTPS 1 . mandatory=,alpn\n',
      'a 60 HTTPS 1 . ipv4hint=::1\n', 'a 60 HTTPS 1 . ipv6hint=1.2.3.4\n', 'a 60 HTTPS 1 . ipv4hint=1.2.3.4,\n', 'a 60 HTTPS 1 . no-default-alpn=\n', 'a 60 HTTPS 1 . key65535=x\n', 'a 60 HTTPS 1 . key65536=x\n', 'a 60 HTTPS 1 . key00001=x\n', 'a 60 HTTPS 1 . KEY1=x\n', 'a 60 HTTPS 1 . key=x\n',
      'a 60 HTTPS 1 . port=1 port=2\n', 'a 60 HTTPS 1 . port=2 alpn=h2\n', 'a 60 HTTPS 65536 .\n', 'a 60 HTTPS 1\n', 'a 60 HTTPS 1 ..\n', 'a 60 HTTPS 0 . alpn=h2\n']] + [
 "# dnssec/rdata/ds.rs:188  s.split_at(2)  — guarded by is_char_boundary(2)",
 ] + [case("m", O, t) for t in ['a 60 DS 1 5 2 a\u00e9\n', 'a 60 DS 1 5 2 \u00e9\n', 'a 60 DS 1 5 2 ab\u6f22\n', 'a 60 DS 1 5 2 a\U0001F600b\n']] + [
 "# serialize/txt/mod.rs:91,113  &ttl_str[start..i]  — start/i are offsets of ASCII digits / unit letters (a multi-byte character is an error before any slicing); :100 unreachable!() is behind the same match arm",
 ] + [case("m", O, t) for t in ['a 1\u00e9 A 1.2.3.4\n', 'a \u00e91h A 1.2.3.4\n', 'a 1h\u00e9 A 1.2.3.4\n', 'a 1\uff151h A 1.2.3.4\n', '$TTL 1\u0663\n', 'a 99999999999w A 1.2.3.4\n', 'a 1x A 1.2.3.4\n', 'a 60 SOA a b 1\u00e9 2 3 4 5\n']] + [
 "# serialize/txt/zone_lex.rs:334  self.data[self.offset..]  — offset only ever advances by whole characters (char_indices)",
 case("m", O, "\u00e9\U0001F600 60 TXT \"\u6f22\\\u00e9\" \u0085\n"),
 "# serialize/txt/zone_lex.rs escape_seq: (d1<<16)+(d2<<8)+d3 <= 0x90909, never a surrogate -> char::from_u32 cannot fail; to_digit(10) on a non-ASCII 'numeric' character is an error",
 ] + [case("m", O, t) for t in ['a 60 TXT "\\999"\n', 'a 60 TXT "\\\u00b2"\n', 'a 60 TXT "\\1\u0663"\n', 'a 60 TXT "\\12"\n']] + [
 "# serialize/txt/zone.rs:234  path.parent().expect(\"file has to have parent folder\")  — unreachable with path = None (the observed entry point: a relative $INCLUDE is an error);",
 "#   was REACHABLE through Parser::new(text, Some(path), ..) when path has no parent (\"\" or \"/\") — fixed by aa3be61 (a parse error now)",
 case("m", O, "$INCLUDE x\n"), zp("/nonexistent-c20/zone", O, "$INCLUDE x\n"), zp("/nonexistent-c20/zone", O, "a 60 A 1.2.3.4\n"),
 "# rr/rr_set.rs:279,280,353 assert!s of RecordSet::insert — unreachable: theorem no_panic (the map key is (lower(name), type); CNAME/ANAME sets stay singletons)",
 case("m", O, "a 60 CNAME x\nA 60 CNAME y\na 60 ANAME x\na 60 ANAME y\n"),
 "# rr/rdata/null.rs:57 debug_assert, dnssec/rdata/key.rs:496,544 panic!, dnssec/rdata/mod.rs:502 panic!, rr/rdata/tsig.rs, opt.rs, caa.rs:588-617, nsec3*.rs casts: wire codec / emit paths;",
 "#   NULL, KEY, DNSKEY, NSEC*, RRSIG, SIG, TSIG, OPT are refused by RData::from_tokens before any of their code runs",
 ] + [case("m", O, t) for t in ['a 60 NULL \\# 0\n', 'a 60 KEY 256 3 8 QQ==\n', 'a 60 DNSKEY 256 3 8 QQ==\n', 'a 60 NSEC b. A\n', 'a 60 NSEC3 1 0 1 - AA A\n', 'a 60 NSEC3PARAM 1 0 1 -\n', 'a 60 RRSIG A 8 3 1 2 3 4 b. QQ==\n', 'a 60 TSIG x. 1 2 3\n', 'a 60 OPT\n', 'a 60 TYPE123 \\# 1 00\n']] + [
 "# rr/domain/name.rs:67,932 label_data.len() as u8 — after the 255-octet check of extend_name; label.rs:113 slice index from `find`; name.rs:772,1059.. expect: not on the parse path",
 case("m", O, ".".join(["a" * 63] * 4) + " 60 A 1.2.3.4\n"), case("m", O, "A" * 63 + "." + "B" * 63 + " 60 A 1.2.3.4\n"),
 "# rr/rdata/sshfp.rs:36 HEX specification .expect(): a constant specification, valid",
 case("m", O, "a 60 SSHFP 1 1 aA\n"),
 "# integer parsing / arithmetic: u8/u16/u32 FromStr, checked_mul/checked_add in parse_ttl, try_into for SOA's i32 fields, flag masks in CAA/CSYNC — no unchecked arithmetic on parsed values",
 ] + [case("m", O, t) for t in ['a 60 CAA 256 issue x\n', 'a 60 CAA -1 issue x\n', 'a 60 CSYNC 4294967296 0\n', 'a 60 CSYNC 1 65536\n', 'a 60 NAPTR 65536 1 U s r .\n', 'a 60 NAPTR 1 1 U! s r .\n', 'a 60 NAPTR 1 1 "" "" "" .\n', 'a 60 SOA a b 4294967296 2 3 4 5\n', 'a 60 SOA a b 1 2147483648 3 4 5\n',
      'a 60 SRV 65536 1 1 .\n', 'a 60 MX 65536 .\n', 'a 60 TLSA 256 1 1 aa\n', 'a 60 CERT 65536 1 1 QQ==\n', 'a 4294967296 A 1.2.3.4\n', 'a 60 A 1.2.3.256\n', 'a 60 AAAA 1:2:3:4:5:6:7:8:9\n', 'a 60 AAAA ' + '1' * 300 + '\n']]
ps += ["# regressions of the two findings of the site review (fixed: aeb765a mnemonic case, aa3be61 $INCLUDE parent): must not panic",
       case("m", O, "a 60 CSYNC 66 3 a\n"), case("m", O, "a 60 CSYNC 0 0 A ns\n"), case("m", O, "a 60 IN CSYNC 0 \"0\"alpn=\"\n"),
       ta(". in DNSKEY 257 3 8 QQ==\n"), ta(". 172800 IN dnskey 257 3 8 QQ==\n"), ta(". 1h IN DNSKEY 257 3 8 QQ==\n"), ta("\"\"example.com. 172800 IN DNSKEY 257 3 8 QQ==\n"),
       zp("/", O, "$INCLUDE x\n"), f"zonep - {name(O)} {hx(b'$INCLUDE x' + bytes([10]))}"]
files["panic-sites.case"] = ps

# ---- $INCLUDE (zone.rs include branch, nesting limit), the server's file loader, RData::try_from_str, parse_ttl overflow branches
def zi(origin, main, incs, exp_origin=None, recs=None, musterr=False):
    fl = ",".join(f"{n}:{hx(t.encode())}" for n, t in incs) or "-"
    l = f"zoneinc {name(origin)} {hx(main.encode())} {fl}"
    if musterr: return l + f" {name(origin)} !"
    if recs is not None: l += f" {name(exp_origin or origin)} " + "|".join(recs)
    return l
def zf(origin, text): return f"zonefile {name(origin)} {hx(text.encode())}"
def rd(ty, text): return f"rdata {ty} {hx(text.encode())}"
XA = lambda n, ip: rec(name(n), 1, 60, A(ip))
inc = ["# $INCLUDE inserts the named file; relative names in it and after it use the parent's origin",
       zi(O, "a 60 A 1.1.1.1\n$INCLUDE b.zone\nc 60 A 3.3.3.3\n", [("b.zone", "b 60 A 2.2.2.2\n")], recs=[XA("a.example.com", "1.1.1.1"), XA("b.example.com", "2.2.2.2"), XA("c.example.com", "3.3.3.3")]),
       zi(O, "$INCLUDE b.zone ; comment\n", [("b.zone", "b 60 A 2.2.2.2\n$INCLUDE c.zone\n"), ("c.zone", "c 60 A 3.3.3.3")], recs=[XA("b.example.com", "2.2.2.2"), XA("c.example.com", "3.3.3.3")]),
       zi(O, "$INCLUDE b.zone\n$INCLUDE b.zone\n", [("b.zone", "b 60 A 2.2.2.2\n")], recs=[XA("b.example.com", "2.2.2.2")]),
       zi(O, "$INCLUDE b.zone", [("b.zone", "b 60 A 2.2.2.2")]), zi(O, "$INCLUDE b.zone x.\n", [("b.zone", "b 60 A 2.2.2.2\n")]), zi(O, "$INCLUDE nofile.zone\n", []), zi(O, "$INCLUDE\n", []), zi(O, "$INCLUDE b.zone\n", [("b.zone", "b 60 A (")]),
       "# nesting without end: the file includes itself / a cycle / a chain beyond the limit of 256 -> an error, not a hang or a stack overflow",
       zi(O, "x 60 A 1.2.3.4\n$INCLUDE main.zone\n", [], musterr=True), zi(O, "$INCLUDE b.zone\n", [("b.zone", "$INCLUDE main.zone\n")], musterr=True),
       "# the server's file loader: SOA at the origin, class IN; a missing SOA, class CH, CNAME next to other data are refused by the store",
       zf(O, "@ 3600 SOA ns adm 1 2 3 4 5\n@ 60 NS ns\nns 60 A 1.2.3.4\nwww 60 CNAME ns\n"), zf(O, "ns 60 A 1.2.3.4\n"), zf(O, "@ 3600 SOA ns adm 1 2 3 4 5\nx 60 CH A 1.2.3.4\n"),
       zf(O, "@ 3600 SOA ns adm 1 2 3 4 5\nx 60 CNAME y\nx 60 A 1.2.3.4\n"), zf(O, "@ 3600 SOA ns adm 1 2 3 4 5\nx 60 A (\n"), zf(O, "$ORIGIN other.\n@ 3600 SOA ns adm 1 2 3 4 5\n"), zf(O, ""),
       zf(O, "@ 3600 SOA ns adm 1 2 3 4 5\nout.side. 60 A 1.2.3.4\nx 60 A 1.1.1.1\nX 70 A 1.1.1.1\n"),
       "# RData::try_from_str: the lexer and from_tokens without the line machine",
       rd("A", "1.2.3.4"), rd("A", "( 1.2.3.4 ) ; c\n"), rd("TXT", '"a b" c'), rd("MX", "10 mail"), rd("SOA", "a. b. 1 2 3 4 5"), rd("TLSA", "3 1 1 a1b 2c3 d4"), rd("CERT", "1 2 3 QUJD REVG"), rd("HTTPS", '1 . alpn="'),
       rd("A", "@"), rd("A", "$TTL"), rd("A", "$FOO"), rd("A", '"'), rd("A", ""), rd("NULL", "\\# 0"), rd("CSYNC", "1 0 a ns"), rd("AAAA", "::1 extra"), rd("TXT", "( a"),
       "# parse_ttl: every overflow branch (number with a unit, product, sum inside the loop, sum at the end)",
       ] + [case("m", O, f"a {t} A 1.2.3.4\n") for t in ["4294967295", "4294967296", "7101w", "7102w", "4294967296s", "49710d6h28m15s", "49710d6h28m16s", "4294967295s1", "4294967294s1", "1w4294362495", "1w4294362496", "99999999999w", "4294967295w0", "0w", "1h1", "s1", "1ww"]]
files["entry-points.case"] = inc

for fn, lines in files.items():
    with open(os.path.join(HERE, fn), "w") as f:
        f.write("\n".join(lines) + "\n")
print({k: sum(1 for l in v if not l.startswith("#")) for k, v in files.items()})
