import HickoryVerif.Proofs.C04
open Std
abbrev K := List (List Nat)
example (a b : K) : compare a b = .lt ↔ a < b := Std.compare_eq_lt
example (a b : K) : compare a b = .gt ↔ b < a := Std.compare_eq_gt
example (a b : K) : compare a b = .eq ↔ a = b := by exact?
#check @Std.compare_eq_lt
example : Std.LawfulOrderOrd K := inferInstance
example : Std.IsLinearOrder K := inferInstance
example (a b c : K) (p : K) : p <+: a → p <+: c → a ≤ b → b ≤ c → p <+: b := by exact?
