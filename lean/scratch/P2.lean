import HickoryVerif.Basic
abbrev Key := List (List Nat)
example {a b c : Key} : a < b → b ≤ c → a < c := by exact?
example {a b c : Key} : a ≤ b → b ≤ c → a ≤ c := by exact?
example {a b : Key} : a ≤ b → b ≤ a → a = b := by exact?
example {a b : Key} : ¬ a ≤ b ↔ b < a := by exact?
example {x y : List Nat} {a b : Key} : x :: a ≤ y :: b ↔ x < y ∨ x = y ∧ a ≤ b := by exact?
