import HickoryVerif.Proofs.C08
#print axioms HickoryVerif.C08.soundness_partial
