/-
Line-protocol driver: `hkdrv <property>` reads one case per line on stdin and answers one
canonical line per case on stdout, by running the property's executable Lean model.
-/
import HickoryVerif.Drv.C04

open HickoryVerif.Drv

partial def loop {σ : Type} (step : σ → List String → σ × String)
    (inp out : IO.FS.Stream) (s : σ) : IO Unit := do
  let line ← inp.getLine
  if line.isEmpty then return ()
  let toks := (line.trimAscii.toString.splitOn " ").filter (· ≠ "")
  let (s', o) := step s toks
  out.putStrLn o
  loop step inp out s'

def main (args : List String) : IO UInt32 := do
  let inp ← IO.getStdin
  let out ← IO.getStdout
  match args with
  | ["c04"] => loop C04.step inp out C04.init; out.flush; return 0
  | _ => IO.eprintln "usage: hkdrv <property>"; return 2
