/-
Line-protocol driver: `hkdrv <property>` reads one case per line on stdin and answers one
canonical line per case on stdout, by running the property's executable Lean model.
-/
import HickoryVerif.Drv.C01
import HickoryVerif.Drv.C02
import HickoryVerif.Drv.C03
import HickoryVerif.Drv.C04
import HickoryVerif.Drv.C05
import HickoryVerif.Drv.C06
import HickoryVerif.Drv.C07
import HickoryVerif.Drv.C08
import HickoryVerif.Drv.C09
import HickoryVerif.Drv.C10
import HickoryVerif.Drv.C11
import HickoryVerif.Drv.C12
import HickoryVerif.Drv.C13
import HickoryVerif.Drv.C14
import HickoryVerif.Drv.C15
import HickoryVerif.Drv.C16
import HickoryVerif.Drv.C17
import HickoryVerif.Drv.C18
import HickoryVerif.Drv.C19
import HickoryVerif.Drv.C20

open HickoryVerif.Drv

partial def loop {σ : Type} (step : σ → List String → σ × String)
    (inp out : IO.FS.Stream) (s : σ) : IO Unit := do
  let line ← inp.getLine
  if line.isEmpty then return ()
  let toks := (line.trimAscii.toString.splitOn " ").filter (· ≠ "")
  let (s', o) := step s toks
  out.putStrLn o
  loop step inp out s'

def main (args : List String) : IO UInt32 := do
  let inp ← IO.getStdin
  let out ← IO.getStdout
  match args with
  | ["c01"] => loop C01.step inp out C01.init; out.flush; return 0
  | ["c02"] => loop C02.step inp out C02.init; out.flush; return 0
  | ["c03"] => loop C03.step inp out C03.init; out.flush; return 0
  | ["c04"] => loop C04.step inp out C04.init; out.flush; return 0
  | ["c05"] => loop C05.step inp out C05.init; out.flush; return 0
  | ["c06"] => loop C06.step inp out C06.init; out.flush; return 0
  | ["c07"] => loop C07.step inp out C07.init; out.flush; return 0
  | ["c08"] => loop C08.step inp out C08.init; out.flush; return 0
  | ["c09"] => loop C09.step inp out C09.init; out.flush; return 0
  | ["c10"] => loop C10.step inp out C10.init; out.flush; return 0
  | ["c11"] => loop C11.step inp out C11.init; out.flush; return 0
  | ["c12"] => loop C12.step inp out C12.init; out.flush; return 0
  | ["c13"] => loop C13.step inp out C13.init; out.flush; return 0
  | ["c14"] => loop C14.step inp out C14.init; out.flush; return 0
  | ["c15"] => loop C15.step inp out C15.init; out.flush; return 0
  | ["c16"] => loop C16.step inp out C16.init; out.flush; return 0
  | ["c17"] => loop C17.step inp out C17.init; out.flush; return 0
  | ["c18"] => loop C18.step inp out C18.init; out.flush; return 0
  | ["c19"] => loop C19.step inp out C19.init; out.flush; return 0
  | ["c20"] => loop C20.step inp out C20.init; out.flush; return 0
  | _ => IO.eprintln "usage: hkdrv <property>"; return 2
