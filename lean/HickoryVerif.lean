import HickoryVerif.Basic
