/-
C11 ∘ C01 — the server gate composed with the modelled request decoder.

`Model/ServerGate.lean` takes the verdict of `MessageRequest::read_with_queries` as a parameter
and every decision-table theorem of `Proofs/C11.lean` is proved for all of its values.  Here the
verdict is the one the C01 model of `Request::from_bytes` (`Wire.readRequest`, every RDATA codec
modelled) computes from the request bytes — `ServerGate.bodyOf`, `ServerGate.serve` — so the table
holds for `serve` with no parameter left, C01's `readRequest_no_panic` carries over, and "bodies
that do not parse get FORMERR" is a statement about the decoder model: the rules under which
`read_records` rejects a body are theorems about `Wire.readRecords` (below: an empty RDATA outside
an UPDATE message; OPT / SIG / TSIG outside the additional section; a second OPT; a record behind a
TSIG).
-/
import HickoryVerif.Model.ServerRequest
import HickoryVerif.Proofs.C01
import HickoryVerif.Proofs.C11Wire

namespace HickoryVerif.C11
open HickoryVerif HickoryVerif.Name HickoryVerif.ServerGate

/-! ### the verdict is the decoder model's -/

theorem bodyOf_bad_iff (opq : Nat → Rd Bytes) (buf : Bytes) :
    bodyOf buf = .bad ↔ Rd.run (Wire.readRequest opq) buf 0 = .err := by
  rw [C01.readRequest_indep opq (fun _ => Rd.fail)]
  unfold bodyOf
  have hnp := C01.readRequest_no_panic (fun _ => Rd.fail) buf
  cases h : Rd.run (Wire.readRequest fun _ => Rd.fail) buf 0 with
  | ok a => simp
  | err => simp
  | panic s => exact absurd h (hnp s)

theorem bodyOf_ok_iff (opq : Nat → Rd Bytes) (buf : Bytes) (e : Option Nat) :
    bodyOf buf = .ok e ↔
      ∃ r p, Rd.run (Wire.readRequest opq) buf 0 = .ok (r, p) ∧ e = r.edns.map (·.version) := by
  rw [C01.readRequest_indep opq (fun _ => Rd.fail)]
  unfold bodyOf
  have hnp := C01.readRequest_no_panic (fun _ => Rd.fail) buf
  cases h : Rd.run (Wire.readRequest fun _ => Rd.fail) buf 0 with
  | ok a =>
    rcases a with ⟨r, p⟩
    simp only [Body.ok.injEq, Outcome.ok.injEq, Prod.mk.injEq]
    constructor
    · intro he; exact ⟨r, p, ⟨rfl, rfl⟩, he.symm⟩
    · rintro ⟨r', p', ⟨rfl, rfl⟩, he⟩; exact he.symm
  | err => simp
  | panic s => exact absurd h (hnp s)

/-! ### the table for `serve` (nothing taken from the real decoder) -/

variable (cfg : Config) (src : Ip) (buf : Bytes)

theorem serve_short_dropped (h : buf.length < 12) : serve cfg src buf = .drop :=
  short_dropped cfg src buf _ h

theorem serve_response_dropped {h : Header} (hh : readHeader buf = some h) (hqr : h.qr = true) :
    serve cfg src buf = .drop :=
  response_dropped cfg src buf _ hh hqr

/-- **A request whose sections do not decode gets FORMERR with its question** — "do not decode"
in the sense of the C01 decoder model. -/
theorem undecodable_request_formerr (opq : Nat → Rd Bytes) {h : Header} {q : Question}
    (hh : readHeader buf = some h) (hqr : h.qr = false) (hop : knownOpcode h.opcode = true)
    (hq : readQueries buf h.qd = .ok q) (hacl : cfg.acl.allows src = true)
    (hbad : Rd.run (Wire.readRequest opq) buf 0 = .err) :
    serve cfg src buf = .reply (gateError h (some q) RC_FORMERR) := by
  unfold serve
  rw [(bodyOf_bad_iff opq buf).2 hbad]
  exact bad_body_formerr cfg src buf hh hqr hop hq hacl

/-- **A decodable request with an EDNS version above 0 gets BADVERS.** -/
theorem decoded_badvers (opq : Nat → Rd Bytes) {h : Header} {q : Question} {r : Wire.Request}
    {p : Nat} {e : Wire.Edns}
    (hh : readHeader buf = some h) (hqr : h.qr = false) (hop : knownOpcode h.opcode = true)
    (hq : readQueries buf h.qd = .ok q) (hacl : cfg.acl.allows src = true)
    (hr : Rd.run (Wire.readRequest opq) buf 0 = .ok (r, p)) (he : r.edns = some e)
    (hv : e.version > 0) :
    serve cfg src buf = .reply (catError h true RC_BADVERS none []) := by
  unfold serve
  rw [(bodyOf_ok_iff opq buf _).2 ⟨r, p, hr, rfl⟩, he]
  exact badvers cfg src buf hh hqr hop hq hacl hv

/-- **A decodable query (EDNS absent or version 0) is answered by the zone whose origin is the
longest suffix of its name**, and by no other zone's handlers. -/
theorem serve_query_right_zone (opq : Nat → Rd Bytes) {h : Header} {q : Question}
    {r : Wire.Request} {p : Nat} (hc : CatalogWF cfg.catalog)
    (hh : readHeader buf = some h) (hqr : h.qr = false) (hop : h.opcode = OP_QUERY)
    (hq : readQueries buf h.qd = .ok q) (hacl : cfg.acl.allows src = true)
    (hr : Rd.run (Wire.readRequest opq) buf 0 = .ok (r, p))
    (hv : ednsTooNew (r.edns.map (·.version)) = false)
    (z : Zone) (hz : z ∈ cfg.catalog) (henc : zoneOf z.origin q.name = true)
    (hmax : ∀ z' ∈ cfg.catalog, zoneOf z'.origin q.name = true →
      z'.origin.labels.length ≤ z.origin.labels.length) :
    ∃ rep, serve cfg src buf = .reply rep ∧ rep.via = some z.idx ∧
      ∀ c ∈ rep.calls, Call.zone c = z.idx := by
  unfold serve
  rw [(bodyOf_ok_iff opq buf _).2 ⟨r, p, hr, rfl⟩]
  exact query_right_zone cfg src buf hc hh hqr hop hq hacl hv z hz henc hmax

/-- every reply of `serve` matches its request -/
theorem serve_reply_matches {rep : Reply} (hr : serve cfg src buf = .reply rep) :
    ∃ h, readHeader buf = some h ∧ h.qr = false ∧ rep.qr = true ∧ rep.id = h.id ∧
      (rep.echo = true ↔ (knownOpcode h.opcode = true ∧ ∃ q, readQueries buf h.qd = .ok q)) :=
  reply_matches_request cfg src buf _ hr

/-- **No request byte string makes gate + decoder reach a panic site.** -/
theorem serve_no_panic (s : String) : serve cfg src buf ≠ .panic s :=
  no_panic cfg src buf _ s

/-- … and every message that is not a response and not shorter than a header gets one reply. -/
theorem serve_one_reply (hlen : 12 ≤ buf.length)
    (hqr : ∀ h, readHeader buf = some h → h.qr = false) :
    ∃ rep, serve cfg src buf = .reply rep :=
  one_reply_unless_dropped cfg src buf _ hlen hqr

/-! ### which bodies the decoder model rejects (rules of `Message::read_records`)

Each rule is about one iteration of the record loop: `r` is the record `Record::read` returned
(an RDLENGTH of 0 is read as `RData::Update0`, `Wire.readRecord`).  `isAdd = false` are the answer
and authority sections, `true` the additional section. -/

/-- an empty RDATA (other than OPT's) outside an UPDATE message is rejected **in every section** -/
theorem empty_rdata_rejected (opq : Nat → Rd Bytes) (isAdd : Bool) (op count : Nat) (acc : Wire.RecAcc)
    (buf : Bytes) (st st' : DSt) (r : Wire.Record)
    (hr : Wire.readRecord opq buf { st with ticks := st.ticks + 1 } = (.ok r, st'))
    (hop : op ≠ Wire.OP_UPDATE) (ht : r.rtype ≠ Wire.T_OPT) (hu : r.rdata.isUpdate = true) :
    (Wire.readRecords opq isAdd op (count + 1) acc buf st).1 = .err := by
  rcases acc with ⟨recs, edns, sig⟩
  unfold Wire.readRecords
  simp [bind, Rd.bind, Rd.tick, hr, hop, ht, hu, Rd.fail]

/-- OPT, SIG and TSIG records are rejected outside the additional section -/
theorem meta_outside_additional_rejected (opq : Nat → Rd Bytes) (op count : Nat) (acc : Wire.RecAcc)
    (buf : Bytes) (st st' : DSt) (r : Wire.Record)
    (hr : Wire.readRecord opq buf { st with ticks := st.ticks + 1 } = (.ok r, st'))
    (ht : r.rtype = Wire.T_OPT ∨ r.rtype = Wire.T_SIG ∨ r.rtype = Wire.T_TSIG) :
    (Wire.readRecords opq false op (count + 1) acc buf st).1 = .err := by
  rcases acc with ⟨recs, edns, sig⟩
  unfold Wire.readRecords
  simp only [bind, Rd.bind, Rd.tick, hr]
  split
  · rfl
  · split
    · rfl
    · simp [ht, Rd.fail]

/-- nothing may follow a TSIG record -/
theorem record_after_tsig_rejected (opq : Nat → Rd Bytes) (isAdd : Bool) (op count : Nat)
    (recs : List Wire.Record) (edns : Option Wire.Edns) (sig : Wire.Record)
    (buf : Bytes) (st st' : DSt) (r : Wire.Record)
    (hr : Wire.readRecord opq buf { st with ticks := st.ticks + 1 } = (.ok r, st')) :
    (Wire.readRecords opq isAdd op (count + 1) (recs, edns, some sig) buf st).1 = .err := by
  unfold Wire.readRecords
  simp only [bind, Rd.bind, Rd.tick, hr]
  split
  · rfl
  · simp [Rd.fail]

/-- a second OPT record is rejected -/
theorem second_opt_rejected (opq : Nat → Rd Bytes) (op count : Nat)
    (recs : List Wire.Record) (e : Wire.Edns) (sig : Option Wire.Record)
    (buf : Bytes) (st st' : DSt) (r : Wire.Record) (os : List Wire.OptEntry)
    (hr : Wire.readRecord opq buf { st with ticks := st.ticks + 1 } = (.ok r, st'))
    (ho : r.rdata = .opt os) :
    (Wire.readRecords opq true op (count + 1) (recs, some e, sig) buf st).1 = .err := by
  unfold Wire.readRecords
  simp only [bind, Rd.bind, Rd.tick, hr]
  split
  · rfl
  · split
    · rfl
    · simp [ho, Rd.fail]

end HickoryVerif.C11
