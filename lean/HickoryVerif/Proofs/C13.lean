/-
C13 — updates and signed-only transfers require a valid, timely TSIG.

Part 1: the decision of the server path (`Model/Tsig.lean: serve`).

  * `update_applies_only_if`  — an UPDATE reaches `update_records` only if … (the full list)
  * `axfr_signed_only`        — likewise for AXFR under the signed-only policy
  * `axfr_deny_never`, `update_disabled_never`
  * `sig_is_last`             — `request.signature()` is the *last* record of the message
  * `refusal_table`           — which reply each failure produces

The other parts: `Proofs/C13Tbs.lean` (`tbs_injective`: which octets are authenticated),
`Proofs/C13Reply.lean` (`reply_verifies`, `request_verifies`, and the consequences of the MAC
oracle assumption `truncated_mac_rejected`, `mutation_rejected`), `Proofs/C13Panic.lean` (panic
sites, kernel-checked witnesses, non-vacuity examples).
-/
import HickoryVerif.Model.Tsig
import HickoryVerif.Proofs.C13Span

namespace HickoryVerif.C13
open HickoryVerif HickoryVerif.Tsig

/-! ### what an accepted `verify_message_byte` + time check means -/

/-- The conjunction the property asks for, for the TSIG record `r` and to-be-signed bytes `tbs`
that `signed_bitmessage_to_buf` derives from the request `buf`. -/
structure ValidTimely (sg : Signer) (buf : Bytes) (now : Nat) (rdok : Bool) : Prop where
  ex : ∃ tbs r, signedBitmessageToBuf buf none true rdok = .ok (tbs, r) ∧
    Name.eq r.name sg.name = true ∧                -- the record names the key
    algIs r.data.algName sg.alg = true ∧           -- with the key's algorithm
    outLen sg.alg ≤ r.data.mac.length ∧            -- full-length MAC
    sg.macOK tbs r.data.mac = true ∧               -- that verifies over exactly `tbs`
    -- `time.saturating_sub(fudge) ≤ now < time + fudge` (`-` on `Nat` is the saturating one)
    r.data.time - r.data.fudge ≤ now ∧ now < r.data.time + r.data.fudge

theorem verifyMessageByte_ok {sg : Signer} {buf : Bytes} {prev : Option Bytes} {first rdok : Bool}
    {v : Verified} (h : verifyMessageByte sg buf prev first rdok = .ok v) :
    ∃ tbs r, signedBitmessageToBuf buf prev first rdok = .ok (tbs, r) ∧
      Name.eq r.name sg.name = true ∧ algIs r.data.algName sg.alg = true ∧
      outLen sg.alg ≤ r.data.mac.length ∧ sg.macOK tbs r.data.mac = true ∧
      v = { mac := r.data.mac, time := r.data.time,
            lo := r.data.time - r.data.fudge, hi := r.data.time + r.data.fudge } := by
  unfold verifyMessageByte at h
  split at h
  · rename_i tbv r hs
    split at h
    · exact absurd h (by simp)
    · split at h
      · exact absurd h (by simp)
      · split at h
        · exact absurd h (by simp)
        · rename_i h1 h2 h3
          refine ⟨tbv, r, hs, ?_, ?_, ?_, ?_, ?_⟩
          · cases hn : Name.eq r.name sg.name <;> simp_all
          · cases hn : Name.eq r.name sg.name <;> cases ha : algIs r.data.algName sg.alg <;> simp_all
          · omega
          · simpa using h3
          · simpa using h.symm
  · exact absurd h (by simp)
  · exact absurd h (by simp)

theorem authorizedTsig_ok {cfg : ZoneCfg} {tsig : SigRec} {buf : Bytes} {now : Nat} {rdok : Bool}
    {a : Auth} (h : authorizedTsig cfg tsig buf now rdok = .ok a) (hok : a.ok = true) :
    ∃ sg, cfg.signers.find? (fun s => Name.eq s.name tsig.name) = some sg ∧
      ValidTimely sg buf now rdok := by
  unfold authorizedTsig at h
  split at h
  · simp only [Outcome.ok.injEq] at h; subst h; simp [Auth.ok, NOTAUTH] at hok
  · rename_i sg hf
    split at h
    · rename_i v hv
      obtain ⟨tbs, r, hs, h1, h2, h3, h4, hv'⟩ := verifyMessageByte_ok hv
      split at h
      · rename_i hwin
        subst hv'
        exact ⟨sg, hf, ⟨tbs, r, hs, h1, h2, h3, h4, hwin.1, hwin.2⟩⟩
      · simp only [Outcome.ok.injEq] at h; subst h; simp [Auth.ok, NOTAUTH] at hok
    · simp only [Outcome.ok.injEq] at h; subst h; simp [Auth.ok, NOTAUTH] at hok
    · exact absurd h (by simp)

/-! ### the two guarded operations -/

/--
**An UPDATE takes effect only if** updates are enabled for the zone, the request parses, it is an
UPDATE for the zone, its last record is a TSIG (`req.sig`, see `sig_is_last`), that TSIG names a
configured key, with that key's algorithm, carries a MAC of at least the algorithm's output
length which the key's MAC oracle accepts over exactly the bytes `signed_bitmessage_to_buf`
derives from the request, and `time − fudge ≤ now < time + fudge`.
-/
theorem update_applies_only_if {cfg : ZoneCfg} {buf : Bytes} {now : Nat} {rdok : Bool}
    {d : Decision} (h : serve cfg buf now rdok = .ok (some d)) (hk : d.kind = .update)
    (he : d.effect = true) :
    cfg.allowUpdate = true ∧
    ∃ req tsig sg, parseRequest buf rdok = .ok req ∧ dispatch cfg req = .update ∧
      req.sig = some tsig ∧
      cfg.signers.find? (fun s => Name.eq s.name tsig.name) = some sg ∧
      ValidTimely sg buf now rdok := by
  unfold serve at h
  split at h
  · simp at h
  · simp at h
  · rename_i req hreq
    split at h
    · simp only [Outcome.ok.injEq, Option.some.injEq] at h; subst h; simp at hk
    · rename_i hd
      split at h
      · rename_i a ha
        simp only [Outcome.ok.injEq, Option.some.injEq] at h; subst h
        simp only at he
        unfold authorizeUpdate at ha
        split at ha
        · simp only [Outcome.ok.injEq] at ha; subst ha; simp [Auth.ok, NOTIMP] at he
        split at ha
        · simp only [Outcome.ok.injEq] at ha; subst ha; simp [Auth.ok, NOTAUTH] at he
        split at ha
        · simp only [Outcome.ok.injEq] at ha; subst ha; simp [Auth.ok, NOTIMP] at he
        · split at ha
          · simp only [Outcome.ok.injEq] at ha; subst ha; simp [Auth.ok, REFUSED] at he
          · rename_i hau
            split at ha
            · rename_i tsig hsig
              obtain ⟨sg, hf, hv⟩ := authorizedTsig_ok ha he
              refine ⟨by simpa using hau, req, tsig, sg, hreq, hd, hsig, hf, hv⟩
            · simp only [Outcome.ok.injEq] at ha; subst ha; simp [Auth.ok, REFUSED] at he
      · simp at h
      · simp at h
    · split at h <;> first | (simp only [Outcome.ok.injEq, Option.some.injEq] at h; subst h; simp at hk) | simp at h

/-- **A zone transfer under the signed-only policy returns zone data only if** the request carries
a valid, timely TSIG (same conjunction as for updates). -/
theorem axfr_signed_only {cfg : ZoneCfg} {buf : Bytes} {now : Nat} {rdok : Bool}
    {d : Decision} (h : serve cfg buf now rdok = .ok (some d)) (hk : d.kind = .axfr)
    (hp : cfg.axfr = .allowSigned) (he : d.effect = true) :
    ∃ req tsig sg, parseRequest buf rdok = .ok req ∧ dispatch cfg req = .axfr ∧
      req.sig = some tsig ∧
      cfg.signers.find? (fun s => Name.eq s.name tsig.name) = some sg ∧
      ValidTimely sg buf now rdok := by
  unfold serve at h
  split at h
  · simp at h
  · simp at h
  · rename_i req hreq
    split at h
    · simp only [Outcome.ok.injEq, Option.some.injEq] at h; subst h; simp at hk
    · split at h <;> first | (simp only [Outcome.ok.injEq, Option.some.injEq] at h; subst h; simp at hk) | simp at h
    · rename_i hd
      split at h
      · rename_i a ha
        simp only [Outcome.ok.injEq, Option.some.injEq] at h; subst h
        simp only at he
        unfold authorizeAxfr at ha
        rw [hp] at ha
        split at ha
        · simp only [reduceCtorEq, ↓reduceIte, Outcome.ok.injEq] at ha
          subst ha; simp [Auth.ok, REFUSED] at he
        simp only at ha
        split at ha
        · rename_i tsig hsig
          obtain ⟨sg, hf, hv⟩ := authorizedTsig_ok ha he
          exact ⟨req, tsig, sg, hreq, hd, hsig, hf, hv⟩
        · simp only [Outcome.ok.injEq] at ha; subst ha; simp [Auth.ok, REFUSED] at he
      · simp at h
      · simp at h

theorem authorizeAxfr_deny {cfg : ZoneCfg} (req : Req) (buf : Bytes) (now : Nat) (rdok : Bool)
    (hp : cfg.axfr = .deny) :
    authorizeAxfr cfg req buf now rdok = .ok { rcode := REFUSED, resp := none } := by
  unfold authorizeAxfr
  rw [hp]
  cases cfg.inMemory <;> simp

/-- Under the `Deny` policy no transfer ever returns zone data. -/
theorem axfr_deny_never {cfg : ZoneCfg} {buf : Bytes} {now : Nat} {rdok : Bool}
    {d : Decision} (h : serve cfg buf now rdok = .ok (some d)) (hk : d.kind = .axfr)
    (hp : cfg.axfr = .deny) : d.effect = false := by
  unfold serve at h
  split at h
  · simp at h
  · simp at h
  · split at h
    · simp only [Outcome.ok.injEq, Option.some.injEq] at h; subst h; simp at hk
    · split at h <;> first | (simp only [Outcome.ok.injEq, Option.some.injEq] at h; subst h; simp at hk) | simp at h
    · rw [authorizeAxfr_deny _ _ _ _ hp] at h
      simp only [Outcome.ok.injEq, Option.some.injEq] at h
      subst h; simp [Auth.ok, REFUSED]

/-- A zone served by the in-memory / file store (no TSIG processing) returns zone data for a
transfer only under `AllowAll`, and never applies an update. -/
theorem in_memory_store {cfg : ZoneCfg} {buf : Bytes} {now : Nat} {rdok : Bool}
    {d : Decision} (h : serve cfg buf now rdok = .ok (some d)) (hm : cfg.inMemory = true)
    (he : d.effect = true) : d.kind = .axfr ∧ cfg.axfr = .allowAll := by
  unfold serve at h
  split at h
  · simp at h
  · simp at h
  · split at h
    · simp only [Outcome.ok.injEq, Option.some.injEq] at h; subst h; simp at he
    · have hno : ∀ rq a, authorizeUpdate cfg rq buf now rdok = .ok a → a.rcode ≠ 0 := by
        intro rq a ha
        unfold authorizeUpdate at ha
        simp only [hm, ↓reduceIte] at ha
        split at ha
        · simp only [Outcome.ok.injEq] at ha; subst ha; simp [NOTIMP]
        · split at ha
          · simp only [Outcome.ok.injEq] at ha; subst ha; simp [NOTAUTH]
          · simp only [Outcome.ok.injEq] at ha; subst ha; simp [NOTIMP]
      split at h
      · rename_i a ha
        simp only [Outcome.ok.injEq, Option.some.injEq] at h; subst h
        simp only [Auth.ok, beq_iff_eq] at he
        exact absurd he (hno _ a ha)
      · simp at h
      · simp at h
    · unfold authorizeAxfr at h
      simp only [hm, ↓reduceIte] at h
      by_cases hp : cfg.axfr = .allowAll
      · simp only [hp, ↓reduceIte, Outcome.ok.injEq, Option.some.injEq] at h; subst h
        exact ⟨rfl, hp⟩
      · simp only [hp, ↓reduceIte, Outcome.ok.injEq, Option.some.injEq] at h; subst h
        simp [Auth.ok, REFUSED] at he

/-- What is finally sent (`respond`: SERVFAIL when the reply cannot be signed) never *adds* an
effect: the only-if theorems about `serve` carry over to the reply. -/
theorem respond_effect_only_if {now : Nat} {d : Decision} (h : (respond now d).effect = true) :
    d.effect = true := by
  unfold respond at h
  split at h
  · simp only at h
    split at h
    · simp at h
    · exact h
  · exact h

/-- while the clock fits the 48-bit TSIG time, `respond` changes nothing -/
theorem respond_id {now : Nat} (d : Decision) (h : ¬ ClockBeyond48Bits now) : respond now d = d := by
  unfold respond
  unfold ClockBeyond48Bits at h
  rw [if_neg (fun hc => h hc.2)]

/-- An UPDATE is never applied to a zone that is not Primary. -/
theorem non_primary_never_updates {cfg : ZoneCfg} {buf : Bytes} {now : Nat} {rdok : Bool}
    {d : Decision} (h : serve cfg buf now rdok = .ok (some d)) (hk : d.kind = .update)
    (hz : cfg.zoneType ≠ 0) : d.effect = false := by
  unfold serve at h
  split at h
  · simp at h
  · simp at h
  · split at h
    · simp only [Outcome.ok.injEq, Option.some.injEq] at h; subst h; simp at hk
    · unfold authorizeUpdate at h
      by_cases h1 : cfg.zoneType = 1
      · simp only [h1, ↓reduceIte, Outcome.ok.injEq, Option.some.injEq] at h
        subst h; simp [Auth.ok, NOTIMP]
      · simp only [h1, hz, ne_eq, not_false_eq_true, ↓reduceIte, Outcome.ok.injEq,
          Option.some.injEq] at h
        subst h; simp [Auth.ok, NOTAUTH]
    · split at h <;> first | (simp only [Outcome.ok.injEq, Option.some.injEq] at h; subst h; simp at hk) | simp at h

/-- A request that is neither an UPDATE nor an AXFR for the zone has no guarded effect. -/
theorem other_no_effect {cfg : ZoneCfg} {buf : Bytes} {now : Nat} {rdok : Bool}
    {d : Decision} (h : serve cfg buf now rdok = .ok (some d)) (hk : d.kind = .other) :
    d.effect = false := by
  unfold serve at h
  split at h
  · simp at h
  · simp at h
  · split at h
    · simp only [Outcome.ok.injEq, Option.some.injEq] at h; subst h; rfl
    · split at h <;> first | (simp only [Outcome.ok.injEq, Option.some.injEq] at h; subst h; simp at hk) | simp at h
    · split at h <;> first | (simp only [Outcome.ok.injEq, Option.some.injEq] at h; subst h; simp at hk) | simp at h

/-! ### which reply each outcome produces -/

/-- `authorized_tsig` has exactly four outcomes: accepted (reply MAC'ed, error 0); stale (NOTAUTH,
reply MAC'ed by the same key with error BADTIME); key known but name/algorithm/MAC length/MAC
wrong or the message not walkable (NOTAUTH, *unsigned* TSIG with error BADSIG); key name unknown
(NOTAUTH, *unsigned* TSIG with error BADKEY echoing the name). -/
theorem refusal_table {cfg : ZoneCfg} {tsig : SigRec} {buf : Bytes} {now : Nat} {rdok : Bool}
    {a : Auth} (h : authorizedTsig cfg tsig buf now rdok = .ok a) :
    (a.rcode = 0 ∧ ∃ sg, a.resp = some (.signed sg tsig.data.mac 0)) ∨
    (a.rcode = NOTAUTH ∧ ∃ sg, a.resp = some (.signed sg tsig.data.mac BADTIME)) ∨
    (a.rcode = NOTAUTH ∧ ∃ sg, a.resp = some (.badSig sg)) ∨
    (a.rcode = NOTAUTH ∧ a.resp = some (.unknownKey tsig.name)) := by
  unfold authorizedTsig at h
  split at h
  · simp only [Outcome.ok.injEq] at h; subst h; exact .inr (.inr (.inr ⟨rfl, rfl⟩))
  · rename_i sg _
    split at h
    · split at h
      · simp only [Outcome.ok.injEq] at h; subst h; exact .inl ⟨rfl, sg, rfl⟩
      · simp only [Outcome.ok.injEq] at h; subst h; exact .inr (.inl ⟨rfl, sg, rfl⟩)
    · simp only [Outcome.ok.injEq] at h; subst h; exact .inr (.inr (.inl ⟨rfl, sg, rfl⟩))
    · simp at h

/-! ### `request.signature()` is the last record -/

theorem recStep_sig {isAdd upd : Bool} {pos : Nat} {f : Frame} {td : Option TsigData}
    {sig sig' : Option SigRec} {edns edns' : Option Nat}
    (h : recStep isAdd upd pos f td sig edns = some (sig', edns')) :
    sig = none ∧ (sig' = none ∨ ∃ s, sig' = some s ∧ s.start = pos ∧ s.stop = f.rdEnd) := by
  unfold recStep at h
  split at h
  · simp at h
  · split at h
    · simp at h
    · rename_i hs
      have hsn : sig = none := by cases sig <;> simp_all
      subst hsn
      refine ⟨rfl, ?_⟩
      split at h
      · simp at h
      · split at h
        · simp only [Option.some.injEq, Prod.mk.injEq] at h; exact .inl h.1.symm
        · split at h
          · simp only [Option.some.injEq, Prod.mk.injEq] at h
            exact .inr ⟨_, h.1.symm, rfl, rfl⟩
          · split at h
            · split at h
              · simp at h
              · simp only [Option.some.injEq, Prod.mk.injEq] at h; exact .inl h.1.symm
            · simp only [Option.some.injEq, Prod.mk.injEq] at h; exact .inl h.1.symm

/-- If `read_records` (started with `sig = None`) returns a TSIG then it is the record it read
last: it ends exactly where the section ends (a record after a TSIG is `RecordAfterSig`). -/
theorem readRecords_sig_last (buf : Bytes) (isAdd upd : Bool) :
    ∀ (k pos : Nat) (sig : Option SigRec) (edns : Option Nat) (p : Nat) (s : SigRec)
      (e : Option Nat),
      readRecords buf isAdd upd k pos sig edns = .ok (p, some s, e) →
      (sig = some s ∧ k = 0 ∧ p = pos) ∨ (sig = none ∧ s.stop = p ∧ pos ≤ s.start) := by
  intro k
  induction k with
  | zero =>
    intro pos sig edns p s e h
    simp only [readRecords, Outcome.ok.injEq, Prod.mk.injEq] at h
    exact .inl ⟨h.2.1, rfl, h.1.symm⟩
  | succ k ih =>
    intro pos sig edns p s e h
    rw [readRecords] at h
    split at h
    · rename_i f hf
      have hlt := (readFrame_span hf).2
      have hle : f.rdStart ≤ f.rdEnd := by simp [Frame.rdEnd]
      split at h
      · split at h
        · rename_i sig' edns' hstep
          obtain ⟨hsn, hs'⟩ := recStep_sig hstep
          rcases ih _ _ _ _ _ _ h with ⟨h1, h2, h3⟩ | ⟨h1, h2, h3⟩
          · rcases hs' with hs' | ⟨s', hs', hst, hsp⟩
            · rw [hs'] at h1; simp at h1
            · rw [hs'] at h1; simp only [Option.some.injEq] at h1; subst h1
              exact .inr ⟨hsn, by omega, by omega⟩
          · exact .inr ⟨hsn, h2, by omega⟩
        · simp at h
      · simp at h
      · simp at h
    · simp at h
    · simp at h

/-- `request.signature()` of a parsed request is the last record of the message: nothing but
(ignored) trailing octets follows it. -/
theorem sig_is_last {buf : Bytes} {rdok : Bool} {req : Req} {s : SigRec}
    (h : parseRequest buf rdok = .ok req) (hs : req.sig = some s) :
    ∃ pAdd e, readRecords buf true (req.hdr.opcode == 5) req.hdr.ar pAdd none none
      = .ok (s.stop, some s, e) ∧ pAdd ≤ s.start := by
  unfold parseRequest at h
  split at h
  · simp at h
  · rename_i hd hh
    split at h
    · simp at h
    · split at h
      · split at h
        · simp at h
        · split at h
          · split at h
            · split at h
              · rename_i pAdd _ _ _ _ pEnd sig edns hr
                simp only [Outcome.ok.injEq] at h; subst h
                simp only at hs; subst hs
                rcases readRecords_sig_last _ _ _ _ _ _ _ _ _ _ hr with ⟨h1, _, _⟩ | ⟨_, h2, h3⟩
                · simp at h1
                · exact ⟨pAdd, edns, by rw [h2]; exact hr, h3⟩
              · simp at h
              · simp at h
            · simp at h
            · simp at h
          · simp at h
          · simp at h
      · simp at h
      · simp at h

end HickoryVerif.C13
