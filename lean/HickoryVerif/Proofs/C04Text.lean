/-
C04 (part 4) — a host-style name (letters, digits, hyphen, underscore, escaped dot, leading
asterisk) is unchanged by text formatting (`to_ascii`) and re-parsing (`from_ascii`).
-/
import HickoryVerif.Model.NameText
import HickoryVerif.Proofs.C04Bounds

namespace HickoryVerif.C04
open HickoryVerif HickoryVerif.Name

/-- first octet of a host-style label: letter, digit, `_`, `*` or (escaped) `.` -/
def hostFirst (b : Nat) : Bool := isAlnum b || b == 95 || b == 42 || b == 46
/-- other octets: letter, digit, `-`, `_` or (escaped) `.` -/
def hostRest (b : Nat) : Bool := isAlnum b || b == 45 || b == 95 || b == 46

def hostChar (first : Bool) (b : Nat) : Bool := if first then hostFirst b else hostRest b

def HostLabel : Bytes → Prop
  | [] => False
  | b :: rest => hostFirst b = true ∧ ∀ c ∈ rest, hostRest c = true

instance : DecidablePred HostLabel := fun l => by
  cases l with
  | nil => exact isFalse (by simp [HostLabel])
  | cons b t => unfold HostLabel; exact inferInstance

/-- The explicit predicate of the property: bounded, and every label host-style. -/
def HostStyle (n : Name) : Prop := Bounded n ∧ ∀ l ∈ n.labels, HostLabel l

instance (n : Name) : Decidable (HostStyle n) := by unfold HostStyle; exact inferInstance

theorem hostChar_lt {f : Bool} {b : Nat} (h : hostChar f b = true) : b < 128 := by
  cases f <;>
    simp only [hostChar, hostFirst, hostRest, isAlnum, Bool.or_eq_true, Bool.and_eq_true,
      decide_eq_true_eq, beq_iff_eq, Bool.false_eq_true, ↓reduceIte] at h <;> omega

theorem host_facts_aux : ∀ b < 128, ∀ f : Bool, hostChar f b = true → b ≠ 46 →
    (isSafeAscii b f true = true ∧ b ≠ 92 ∧ isCtlOrSpace b = false) := by
  decide +kernel

theorem host_safe_aux : ∀ b < 128, ∀ f : Bool, hostChar f b = true →
    isSafeAscii b f false = true := by
  decide +kernel

theorem dot_not_safe (f : Bool) : isSafeAscii 46 f true = false := by cases f <;> decide

/-- One escaped host character is read back as that character. -/
theorem parse_escaped (b : Nat) (f : Bool) (h : hostChar f b = true)
    (rest lab : Bytes) (name : Name) :
    parseLoop (escapeByte b f ++ rest) .label lab name
      = parseLoop rest .label (lab ++ [b]) name := by
  have hlt := hostChar_lt h
  by_cases hdot : b = 46
  · subst hdot
    have h1 : ¬ ((92 : Nat) ≥ 128) := by decide
    have h2 : ¬ ((46 : Nat) ≥ 128) := by decide
    simp [escapeByte, dot_not_safe, parseLoop, isDigit]
  · obtain ⟨hs, h92, hctl⟩ := host_facts_aux b hlt f h hdot
    have hge : ¬ (b ≥ 128) := by omega
    simp [escapeByte, hs, parseLoop, hge, hdot, h92, hctl]

theorem parse_rest (l : Bytes) (hl : ∀ c ∈ l, hostRest c = true) (rest lab : Bytes)
    (name : Name) :
    parseLoop ((l.map (escapeByte · false)).flatten ++ rest) .label lab name
      = parseLoop rest .label (lab ++ l) name := by
  induction l generalizing lab with
  | nil => simp
  | cons c l ih =>
    simp only [List.map_cons, List.flatten_cons, List.append_assoc]
    rw [parse_escaped c false (by simpa [hostChar] using hl c (by simp))]
    rw [ih (fun x hx => hl x (by simp [hx]))]
    simp

/-- A written host-style label is read back octet for octet into the label under construction. -/
theorem parse_writeLabel (l : Bytes) (hl : HostLabel l) (rest lab : Bytes) (name : Name) :
    parseLoop (writeLabel l ++ rest) .label lab name = parseLoop rest .label (lab ++ l) name := by
  cases l with
  | nil => exact absurd hl (by simp [HostLabel])
  | cons b t =>
    simp only [writeLabel, List.append_assoc]
    rw [parse_escaped b true (by simpa [hostChar] using hl.1), parse_rest t hl.2]
    simp

theorem labelFromAscii_host (l : Bytes) (hl : HostLabel l) (hlen : l.length ≤ 63) :
    labelFromAscii l = .ok l := by
  cases l with
  | nil => exact absurd hl (by simp [HostLabel])
  | cons b t =>
    unfold labelFromAscii
    have hc : ¬ ((b :: t).length > 63) := by omega
    simp only [hc, ↓reduceIte]
    split
    · rename_i h; rw [h]
    · have hb := hostChar_lt (f := true) (by simpa [hostChar] using hl.1)
      have ht : t.all (· < 128) = true := by
        rw [List.all_eq_true]; intro c hcm
        have := hostChar_lt (f := false) (by simpa [hostChar] using hl.2 c hcm)
        simpa using this
      have hsb := host_safe_aux b hb true (by simpa [hostChar] using hl.1)
      have hst : t.all (isSafeAscii · false false) = true := by
        rw [List.all_eq_true]; intro c hcm
        have hcl := hostChar_lt (f := false) (by simpa [hostChar] using hl.2 c hcm)
        exact host_safe_aux c hcl false (by simpa [hostChar] using hl.2 c hcm)
      simp only [hb, ht, hsb, hst, and_self, ↓reduceIte]
      exact labelFromRaw_of_len ⟨by simp, by omega⟩

/-- Every label followed by a dot is appended to the name. -/
theorem parse_dotted (ls : List Bytes) :
    ∀ (rest : Bytes) (name : Name),
      (∀ l ∈ ls, HostLabel l ∧ l.length ≤ 63) →
      name.encodedLen + ls.length + (ls.map List.length).sum ≤ 255 →
      parseLoop ((ls.map (fun l => writeLabel l ++ [46])).flatten ++ rest) .label [] name
        = parseLoop rest .label [] { name with labels := name.labels ++ ls } := by
  induction ls with
  | nil => intro rest name _ _; simp
  | cons l ls ih =>
    intro rest name hls hfit
    have hl := hls l (by simp)
    simp only [List.length_cons, List.map_cons, List.sum_cons] at hfit
    simp only [List.map_cons, List.flatten_cons, List.append_assoc]
    rw [parse_writeLabel l hl.1]
    have hext : name.extendName l = .ok { name with labels := name.labels ++ [l] } := by
      unfold extendName; simp only [MAX_LENGTH]
      have hc : ¬ (name.encodedLen + l.length + 1 > 255) := by omega
      simp [hc]
    have h46 : ¬ ((46 : Nat) ≥ 128) := by decide
    simp only [List.nil_append, List.singleton_append, parseLoop, h46, ↓reduceIte,
      labelFromAscii_host l hl.1 hl.2, Outcome.bind_ok, hext]
    rw [ih rest _ (fun x hx => hls x (by simp [hx])) (by rw [encodedLen_snoc]; omega)]
    simp

theorem writeLabel_ne_nil (l : Bytes) (hl : HostLabel l) : writeLabel l ≠ [] := by
  cases l with
  | nil => exact absurd hl (by simp [HostLabel])
  | cons b t =>
    simp only [writeLabel, escapeByte]
    split <;> simp
    split <;> simp

/-- text of the labels of a name, each followed by a dot -/
def dotted (ls : List Bytes) : Bytes := (ls.map (fun l => writeLabel l ++ [46])).flatten

theorem join_fqdn (ms : List Bytes) :
    (ms.map (fun l => 46 :: writeLabel l)).flatten ++ [46]
      = 46 :: (ms.map (fun l => writeLabel l ++ [46])).flatten := by
  induction ms with
  | nil => rfl
  | cons m ms ih =>
    simp only [List.map_cons, List.flatten_cons, List.cons_append, List.append_assoc, ih,
      List.singleton_append, List.nil_append]

theorem join_rel (ms : List Bytes) (last : Bytes) :
    ((ms ++ [last]).map (fun l => 46 :: writeLabel l)).flatten
      = 46 :: ((ms.map (fun l => writeLabel l ++ [46])).flatten ++ writeLabel last) := by
  induction ms with
  | nil => simp
  | cons m ms ih =>
    simp only [List.cons_append, List.map_cons, List.flatten_cons, List.append_assoc, ih,
      List.singleton_append, List.nil_append]

theorem writeAscii_fqdn (ls : List Bytes) (hne : ls ≠ []) :
    writeAscii { labels := ls, fqdn := true } = dotted ls := by
  cases ls with
  | nil => exact absurd rfl hne
  | cons l ls =>
    simp only [writeAscii, dotted, ↓reduceIte, List.map_cons, List.flatten_cons, List.append_assoc,
      join_fqdn, List.singleton_append, List.nil_append]

theorem writeAscii_rel (ls : List Bytes) (l : Bytes) :
    writeAscii { labels := ls ++ [l], fqdn := false } = dotted ls ++ writeLabel l := by
  cases ls with
  | nil => simp [writeAscii, dotted]
  | cons a t =>
    simp only [writeAscii, dotted, Bool.false_eq_true, ↓reduceIte, List.append_nil, List.cons_append,
      List.map_cons, List.flatten_cons, List.append_assoc, join_rel, List.singleton_append, List.nil_append]

theorem dotted_ne_single_dot (ls : List Bytes) (hls : ∀ l ∈ ls, HostLabel l) (hne : ls ≠ []) :
    dotted ls ≠ [46] := by
  cases ls with
  | nil => exact absurd rfl hne
  | cons l t =>
    have := writeLabel_ne_nil l (hls l (by simp))
    simp only [dotted, List.map_cons, List.flatten_cons, List.append_assoc]
    intro h
    cases hw : writeLabel l with
    | nil => exact this hw
    | cons x xs =>
      rw [hw] at h
      simp at h

theorem sum_snoc (ls : List Bytes) (l : Bytes) :
    ((ls ++ [l]).map List.length).sum = (ls.map List.length).sum + l.length := by
  simp [List.sum_append]

/-- **Text round trip of host-style names** (`Name::to_ascii` then `Name::from_ascii`). -/
theorem text_roundtrip (n : Name) (h : HostStyle n) : parseAscii (writeAscii n) = .ok n := by
  obtain ⟨⟨hlen, hlab⟩, hhost⟩ := h
  have hls : ∀ l ∈ n.labels, HostLabel l ∧ l.length ≤ 63 :=
    fun l hl => ⟨hhost l hl, (hlab l hl).2⟩
  unfold encodedLen dataLen at hlen
  rcases n with ⟨ls, fq⟩
  simp only at hls hlen hhost
  cases fq with
  | true =>
    by_cases hne : ls = []
    · subst hne; rfl
    · rw [writeAscii_fqdn ls hne]
      unfold parseAscii
      simp only [dotted_ne_single_dot ls hhost hne, ↓reduceIte]
      have := parse_dotted ls [] new hls (by
        show new.encodedLen + _ + _ ≤ 255
        have : new.encodedLen = 1 := rfl
        omega)
      rw [List.append_nil] at this
      rw [show dotted ls = (ls.map (fun l => writeLabel l ++ [46])).flatten from rfl, this]
      simp only [parseLoop, List.isEmpty_nil, Bool.not_true, Bool.false_eq_true, ↓reduceIte]
      have hne' : ((ls.map (fun l => writeLabel l ++ [46])).flatten).isEmpty = false := by
        cases ls with
        | nil => exact absurd rfl hne
        | cons l t =>
          cases hw : writeLabel l <;> simp [hw]
      simp [hne', new]
  | false =>
    rcases List.eq_nil_or_concat ls with rfl | ⟨init, last, rfl⟩
    · rfl
    · rw [show init.concat last = init ++ [last] by simp] at *
      rw [writeAscii_rel]
      have hlast := hls last (by simp)
      have hinit : ∀ l ∈ init, HostLabel l ∧ l.length ≤ 63 := fun l hl => hls l (by simp [hl])
      rw [sum_snoc] at hlen
      simp only [List.length_append, List.length_cons, List.length_nil] at hlen
      unfold parseAscii
      have hnd : dotted init ++ writeLabel last ≠ [46] := by
        cases init with
        | nil =>
          simp only [dotted, List.map_nil, List.flatten_nil, List.nil_append]
          cases last with
          | nil => exact absurd hlast.1 (by simp [HostLabel])
          | cons b t =>
            have hb := hlast.1.1
            simp only [writeLabel, escapeByte]
            by_cases hdot : b = 46
            · subst hdot; simp [dot_not_safe]
            · have := host_facts_aux b (hostChar_lt (f := true) (by simpa [hostChar] using hb)) true
                (by simpa [hostChar] using hb) hdot
              simp [this.1, hdot]
        | cons a t =>
          intro hEq
          have := dotted_ne_single_dot (a :: t) (fun l hl => (hinit l hl).1) (by simp)
          have hl1 : (dotted (a :: t) ++ writeLabel last).length = 1 := by rw [hEq]; rfl
          have hwl := writeLabel_ne_nil last hlast.1
          have hd : (dotted (a :: t)).length ≥ 2 := by
            simp only [dotted, List.map_cons, List.flatten_cons, List.length_append,
              List.length_cons, List.length_nil]
            have := writeLabel_ne_nil a (hinit a (by simp)).1
            cases hw : writeLabel a with
            | nil => exact absurd hw this
            | cons _ _ => simp; omega
          simp only [List.length_append] at hl1
          omega
      simp only [hnd, ↓reduceIte]
      have hpd := parse_dotted init (writeLabel last) new hinit (by
        show new.encodedLen + _ + _ ≤ 255
        have : new.encodedLen = 1 := rfl
        omega)
      rw [show dotted init = (init.map (fun l => writeLabel l ++ [46])).flatten from rfl, hpd]
      have hpw := parse_writeLabel last hlast.1 [] [] { new with labels := new.labels ++ init }
      rw [List.append_nil] at hpw
      rw [hpw]
      simp only [parseLoop, List.nil_append]
      have hlne : last.isEmpty = false := by
        cases last with
        | nil => exact absurd hlast.1 (by simp [HostLabel])
        | cons _ _ => rfl
      simp only [hlne, Bool.not_false, ↓reduceIte, labelFromAscii_host last hlast.1 hlast.2,
        Outcome.bind_ok]
      unfold extendName
      simp only [MAX_LENGTH, encodedLen, dataLen, new, List.nil_append]
      have hc : ¬ (init.length + (init.map List.length).sum + 1 + last.length + 1 > 255) := by omega
      simp [hc]

-- non-vacuity: `*._sip-x.a\.b.Example.` is host-style
example : HostStyle { labels := [[42], [95, 115, 105, 112, 45, 120], [97, 46, 98],
    [69, 120, 97, 109, 112, 108, 101]], fqdn := true } := by decide
-- and outside the predicate the round trip really fails: a leading hyphen does not re-parse
example : parseAscii (writeAscii { labels := [[45, 97]], fqdn := true }) = .err := by decide

end HickoryVerif.C04
