/- Ties between the C16 models' literals and the constants regenerated from /repo. -/
import HickoryVerif.Generated.Consts
import HickoryVerif.Model.Multiplexer
import HickoryVerif.Model.UdpMatch

namespace HickoryVerif.C16
/-- messages read per `poll_next` -/
theorem tie_qos_max_receive_msgs : Mux.QOS_MAX_RECEIVE_MSGS = Generated.QOS_MAX_RECEIVE_MSGS := rfl
/-- the `for _ in 0..3` loop bound of `UdpRequest::send` -/
theorem tie_udp_max_examined : UdpMatch.MAX_EXAMINED = Generated.UDP_MAX_EXAMINED := rfl
/-- the per-query channel holds `QUERY_RESPONSE_BUFFER_SIZE + 1` messages (futures mpsc: buffer + 1 per sender) -/
theorem tie_chan_cap : Mux.CHAN_CAP = Generated.QUERY_RESPONSE_BUFFER_SIZE + 1 := rfl
end HickoryVerif.C16
