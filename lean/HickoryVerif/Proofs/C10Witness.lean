/-
C10 — kernel-checked counter-examples: for every deviation class of `Model/AuthZoneDev.lean` a
concrete well-formed zone and query on which the model of the code (`answerImpl`) is *not* the
answer prescribed by `Spec/Rfc1034.lean`, the class predicate holds, and no other hypothesis of
`impl_eq_spec_partial` fails.  These are the replays of the known findings
(`corpus/C10/known-findings.case`, same zones and queries).
-/
import HickoryVerif.Model.AuthZoneDev

namespace HickoryVerif.C10
open HickoryVerif HickoryVerif.AuthZone HickoryVerif.AuthZone.Dev HickoryVerif.Spec.Rfc1034

/-! labels as octets -/
def lExample : Bytes := [101, 120, 97, 109, 112, 108, 101]
def lOther : Bytes := [111, 116, 104, 101, 114]
def lNs : Bytes := [110, 115]
def lHost1 : Bytes := [104, 111, 115, 116, 49]
def lHost3 : Bytes := [104, 111, 115, 116, 51]
def lGhost : Bytes := [103, 104, 111, 115, 116]
def lSub : Bytes := [115, 117, 98]
def lDeep : Bytes := [100, 101, 101, 112]
def lWww : Bytes := [119, 119, 119]
def lAlias : Bytes := [97, 108, 105, 97, 115]
def lX : Bytes := [120]

def origin : LName := [lExample]
def nsOther : LName := [lNs, lOther]
def soa : RRset := { name := origin, type := T_SOA, rdatas := [{ tag := 0, target := none }] }
def apexNs : RRset := { name := origin, type := T_NS, rdatas := [{ tag := 0, target := some nsOther }] }
def host1A : RRset := { name := [lHost1, lExample], type := T_A, rdatas := [{ tag := 1, target := none }] }
def wildMx : RRset :=
  { name := [star, lExample], type := T_MX, rdatas := [{ tag := 10, target := some [lHost1, lExample] }] }
def wildTxt : RRset := { name := [star, lExample], type := T_TXT, rdatas := [{ tag := 1, target := none }] }
def wildA : RRset := { name := [star, lExample], type := T_A, rdatas := [{ tag := 1, target := none }] }
def subNs : RRset := { name := [lSub, lExample], type := T_NS, rdatas := [{ tag := 0, target := some nsOther }] }
def deepNs : RRset :=
  { name := [lDeep, lSub, lExample], type := T_NS, rdatas := [{ tag := 0, target := some nsOther }] }
def aliasCname : RRset :=
  { name := [lAlias, lExample], type := T_CNAME, rdatas := [{ tag := 0, target := some [lWww, lSub, lExample] }] }

/-- RFC 4592 §2.2.1 in small: `*.example. MX`, `host1.example. A` -/
def zWild : Zone := [apexNs, soa, wildMx, host1A]
def zWildTxt : Zone := [apexNs, soa, wildTxt, host1A]
def zWildA : Zone := [apexNs, soa, wildA]
def zCut : Zone := [apexNs, soa, subNs]
def zNested : Zone := [apexNs, soa, subNs, deepNs]
def zAlias : Zone := [apexNs, soa, aliasCname, subNs]

/-- all hypotheses of `impl_eq_spec_partial` except the one named by `skip` -/
def otherHyps (z : Zone) (q : Query) (skip : String) : Bool :=
  zoneWF z origin &&
  (skip == "gap" || !WildcardGap z origin q) &&
  (skip == "nested" || !NestedCut z origin q) &&
  (skip == "nsany" || !nsAnyBelowCut z origin q) &&
  (skip == "soa" || !soaBelowCut z origin q) &&
  (skip == "cname" || !cnameIntoCut z origin q) &&
  !anyNotAtOwner z q

def deviates (z : Zone) (q : Query) : Bool :=
  !conformsModAA (answerImpl z origin q) (answerSpec MAX_CNAME_DEPTH z origin q)

/-- `host1.example. MX`: exists, must be NODATA; synthesised from `*.example.` -/
def qExisting : Query := { name := [lHost1, lExample], type := T_MX }
theorem witness_existing_name_does_not_block :
    otherHyps zWild qExisting "gap" = true ∧
    existingNoBlock zWild origin qExisting.name T_MX = true ∧
    deviates zWild qExisting = true ∧
    (answerImpl zWild origin qExisting).answers =
      [{ name := [lHost1, lExample], type := T_MX, rdatas := wildMx.rdatas }] ∧
    (answerSpec MAX_CNAME_DEPTH zWild origin qExisting).answers = [] := by decide

/-- `x.host1.example. TXT`: closest encloser `host1.example.`, no `*.host1.example.` -/
def qClimbs : Query := { name := [lX, lHost1, lExample], type := T_TXT }
theorem witness_climbs_past_closest_encloser :
    otherHyps zWildTxt qClimbs "gap" = true ∧
    climbs zWildTxt origin qClimbs.name T_TXT = true ∧
    deviates zWildTxt qClimbs = true ∧
    (answerImpl zWildTxt origin qClimbs).rcode = .noError ∧
    (answerSpec MAX_CNAME_DEPTH zWildTxt origin qClimbs).rcode = .nxDomain := by decide

/-- `ghost.*.example. MX`: `*.example.` exists and blocks -/
def qGhost : Query := { name := [lGhost, star, lExample], type := T_MX }
theorem witness_wildcard_not_self_blocking :
    otherHyps zWild qGhost "gap" = true ∧
    notSelfBlocking zWild origin qGhost.name T_MX = true ∧
    deviates zWild qGhost = true ∧
    (answerImpl zWild origin qGhost).rcode = .noError ∧
    (answerSpec MAX_CNAME_DEPTH zWild origin qGhost).rcode = .nxDomain := by decide

/-- `host3.example. A`: `*.example.` has no A ⇒ NODATA; the server says NXDOMAIN -/
def qNoData : Query := { name := [lHost3, lExample], type := T_A }
theorem witness_nodata_as_nxdomain :
    otherHyps zWild qNoData "gap" = true ∧
    nodataAsNx zWild origin qNoData.name T_A = true ∧
    deviates zWild qNoData = true ∧
    (answerImpl zWild origin qNoData).rcode = .nxDomain ∧
    (answerSpec MAX_CNAME_DEPTH zWild origin qNoData).rcode = .noError := by decide

/-- `*.x.example. A` with `*.example. A` -/
def qStar : Query := { name := [star, lX, lExample], type := T_A }
theorem witness_wildcard_qname_not_expanded :
    otherHyps zWildA qStar "gap" = true ∧
    wildcardQname zWildA origin qStar.name T_A = true ∧
    deviates zWildA qStar = true ∧
    (answerImpl zWildA origin qStar).rcode = .nxDomain ∧
    (answerSpec MAX_CNAME_DEPTH zWildA origin qStar).answers =
      [{ name := [star, lX, lExample], type := T_A, rdatas := wildA.rdatas }] := by decide

/-- `www.deep.sub.example. A` with NS at `sub` and at `deep.sub` -/
def qNested : Query := { name := [lWww, lDeep, lSub, lExample], type := T_A }
theorem witness_nested_cut :
    otherHyps zNested qNested "nested" = true ∧
    NestedCut zNested origin qNested = true ∧
    deviates zNested qNested = true ∧
    (answerImpl zNested origin qNested).authority = [deepNs] ∧
    (answerSpec MAX_CNAME_DEPTH zNested origin qNested).authority = some [subNs] := by decide

/-- `www.sub.example. A`: a referral, answered with AA set -/
def qReferral : Query := { name := [lWww, lSub, lExample], type := T_A }
theorem witness_referral_aa :
    otherHyps zCut qReferral "" = true ∧
    referralAA zCut origin qReferral = true ∧
    deviates zCut qReferral = false ∧
    (answerImpl zCut origin qReferral).aa = true ∧
    (answerSpec MAX_CNAME_DEPTH zCut origin qReferral).aa = false := by decide

/-- `sub.example. NS` at the cut: NS RRset of the cut in the answer section -/
def qNsAtCut : Query := { name := [lSub, lExample], type := T_NS }
theorem witness_ns_any_below_cut :
    otherHyps zCut qNsAtCut "nsany" = true ∧
    nsAnyBelowCut zCut origin qNsAtCut = true ∧
    deviates zCut qNsAtCut = true ∧
    (answerImpl zCut origin qNsAtCut).answers = [subNs] ∧
    (answerSpec MAX_CNAME_DEPTH zCut origin qNsAtCut).answers = [] := by decide

/-- `www.sub.example. SOA`: apex NS appended to the referral -/
def qSoaBelow : Query := { name := [lWww, lSub, lExample], type := T_SOA }
theorem witness_soa_below_cut :
    otherHyps zCut qSoaBelow "soa" = true ∧
    soaBelowCut zCut origin qSoaBelow = true ∧
    deviates zCut qSoaBelow = true ∧
    (answerImpl zCut origin qSoaBelow).authority = [subNs, apexNs] ∧
    (answerSpec MAX_CNAME_DEPTH zCut origin qSoaBelow).authority = some [subNs] := by decide

/-- `alias.example. A`, alias → `www.sub.example.` below the cut -/
def qAlias : Query := { name := [lAlias, lExample], type := T_A }
theorem witness_cname_into_cut :
    otherHyps zAlias qAlias "cname" = true ∧
    cnameIntoCut zAlias origin qAlias = true ∧
    deviates zAlias qAlias = true ∧
    (answerImpl zAlias origin qAlias).answers = [aliasCname, subNs] ∧
    (answerSpec MAX_CNAME_DEPTH zAlias origin qAlias).answers = [aliasCname] ∧
    (answerSpec MAX_CNAME_DEPTH zAlias origin qAlias).authority = some [subNs] := by decide

end HickoryVerif.C10
