/-
C10 — kernel-checked counter-examples: for every deviation class of `Model/AuthZoneDev.lean` a
concrete well-formed zone and query on which the model of the code (`answerImpl`) is *not* the
answer prescribed by `Spec/Rfc1034.lean`, the class predicate holds, and no other hypothesis of
`impl_eq_spec_partial` fails.  These are the replays of the known findings
(`corpus/C10/known-findings.case`, same zones and queries).
-/
import HickoryVerif.Model.AuthZoneDev
import HickoryVerif.Model.AuthZoneSignedDev

namespace HickoryVerif.C10
open HickoryVerif HickoryVerif.AuthZone HickoryVerif.AuthZone.Dev HickoryVerif.Spec.Rfc1034

/-! labels as octets -/
def lExample : Bytes := [101, 120, 97, 109, 112, 108, 101]
def lOther : Bytes := [111, 116, 104, 101, 114]
def lNs : Bytes := [110, 115]
def lHost1 : Bytes := [104, 111, 115, 116, 49]
def lHost3 : Bytes := [104, 111, 115, 116, 51]
def lGhost : Bytes := [103, 104, 111, 115, 116]
def lSub : Bytes := [115, 117, 98]
def lDeep : Bytes := [100, 101, 101, 112]
def lWww : Bytes := [119, 119, 119]
def lAlias : Bytes := [97, 108, 105, 97, 115]
def lX : Bytes := [120]

def origin : LName := [lExample]
def nsOther : LName := [lNs, lOther]
def soa : RRset := { name := origin, type := T_SOA, rdatas := [{ tag := 0, target := none }] }
def apexNs : RRset := { name := origin, type := T_NS, rdatas := [{ tag := 0, target := some nsOther }] }
def host1A : RRset := { name := [lHost1, lExample], type := T_A, rdatas := [{ tag := 1, target := none }] }
def wildMx : RRset :=
  { name := [star, lExample], type := T_MX, rdatas := [{ tag := 10, target := some [lHost1, lExample] }] }
def wildTxt : RRset := { name := [star, lExample], type := T_TXT, rdatas := [{ tag := 1, target := none }] }
def wildA : RRset := { name := [star, lExample], type := T_A, rdatas := [{ tag := 1, target := none }] }
def subNs : RRset := { name := [lSub, lExample], type := T_NS, rdatas := [{ tag := 0, target := some nsOther }] }
def deepNs : RRset :=
  { name := [lDeep, lSub, lExample], type := T_NS, rdatas := [{ tag := 0, target := some nsOther }] }
def aliasCname : RRset :=
  { name := [lAlias, lExample], type := T_CNAME, rdatas := [{ tag := 0, target := some [lWww, lSub, lExample] }] }

/-- RFC 4592 §2.2.1 in small: `*.example. MX`, `host1.example. A` -/
def zWild : Zone := [apexNs, soa, wildMx, host1A]
def zWildTxt : Zone := [apexNs, soa, wildTxt, host1A]
def zWildA : Zone := [apexNs, soa, wildA]
def zCut : Zone := [apexNs, soa, subNs]
def zNested : Zone := [apexNs, soa, subNs, deepNs]
def zAlias : Zone := [apexNs, soa, aliasCname, subNs]

/-- all hypotheses of `impl_eq_spec_partial` except the one named by `skip` -/
def otherHyps (z : Zone) (q : Query) (skip : String) : Bool :=
  zoneWF z origin &&
  (skip == "gap" || !WildcardGap z origin q) &&
  (skip == "nested" || !NestedCut z origin q) &&
  (skip == "cname" || !cnameIntoCut z origin q) &&
  !anyNotAtOwner z q

def deviates (z : Zone) (q : Query) : Bool :=
  !conforms (answerImpl z origin q) (answerSpec MAX_CNAME_DEPTH z origin q)

/-- `host1.example. MX`: exists, must be NODATA; synthesised from `*.example.` -/
def qExisting : Query := { name := [lHost1, lExample], type := T_MX }
theorem witness_existing_name_does_not_block :
    otherHyps zWild qExisting "gap" = true ∧
    existingNoBlock zWild origin qExisting.name T_MX = true ∧
    deviates zWild qExisting = true ∧
    (answerImpl zWild origin qExisting).answers =
      [{ name := [lHost1, lExample], type := T_MX, rdatas := wildMx.rdatas }] ∧
    (answerSpec MAX_CNAME_DEPTH zWild origin qExisting).answers = [] := by decide

/-- `x.host1.example. TXT`: closest encloser `host1.example.`, no `*.host1.example.` -/
def qClimbs : Query := { name := [lX, lHost1, lExample], type := T_TXT }
theorem witness_climbs_past_closest_encloser :
    otherHyps zWildTxt qClimbs "gap" = true ∧
    climbs zWildTxt origin qClimbs.name T_TXT = true ∧
    deviates zWildTxt qClimbs = true ∧
    (answerImpl zWildTxt origin qClimbs).rcode = .noError ∧
    (answerSpec MAX_CNAME_DEPTH zWildTxt origin qClimbs).rcode = .nxDomain := by decide

/-- `ghost.*.example. MX`: `*.example.` exists and blocks -/
def qGhost : Query := { name := [lGhost, star, lExample], type := T_MX }
theorem witness_wildcard_not_self_blocking :
    otherHyps zWild qGhost "gap" = true ∧
    notSelfBlocking zWild origin qGhost.name T_MX = true ∧
    deviates zWild qGhost = true ∧
    (answerImpl zWild origin qGhost).rcode = .noError ∧
    (answerSpec MAX_CNAME_DEPTH zWild origin qGhost).rcode = .nxDomain := by decide

/-- `host3.example. A`: `*.example.` has no A ⇒ NODATA; the server says NXDOMAIN -/
def qNoData : Query := { name := [lHost3, lExample], type := T_A }
theorem witness_nodata_as_nxdomain :
    otherHyps zWild qNoData "gap" = true ∧
    nodataAsNx zWild origin qNoData.name T_A = true ∧
    deviates zWild qNoData = true ∧
    (answerImpl zWild origin qNoData).rcode = .nxDomain ∧
    (answerSpec MAX_CNAME_DEPTH zWild origin qNoData).rcode = .noError := by decide

/-- `*.x.example. A` with `*.example. A` -/
def qStar : Query := { name := [star, lX, lExample], type := T_A }
theorem witness_wildcard_qname_not_expanded :
    otherHyps zWildA qStar "gap" = true ∧
    wildcardQname zWildA origin qStar.name T_A = true ∧
    deviates zWildA qStar = true ∧
    (answerImpl zWildA origin qStar).rcode = .nxDomain ∧
    (answerSpec MAX_CNAME_DEPTH zWildA origin qStar).answers =
      [{ name := [star, lX, lExample], type := T_A, rdatas := wildA.rdatas }] := by decide

/-- `www.deep.sub.example. A` with NS at `sub` and at `deep.sub` -/
def qNested : Query := { name := [lWww, lDeep, lSub, lExample], type := T_A }
theorem witness_nested_cut :
    otherHyps zNested qNested "nested" = true ∧
    NestedCut zNested origin qNested = true ∧
    deviates zNested qNested = true ∧
    (answerImpl zNested origin qNested).authority = [deepNs] ∧
    (answerSpec MAX_CNAME_DEPTH zNested origin qNested).authority = some [subNs] := by decide

/-! Repaired in /repo af8bb96 (`fix:` referral detection): the former witnesses of the classes
`referral-aa`, `ns-any-below-cut`, `soa-below-cut` are now regression theorems — on the same
zones and queries the model of the repaired code gives the prescribed answer, AA included. -/

/-- `www.sub.example. A`: a referral, AA clear -/
def qReferral : Query := { name := [lWww, lSub, lExample], type := T_A }
theorem fixed_referral_aa :
    otherHyps zCut qReferral "" = true ∧ deviates zCut qReferral = false ∧
    (answerImpl zCut origin qReferral).aa = false ∧
    (answerImpl zCut origin qReferral).authority = [subNs] := by decide

/-- `sub.example. NS` at the cut: a referral, not an answer -/
def qNsAtCut : Query := { name := [lSub, lExample], type := T_NS }
theorem fixed_ns_any_below_cut :
    otherHyps zCut qNsAtCut "" = true ∧ deviates zCut qNsAtCut = false ∧
    (answerImpl zCut origin qNsAtCut).answers = [] ∧
    (answerImpl zCut origin qNsAtCut).authority = [subNs] ∧
    deviates zCut { name := [lSub, lExample], type := T_ANY } = false := by decide

/-- `www.sub.example. SOA`: the referral only -/
def qSoaBelow : Query := { name := [lWww, lSub, lExample], type := T_SOA }
theorem fixed_soa_below_cut :
    otherHyps zCut qSoaBelow "" = true ∧ deviates zCut qSoaBelow = false ∧
    (answerImpl zCut origin qSoaBelow).authority = [subNs] := by decide

/-- `alias.example. A`, alias → `www.sub.example.` below the cut -/
def qAlias : Query := { name := [lAlias, lExample], type := T_A }
theorem witness_cname_into_cut :
    otherHyps zAlias qAlias "cname" = true ∧
    cnameIntoCut zAlias origin qAlias = true ∧
    deviates zAlias qAlias = true ∧
    (answerImpl zAlias origin qAlias).answers = [aliasCname, subNs] ∧
    (answerSpec MAX_CNAME_DEPTH zAlias origin qAlias).answers = [aliasCname] ∧
    (answerSpec MAX_CNAME_DEPTH zAlias origin qAlias).authority = some [subNs] := by decide

end HickoryVerif.C10

/-! ## signed stage (DO=1, NSEC): the stores below are what `secure_zone` produces for the replay
zones of `corpus/C10/known-findings.case` (taken from the case lines the harness prints) -/

namespace HickoryVerif.C10
open HickoryVerif HickoryVerif.AuthZone HickoryVerif.AuthZone.SDev HickoryVerif.Spec.Rfc1034

def lA : Bytes := [97]
def lY : Bytes := [121]
def lW : Bytes := [119]
def lT : Bytes := [116]

def tApexNsec : List Nat := [T_NS, T_SOA, T_RRSIG, T_NSEC, T_DNSKEY]
def tANsec : List Nat := [T_A, T_RRSIG, T_NSEC]
def tCnameNsec : List Nat := [T_CNAME, T_RRSIG, T_NSEC]

def sg (r : RRset) (l : Nat) : RRset := { r with sigLabels := some l }
def nsecRR (owner next : LName) (tys : List Nat) (l : Nat) : RRset :=
  { name := owner, type := T_NSEC, rdatas := [{ tag := 0, target := some next, types := tys }], sigLabels := some l }
def dnskey : RRset := { name := origin, type := T_DNSKEY, rdatas := [{ tag := 0, target := none }], sigLabels := some 1 }
def aA : RRset := { name := [lA, lExample], type := T_A, rdatas := [{ tag := 1, target := none }], sigLabels := some 2 }
def nsA : RRset := { name := [lNs, lExample], type := T_A, rdatas := [{ tag := 53, target := none }], sigLabels := some 2 }

/-- apex, `a.example. A`, `ns.example. A`; NSEC chain example → a → ns → example -/
def sNx : Zone :=
  [sg apexNs 1, sg soa 1, nsecRR origin [lA, lExample] tApexNsec 1, dnskey,
   aA, nsecRR [lA, lExample] [lNs, lExample] tANsec 2,
   nsA, nsecRR [lNs, lExample] origin tANsec 2]

/-- Repaired in /repo f7c9c53 (regression): `x.y.example. A` is NXDOMAIN and now carries both
`example. → a.example.` (covers `*.example.`, the wildcard at the closest encloser) and
`ns.example. → example.` (covers the query name) -/
def qXY : Query := { name := [lX, lY, lExample], type := T_A }
theorem fixed_nsec_no_wildcard_denial :
    allSigned sNx = true ∧ nxNoWildcardDenial sNx origin qXY = false ∧
    (answerImplS sNx origin qXY true true).rcode = .nxDomain ∧
    (answerImplS sNx origin qXY true true).authority =
      [nsecRR origin [lA, lExample] tApexNsec 1, nsecRR [lNs, lExample] origin tANsec 2, sg soa 1] ∧
    closestEncloser sNx qXY.name = origin ∧
    covers (nsecRR origin [lA, lExample] tApexNsec 1) [star, lExample] = true ∧
    covers (nsecRR [lNs, lExample] origin tANsec 2) qXY.name = true := by decide

def wildCnameApex : RRset :=
  { name := [star, lExample], type := T_CNAME, rdatas := [{ tag := 0, target := some origin }], sigLabels := some 1 }

/-- apex, `*.example. CNAME example.` -/
def sSoa : Zone :=
  [sg apexNs 1, sg soa 1, nsecRR origin [star, lExample] tApexNsec 1, dnskey,
   wildCnameApex, nsecRR [star, lExample] origin tCnameNsec 1]

/-- `x.example. SOA` through the wildcard CNAME: apex NS in the authority section, no NSEC -/
def qXSoa : Query := { name := [lX, lExample], type := T_SOA }
theorem witness_soa_query_wildcard_no_proof :
    allSigned sSoa = true ∧ soaQueryWildcardNoProof sSoa origin qXSoa = true ∧
    expandedOwners (answerImplS sSoa origin qXSoa true true).answers = [[lX, lExample]] ∧
    (answerImplS sSoa origin qXSoa true true).authority = [sg apexNs 1] := by decide

def aCnameXW : RRset :=
  { name := [lA, lExample], type := T_CNAME, rdatas := [{ tag := 0, target := some [lX, lW, lExample] }],
    sigLabels := some 2 }
def wildWA : RRset :=
  { name := [star, lW, lExample], type := T_A, rdatas := [{ tag := 4, target := none }], sigLabels := some 2 }

/-- apex, `a.example. CNAME x.w.example.`, `*.w.example. A` -/
def sExp : Zone :=
  [sg apexNs 1, sg soa 1, nsecRR origin [lA, lExample] tApexNsec 1, dnskey,
   aCnameXW, nsecRR [lA, lExample] [star, lW, lExample] tCnameNsec 2,
   wildWA, nsecRR [star, lW, lExample] origin tANsec 2]

/-- `a.example. A`: the expansion `x.w.example. A` is sent with the NSEC of `a.example.` -/
def qAA : Query := { name := [lA, lExample], type := T_A }
theorem witness_wildcard_expansion_not_proven :
    allSigned sExp = true ∧ wildcardExpansionNotProven sExp origin qAA = true ∧
    expandedOwners (answerImplS sExp origin qAA true true).answers = [[lX, lW, lExample]] ∧
    (answerImplS sExp origin qAA true true).authority =
      [nsecRR [lA, lExample] [star, lW, lExample] tCnameNsec 2] ∧
    covers (nsecRR [star, lW, lExample] origin tANsec 2) [lX, lW, lExample] = true := by decide

/-! ## the hypotheses of `impl_eq_spec_partial` are satisfiable by non-trivial cases -/

def hypsHold (z : Zone) (q : Query) : Bool :=
  Dev.zoneWF z origin && !Dev.WildcardGap z origin q && !Dev.NestedCut z origin q &&
  !Dev.cnameIntoCut z origin q &&
  !Dev.anyNotAtOwner z q

/-- wildcard synthesis from the closest encloser: `host3.example. MX` from `*.example. MX` -/
theorem nonvacuous_wildcard :
    hypsHold zWild { name := [lHost3, lExample], type := T_MX } = true ∧
    (answerImpl zWild origin { name := [lHost3, lExample], type := T_MX }).answers =
      [{ name := [lHost3, lExample], type := T_MX, rdatas := wildMx.rdatas }] := by decide

/-- a referral (`www.sub.example. A` below the cut), NODATA at an existing name, NXDOMAIN -/
theorem nonvacuous_referral_nodata_nxdomain :
    hypsHold zCut qReferral = true ∧ (answerImpl zCut origin qReferral).authority = [subNs] ∧
    hypsHold zWild { name := [lHost1, lExample], type := T_AAAA } = true ∧
    (answerImpl zWild origin { name := [lHost1, lExample], type := T_AAAA }).authority = [soa] ∧
    hypsHold zCut { name := origin, type := T_MX } = true ∧
    (answerImpl zCut origin { name := origin, type := T_MX }).authority = [soa] ∧
    hypsHold zCut { name := [lX, lExample], type := T_A } = true ∧
    (answerImpl zCut origin { name := [lX, lExample], type := T_A }).rcode = .nxDomain := by decide

/-- a CNAME chain inside the zone ending in data: `alias.example. A`, alias → `host1.example.` -/
def aliasToHost : RRset :=
  { name := [lAlias, lExample], type := T_CNAME, rdatas := [{ tag := 0, target := some [lHost1, lExample] }] }
def zChain : Zone := [apexNs, soa, aliasToHost, host1A]
theorem nonvacuous_cname_chain :
    hypsHold zChain qAlias = true ∧ (answerImpl zChain origin qAlias).answers = [aliasToHost, host1A] ∧
    hypsHold zChain { name := [lAlias, lExample], type := T_ANY } = true := by decide

end HickoryVerif.C10

namespace HickoryVerif.C10
open HickoryVerif HickoryVerif.AuthZone HickoryVerif.AuthZone.SDev

/-- `closestNsec_covers` is not vacuous: in `sNx` the non-existent `x.y.example.` gets the last
NSEC of the chain, which covers it -/
theorem nonvacuous_closestNsec :
    getRR sNx qXY.name T_NSEC = none ∧
    closestNsec sNx qXY.name = some (nsecRR [lNs, lExample] origin tANsec 2) ∧
    covers (nsecRR [lNs, lExample] origin tANsec 2) qXY.name = true := by decide

end HickoryVerif.C10

namespace HickoryVerif.C10
open HickoryVerif HickoryVerif.AuthZone HickoryVerif.AuthZone.SDev HickoryVerif.Spec.Rfc1034

/-- the hypotheses of `nxdomain_proof_partial` are met by `x.y.example.` in `sNx` -/
theorem nonvacuous_nxdomain_proof :
    Dev.zoneWF sNx origin = true ∧ getRR sNx qXY.name T_NSEC = none ∧
    star :: closestEncloser sNx qXY.name ≠ qXY.name ∧
    (sNx.any fun r => r.name == star :: closestEncloser sNx qXY.name) = false ∧
    closestNsec sNx qXY.name = some (nsecRR [lNs, lExample] origin tANsec 2) ∧
    closestNsec sNx (star :: closestEncloser sNx qXY.name) = some (nsecRR origin [lA, lExample] tApexNsec 1) := by
  decide

end HickoryVerif.C10
