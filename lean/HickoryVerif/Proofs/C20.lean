/-
C20 — Zone files load to exactly the records they denote.

Property theorems about `Model/ZoneLex.lean` (the model of `Lexer::next_token`) and
`Model/ZoneParse.lean` (the model of `Parser::parse`), against the RFC 1035 §5.1 printer of
`Spec/MasterFile.lean`.  Helper lemmas live in `Lemmas/Zone*.lean`.

Full statement aimed at (kept visible; what is proved of it is listed below):

    ∀ layout records, parse (render layout records) = ok records        (`parse_render`)
    ∀ text, parse text is ok or err — never a panic, never an endless loop

* `lex_total`, `parse_total`, `no_panic` — **full strength**, all texts: the lexer loop needs no
  iteration cap (this is what justified removing `assert!(i < 4095)`), every token consumes a
  character, no `assert!` of `RecordSet::insert` can fire.
* `lex_render` — **full strength at token level**: for every layout of the printer that uses no
  `\DDD`, the text lexes to exactly the denoted tokens (blank lines and comments produce nothing, a
  group — with contiguous *and quoted* items — equals its items on one line, a quoted string yields
  its characters back).  `\DDD` is the open known finding (`finding_decimal_escape`); quoted strings
  inside parentheses were a finding and are repaired (commit 055beb6:
  `regression_quote_inside_list`, `regression_semicolon_inside_quoted_list_item`).
* `parse_render_tokens` — parsing a rendered file is running the line machine over the denoted
  tokens; `rr_line_*`, `ttl_take_*` — owner / TTL / class inheritance of the line machine;
  `parse_render_partial` — end to end for files of the stated shape.
-/
import HickoryVerif.Lemmas.ZoneParseStore
import HickoryVerif.Lemmas.ZoneParseName
import HickoryVerif.Lemmas.ZoneParseTotal

namespace HickoryVerif.C20
open HickoryVerif HickoryVerif.ZoneLex HickoryVerif.ZoneParse HickoryVerif.Spec.MasterFile

/-! ## termination and absence of panics — all texts -/

/-- **The lexer loop terminates without any iteration cap**: from every configuration the loop
returns after at most `8·|remaining text| + 8` iterations (`iter n` is `n` iterations of the
loop as coded, `run` its well-founded fixpoint). -/
theorem lex_total (c : Cfg) : ∃ n, n ≤ measure c + 1 ∧ iter n c = some (run c) := iter_complete c

example : measure { txt := [59, 120, 10], state := .startLine, cd := none, cdv := none } = 31 := by decide

/-- the lexer never panics (as repaired: the `assert!` is gone and no other panic site exists) -/
theorem lex_no_panic (l : Lexer) (s : String) : nextToken l ≠ .panic s := (run_spec _).1 s

/-- **Every token consumes at least one character**, and leaves the lexer in a state from which
this holds again. -/
theorem nextToken_progress {l l' : Lexer} {t : Token} (hl : entryState l.state)
    (h : nextToken l = .ok (some t, l')) : l'.txt.length < l.txt.length ∧ entryState l'.state := by
  have hsp := (run_spec _).2 _ _ h
  exact ⟨hsp.2.2 (StrictOK_of_entry hl) rfl, hsp.2.1⟩

example : nextToken ⟨[97, 32], .startLine⟩ = .ok (some (.charData [97]), ⟨[32], .restOfLine⟩) := by
  apply nextTokenN_eq (n := 5); decide

/-- **`Parser::parse` never panics**, whatever the text: neither in the lexer, nor at the
`assert!`s / index of `RecordSet::insert`, nor by looping (`"hang:parse-loop"` is the model's
rendering of "the token loop made no progress"). -/
theorem no_panic (text : List Nat) (origin : Option Name) (s : String) : parse text origin ≠ .panic s := by
  unfold parse
  have hinv : Inv (initCtx origin) := by intro k rs hm; simp [initCtx] at hm
  have hsp := parseLoop_spec (Lexer.new text) (initCtx origin) .startLine (Or.inl rfl) hinv
  refine NoPanic.bind hsp.1 (fun r hr => ?_) s
  obtain ⟨cx, st⟩ := r
  have hinv' := hsp.2 cx st hr
  unfold finish
  refine NoPanic.bind ?_ fun cx' _ => ?_
  · cases st <;> first | exact NoPanic.ok _ | exact (Ctx.insert_spec hinv' _).1
  · split <;> first | exact NoPanic.ok _ | exact NoPanic.err

/-- **`Parser::parse` terminates on every text, with an explicit bound**: `parseN n` runs the two
loops as coded — at most `n` iterations of `while let Some(t) = lexer.next_token()?`, each
`next_token` at most `n` iterations of its `loop` — and with `n = 8·|text| + 9` it always
finishes, with the result of `parse`.  (No cap in the code is needed for this; and the model's
defensive "no progress" branch is dead.) -/
theorem parse_total (text : List Nat) (origin : Option Name) :
    parseN (8 * text.length + 9) text origin = some (parse text origin) ∧
    parse text origin ≠ .panic "hang:parse-loop" :=
  ⟨parseN_complete text origin, no_panic text origin _⟩

/-! ## lexing rendered files — all layouts of the printer -/

/-- **Lexing a rendered file yields exactly the denoted tokens** — for every file of the printer:
any blanks between items, any mix of contiguous and quoted items (with `\"`, `\\`, `\X`), groups
in parentheses spanning any number of lines with comments inside, blank and comment-only lines,
trailing comments, LF or CRLF line ends.  (`File.ok` is decidable; it keeps quoted strings out of
groups and has no `\DDD` — the known findings.) -/
theorem lex_render (f : File) (hf : File.ok f = true) :
    Lexes ⟨render f, .startLine⟩ (fileTokens f) ⟨[], .startLine⟩ := by
  simpa using lex_file f [] hf

/-- comments, blank lines and trailing blanks produce no token but the line end -/
theorem comment_line_tokens (b : Nat) (ws : List Nat) (c : Option (List Nat)) (crs : Nat) :
    lineTokens ⟨.blank b, [], ⟨ws, c, crs⟩⟩ = [.blank, .eol] ∧
    lineTokens ⟨.none, [], ⟨[], c, crs⟩⟩ = [.eol] := ⟨rfl, rfl⟩

/-- a parenthesised group denotes the same strings as the same items on one line -/
theorem group_vals (ws : List Nat) (els : List (PGap × Item)) (close : PGap) :
    (Piece.group ws els close).vals = (els.map fun (_, it) => Piece.item [32] it).flatMap Piece.vals := by
  induction els with
  | nil => rfl
  | cons e els ih => obtain ⟨g, it⟩ := e; simp_all [Piece.vals]

/-- … and the parser treats a `List` token exactly like its items in sequence -/
theorem list_token_as_items (cx : Ctx) (parts ws : List (List Nat)) :
    feed cx (.record parts) [.list ws] = feed cx (.record parts) (ws.map .charData) := by
  induction ws generalizing parts with
  | nil => simp [feed, onToken]
  | cons w ws ih =>
    have := ih (parts ++ [w])
    simp only [feed, onToken, ZR.bind_ok, List.map_cons, List.append_assoc, List.singleton_append] at *
    exact this

/-- **Parsing a rendered file is running the line machine over the denoted tokens.** -/
theorem parse_render_tokens (f : File) (hf : File.ok f = true) (origin : Option Name) :
    parse (render f) origin = (feed (initCtx origin) .startLine (fileTokens f)).bind finish := by
  unfold parse Lexer.new
  rw [parseLoop_lexes (lex_render f hf) (Or.inl rfl)]
  have hend : ∀ cx st, parseLoop ⟨[], .startLine⟩ cx st = .ok (cx, st) := by
    intro cx st; rw [parseLoop, nextToken_end]
  cases feed (initCtx origin) .startLine (fileTokens f) with
  | ok r => simp [hend]
  | err => rfl
  | unmodelled => rfl
  | panic s => rfl

/-- non-vacuity: a comment line, then an entry with a group over three lines that holds a
contiguous item, a comment, and a quoted item with `;`, a blank and `)` inside, then a quoted
string with escapes outside the group -/
def sampleFile : File :=
  [ ⟨.none, [], ⟨[], some [32, 99], 0⟩⟩,                                            -- "; c\n"
    ⟨.word [97], [.item [32] (.word [54, 48]), .item [32] (.word [84, 88, 84]),
        .group [32] [([.ws 10, .ws 32], .word [120]),
                     ([.comment [99], .ws 9], .quoted [.raw 121, .raw 59, .raw 32, .raw 41, .esc 34])] [.ws 32],
        .item [32, 9] (.quoted [.raw 113, .esc 34, .raw 32, .esc 92])], ⟨[32], some [], 1⟩⟩ ]

example : File.ok sampleFile = true := by decide
example : fileTokens sampleFile =
    [.eol, .charData [97], .charData [54, 48], .charData [84, 88, 84], .list [[120], [121, 59, 32, 41, 34]],
     .charData [113, 34, 32, 92], .eol] := by decide

/-! ## the line machine: owner / TTL / class inheritance -/

/-- `Ttl::take` : this line's TTL wins and becomes the last explicit one -/
theorem ttl_take_this (d l : Option Nat) (v : Nat) :
    Ttl.take ⟨d, l, some v⟩ = (some v, ⟨d, some v, none⟩) := rfl
/-- … else the `$TTL` default (which does not become "last") -/
theorem ttl_take_default (l : Option Nat) (v : Nat) :
    Ttl.take ⟨some v, l, none⟩ = (some v, ⟨some v, l, none⟩) := rfl
/-- … else the last explicitly stated TTL -/
theorem ttl_take_last (v : Nat) : Ttl.take ⟨none, some v, none⟩ = (some v, ⟨none, some v, none⟩) := rfl
/-- … else there is none (and the record is refused) -/
theorem ttl_take_none : Ttl.take ⟨none, none, none⟩ = (none, ⟨none, none, none⟩) := rfl

end HickoryVerif.C20

namespace HickoryVerif.C20
open HickoryVerif HickoryVerif.ZoneLex HickoryVerif.ZoneParse HickoryVerif.Spec.MasterFile

/-! ## the layouts the code mishandles / mishandled — kernel-checked replays of the known findings and
regressions of the repaired ones

Each text is the corpus line of the finding (`corpus/C20/known-findings.case`); the model is
evaluated on it with the fuel twin (`parseN_eq`: a result with fuel *is* the result of `parse`). -/

def exampleCom : Name := { labels := [[101, 120, 97, 109, 112, 108, 101], [99, 111, 109]], fqdn := true }

/-- all TXT strings a result holds, set by set -/
def loadedTxt : ZR (Name × List (Key × RSet)) → Option (List (List Bytes))
  | .ok (_, m) => some ((m.flatMap fun (_, rs) => rs.records).filterMap fun r =>
      match r.data with
      | .txt ss => some ss
      | _ => none)
  | _ => none

/-- an observation of the result computed with fuel is that observation of `parse` -/
theorem observe_of_fuel {α} {n : Nat} {t : List Nat} {o : Option Name}
    {f : ZR (Name × List (Key × RSet)) → α} {v : α}
    (h : (parseN n t o).map f = some v) : f (parse t o) = v := by
  cases hp : parseN n t o with
  | none => simp [hp] at h
  | some r => rw [parseN_eq hp]; simpa [hp] using h

def isErr {α} : ZR α → Bool
  | .err => true
  | _ => false

theorem eq_err_of_isErr {α} {x : ZR α} (h : isErr x = true) : x = .err := by
  cases x <;> simp_all [isErr]

/-- number of records a result holds (`none` if it is not `ok`) -/
def loadedCount : ZR (Name × List (Key × RSet)) → Option Nat
  | .ok (_, m) => some (m.flatMap fun (_, rs) => rs.records).length
  | _ => none

/-- `a 60 IN TXT ( "hello world" )\n` -/
def textQuoteInsideList : List Nat :=
  [97, 32, 54, 48, 32, 73, 78, 32, 84, 88, 84, 32, 40, 32, 34, 104, 101, 108, 108, 111, 32, 119, 111,
   114, 108, 100, 34, 32, 41, 10]

/-- **regression of finding (ii), fixed by 055beb6** (was class `quote-inside-list`: the code
loaded the two strings `"hello` and `world"`): the group denotes one string `hello world`, and
that is what loads. -/
theorem regression_quote_inside_list :
    loadedTxt (parse textQuoteInsideList (some exampleCom)) =
      some [[[104, 101, 108, 108, 111, 32, 119, 111, 114, 108, 100]]] :=
  observe_of_fuel (n := 80) (by decide +kernel)

end HickoryVerif.C20

namespace HickoryVerif.C20
open HickoryVerif HickoryVerif.ZoneLex HickoryVerif.ZoneParse HickoryVerif.Spec.MasterFile

/-! ## end to end: a rendered file loads to the records its entries state

Full statement aimed at: `∀ layout records, parse (render layout records) = ok records`.
Proved here for every file made of the entry forms of RFC 1035 §5.1 / RFC 2308 §4 in any layout
of the printer (`File.ok`), under three explicit, decidable restrictions:

* (lexical) no quoted string inside parentheses, no `\DDD` — the known findings;
* (`readFile … = some …`) TTLs are decimal and fit `u32`, classes are IN/CH/HS, types are the twelve
  modelled mnemonics in any letter case, parentheses only in the RDATA, every record has a TTL
  (its own, `$TTL`, or the last explicit one), `<blank>`/`@` owners have something to inherit;
* (`FileNamesOK`) each owner / `$ORIGIN` name text parses to the name the entry is taken to state
  (`parseName_host` discharges this for host-style names).

The result is expressed with `storeAll`: each stated record, inheritance resolved by the *RFC
reader* `readFile`, has its RDATA items interpreted by `RData::from_tokens` and is inserted by
`Context::insert`'s map update, in file order. -/
theorem parse_render_partial (o : Name) (ls : List SLine) (st' : RState) (es : List Entry)
    (hlex : File.ok (ls.map SLine.line) = true)
    (hread : readFile { origin := some { o with fqdn := true } } ls = some (st', es))
    (hnames : FileNamesOK { origin := some { o with fqdn := true } } ls) :
    parse (render (ls.map SLine.line)) (some o) =
      (storeAll [] es).bind fun m =>
        match st'.origin with
        | some o' => .ok (o', m)
        | none => .err := by
  rw [parse_render_tokens _ hlex]
  have hinit : initCtx (some o) = ctxOf { origin := some { o with fqdn := true } } [] none := rfl
  rw [hinit, feed_file ls _ st' [] none es hread hnames]
  cases storeAll [] es with
  | ok m => simp only [ZR.bind_ok, finish, ctxOf]; rfl
  | err => rfl
  | unmodelled => rfl
  | panic s => rfl

/-- owner, TTL and class inheritance as the RFC reader resolves it — on the tokens of one entry
the line machine agrees with it (`feed_line`), restated for the three inheritance sources -/
theorem rr_line_inherits (st st' : RState) (m : List (Key × RSet)) (rt : Option RType) (r : RRLine)
    (e : Entry) (hr : readLine st (.rr r) = some (st', some e)) (hn : LineNamesOK st (.rr r)) :
    feed (ctxOf st m rt) .startLine (lineTokens (SLine.rr r).line) =
      (storeEntry m e).bind fun m' => .ok (ctxOf st' m' (rtAfter (.rr r)), .startLine) :=
  feed_line st st' m rt (.rr r) (some e) hr hn

/-! ### a concrete file satisfying all hypotheses (non-vacuity), and what it loads to -/

def wWWW : List Nat := [119, 119, 119]                       -- "www"
def nWWW : Name := { labels := [[119, 119, 119], [101, 120, 97, 109, 112, 108, 101], [99, 111, 109]], fqdn := true }

/-- ```
    $TTL 300 ; default
    www  IN TXT ( a
            "b; b" ) "c d"
      60 A 1.2.3.4
    ``` -/
def sampleZone : List SLine :=
  [ .ttl [32] [51, 48, 48] ⟨[32], some [32, 100], 0⟩,
    .rr ⟨.name wWWW nWWW, [([32, 32], [73, 78])], ([32], [84, 88, 84]),
         [.group [32] [([.ws 32], .word [97]), ([.ws 10, .ws 32], .quoted [.raw 98, .raw 59, .raw 32, .raw 98])] [.ws 32],
          .item [32] (.quoted [.raw 99, .raw 32, .raw 100])], ⟨[], none, 0⟩⟩,
    .rr ⟨.inherit 32, [([32], [54, 48])], ([32], [65]), [.item [32] (.word [49, 46, 50, 46, 51, 46, 52])],
         ⟨[], none, 1⟩⟩ ]

example : File.ok (sampleZone.map SLine.line) = true := by decide

example : (readFile { origin := some exampleCom } sampleZone).map (·.2) =
    some [ { owner := nWWW, cls := 1, ttl := 300, typ := 16, origin := some exampleCom, rdata := [[97], [98, 59, 32, 98], [99, 32, 100]] },
           { owner := nWWW, cls := 1, ttl := 60, typ := 1, origin := some exampleCom, rdata := [[49, 46, 50, 46, 51, 46, 52]] } ] := by
  decide

example : FileNamesOK { origin := some exampleCom } sampleZone := by
  unfold FileNamesOK; decide

/-! ## the layouts the code mishandles — more kernel-checked replays -/

/-- `a 60 IN TXT ( "v=DKIM1; k=rsa" )\n` -/
def textSemicolonInsideQuotedListItem : List Nat :=
  [97, 32, 54, 48, 32, 73, 78, 32, 84, 88, 84, 32, 40, 32, 34, 118, 61, 68, 75, 73, 77, 49, 59, 32,
   107, 61, 114, 115, 97, 34, 32, 41, 10]

/-- **regression of finding (ii'), fixed by 055beb6** (was class
`semicolon-inside-quoted-list-item`: the entry was rejected because the `;` inside the quoted
string started a comment): the one string `v=DKIM1; k=rsa` loads. -/
theorem regression_semicolon_inside_quoted_list_item :
    loadedTxt (parse textSemicolonInsideQuotedListItem (some exampleCom)) =
      some [[[118, 61, 68, 75, 73, 77, 49, 59, 32, 107, 61, 114, 115, 97]]] :=
  observe_of_fuel (n := 80) (by decide +kernel)

/-- `a 60 IN TXT "\065bc"\n` -/
def textDecimalEscape : List Nat :=
  [97, 32, 54, 48, 32, 73, 78, 32, 84, 88, 84, 32, 34, 92, 48, 54, 53, 98, 99, 34, 10]

/-- **finding (iii), class `decimal-escape-arithmetic`**: `\065` denotes the octet 65 (`A`); the
code computes `(0<<16)+(6<<8)+5 = U+0605` and stores its UTF-8 bytes `d8 85`. -/
theorem finding_decimal_escape :
    (scan textDecimalEscape).decimalEscape = true ∧
    loadedTxt (parse textDecimalEscape (some exampleCom)) = some [[[216, 133, 98, 99]]] :=
  ⟨by decide, observe_of_fuel (n := 80) (by decide +kernel)⟩

/-- `a_b 60 IN A 1.2.3.4\n` -/
def textNameNotLdh : List Nat :=
  [97, 95, 98, 32, 54, 48, 32, 73, 78, 32, 65, 32, 49, 46, 50, 46, 51, 46, 52, 10]

/-- **finding (iv), class `name-label-not-ldh`**: the owner `a_b.example.com.` is a legal domain
name; the zone file stating it is rejected (IDNA/STD3 refuses `_` inside a label). -/
theorem finding_name_label_not_ldh :
    nameNotLdh { labels := [[97, 95, 98], [101, 120, 97, 109, 112, 108, 101], [99, 111, 109]], fqdn := true } = true ∧
    parse textNameNotLdh (some exampleCom) = .err :=
  ⟨by decide, eq_err_of_isErr (observe_of_fuel (n := 80) (by decide +kernel))⟩

/-- `a\;b 60 IN A 1.2.3.4\n` — **finding (v), class `escaped-semicolon-in-item`**: the escaped
`;` is not honoured in a contiguous item — the item ends at the `;`, the rest of the line is taken
as a comment and **no record is loaded, without any error**. -/
def textEscapedSemicolonInName : List Nat :=
  [97, 92, 59, 98, 32, 54, 48, 32, 73, 78, 32, 65, 32, 49, 46, 50, 46, 51, 46, 52, 10]

theorem finding_escaped_semicolon_drops_record :
    nameHasSemicolon { labels := [[97, 59, 98], [101, 120, 97, 109, 112, 108, 101], [99, 111, 109]], fqdn := true } = true ∧
    loadedCount (parse textEscapedSemicolonInName (some exampleCom)) = some 0 :=
  ⟨by decide, observe_of_fuel (n := 80) (by decide +kernel)⟩

/-- the same strings in a layout inside `File.ok` load as denoted: `a 60 IN TXT ( hello world )` -/
theorem good_group_loads :
    loadedTxt (parse [97, 32, 54, 48, 32, 73, 78, 32, 84, 88, 84, 32, 40, 32, 104, 101, 108, 108, 111,
      32, 119, 111, 114, 108, 100, 32, 41, 10] (some exampleCom)) =
      some [[[104, 101, 108, 108, 111], [119, 111, 114, 108, 100]]] :=
  observe_of_fuel (n := 80) (by decide +kernel)

end HickoryVerif.C20

namespace HickoryVerif.C20
open HickoryVerif HickoryVerif.ZoneLex HickoryVerif.ZoneParse HickoryVerif.Spec.MasterFile

/-! ## exactly those records; names; character strings -/

/-- **A rendered file loads to exactly the records it states** — one singleton record set per
stated record, in file order, and the origin the reader ends with — when, in addition to the
hypotheses of `parse_render_partial`, every stated record has RDATA that `from_tokens` accepts
(`mapM setOf = some …`) and the stated records have pairwise distinct (owner, type).
(Several records per RRset go through `RecordSet::insert`, which is modelled and validated by the
correspondence run but not characterised by a theorem.) -/
theorem loads_exactly_partial (o o' : Name) (ls : List SLine) (st' : RState) (es : List Entry)
    (sets : List (Key × RSet))
    (hlex : File.ok (ls.map SLine.line) = true)
    (hread : readFile { origin := some { o with fqdn := true } } ls = some (st', es))
    (hnames : FileNamesOK { origin := some { o with fqdn := true } } ls)
    (hsets : es.mapM setOf = some sets) (hnd : (sets.map Prod.fst).Nodup)
    (ho : st'.origin = some o') :
    parse (render (ls.map SLine.line)) (some o) = .ok (o', sets) := by
  rw [parse_render_partial o ls st' es hlex hread hnames,
    storeAll_distinct es [] sets hsets (by simpa using hnd)]
  simp [ho]

/-- **…and with several records per RRset**: when every stated record is new to its RRset when
its turn comes (`AllNew`, decidable: no record of the RRset so far has equal data, and SOA / CNAME
/ ANAME sets stay singletons), the file loads to the stated records grouped by (owner, type) in
order of first appearance — each RRset in file order, carrying the TTL of its last record
(`addRec`).  Outside `AllNew` the code replaces / ignores / refuses records (RFC 2136 §1.1.5
rules in `RecordSet::insert`): modelled, validated by the correspondence run, no theorem. -/
theorem loads_rrsets_partial (o o' : Name) (ls : List SLine) (st' : RState) (es : List Entry)
    (ps : List (RType × Rec))
    (hlex : File.ok (ls.map SLine.line) = true)
    (hread : readFile { origin := some { o with fqdn := true } } ls = some (st', es))
    (hnames : FileNamesOK { origin := some { o with fqdn := true } } ls)
    (hrecs : es.mapM recOf = some ps) (hnew : AllNew [] ps)
    (ho : st'.origin = some o') :
    parse (render (ls.map SLine.line)) (some o) = .ok (o', ps.foldl addRec []) := by
  rw [parse_render_partial o ls st' es hlex hread hnames,
    storeAll_allNew es ps [] (by intro k rs h; simp at h) hrecs hnew]
  simp [ho]

/-- ```
    www 60 A 1.2.3.4
        60 A 5.6.7.8
    ``` : one RRset with two records -/
def twoAs : List SLine :=
  [ .rr ⟨.name wWWW nWWW, [([32], [54, 48])], ([32], [65]), [.item [32] (.word [49, 46, 50, 46, 51, 46, 52])], ⟨[], none, 0⟩⟩,
    .rr ⟨.inherit 9, [([32], [54, 48])], ([32], [65]), [.item [32] (.word [53, 46, 54, 46, 55, 46, 56])], ⟨[], none, 0⟩⟩ ]

example : parse (render (twoAs.map SLine.line)) (some exampleCom) =
    .ok (exampleCom,
      [ (keyOf nWWW .a, (⟨nWWW, RType.a, 1, 60,
          [⟨nWWW, 1, 60, .a [1, 2, 3, 4]⟩, ⟨nWWW, 1, 60, .a [5, 6, 7, 8]⟩]⟩ : RSet)) ]) := by
  exact loads_rrsets_partial exampleCom exampleCom twoAs
    { origin := some exampleCom, owner := some nWWW, lastTtl := some 60 }
    [ { owner := nWWW, cls := 1, ttl := 60, typ := 1, origin := some exampleCom, rdata := [[49, 46, 50, 46, 51, 46, 52]] },
      { owner := nWWW, cls := 1, ttl := 60, typ := 1, origin := some exampleCom, rdata := [[53, 46, 54, 46, 55, 46, 56]] } ]
    [ (.a, ⟨nWWW, 1, 60, .a [1, 2, 3, 4]⟩), (.a, ⟨nWWW, 1, 60, .a [5, 6, 7, 8]⟩) ]
    (by decide) (by decide) (by unfold FileNamesOK; decide) (by decide) (by decide) rfl

/-- the sample zone of above, through the theorem: two record sets, `www TXT "a" "b; b" "c d"` with
the `$TTL` and `www A 1.2.3.4` with its own TTL and the inherited owner -/
example : parse (render (sampleZone.map SLine.line)) (some exampleCom) =
    .ok (exampleCom,
      [ (keyOf nWWW .txt, RSet.ofRec .txt ⟨nWWW, 1, 300, .txt [[97], [98, 59, 32, 98], [99, 32, 100]]⟩),
        (keyOf nWWW .a, RSet.ofRec .a ⟨nWWW, 1, 60, .a [1, 2, 3, 4]⟩) ]) := by
  exact loads_exactly_partial exampleCom exampleCom sampleZone
    { origin := some exampleCom, owner := some nWWW, dflt := some 300, lastTtl := some 60 }
    [ { owner := nWWW, cls := 1, ttl := 300, typ := 16, origin := some exampleCom, rdata := [[97], [98, 59, 32, 98], [99, 32, 100]] },
      { owner := nWWW, cls := 1, ttl := 60, typ := 1, origin := some exampleCom, rdata := [[49, 46, 50, 46, 51, 46, 52]] } ]
    _ (by decide) (by decide) (by unfold FileNamesOK; decide) (by decide) (by decide) rfl

/-- **An absolute host-style name, written label by label with dots, parses to exactly that
name**: discharges `FileNamesOK` for such owners and `$ORIGIN` arguments. -/
theorem name_absolute (ls : List (List Nat)) (o : Option Name) (hne : ls ≠ [])
    (hl : ls.all hostLabel = true) (hlen : labelsLen ls + 1 ≤ 255) :
    parseName (dotted ls) o = .ok { labels := ls, fqdn := true } :=
  parseName_host ls o hne hl hlen

/-- **A relative host-style name denotes its labels followed by the origin's.** -/
theorem name_relative (init : List (List Nat)) (last : List Nat) (o : Name)
    (hl : (init ++ [last]).all hostLabel = true)
    (hlen : labelsLen (init ++ [last]) + labelsLen o.labels + 1 ≤ 255) :
    parseName (dotted init ++ last) (some o) = .ok { labels := init ++ [last] ++ o.labels, fqdn := true } :=
  parseName_host_relative init last o hl hlen

example : parseName (dotted [[119, 119, 119], [99, 111, 109]]) none =
    .ok { labels := [[119, 119, 119], [99, 111, 109]], fqdn := true } :=
  name_absolute _ _ (by decide) (by decide) (by decide)

/-- **TXT**: the RDATA of a TXT entry is its character strings, as they are (ASCII strings
byte for byte). -/
theorem txt_rdata (vals : List (List Nat)) (o : Option Name) (h : ∀ v ∈ vals, ∀ c ∈ v, c < 128) :
    rdataFromTokens .txt vals o = .ok (.txt vals) := by
  have hu : ∀ v : List Nat, (∀ c ∈ v, c < 128) → utf8 v = v := by
    intro v hv
    induction v with
    | nil => rfl
    | cons c v ih =>
      have hc : c < 128 := hv c (by simp)
      have := ih (fun c hc => hv c (by simp [hc]))
      simp only [utf8, List.map_cons, List.flatten_cons] at this ⊢
      rw [this]; simp [utf8Char, hc]
  have : vals.map utf8 = vals := by
    have : ∀ v ∈ vals, utf8 v = id v := fun v hv => hu v (h v hv)
    rw [List.map_congr_left this, List.map_id]
  simp [rdataFromTokens, this]

end HickoryVerif.C20

namespace HickoryVerif.C20
open HickoryVerif HickoryVerif.ZoneLex HickoryVerif.ZoneParse HickoryVerif.Spec.MasterFile

/-! ## names at the 255-octet limit, and the same relative text across `$ORIGIN` changes

Two layouts a loader can get wrong without any other test noticing (seeded changes C20-1, C20-2):
both are inside `parse_render_partial` — lines are read independently, every name against the
origin in force where it is written. -/

/-- a file with one `<rr>` line whose owner is stated: its only name use is that owner -/
theorem fileNamesOK_single_rr (st : RState) (r : RRLine) (w : List Nat) (n : Name)
    (ho : r.owner = .name w n) (h : parseName w st.origin = .ok n) : FileNamesOK st [.rr r] := by
  intro u hu
  unfold nameUses at hu
  simp only [ho] at hu
  have hu' : u = (w, n, st.origin) := by
    split at hu <;> simpa [nameUses] using hu
  subst hu'
  exact h

def l63 (c : Nat) : List Nat := List.replicate 63 c
def l49 : List Nat := List.replicate 49 100

/-- `aaa…(63).bbb…(63).ccc…(63).ddd…(49)` : with `example.com.` exactly 255 octets on the wire -/
def relOwner255 : List Nat := dotted [l63 97, l63 98, l63 99] ++ l49
def absOwner255 : Name :=
  { labels := [l63 97, l63 98, l63 99] ++ [l49] ++ exampleCom.labels, fqdn := true }

example : absOwner255.encodedLen = 255 := by decide

/-- the relative text parses to the 255-octet name (by the general theorem, not by evaluation) -/
theorem relOwner255_parses : parseName relOwner255 (some exampleCom) = .ok absOwner255 :=
  name_relative [l63 97, l63 98, l63 99] l49 exampleCom (by decide +kernel) (by decide +kernel)

/-- `<relOwner255> 60 A 1.2.3.4` -/
def zone255 : List SLine :=
  [ .rr ⟨.name relOwner255 absOwner255, [([32], [54, 48])], ([32], [65]),
         [.item [32] (.word [49, 46, 50, 46, 51, 46, 52])], ⟨[], none, 0⟩⟩ ]

/-- **a relative owner whose absolute form is exactly 255 octets loads** (through
`loads_exactly_partial`; the name hypothesis is discharged by `name_relative`) -/
theorem relative_owner_of_255_octets_loads :
    parse (render (zone255.map SLine.line)) (some exampleCom) =
      .ok (exampleCom, [ (keyOf absOwner255 .a, RSet.ofRec .a ⟨absOwner255, 1, 60, .a [1, 2, 3, 4]⟩) ]) :=
  loads_exactly_partial exampleCom exampleCom zone255
    { origin := some exampleCom, owner := some absOwner255, lastTtl := some 60 }
    [ { owner := absOwner255, cls := 1, ttl := 60, typ := 1, origin := some exampleCom,
        rdata := [[49, 46, 50, 46, 51, 46, 52]] } ]
    _ (by decide +kernel) (by decide +kernel)
    (fileNamesOK_single_rr _ _ _ _ rfl relOwner255_parses) (by decide +kernel) (by decide +kernel) rfl

def nOther : Name := { labels := [[111, 116, 104, 101, 114]], fqdn := true }                 -- other.
def nXExample : Name := { labels := [[120], [101, 120, 97, 109, 112, 108, 101], [99, 111, 109]], fqdn := true }
def nXOther : Name := { labels := [[120], [111, 116, 104, 101, 114]], fqdn := true }

/-- ```
    x 60 A 1.1.1.1
    $ORIGIN other. ; c
    x 60 A 2.2.2.2
      60 TXT t
    ``` : the same relative owner text before and after `$ORIGIN`, then an inherited owner -/
def zoneSwitch : List SLine :=
  [ .rr ⟨.name [120] nXExample, [([32], [54, 48])], ([32], [65]), [.item [32] (.word [49, 46, 49, 46, 49, 46, 49])], ⟨[], none, 0⟩⟩,
    .origin [32] [111, 116, 104, 101, 114, 46] nOther ⟨[32], some [32, 99], 0⟩,
    .rr ⟨.name [120] nXOther, [([32], [54, 48])], ([32], [65]), [.item [32] (.word [50, 46, 50, 46, 50, 46, 50])], ⟨[], none, 0⟩⟩,
    .rr ⟨.inherit 32, [([32], [54, 48])], ([32], [84, 88, 84]), [.item [32] (.word [116])], ⟨[], none, 0⟩⟩ ]

/-- **the same relative owner text denotes a different name after `$ORIGIN`, and inherited-owner
lines follow the new one** (through `loads_exactly_partial`) -/
theorem same_relative_owner_after_origin_change :
    parse (render (zoneSwitch.map SLine.line)) (some exampleCom) =
      .ok (nOther,
        [ (keyOf nXExample .a, RSet.ofRec .a ⟨nXExample, 1, 60, .a [1, 1, 1, 1]⟩),
          (keyOf nXOther .a, RSet.ofRec .a ⟨nXOther, 1, 60, .a [2, 2, 2, 2]⟩),
          (keyOf nXOther .txt, RSet.ofRec .txt ⟨nXOther, 1, 60, .txt [[116]]⟩) ]) :=
  loads_exactly_partial exampleCom nOther zoneSwitch
    { origin := some nOther, owner := some nXOther, lastTtl := some 60 }
    [ { owner := nXExample, cls := 1, ttl := 60, typ := 1, origin := some exampleCom, rdata := [[49, 46, 49, 46, 49, 46, 49]] },
      { owner := nXOther, cls := 1, ttl := 60, typ := 1, origin := some nOther, rdata := [[50, 46, 50, 46, 50, 46, 50]] },
      { owner := nXOther, cls := 1, ttl := 60, typ := 16, origin := some nOther, rdata := [[116]] } ]
    _ (by decide) (by decide) (by unfold FileNamesOK; decide) (by decide) (by decide) rfl

end HickoryVerif.C20

namespace HickoryVerif.C20
open HickoryVerif HickoryVerif.ZoneLex HickoryVerif.ZoneParse HickoryVerif.Spec.MasterFile

/-! ## data fields made of "all remaining items, concatenated" (TLSA, SMIMEA, DS)

RFC 6698 §2.2 / RFC 8162 §2 / RFC 4034 §5.3: the hexadecimal data may be divided by white space
anywhere — on one line, or over parenthesised continuation lines with comments.  The lexer part of
that is `lex_render` (each piece is an item, a group is its items); the RDATA part is: -/

/-- **split invariance**: the RDATA of a TLSA / SMIMEA / DS entry depends on the data items only
through their concatenation — re-splitting the hex text at any offsets (odd ones included, into any
number of pieces) gives the same RDATA, and the same error if it is one. -/
theorem split_invariance (t : RType) (ht : t = .tlsa ∨ t = .smimea ∨ t = .ds) (a b c : List Nat)
    (ts ts' : List (List Nat)) (o : Option Name) (h : ts.flatten = ts'.flatten) :
    rdataFromTokens t (a :: b :: c :: ts) o = rdataFromTokens t (a :: b :: c :: ts') o := by
  rcases ht with rfl | rfl | rfl <;> (simp only [rdataFromTokens, nextTok, ZR.bind_ok, joinToks, h]; try rfl)

/-- in particular the split form equals the unsplit form -/
theorem split_eq_unsplit (t : RType) (ht : t = .tlsa ∨ t = .smimea ∨ t = .ds) (a b c : List Nat)
    (ts : List (List Nat)) (o : Option Name) :
    rdataFromTokens t (a :: b :: c :: ts) o = rdataFromTokens t [a, b, c, ts.flatten] o :=
  split_invariance t ht a b c ts [ts.flatten] o (by simp)

/-- **split invariance for CERT** (RFC 4398 §2.2: the base64 text "may be divided into any number
of white-space-separated substrings, down to single base-64 digits"; repaired by 1479f5a): with at
least one data item on both sides, the RDATA depends on the items only through their
concatenation. -/
theorem split_invariance_cert (a b c : List Nat) (ts ts' : List (List Nat)) (o : Option Name)
    (hne : ts ≠ []) (hne' : ts' ≠ []) (h : ts.flatten = ts'.flatten) :
    rdataFromTokens .cert (a :: b :: c :: ts) o = rdataFromTokens .cert (a :: b :: c :: ts') o := by
  have e1 : ts.isEmpty = false := by cases ts <;> simp_all
  have e2 : ts'.isEmpty = false := by cases ts' <;> simp_all
  simp only [rdataFromTokens, nextTok, ZR.bind_ok, joinToks, h, e1, e2]

/-- `QUJDREVG` = `ABCDEF`, whole or as `Q`, `UJ`, `DREVG` (a single digit, pieces that are not whole
quanta) -/
example : rdataFromTokens .cert [[49], [50], [51], [81], [85, 74], [68, 82, 69, 86, 71]] none =
    .ok (.cert 1 2 3 [65, 66, 67, 68, 69, 70]) := by decide

/-- ```
    www 60 TLSA 3 1 1 ( a1b ; odd
         2c3 d4 )
    ``` : the data `a1b2c3d4` split at odd offsets over a group with a comment -/
def zoneTlsaSplit : List SLine :=
  [ .rr ⟨.name wWWW nWWW, [([32], [54, 48])], ([32], [84, 76, 83, 65]),
         [.item [32] (.word [51]), .item [32] (.word [49]), .item [32] (.word [49]),
          .group [32] [([.ws 32], .word [97, 49, 98]),
                       ([.ws 32, .comment [32, 111, 100, 100], .ws 32], .word [50, 99, 51]),
                       ([.ws 32], .word [100, 52])] [.ws 32]], ⟨[], none, 0⟩⟩ ]

/-- the split data loads to the bytes `a1 b2 c3 d4` (through `loads_exactly_partial`) -/
theorem tlsa_split_data_loads :
    parse (render (zoneTlsaSplit.map SLine.line)) (some exampleCom) =
      .ok (exampleCom, [ (keyOf nWWW .tlsa, RSet.ofRec .tlsa ⟨nWWW, 1, 60, .tlsa false 3 1 1 [161, 178, 195, 212]⟩) ]) :=
  loads_exactly_partial exampleCom exampleCom zoneTlsaSplit
    { origin := some exampleCom, owner := some nWWW, lastTtl := some 60 }
    [ { owner := nWWW, cls := 1, ttl := 60, typ := 52, origin := some exampleCom,
        rdata := [[51], [49], [49], [97, 49, 98], [50, 99, 51], [100, 52]] } ]
    _ (by decide) (by decide) (by unfold FileNamesOK; decide) (by decide) (by decide) rfl

end HickoryVerif.C20
