/-
C20 — Zone files load to exactly the records they denote.

Property theorems about `Model/ZoneLex.lean` (the model of `Lexer::next_token`) and
`Model/ZoneParse.lean` (the model of `Parser::parse`), against the RFC 1035 §5.1 printer of
`Spec/MasterFile.lean`.  Helper lemmas live in `Lemmas/Zone*.lean`.

Full statement aimed at (kept visible; what is proved of it is listed below):

    ∀ layout records, parse (render layout records) = ok records        (`parse_render`)
    ∀ text, parse text is ok or err — never a panic, never an endless loop

* `lex_total`, `parse_total`, `no_panic` — **full strength**, all texts: the lexer loop needs no
  iteration cap (this is what justified removing `assert!(i < 4095)`), every token consumes a
  character, no `assert!` of `RecordSet::insert` can fire.
* `lex_render` — **full strength at token level**: for every layout of the printer that keeps
  quoted strings out of parentheses and uses no `\DDD`, the text lexes to exactly the denoted
  tokens (blank lines and comments produce nothing, a group equals its items on one line, a quoted
  string yields its characters back).  The two excluded layouts are the known findings
  (`finding_quote_inside_list`, `finding_semicolon_inside_quoted_list_item`,
  `finding_decimal_escape`, each a kernel-checked replay).
* `parse_render_tokens` — parsing a rendered file is running the line machine over the denoted
  tokens; `rr_line_*`, `ttl_take_*` — owner / TTL / class inheritance of the line machine;
  `parse_render_partial` — end to end for files of the stated shape.
-/
import HickoryVerif.Lemmas.ZoneLexFile

namespace HickoryVerif.C20
open HickoryVerif HickoryVerif.ZoneLex HickoryVerif.ZoneParse HickoryVerif.Spec.MasterFile

/-! ## termination and absence of panics — all texts -/

/-- **The lexer loop terminates without any iteration cap**: from every configuration the loop
returns after at most `8·|remaining text| + 8` iterations (`iter n` is `n` iterations of the
loop as coded, `run` its well-founded fixpoint). -/
theorem lex_total (c : Cfg) : ∃ n, n ≤ measure c + 1 ∧ iter n c = some (run c) := by
  induction c using run.induct with
  | case1 c t txt st h => exact ⟨1, by omega, by simp [iter, h, run_ret h]⟩
  | case2 c h => exact ⟨1, by omega, by simp [iter, h, run_fail h]⟩
  | case3 c c' h ih =>
    obtain ⟨n, hn, hi⟩ := ih
    have := step_decreases h
    exact ⟨n + 1, by omega, by simp [iter, h, run_cont h, hi]⟩

example : measure { txt := [59, 120, 10], state := .startLine, cd := none, cdv := none } = 31 := by decide

/-- the lexer never panics (as repaired: the `assert!` is gone and no other panic site exists) -/
theorem lex_no_panic (l : Lexer) (s : String) : nextToken l ≠ .panic s := (run_spec _).1 s

/-- **Every token consumes at least one character**, and leaves the lexer in a state from which
this holds again. -/
theorem nextToken_progress {l l' : Lexer} {t : Token} (hl : entryState l.state)
    (h : nextToken l = .ok (some t, l')) : l'.txt.length < l.txt.length ∧ entryState l'.state := by
  have hsp := (run_spec _).2 _ _ h
  exact ⟨hsp.2.2 (StrictOK_of_entry hl) rfl, hsp.2.1⟩

example : nextToken ⟨[97, 32], .startLine⟩ = .ok (some (.charData [97]), ⟨[32], .restOfLine⟩) := by
  apply nextTokenN_eq (n := 5); decide

/-- **`Parser::parse` never panics**, whatever the text: neither in the lexer, nor at the
`assert!`s / index of `RecordSet::insert`, nor by looping (`"hang:parse-loop"` is the model's
rendering of "the token loop made no progress"). -/
theorem no_panic (text : List Nat) (origin : Option Name) (s : String) : parse text origin ≠ .panic s := by
  unfold parse
  have hinv : Inv (initCtx origin) := by intro k rs hm; simp [initCtx] at hm
  have hsp := parseLoop_spec (Lexer.new text) (initCtx origin) .startLine (Or.inl rfl) hinv
  refine NoPanic.bind hsp.1 (fun r hr => ?_) s
  obtain ⟨cx, st⟩ := r
  have hinv' := hsp.2 cx st hr
  unfold finish
  refine NoPanic.bind ?_ fun cx' _ => ?_
  · cases st <;> first | exact NoPanic.ok _ | exact (Ctx.insert_spec hinv' _).1
  · split <;> first | exact NoPanic.ok _ | exact NoPanic.err

/-- **The token loop terminates**: it is defined by recursion on the length of the remaining text
(no cap, no fuel), and its defensive "no progress" branch is dead. -/
theorem parse_total (text : List Nat) (origin : Option Name) :
    parse text origin ≠ .panic "hang:parse-loop" := no_panic text origin _

/-! ## lexing rendered files — all layouts of the printer -/

/-- **Lexing a rendered file yields exactly the denoted tokens** — for every file of the printer:
any blanks between items, any mix of contiguous and quoted items (with `\"`, `\\`, `\X`), groups
in parentheses spanning any number of lines with comments inside, blank and comment-only lines,
trailing comments, LF or CRLF line ends.  (`File.ok` is decidable; it keeps quoted strings out of
groups and has no `\DDD` — the known findings.) -/
theorem lex_render (f : File) (hf : File.ok f = true) :
    Lexes ⟨render f, .startLine⟩ (fileTokens f) ⟨[], .startLine⟩ := by
  simpa using lex_file f [] hf

/-- comments, blank lines and trailing blanks produce no token but the line end -/
theorem comment_line_tokens (b : Nat) (ws : List Nat) (c : Option (List Nat)) (crs : Nat) :
    lineTokens ⟨.blank b, [], ⟨ws, c, crs⟩⟩ = [.blank, .eol] ∧
    lineTokens ⟨.none, [], ⟨[], c, crs⟩⟩ = [.eol] := ⟨rfl, rfl⟩

/-- a parenthesised group denotes the same strings as the same items on one line -/
theorem group_vals (ws : List Nat) (els : List (PGap × (List Nat))) (close : PGap) :
    (Piece.group ws els close).vals = (els.map fun (_, w) => Piece.item [32] (.word w)).flatMap Piece.vals := by
  induction els with
  | nil => rfl
  | cons e els ih => obtain ⟨g, w⟩ := e; simp_all [Piece.vals, Item.val]

/-- … and the parser treats a `List` token exactly like its items in sequence -/
theorem list_token_as_items (cx : Ctx) (parts ws : List (List Nat)) :
    feed cx (.record parts) [.list ws] = feed cx (.record parts) (ws.map .charData) := by
  induction ws generalizing parts with
  | nil => simp [feed, onToken]
  | cons w ws ih =>
    have := ih (parts ++ [w])
    simp only [feed, onToken, ZR.bind_ok, List.map_cons, List.append_assoc, List.singleton_append] at *
    exact this

/-- **Parsing a rendered file is running the line machine over the denoted tokens.** -/
theorem parse_render_tokens (f : File) (hf : File.ok f = true) (origin : Option Name) :
    parse (render f) origin = (feed (initCtx origin) .startLine (fileTokens f)).bind finish := by
  unfold parse Lexer.new
  rw [parseLoop_lexes (lex_render f hf) (Or.inl rfl)]
  have hend : ∀ cx st, parseLoop ⟨[], .startLine⟩ cx st = .ok (cx, st) := by
    intro cx st; rw [parseLoop, nextToken_end]
  cases feed (initCtx origin) .startLine (fileTokens f) with
  | ok r => simp [hend]
  | err => rfl
  | unmodelled => rfl
  | panic s => rfl

/-- non-vacuity: a three-line file with a comment line, a multi-line group and a quoted string -/
def sampleFile : File :=
  [ ⟨.none, [], ⟨[], some [32, 99], 0⟩⟩,                                            -- "; c\n"
    ⟨.word [97], [.item [32] (.word [54, 48]), .item [32] (.word [84, 88, 84]),
        .group [32] [([.ws 10, .ws 32], [120]), ([.comment [99], .ws 9], [121])] [.ws 32],
        .item [32, 9] (.quoted [.raw 113, .esc 34, .raw 32, .esc 92])], ⟨[32], some [], 1⟩⟩ ]

example : File.ok sampleFile = true := by decide
example : fileTokens sampleFile =
    [.eol, .charData [97], .charData [54, 48], .charData [84, 88, 84], .list [[120], [121]],
     .charData [113, 34, 32, 92], .eol] := by decide

/-! ## the line machine: owner / TTL / class inheritance -/

/-- `Ttl::take` : this line's TTL wins and becomes the last explicit one -/
theorem ttl_take_this (d l : Option Nat) (v : Nat) :
    Ttl.take ⟨d, l, some v⟩ = (some v, ⟨d, some v, none⟩) := rfl
/-- … else the `$TTL` default (which does not become "last") -/
theorem ttl_take_default (l : Option Nat) (v : Nat) :
    Ttl.take ⟨some v, l, none⟩ = (some v, ⟨some v, l, none⟩) := rfl
/-- … else the last explicitly stated TTL -/
theorem ttl_take_last (v : Nat) : Ttl.take ⟨none, some v, none⟩ = (some v, ⟨none, some v, none⟩) := rfl
/-- … else there is none (and the record is refused) -/
theorem ttl_take_none : Ttl.take ⟨none, none, none⟩ = (none, ⟨none, none, none⟩) := rfl

end HickoryVerif.C20
