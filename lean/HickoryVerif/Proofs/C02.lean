/-
C02 — encode/decode round trip.  STAGE 1: the encoder core and name compression.

Property theorems about the model of `BinEncoder` (`Model/Encoder.lean`) and of `Name::emit`
(`Model/NameEmit.lean`) against the model of the decoder's `Name::read` (`Model/NameWire.lean`):

* `readName_append`      decoding at an offset is unaffected by appending bytes (any buffer);
* `PtrInv` / `PtrInvH`   the invariant of the compression-candidate table (defined in
                         `Lemmas/NameEmitLemmas.lean`), preserved by appending bytes
                         (`ptrInvH_emitSlice`), `trim` (`ptrInvH_trim`), `Rollback`
                         (`ptrInvH_rollback`), `place` (`ptrInvH_place`), overwriting reserved
                         non-name bytes / `Place::replace` (`ptrInvH_overwrite`,
                         `ptrInvH_placeReplace`) and by `Name::emit` itself;
* `emitName_readName`    for EVERY encoder state satisfying the invariant (any number of candidates,
                         any `compressed_name_count`, any offset, any mode, any `max_size`) and every
                         well-formed name: if `Name::emit` succeeds, `Name::read` at the start offset
                         yields the same labels — letter case preserved in `Compressed` /
                         `Uncompressed` mode, lower-cased in `UncompressedLowercase` mode — as an fqdn
                         name, ends exactly at the new offset, and the invariant holds again;
* `emitName_len`         at most 255 octets are written, within `max_size`, appended to the old buffer;
* `emitName_no_panic`    none of the `assert!`/slice/subtraction panic sites of `Name::emit` is reachable from
                         the appending state when `max_size ≤ 65535`;
* `LaidH` …              `emitName_laidH`, `LaidH.append/overwrite/mono`, `readName_of_LaidH`: the form in
                         which "this name decodes here" survives later appends and back-patches
                         (interface for the message-level proof of stage 2);
* `InvPreserving`        emitters that keep the invariant, closed under `?`-sequencing, the mode guards
                         and the RDLENGTH place/back-patch pattern (`invPreserving_*`): the building
                         blocks from which `Record::emit` is assembled in stage 2;
* `emitNames_readName`   emitting any list of (mode, name) pairs one after another from the empty
                         encoder: every one of them decodes back at its own start offset from the
                         final buffer.

Message-level round trip (`decode_encode`, `reencode_stable`, `rdata_preserved`) is stage 2.
-/
import HickoryVerif.Lemmas.NameEmitLemmas
import HickoryVerif.Model.EncoderCombinators

namespace HickoryVerif.C02
open HickoryVerif HickoryVerif.Name

theorem getElem?_append_some {buf x : Bytes} {i b : Nat} (h : buf[i]? = some b) : (buf ++ x)[i]? = some b := by
  have := (List.getElem?_eq_some_iff.1 h).1
  rw [List.getElem?_append_left this]; exact h

theorem readLabels_append (buf x : Bytes) (pos ns : Nat) (pm : Option Nat) (acc : Name) :
    ∀ r, readLabels buf pos ns pm acc = .ok r → readLabels (buf ++ x) pos ns pm acc = .ok r := by
  fun_induction readLabels buf pos ns pm acc
  all_goals intro r h
  all_goals try (cases h; done)
  all_goals try (simp at h; done)
  case case3 pos ns pm acc hg hb =>
    rw [readLabels.eq_def, if_neg hg]
    simp only [getElem?_append_some hb, ↓reduceIte]
    exact h
  case case6 pos ns pm acc hg b0 hb0 hne h3 b1 hb1 loc hlt hnp n p hrec ih =>
    rw [readLabels.eq_def, if_neg hg]
    simp only [getElem?_append_some hb0, getElem?_append_some hb1, hne, h3, ↓reduceIte]
    have hlt' : (b0 * 256 + b1) % 16384 < ns := hlt
    have hnp' : ¬ ((b0 * 256 + b1) % 16384 > (buf ++ x).length) := by
      have : ¬ ((b0 * 256 + b1) % 16384 > buf.length) := hnp
      simp only [List.length_append]; omega
    rw [dif_pos hlt', if_neg hnp', ih _ hrec]
    exact h
  case case10 pos ns pm acc hg b hb hne h3 h0 hfit acc' hext ih =>
    rw [readLabels.eq_def, if_neg hg]
    have hfit' : pos + 1 + b ≤ (buf ++ x).length := by simp only [List.length_append]; omega
    have hsl : ((buf ++ x).drop (pos + 1)).take b = (buf.drop (pos + 1)).take b := by
      rw [List.drop_append_of_le_length (by omega), List.take_append_of_le_length (by simp; omega)]
    simp only [getElem?_append_some hb, hne, ↓reduceIte]
    rw [if_neg h3, if_pos h0, dif_pos hfit', hsl, hext]
    exact ih _ h

/-- **Decoding at an offset is unaffected by appending bytes to the buffer** (any buffer, any
offset — not only encoder output). -/
theorem readName_append (buf x : Bytes) (pos : Nat) (r : Name × Nat)
    (h : readName buf pos = .ok r) : readName (buf ++ x) pos = .ok r := by
  unfold readName at h ⊢
  split at h
  · rename_i n p hl
    rw [readLabels_append buf x pos pos none Name.new _ hl]
    exact h
  · simp at h
  · simp at h

/-! ### `emitName_readName` -/

theorem emitted_encodedLen (e : Enc) (n : Name) : (emitted e n).encodedLen = n.encodedLen := by
  unfold emitted
  split
  · simp [Name.toLowercase, Name.encodedLen, Name.dataLen, Name.lowerLabel, Function.comp_def]
  · rfl

theorem flat_length_le_of_WF {n : Name} (hwf : n.WF) (e : Enc) :
    (flat (emitted e n).labels).length + 1 ≤ 255 := by
  have h1 := emitted_encodedLen e n
  have h2 := hwf.1
  have h3 := flat_length (emitted e n).labels
  simp only [Name.encodedLen, Name.dataLen] at h1 h2
  omega

/-- **Every emitted name decodes back.**  `e` is *any* encoder state in which the candidate table
satisfies `PtrInv` and which is in the appending state (`offset = buf.length`, the state every
hickory emitter runs in): more than 64 candidates, more than 120 compressed names, offsets at or
beyond 0x3FFF, any mode and any `max_size` are all included.  `emitted e n` is `n` itself except in
`UncompressedLowercase` mode, where it is `n.to_lowercase()`. -/
theorem emitName_readName (e e' : Enc) (n : Name) (hwf : n.WF) (happ : e.offset = e.buf.length)
    (hinv : PtrInv e) (h : Name.emit e n = .ok () e') :
    readName e'.buf e.offset = .ok ({ emitted e n with fqdn := true }, e'.offset) ∧
      PtrInv e' ∧ e'.offset = e'.buf.length := by
  have hp := emit_post (H := fun _ => True) hwf happ hinv (fun _ _ _ => trivial) h
  obtain ⟨F, hl, _⟩ := hp.laid
  exact ⟨readName_of_Laid hl (flat_length_le_of_WF hwf e), hp.inv, hp.app⟩

/-- letter case is preserved in `Compressed` and `Uncompressed` mode … -/
theorem emitName_readName_case_preserved (e e' : Enc) (n : Name) (hwf : n.WF)
    (happ : e.offset = e.buf.length) (hinv : PtrInv e)
    (hmode : e.nameEncoding ≠ .uncompressedLowercase) (h : Name.emit e n = .ok () e') :
    readName e'.buf e.offset = .ok ({ n with fqdn := true }, e'.offset) := by
  have := (emitName_readName e e' n hwf happ hinv h).1
  simpa [emitted, hmode] using this

/-- … and the name is lower-cased in `UncompressedLowercase` mode. -/
theorem emitName_readName_lowercase (e e' : Enc) (n : Name) (hwf : n.WF)
    (happ : e.offset = e.buf.length) (hinv : PtrInv e)
    (hmode : e.nameEncoding = .uncompressedLowercase) (h : Name.emit e n = .ok () e') :
    readName e'.buf e.offset = .ok ({ n.toLowercase with fqdn := true }, e'.offset) := by
  have := (emitName_readName e e' n hwf happ hinv h).1
  simpa [emitted, hmode] using this

/-- **A name occupies 1..255 octets, within `max_size`, appended to the old buffer**; the modes and
the limit are left as they were. -/
theorem emitName_len (e e' : Enc) (n : Name) (hwf : n.WF) (happ : e.offset = e.buf.length)
    (hinv : PtrInv e) (h : Name.emit e n = .ok () e') :
    e.offset < e'.offset ∧ e'.offset ≤ e.offset + 255 ∧ e'.buf.length ≤ e'.maxSize ∧
      e'.maxSize = e.maxSize ∧ (∃ x, e'.buf = e.buf ++ x) ∧
      e'.nameEncoding = e.nameEncoding ∧ e'.canonicalForm = e.canonicalForm := by
  have hp := emit_post (H := fun _ => True) hwf happ hinv (fun _ _ _ => trivial) h
  obtain ⟨F, hl, _⟩ := hp.laid
  have h1 := hl.pos_lt_end
  have h2 := hp.len
  have h3 := flat_length_le_of_WF hwf e
  have h4 := hp.fit
  have h5 := hp.app
  exact ⟨h1, by omega, by omega, hp.max, hp.ext, hp.ne, hp.canon⟩

/-- `Name::emit` preserves the invariant under any footprint condition `H` that admits every run
starting at or above the current offset (the runs the new name adds). -/
theorem emitName_ptrInvH {H : Nat × Nat → Prop} (e e' : Enc) (n : Name) (hwf : n.WF)
    (happ : e.offset = e.buf.length) (hinv : PtrInvH H e) (hH : ∀ a b, e.offset ≤ a → H (a, b))
    (h : Name.emit e n = .ok () e') : PtrInvH H e' :=
  (emit_post hwf happ hinv hH h).inv

/-! ### preservation of the invariant by the other encoder operations -/

/-- the condition on footprints may be exchanged for any other one that agrees on runs below the
current offset (all footprints lie below it) -/
theorem ptrInvH_mono {H H' : Nat × Nat → Prop} {e : Enc} (hinv : PtrInvH H e)
    (himp : ∀ iv : Nat × Nat, iv.1 < iv.2 → iv.2 ≤ e.offset → H iv → H' iv) : PtrInvH H' e := by
  intro p hp
  rcases hinv p hp with ⟨ls, en, F, h1, h2, h3, h4⟩ | hd
  · refine Or.inl ⟨ls, en, F, h1, h2, h3, fun iv hiv => ?_⟩
    have := h2.footprint_le (Nat.le_refl _) iv hiv
    exact himp iv this.1 (by omega) (h4 iv hiv)
  · exact Or.inr hd

/-- appending bytes past the end -/
theorem ptrInvH_emitSlice {H : Nat × Nat → Prop} (e e' : Enc) (d : Bytes)
    (happ : e.offset = e.buf.length) (hinv : PtrInvH H e) (h : e.emitSlice d = .ok () e') :
    PtrInvH H e' ∧ e'.offset = e'.buf.length ∧ e'.buf = e.buf ++ d ∧ e'.ptrs = e.ptrs := by
  rw [emitSlice_app _ _ happ] at h
  split at h
  · simp at h
  · simp only [ERes.ok.injEq, true_and] at h
    subst h
    refine ⟨fun p hp => hinv.old hp d rfl (by simp), by simp [happ], rfl, rfl⟩

/-- `trim` (a no-op on the buffer in the appending state; in general it cuts the buffer at the
offset, which lies above every footprint) -/
theorem ptrInvH_trim {H : Nat × Nat → Prop} (e : Enc) (hinv : PtrInvH H e) : PtrInvH H e.trim := by
  intro p hp
  rcases hinv p (List.mem_filter.1 hp).1 with ⟨ls, en, F, h1, h2, h3, h4⟩ | hd
  · refine Or.inl ⟨ls, en, F, h1, h2.frame (Nat.le_refl _) ?_, h3, h4⟩
    simp only [Enc.trim, List.take_take]
    rw [Nat.min_eq_left h3]
  · exact Or.inr hd

/-- `Rollback::rollback` to a point taken in state `e0`, from any later state `e` that kept the
bytes below `e0.offset` and the first `e0.ptrs.length` candidates -/
theorem ptrInvH_rollback {H : Nat × Nat → Prop} (e0 e : Enc) (hinv : PtrInvH H e0)
    (hbuf : e.buf.take e0.offset = e0.buf.take e0.offset)
    (hptrs : e.ptrs.take e0.ptrs.length = e0.ptrs) :
    PtrInvH H (Enc.rollback (Enc.rollbackPoint e0) e) := by
  intro p hp
  simp only [Enc.rollback, Enc.rollbackPoint, hptrs] at hp ⊢
  rcases hinv p hp with ⟨ls, en, F, h1, h2, h3, h4⟩ | hd
  · refine Or.inl ⟨ls, en, F, h1, h2.frame (Nat.le_refl _) ?_, h3, h4⟩
    rw [List.take_take, Nat.min_eq_left h3]
    have := congrArg (List.take en) hbuf
    simpa [List.take_take, Nat.min_eq_left h3] using this
  · exact Or.inr hd

/-- overwriting bytes that lie outside every run `H` admits (e.g. a reserved `Place`) -/
theorem ptrInvH_overwrite {H : Nat × Nat → Prop} (e : Enc) (b' : Bytes) (hinv : PtrInvH H e)
    (hsame : ∀ iv, H iv → ∀ i, iv.1 ≤ i → i < iv.2 → b'[i]? = e.buf[i]?) :
    PtrInvH H { e with buf := b' } := by
  intro p hp
  rcases hinv p hp with ⟨ls, en, F, h1, h2, h3, h4⟩ | hd
  · exact Or.inl ⟨ls, en, F, h1, h2.frame_footprint (Nat.le_refl _) (fun iv hiv => hsame iv (h4 iv hiv)), h3, h4⟩
  · exact Or.inr hd

/-- `place`: the reserved octets lie above every footprint, so the invariant holds with the extra
condition "the run does not touch the place" — which is what `ptrInvH_placeReplace` needs later. -/
theorem ptrInvH_place {H : Nat × Nat → Prop} (e e' : Enc) (len idx : Nat)
    (happ : e.offset = e.buf.length) (hinv : PtrInvH H e) (h : e.place len = .ok idx e') :
    idx = e.offset ∧ e'.offset = e'.buf.length ∧ e'.offset = e.offset + len ∧
      PtrInvH (fun iv => H iv ∧ (iv.2 ≤ idx ∨ idx + len ≤ iv.1)) e' := by
  rw [place_app _ _ happ] at h
  split at h
  · simp at h
  · simp only [ERes.ok.injEq] at h
    obtain ⟨rfl, rfl⟩ := h
    refine ⟨rfl, by simp [happ], rfl, ?_⟩
    have hinv' : PtrInvH (fun iv => H iv ∧ (iv.2 ≤ e.offset ∨ e.offset + len ≤ iv.1)) e :=
      ptrInvH_mono hinv (fun iv _ h2 h3 => ⟨h3, Or.inl h2⟩)
    exact fun p hp => hinv'.old hp (List.replicate len 0) rfl (by simp)

theorem getElem?_splice (b data : Bytes) (start len i : Nat) (hd : data.length = len)
    (hin : start + len ≤ b.length) (hi : i < start ∨ start + len ≤ i) :
    (b.take start ++ data ++ b.drop (start + len))[i]? = b[i]? := by
  rcases hi with hi | hi
  · rw [List.append_assoc, List.getElem?_append_left (by simp; omega), List.getElem?_take_of_lt hi]
  · rw [List.getElem?_append_right (by simp; omega)]
    simp only [List.length_append, List.length_take, List.getElem?_drop]
    congr 1
    omega

/-- **`Place::replace` of non-name bytes** (the RDLENGTH / header back-patch) preserves the
invariant when no admitted run touches the place. -/
theorem ptrInvH_placeReplace {H : Nat × Nat → Prop} (e e' : Enc) (start len : Nat) (data : Bytes)
    (hd : data.length = len) (hin : start + len ≤ e.buf.length) (hinv : PtrInvH H e)
    (havoid : ∀ iv, H iv → iv.2 ≤ start ∨ start + len ≤ iv.1)
    (h : e.placeReplace start len (fun x => x.emitSlice data) = .ok () e') :
    PtrInvH H e' ∧ e'.offset = e.offset ∧ e'.buf.length = e.buf.length ∧ e'.ptrs = e.ptrs := by
  have := placeReplace_spec e e' start len data hd hin h
  subst this
  refine ⟨ptrInvH_overwrite e _ hinv ?_, rfl, by simp; omega, rfl⟩
  intro iv hiv i h1 h2
  exact getElem?_splice e.buf data start len i hd hin (by have := havoid iv hiv; omega)

/-! ### names that stay decodable while the message is completed (for the message level) -/

/-- `ls` is laid out at offset `o` of `buf` (a run from `o` to `en`) with a footprint admitted by `H` -/
def LaidH (H : Nat × Nat → Prop) (buf : Bytes) (o : Nat) (ls : List Bytes) (en : Nat) : Prop :=
  ∃ F, Laid buf o o ls en F ∧ ∀ iv ∈ F, H iv

/-- what `Name::emit` leaves behind, in the form that survives later appends and back-patches -/
theorem emitName_laidH {H : Nat × Nat → Prop} (e e' : Enc) (n : Name) (hwf : n.WF)
    (happ : e.offset = e.buf.length) (hinv : PtrInvH H e) (hH : ∀ a b, e.offset ≤ a → H (a, b))
    (h : Name.emit e n = .ok () e') : LaidH H e'.buf e.offset (emitted e n).labels e'.offset :=
  (emit_post hwf happ hinv hH h).laid

theorem LaidH.append {H buf o ls en} (h : LaidH H buf o ls en) (x : Bytes) : LaidH H (buf ++ x) o ls en := by
  obtain ⟨F, h1, h2⟩ := h
  exact ⟨F, h1.append (Nat.le_refl _) x, h2⟩

/-- overwriting bytes outside every admitted run (a reserved `Place`) -/
theorem LaidH.overwrite {H buf o ls en} (h : LaidH H buf o ls en) (b' : Bytes)
    (hsame : ∀ iv, H iv → ∀ i, iv.1 ≤ i → i < iv.2 → b'[i]? = buf[i]?) : LaidH H b' o ls en := by
  obtain ⟨F, h1, h2⟩ := h
  exact ⟨F, h1.frame_footprint (Nat.le_refl _) (fun iv hiv => hsame iv (h2 iv hiv)), h2⟩

theorem LaidH.mono {H H' : Nat × Nat → Prop} {buf o ls en} (h : LaidH H buf o ls en)
    (himp : ∀ iv : Nat × Nat, iv.1 < iv.2 → iv.2 ≤ en → H iv → H' iv) : LaidH H' buf o ls en := by
  obtain ⟨F, h1, h2⟩ := h
  exact ⟨F, h1, fun iv hiv => by
    have := h1.footprint_le (Nat.le_refl _) iv hiv
    exact himp iv this.1 this.2 (h2 iv hiv)⟩

/-- a laid-out name of at most 255 octets is what `Name::read` returns at that offset -/
theorem readName_of_LaidH {H buf o ls en} (h : LaidH H buf o ls en) (hlen : (flat ls).length + 1 ≤ 255) :
    readName buf o = .ok ({ labels := ls, fqdn := true }, en) := by
  obtain ⟨F, h1, _⟩ := h
  exact readName_of_Laid h1 hlen

/-! ### `Name::emit` does not panic -/

theorem emitSlice_no_panic (e : Enc) (d : Bytes) (h : e.offset = e.buf.length) (s : String) :
    e.emitSlice d ≠ .panic s := by
  rw [emitSlice_app _ _ h]; split <;> simp

theorem emitCharacterData_no_panic (e : Enc) (l : Bytes) (h : e.offset = e.buf.length) (s : String) :
    e.emitCharacterData l ≠ .panic s := by
  unfold Enc.emitCharacterData Enc.emitU8
  by_cases hl : l.length > 255
  · simp [hl]
  · simp only [hl, ↓reduceIte]
    rw [emitSlice_app _ _ h]
    simp only [List.length_cons, List.length_nil, Nat.zero_add]
    by_cases hc : e.maxSize < e.offset + 1
    · simp [hc]
    · simp only [hc, ↓reduceIte]
      exact emitSlice_no_panic _ _ (by simp [h]) s

theorem emitCharacterData_fits {e e' : Enc} {l : Bytes} (h : e.offset = e.buf.length)
    (hl : l.length ≤ 63) (hok : e.emitCharacterData l = .ok () e') : e'.offset ≤ e.maxSize := by
  have he := emitCharacterData_ok h hl hok
  unfold Enc.emitCharacterData Enc.emitU8 at hok
  have hm : l.length % 256 = l.length := by omega
  rw [if_neg (by omega), emitSlice_app _ _ h, hm] at hok
  by_cases hc : e.maxSize < e.offset + 1
  · simp [hc] at hok
  · simp only [List.length_cons, List.length_nil, Nat.zero_add, hc, ↓reduceIte] at hok
    rw [emitSlice_app _ _ (by simp [h])] at hok
    by_cases hc2 : e.maxSize < e.offset + 1 + l.length
    · simp [hc2] at hok
    · rw [he]; simp only; omega

theorem emitLabels_no_panic : ∀ (ls : List Bytes) (e : Enc) (w : List Nat) (s : String),
    e.offset = e.buf.length → emitLabels e ls w ≠ .panic s
  | [], e, w, s, _ => by simp [emitLabels]
  | l :: ls, e, w, s, happ => by
    unfold emitLabels
    split
    · simp
    · rename_i hl
      cases hcd : e.emitCharacterData l with
      | ok u e' =>
        have := emitCharacterData_ok happ (by omega) hcd
        exact emitLabels_no_panic ls e' _ s (by rw [this]; simp [happ]; omega)
      | err k e' => simp
      | panic s' => exact absurd hcd (emitCharacterData_no_panic e l happ s')

theorem emitLabels_fits : ∀ (ls : List Bytes) (e : Enc) (w w' : List Nat) (e1 : Enc),
    e.offset = e.buf.length → (∀ l ∈ ls, l.length ≤ 63) → ls ≠ [] → emitLabels e ls w = .ok w' e1 →
    e1.offset ≤ e.maxSize
  | [], _, _, _, _, _, _, hne, _ => absurd rfl hne
  | l :: ls, e, w, w', e1, happ, hl, _, h => by
    rw [emitLabels, if_neg (by have := hl l (by simp); omega)] at h
    cases hcd : e.emitCharacterData l with
    | ok u e' =>
      rw [hcd] at h
      have he' := emitCharacterData_ok happ (hl l (by simp)) hcd
      have hfit := emitCharacterData_fits happ (hl l (by simp)) hcd
      cases ls with
      | nil => simp only [emitLabels, ERes.ok.injEq] at h; rw [← h.2]; exact hfit
      | cons l2 ls2 =>
        have := emitLabels_fits (l2 :: ls2) e' _ _ _ (by rw [he']; simp [happ]; omega)
          (fun x hx => hl x (by simp [hx])) (by simp) h
        rw [he'] at this; exact this
    | err k e' => rw [hcd] at h; simp at h
    | panic s => rw [hcd] at h; simp at h

theorem findPtr_no_panic (search : Bytes) : ∀ (ps : List (Nat × Bytes)) (s : String),
    (∀ p ∈ ps, p.1 ≤ 65535) → Enc.findPtr search ps ≠ .panic s
  | [], s, _ => by simp [Enc.findPtr]
  | (ms, m) :: rest, s, h => by
    unfold Enc.findPtr
    split
    · have := h (ms, m) (by simp)
      rw [if_neg (by simp at this ⊢; omega)]; simp
    · exact findPtr_no_panic search rest s (fun p hp => h p (by simp [hp]))

theorem storeLabelPointer_mid_no_panic {e ec : Enc} {front : List Bytes} {l : Bytes} {back : List Bytes}
    (hm : Mid e (front ++ l :: back) ec) (hfit : ec.offset ≤ 65535) (s : String) :
    ec.storeLabelPointer (e.buf.length + (flat front).length) ec.offset ≠ .panic s := by
  have hlt : e.buf.length + (flat front).length ≤ ec.offset := by
    rw [hm.off, hm.buf, flat_append]; simp
  unfold Enc.storeLabelPointer
  rw [sliceOf_mid hm, if_neg (by omega), if_neg (by omega), if_neg (by omega)]
  split <;> simp

theorem findPtr_ne_err (search : Bytes) : ∀ (ps : List (Nat × Bytes)), Enc.findPtr search ps ≠ .err
  | [] => by simp [Enc.findPtr]
  | (ms, m) :: rest => by
    unfold Enc.findPtr
    split
    · split <;> simp
    · exact findPtr_ne_err search rest

theorem sliceOf_ne_err (e : Enc) (a b : Nat) : e.sliceOf a b ≠ .err := by
  unfold Enc.sliceOf
  split
  · simp
  split
  · simp
  split <;> simp

theorem storeLabelPointer_ne_err (e : Enc) (a b : Nat) : e.storeLabelPointer a b ≠ .err := by
  unfold Enc.storeLabelPointer
  split
  · simp
  split
  · simp
  split
  · simp
  split
  · cases hs : e.sliceOf a b with
    | ok v => simp
    | err => exact absurd hs (sliceOf_ne_err e a b)
    | panic s => simp
  · simp

theorem storeAll_ne_err (last : Nat) : ∀ (w : List Nat) (e : Enc), storeAll e last w ≠ .err
  | [], e => by simp [storeAll]
  | idx :: rest, e => by
    unfold storeAll
    cases hsp : e.storeLabelPointer idx last with
    | ok e' => exact storeAll_ne_err last rest e'
    | err => exact absurd hsp (storeLabelPointer_ne_err _ _ _)
    | panic s => simp

theorem compressLoop_no_panic (e : Enc) (ls : List Bytes) :
    ∀ (back front : List Bytes) (ec : Enc) (s : String),
    ls = front ++ back → Mid e ls ec → (∀ p ∈ ec.ptrs, p.1 ≤ 65535) → (ls ≠ [] → ec.offset ≤ 65535) →
    compressLoop ec ec.offset (starts (e.buf.length + (flat front).length) back) ≠ .panic s
  | [], front, ec, s, _, _, _, _ => by simp [starts, compressLoop]
  | l :: back, front, ec, s, hls, hm, hp, hfit => by
    have hm' : Mid e (front ++ l :: back) ec := hls ▸ hm
    have hfit' : ec.offset ≤ 65535 := hfit (by rw [hls]; simp)
    have hidx : e.buf.length + (flat front).length ≤ ec.offset := by
      rw [hm'.off, hm'.buf, flat_append]; simp
    have cont : ∀ e', ec.storeLabelPointer (e.buf.length + (flat front).length) ec.offset = .ok e' →
        compressLoop e' ec.offset (starts (e.buf.length + (flat front).length + 1 + l.length) back) ≠ .panic s := by
      intro e' hst
      have hfl : e.buf.length + (flat front).length + 1 + l.length
          = e.buf.length + (flat (front ++ [l])).length := by
        rw [flat_append]; simp; omega
      rw [hfl]
      have hls' : ls = (front ++ [l]) ++ back := by rw [hls]; simp
      rcases storeLabelPointer_mid hm' hst with he | he <;> rw [he]
      · exact compressLoop_no_panic e ls back (front ++ [l]) ec s hls' hm hp hfit
      · refine compressLoop_no_panic e ls back (front ++ [l]) _ s hls' (hm.withPtrs _) ?_ hfit
        intro p hp'
        simp only at hp'
        rcases List.mem_append.1 hp' with hp' | hp'
        · exact hp p hp'
        · simp only [List.mem_singleton] at hp'; subst hp'; simp only; omega
    simp only [starts]
    unfold compressLoop
    unfold Enc.getLabelPointer
    rw [sliceOf_mid hm']
    simp only
    cases hf : Enc.findPtr (flat (l :: back)) ec.ptrs with
    | panic s' => exact absurd hf (findPtr_no_panic _ _ s' hp)
    | err => exact absurd hf (findPtr_ne_err _ _)
    | ok o =>
      have hstore : ∀ s', ec.storeLabelPointer (e.buf.length + (flat front).length) ec.offset ≠ .panic s' :=
        storeLabelPointer_mid_no_panic hm' hfit'
      cases o with
      | none =>
        simp only
        cases hst : ec.storeLabelPointer (e.buf.length + (flat front).length) ec.offset with
        | ok e' => exact cont e' hst
        | err => exact absurd hst (storeLabelPointer_ne_err _ _ _)
        | panic s' => exact absurd hst (hstore s')
      | some loc =>
        simp only
        split
        · obtain ⟨tb, to, tm, tc, tn, tp⟩ := trim_mid hm'
          generalize Enc.trim { ec with offset := e.buf.length + (flat front).length } = et at *
          cases hu : et.emitU16 (49152 + loc) with
          | ok u e2 => simp
          | err k e2 => simp
          | panic s' => exact absurd hu (emitSlice_no_panic et _ to s')
        · cases hst : ec.storeLabelPointer (e.buf.length + (flat front).length) ec.offset with
          | ok e' => exact cont e' hst
          | err => exact absurd hst (storeLabelPointer_ne_err _ _ _)
          | panic s' => exact absurd hst (hstore s')

theorem storeAll_no_panic (e : Enc) (ls : List Bytes) :
    ∀ (back front : List Bytes) (ec : Enc) (s : String),
    ls = front ++ back → Mid e ls ec → (ls ≠ [] → ec.offset ≤ 65535) →
    storeAll ec ec.offset (starts (e.buf.length + (flat front).length) back) ≠ .panic s
  | [], front, ec, s, _, _, _ => by simp [starts, storeAll]
  | l :: back, front, ec, s, hls, hm, hfit => by
    have hm' : Mid e (front ++ l :: back) ec := hls ▸ hm
    have hfit' : ec.offset ≤ 65535 := hfit (by rw [hls]; simp)
    simp only [starts]
    unfold storeAll
    cases hst : ec.storeLabelPointer (e.buf.length + (flat front).length) ec.offset with
    | ok e' =>
      simp only
      have hfl : e.buf.length + (flat front).length + 1 + l.length
          = e.buf.length + (flat (front ++ [l])).length := by
        rw [flat_append]; simp; omega
      rw [hfl]
      have hls' : ls = (front ++ [l]) ++ back := by rw [hls]; simp
      rcases storeLabelPointer_mid hm' hst with he | he <;> rw [he]
      · exact storeAll_no_panic e ls back (front ++ [l]) ec s hls' hm hfit
      · exact storeAll_no_panic e ls back (front ++ [l]) _ s hls' (hm.withPtrs _) hfit
    | err => exact absurd hst (storeLabelPointer_ne_err _ _ _)
    | panic s' => exact absurd hst (storeLabelPointer_mid_no_panic hm' hfit' s')

theorem emitRoot_no_panic {e e2 : Enc} {ls : List Bytes} (hm : Mid e ls e2) (s : String) :
    emitRoot e2 e.buf.length ≠ .panic s := by
  unfold emitRoot Enc.emitU8
  rw [emitSlice_app _ _ hm.off]
  simp only [List.length_cons, List.length_nil, Nat.zero_add]
  by_cases hc : e2.maxSize < e2.offset + 1
  · simp [hc]
  · simp only [hc, ↓reduceIte]
    rw [if_neg (by rw [hm.buf]; simp)]
    split <;> simp

/-- **`Name::emit` reaches none of its panic sites** (the `assert!`s of `store_label_pointer`,
`slice_of`, `get_label_pointer`, the `debug_assert!` of `MaximalBuf::write`, the `usize`
subtraction): from the appending state, with the limit a `u16` (`max_size ≤ 65535`, which is what
`set_max_size(u16)` enforces) and every candidate start below the offset, for every name whose
labels are at most 63 octets long. -/
theorem emitName_no_panic (e : Enc) (n : Name) (hwf : n.WF) (happ : e.offset = e.buf.length)
    (hmax : e.maxSize ≤ 65535) (hptrs : ∀ p ∈ e.ptrs, p.1 < e.offset) (hoff : e.offset ≤ 65535)
    (s : String) : Name.emit e n ≠ .panic s := by
  have hlab := labelsOK_emitted (e := e) hwf
  unfold Name.emit
  simp only
  change (match emitLabels e (emitted e n).labels [] with
    | .panic s => _ | .err k e1 => _ | .ok written e1 => _) ≠ _
  generalize (emitted e n).labels = ls at hlab
  cases hl : emitLabels e ls [] with
  | panic s' => exact absurd hl (emitLabels_no_panic ls e [] s' happ)
  | err k e1 => simp
  | ok written e1 =>
    simp only
    obtain ⟨he1, hw⟩ := emitLabels_ok ls e [] written e1 happ (fun l hl' => (hlab l hl').2) hl
    have hm : Mid e ls e1 := by rw [he1]; exact ⟨rfl, by simp [happ], rfl, rfl, rfl⟩
    have hfit : ls ≠ [] → e1.offset ≤ 65535 := fun hne => by
      have := emitLabels_fits ls e [] written e1 happ (fun l hl' => (hlab l hl').2) hne hl
      omega
    have hst : written = starts (e.buf.length + (flat []).length) ls := by rw [hw, happ]; simp
    have hp1 : ∀ p ∈ e1.ptrs, p.1 ≤ 65535 := by
      intro p hp; rw [he1] at hp; have := hptrs p hp; omega
    rw [hst]
    split
    · have hm' : Mid e ls { e1 with compressedNameCount := e1.compressedNameCount + 1 } :=
        ⟨hm.buf, hm.off, hm.max, hm.canon, hm.ne⟩
      cases hc : compressLoop { e1 with compressedNameCount := e1.compressedNameCount + 1 } e1.offset
          (starts (e.buf.length + (flat []).length) ls) with
      | panic s' => exact absurd hc (compressLoop_no_panic e ls ls [] _ s' rfl hm' hp1 hfit)
      | err k e2 => simp
      | ok flag e2 =>
        cases flag with
        | true => simp
        | false =>
          simp only
          have := compressLoop_spec e ls ls [] _ [] false e2 rfl hm' (by rw [he1]; simp) (by simp) hc
          cases this with
          | miss news hm2 _ _ _ => exact emitRoot_no_panic hm2 s
    · cases hs : storeAll e1 e1.offset (starts (e.buf.length + (flat []).length) ls) with
      | panic s' => exact absurd hs (storeAll_no_panic e ls ls [] e1 s' rfl hm hfit)
      | err => exact absurd hs (storeAll_ne_err _ _ _)
      | ok e2 =>
        simp only
        have := storeAll_spec e ls ls [] e1 [] e2 rfl hm (by rw [he1]; simp) (by simp) hs
        cases this with
        | miss news hm2 _ _ _ => exact emitRoot_no_panic hm2 s
/-! ### emitters that keep the invariant (`InvPreserving`), closed under the emit combinators -/

/-- `f` keeps the candidate-table invariant: from the appending state, for every footprint condition
`H` that admits all runs starting at or above the current offset, a successful `f` re-establishes
`PtrInvH H` in the appending state, does not move the offset down, and only appends to or
back-patches the buffer it found (the old length is kept as a lower bound). -/
def InvPreserving (f : Enc → ERes Unit) : Prop :=
  ∀ (H : Nat × Nat → Prop) (e e' : Enc), e.offset = e.buf.length → PtrInvH H e →
    (∀ a b, e.offset ≤ a → H (a, b)) → f e = .ok () e' →
    PtrInvH H e' ∧ e'.offset = e'.buf.length ∧ e.offset ≤ e'.offset

theorem invPreserving_emitSlice (d : Bytes) : InvPreserving (fun e => e.emitSlice d) := by
  intro H e e' happ hinv _ h
  obtain ⟨h1, h2, h3, _⟩ := ptrInvH_emitSlice e e' d happ hinv h
  refine ⟨h1, h2, ?_⟩
  rw [h2, h3, happ]; simp

theorem invPreserving_emitU8 (v : Nat) : InvPreserving (fun e => e.emitU8 v) := invPreserving_emitSlice _
theorem invPreserving_emitU16 (v : Nat) : InvPreserving (fun e => e.emitU16 v) := invPreserving_emitSlice _
theorem invPreserving_emitU32 (v : Nat) : InvPreserving (fun e => e.emitU32 v) := invPreserving_emitSlice _

theorem invPreserving_seq {f g : Enc → ERes Unit} (hf : InvPreserving f) (hg : InvPreserving g) :
    InvPreserving (Enc.seq f g) := by
  intro H e e' happ hinv hH h
  unfold Enc.seq at h
  cases hfe : f e with
  | ok u e1 =>
    rw [hfe] at h
    obtain ⟨h1, h2, h3⟩ := hf H e e1 happ hinv hH hfe
    obtain ⟨h4, h5, h6⟩ := hg H e1 e' h2 h1 (fun a b hab => hH a b (by omega)) h
    exact ⟨h4, h5, by omega⟩
  | err k e1 => rw [hfe] at h; simp at h
  | panic s => rw [hfe] at h; simp at h

theorem invPreserving_emitCharacterData (d : Bytes) : InvPreserving (fun e => e.emitCharacterData d) := by
  intro H e e' happ hinv hH h
  simp only [Enc.emitCharacterData] at h
  split at h
  · simp at h
  · exact invPreserving_seq (invPreserving_emitU8 d.length) (invPreserving_emitSlice d) H e e' happ hinv hH h

theorem invPreserving_emitName (n : Name) (hwf : n.WF) : InvPreserving (fun e => Name.emit e n) := by
  intro H e e' happ hinv hH h
  have hp := emit_post hwf happ hinv hH h
  obtain ⟨F, hl, _⟩ := hp.laid
  exact ⟨hp.inv, hp.app, Nat.le_of_lt hl.pos_lt_end⟩

theorem invPreserving_restore {f : Enc → ERes Unit} (hf : InvPreserving f)
    (m : NameEncoding → Bool → NameEncoding → NameEncoding) :
    InvPreserving (fun e => Enc.restoreNameEncoding e.nameEncoding
      (f { e with nameEncoding := m e.nameEncoding e.canonicalForm e.nameEncoding })) := by
  intro H e e' happ hinv hH h
  simp only at h
  cases hfe : f { e with nameEncoding := m e.nameEncoding e.canonicalForm e.nameEncoding } with
  | ok u e1 =>
    rw [hfe] at h
    simp only [Enc.restoreNameEncoding, ERes.ok.injEq, true_and] at h
    subst h
    obtain ⟨h1, h2, h3⟩ := hf H { e with nameEncoding := m e.nameEncoding e.canonicalForm e.nameEncoding } e1 happ hinv hH hfe
    exact ⟨h1, h2, h3⟩
  | err k e1 => rw [hfe] at h; simp [Enc.restoreNameEncoding] at h
  | panic s => rw [hfe] at h; simp [Enc.restoreNameEncoding] at h

theorem invPreserving_withNameEncoding {f : Enc → ERes Unit} (hf : InvPreserving f) (m : NameEncoding) :
    InvPreserving (fun e => e.withNameEncoding m f) :=
  invPreserving_restore hf (fun _ _ _ => m)

theorem invPreserving_withRdataBehavior {f : Enc → ERes Unit} (hf : InvPreserving f) (r : RDataEncoding) :
    InvPreserving (fun e => e.withRdataBehavior r f) :=
  invPreserving_restore hf (fun _ c cur => Enc.rdataNameEncoding r c cur)

/-- the RDLENGTH place is reserved above every footprint, the body only adds runs above the place,
so the back-patch touches no footprint -/
theorem invPreserving_lenPrefixed {body : Enc → ERes Unit} (hb : InvPreserving body) :
    InvPreserving (Enc.lenPrefixed body) := by
  intro H e e' happ hinv hH h
  unfold Enc.lenPrefixed at h
  cases hpl : e.place 2 with
  | panic s => rw [hpl] at h; simp at h
  | err k e1 => rw [hpl] at h; simp at h
  | ok start e1 =>
    rw [hpl] at h
    simp only at h
    obtain ⟨hst, happ1, hoff1, hinv1⟩ := ptrInvH_place e e1 2 start happ hinv hpl
    cases hbody : body e1 with
    | panic s => rw [hbody] at h; simp at h
    | err k e2 => rw [hbody] at h; simp at h
    | ok u e2 =>
      rw [hbody] at h
      simp only at h
      obtain ⟨hinv2, happ2, hoff2⟩ := hb _ e1 e2 happ1 hinv1
        (fun a b hab => ⟨hH a b (by omega), Or.inr (by simp only; omega)⟩) hbody
      unfold Enc.lenSincePlace at h
      rw [if_neg (by omega)] at h
      simp only at h
      have hin : start + 2 ≤ e2.buf.length := by omega
      split at h
      · simp at h
      obtain ⟨hinv3, hoff3, hlen3, _⟩ := ptrInvH_placeReplace e2 e' start 2 _ (by simp) hin hinv2
        (fun iv hiv => hiv.2) h
      refine ⟨ptrInvH_mono hinv3 (fun iv _ _ hiv => hiv.1), by omega, by omega⟩
/-! ### sequences of names -/

/-- what a name written in mode `m` must decode to -/
def expected (m : NameEncoding) (n : Name) : Name :=
  { labels := (if m = .uncompressedLowercase then n.toLowercase else n).labels, fqdn := true }

/-- `for (m, n) in names { n.emit(&mut encoder.with_name_encoding(m))? }`, recording for every name
its start offset and what it must decode to -/
def emitNames (e : Enc) : List (NameEncoding × Name) → ERes (List (Nat × Name))
  | [] => .ok [] e
  | (m, n) :: rest =>
    match e.withNameEncoding m (fun e1 => Name.emit e1 n) with
    | .ok _ e' =>
      match emitNames e' rest with
      | .ok l e'' => .ok ((e.offset, expected m n) :: l) e''
      | .err k e'' => .err k e''
      | .panic s => .panic s
    | .err k e' => .err k e'
    | .panic s => .panic s

theorem ptrInv_nameEncoding {e : Enc} (m : NameEncoding) (h : PtrInv e) :
    PtrInv { e with nameEncoding := m } := h

theorem withNameEncoding_ok {α} {e e1 : Enc} {m : NameEncoding} {f : Enc → ERes α} {u : α}
    (h : e.withNameEncoding m f = .ok u e1) :
    ∃ e0, f { e with nameEncoding := m } = .ok u e0 ∧ e1 = { e0 with nameEncoding := e.nameEncoding } := by
  unfold Enc.withNameEncoding at h
  cases hf : f { e with nameEncoding := m } with
  | ok a e0 =>
    rw [hf] at h
    simp only [Enc.restoreNameEncoding, ERes.ok.injEq] at h
    exact ⟨e0, by rw [h.1], h.2.symm⟩
  | err k e0 => rw [hf] at h; simp [Enc.restoreNameEncoding] at h
  | panic s => rw [hf] at h; simp [Enc.restoreNameEncoding] at h

theorem emitNames_spec : ∀ (names : List (NameEncoding × Name)) (e e' : Enc) (l : List (Nat × Name)),
    (∀ mn ∈ names, mn.2.WF) → e.offset = e.buf.length → PtrInv e →
    emitNames e names = .ok l e' →
    (∀ sn ∈ l, ∃ p, readName e'.buf sn.1 = .ok (sn.2, p)) ∧
      l.map (·.2) = names.map (fun mn => expected mn.1 mn.2) ∧
      (∃ x, e'.buf = e.buf ++ x) ∧ PtrInv e' ∧ e'.offset = e'.buf.length
  | [], e, e', l, _, happ, hinv, h => by
    simp only [emitNames, ERes.ok.injEq] at h
    obtain ⟨rfl, rfl⟩ := h
    exact ⟨by simp, rfl, ⟨[], by simp⟩, hinv, happ⟩
  | (m, n) :: rest, e, e', l, hwf, happ, hinv, h => by
    unfold emitNames at h
    split at h
    · rename_i u e1 h1
      obtain ⟨e0, hr, rfl⟩ := withNameEncoding_ok h1
      · have hwfn : n.WF := hwf (m, n) (by simp)
        obtain ⟨hrd, hinv0, happ0⟩ :=
          emitName_readName { e with nameEncoding := m } e0 n hwfn happ (ptrInv_nameEncoding m hinv) hr
        obtain ⟨_, _, _, _, ⟨x0, hx0⟩, _, _⟩ :=
          emitName_len { e with nameEncoding := m } e0 n hwfn happ (ptrInv_nameEncoding m hinv) hr
        split at h
        · rename_i l' e'' h2
          simp only [ERes.ok.injEq] at h
          obtain ⟨rfl, rfl⟩ := h
          obtain ⟨ih1, ih2, ⟨x1, hx1⟩, ih4, ih5⟩ :=
            emitNames_spec rest { e0 with nameEncoding := e.nameEncoding } e'' l'
              (fun mn hmn => hwf mn (by simp [hmn])) happ0 (ptrInv_nameEncoding _ hinv0) h2
          refine ⟨?_, ?_, ⟨x0 ++ x1, ?_⟩, ih4, ih5⟩
          · intro sn hsn
            rcases List.mem_cons.1 hsn with rfl | hsn
            · refine ⟨e0.offset, ?_⟩
              simp only at hx1
              rw [hx1]
              apply readName_append
              simp only [expected]
              simpa [emitted] using hrd
            · exact ih1 sn hsn
          · simp [ih2]
          · simp only at hx1 hx0
            rw [hx1, hx0, List.append_assoc]
        · simp at h
        · simp at h
    · simp at h
    · simp at h

/-- **Any sequence of names, in any modes, written one after another from the empty encoder: every
one of them decodes back, from the final buffer, at its own start offset**, to the name that was
given (lower-cased for `UncompressedLowercase`), however many candidates and compressed names
accumulate on the way. -/
theorem emitNames_readName (names : List (NameEncoding × Name)) (hwf : ∀ mn ∈ names, mn.2.WF)
    (l : List (Nat × Name)) (e' : Enc) (h : emitNames (Enc.new []) names = .ok l e') :
    (∀ sn ∈ l, ∃ p, readName e'.buf sn.1 = .ok (sn.2, p)) ∧
      l.map (·.2) = names.map (fun mn => expected mn.1 mn.2) := by
  have := emitNames_spec names (Enc.new []) e' l hwf rfl (by intro p hp; simp [Enc.new, Enc.withOffset] at hp) h
  exact ⟨this.1, this.2.1⟩

/-! ### non-vacuity: the hypotheses are satisfiable by non-trivial states -/

/-- `example.com` -/
def exCom : Name := { labels := [[101, 120], [99, 111, 109]], fqdn := true }
/-- `WWW.ex.com` -/
def wwwExCom : Name := { labels := [[87, 87, 87], [101, 120], [99, 111, 109]], fqdn := false }

def st1 : Enc :=
  { buf := [2, 101, 120, 3, 99, 111, 109, 0], offset := 8, maxSize := 65535,
    ptrs := [(0, [2, 101, 120, 3, 99, 111, 109]), (3, [3, 99, 111, 109])],
    canonicalForm := false, nameEncoding := .compressed, compressedNameCount := 1 }

def st2 : Enc :=
  { buf := [2, 101, 120, 3, 99, 111, 109, 0, 3, 87, 87, 87, 192, 0], offset := 14, maxSize := 65535,
    ptrs := [(0, [2, 101, 120, 3, 99, 111, 109]), (3, [3, 99, 111, 109]),
             (8, [3, 87, 87, 87, 2, 101, 120, 3, 99, 111, 109])],
    canonicalForm := false, nameEncoding := .compressed, compressedNameCount := 2 }

/-- after `ex.com` the table holds two candidates; `WWW.ex.com` is then written as a label plus a
pointer (6 octets instead of 12) and decodes back with its capitals. -/
example : Name.emit (Enc.new []) exCom = .ok () st1 ∧ PtrInv st1 ∧
    Name.emit st1 wwwExCom = .ok () st2 ∧
    readName st2.buf st1.offset = .ok ({ wwwExCom with fqdn := true }, st2.offset) := by
  have h1 : Name.emit (Enc.new []) exCom = .ok () st1 := by decide
  have h2 : Name.emit st1 wwwExCom = .ok () st2 := by decide
  have hinv0 : PtrInv (Enc.new []) := by intro p hp; simp [Enc.new, Enc.withOffset] at hp
  obtain ⟨_, hinv1, happ1⟩ := emitName_readName _ _ _ (by decide) rfl hinv0 h1
  exact ⟨h1, hinv1, h2, emitName_readName_case_preserved _ _ _ (by decide) happ1 hinv1 (by decide) h2⟩
end HickoryVerif.C02
