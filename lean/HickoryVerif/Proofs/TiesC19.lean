/-
Ties between the literals of the recursor model and the constants regenerated from /repo's source
on every run (tools/extract_consts.py → Generated/Consts.lean).
-/
import HickoryVerif.Generated.Consts
import HickoryVerif.Model.Recursor

namespace HickoryVerif.C19
open HickoryVerif

/-- `MAX_CNAME_LOOKUPS` of recursor/handle.rs is the 64 of `chaseLoop` and of the bound `B`. -/
theorem tie_max_cname_lookups : Recursor.MAX_CNAME_LOOKUPS = Generated.MAX_CNAME_LOOKUPS := rfl
/-- `DepthTracker::MAX_QUERY_DEPTH` of caching_client.rs is the 8 of `stubLookup`. -/
theorem tie_max_query_depth : Recursor.MAX_QUERY_DEPTH = Generated.MAX_QUERY_DEPTH := rfl
/-- the recursor's default limits (RecursorOptions::default) -/
theorem tie_default_limits :
    Generated.RECURSOR_RECURSION_LIMIT_DEFAULT = 24 ∧ Generated.RECURSOR_NS_RECURSION_LIMIT_DEFAULT = 24 :=
  ⟨rfl, rfl⟩

end HickoryVerif.C19
