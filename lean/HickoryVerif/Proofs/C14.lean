/-
C14 — Journal-backed zones survive a stop at any point.

Property theorems about `Model/Journal.lean` (the sqlite journal as a log of rows, the live path
`update_records(.., true)` with its two journal writes, `persist_to_journal`,
`recover_with_journal`) on top of the C12 model and its invariant `KInv`.

The model is the code after the repairs of C12 (wrapping serial bump, RFC 1982 SOA comparison, …):
the theorems need no overflow side condition any more.

Reading of the property: the on-disk states a stop can leave are the prefixes of the row list
(each `insert_record` is one sqlite commit).  Theorems 1–4 are about prefixes that end at a
message boundary; `cut_inside_update` shows that the other prefixes do *not* recover to a
boundary state — the known finding `cut-inside-update-row-group` (the source says
`TODO: NEED TRANSACTION HERE`).
-/
import HickoryVerif.Proofs.C12
import HickoryVerif.Model.Journal

namespace HickoryVerif.C14
open HickoryVerif HickoryVerif.Upd HickoryVerif.Upd.Zone HickoryVerif.Spec
open HickoryVerif.Spec.Rfc2136 (rrsetOf)
open HickoryVerif.C12

/-- journal and zone after a history `h` on a zone `z0` whose journal was started by
`persist_to_journal` -/
def journalAfter (c : Cfg) (z0 : Zone) (h : List Msg) : Journal := (runJ c z0 (persist z0 []) h).2
def zoneAfter (c : Cfg) (z0 : Zone) (h : List Msg) : Zone := (runJ c z0 (persist z0 []) h).1

/-! ### plumbing -/

theorem recoverFrom_append (c : Cfg) (j1 j2 : Journal) : ∀ z,
    recoverFrom c z (j1 ++ j2) = (recoverFrom c z j1).bind fun z' => recoverFrom c z' j2 := by
  induction j1 with
  | nil => intro z; rfl
  | cons row rows ih =>
    intro z
    simp only [List.cons_append, recoverFrom]
    cases recoverRow c z row with
    | none => rfl
    | some z' => exact ih z'

/-- every row of the message can be written (`rowFits`: stand-alone wire form ≤ 65 535 octets —
true of every RR a DNS message can carry) -/
def MsgFits (m : Msg) : Prop := ∀ rr ∈ m.updates, rowFits rr = true
def AllFit (h : List Msg) : Prop := ∀ m ∈ h, MsgFits m

instance (m : Msg) : Decidable (MsgFits m) := by unfold MsgFits; exact inferInstance

theorem insertRows_fit (recs : List Rec) : ∀ j, (∀ rr ∈ recs, rowFits rr = true) →
    insertRows j recs = (j ++ recs, true) := by
  induction recs with
  | nil => intro j _; simp [insertRows]
  | cons r rs ih =>
    intro j h
    unfold insertRows
    rw [if_pos (h r List.mem_cons_self), ih _ (fun rr hr => h rr (List.mem_cons_of_mem _ hr))]
    simp [List.append_assoc]

theorem insertRows_prefix (recs : List Rec) : ∀ j, ∃ rows, (insertRows j recs).1 = j ++ rows := by
  induction recs with
  | nil => intro j; exact ⟨[], by simp [insertRows]⟩
  | cons r rs ih =>
    intro j
    unfold insertRows
    split
    · obtain ⟨rows, h⟩ := ih (j ++ [r])
      exact ⟨r :: rows, by rw [h]; simp [List.append_assoc]⟩
    · exact ⟨[], by simp⟩

theorem live_fit (c : Cfg) (z : Zone) (j : Journal) (recs : List Rec) (h : ∀ rr ∈ recs, rowFits rr = true) :
    liveUpdateRecords c z j recs =
      ((updateRecords c z recs true).1, j ++ recs ++ (updateRecords c z recs true).2.2.toList,
       (updateRecords c z recs true).2.1) := by
  unfold liveUpdateRecords
  rw [insertRows_fit recs j h]

/-- **a row that cannot be written refuses the whole message without a trace — if it is the first**:
SERVFAIL, zone and journal as before … -/
theorem oversized_first_row_no_trace (c : Cfg) (z : Zone) (j : Journal) (r : Rec) (rs : List Rec)
    (h : rowFits r = false) : liveUpdateRecords c z j (r :: rs) = (z, j, .rc .servFail) := by
  unfold liveUpdateRecords insertRows
  simp [h]

/-- … but not if it comes later (`insert_records` commits row by row): the rows before it stay in
the journal of a refused message, and the next start replays them.  Reachable only through the
Rust API (no DNS message can carry an RR of more than 65 535 octets); observation, not generated. -/
theorem oversized_later_row_leaves_rows (c : Cfg) (z : Zone) (j : Journal) (r1 r2 : Rec) (rs : List Rec)
    (h1 : rowFits r1 = true) (h2 : rowFits r2 = false) :
    liveUpdateRecords c z j (r1 :: r2 :: rs) = (z, j ++ [r1], .rc .servFail) := by
  unfold liveUpdateRecords insertRows insertRows
  simp [h1, h2]

theorem updateJ_zone (c : Cfg) (z : Zone) (j : Journal) (m : Msg) (hf : MsgFits m) :
    (updateJ c z j m).1 = (update c true z m).1 := by
  unfold updateJ update
  rw [live_fit c z j m.updates hf]
  simp only [Bool.not_true, Bool.false_eq_true, if_false]
  cases verifyPrereqs c z m.prereqs with
  | some e => rfl
  | none =>
    cases Upd.preScan c m.updates with
    | some e => rfl
    | none => rfl

theorem updateJ_res (c : Cfg) (z : Zone) (j : Journal) (m : Msg) (hf : MsgFits m) :
    (updateJ c z j m).2.2.2 = (update c true z m).2.2.1 := by
  unfold updateJ update
  rw [live_fit c z j m.updates hf]
  simp only [Bool.not_true, Bool.false_eq_true, if_false]
  cases verifyPrereqs c z m.prereqs with
  | some e => rfl
  | none =>
    cases Upd.preScan c m.updates with
    | some e => rfl
    | none => rfl

/-- the journal never influences the zone: the journalled run is the plain run of C12 -/
theorem runJ_zone (c : Cfg) (h : List Msg) : ∀ z j, AllFit h → (runJ c z j h).1 = runAll c z h := by
  induction h with
  | nil => intro z j _; rfl
  | cons m ms ih =>
    intro z j hf
    simp only [runJ, runAll]
    rw [ih _ _ (fun m' hm => hf m' (List.mem_cons_of_mem _ hm)), updateJ_zone c z j m (hf m List.mem_cons_self)]

theorem runJ_append (c : Cfg) (h1 h2 : List Msg) : ∀ z j,
    runJ c z j (h1 ++ h2) = runJ c (runJ c z j h1).1 (runJ c z j h1).2 h2 := by
  induction h1 with
  | nil => intro z j; rfl
  | cons m ms ih => intro z j; simp only [List.cons_append, runJ]; exact ih _ _

/-- the journal only grows -/
theorem runJ_prefix (c : Cfg) (h : List Msg) : ∀ z j, ∃ rows, (runJ c z j h).2 = j ++ rows := by
  induction h with
  | nil => intro z j; exact ⟨[], by simp [runJ]⟩
  | cons m ms ih =>
    intro z j
    simp only [runJ]
    have hstep : ∃ r1, (updateJ c z j m).2.1 = j ++ r1 := by
      unfold updateJ liveUpdateRecords
      cases verifyPrereqs c z m.prereqs with
      | some e => exact ⟨[], by simp⟩
      | none =>
        cases Upd.preScan c m.updates with
        | some e => exact ⟨[], by simp⟩
        | none =>
          simp only
          obtain ⟨rows, hr⟩ := insertRows_prefix m.updates j
          cases hi : insertRows j m.updates with
          | mk j1 ok =>
            rw [hi] at hr
            simp only at hr
            cases ok with
            | false => exact ⟨rows, by simpa using hr⟩
            | true => exact ⟨rows ++ (updateRecords c z m.updates true).2.2.toList, by simp [hr, List.append_assoc]⟩
    obtain ⟨r1, h1⟩ := hstep
    obtain ⟨r2, h2⟩ := ih (updateJ c z j m).1 (updateJ c z j m).2.1
    exact ⟨r1 ++ r2, by rw [h2, h1, List.append_assoc]⟩

/-! ### replaying the rows of one message -/

/-- a row the prescan let through replays as the same loop step -/
theorem recoverRow_of_prescan (c : Cfg) (z : Zone) (rr : Rec) (h : Upd.prescanOne c rr = none) :
    recoverRow c z rr = some (applyRR c z rr).1 := by
  have hax : rr.rtype ≠ T_AXFR := by
    intro hax
    unfold Upd.prescanOne at h
    simp only [hax] at h
    split at h
    · cases h
    · split at h
      · simp at h
      · split at h
        · split at h
          · cases h
          · split at h
            · cases h
            · simp at h
        · split at h
          · split at h
            · cases h
            · simp at h
          · cases h
  obtain ⟨u, hu⟩ := applyRR_some_of_prescan c z rr h
  unfold recoverRow
  rw [if_neg hax]
  unfold updateRecords applyAll
  cases hs : applyRR c z rr with
  | mk z' o =>
    rw [hs] at hu
    simp only at hu
    subst hu
    simp [applyAll]

theorem recoverFrom_updates (c : Cfg) (recs : List Rec) (h : Upd.preScan c recs = none) : ∀ z u,
    recoverFrom c z recs = some (applyAll c z recs u).1 := by
  induction recs with
  | nil => intro z u; rfl
  | cons rr rest ih =>
    intro z u
    unfold Upd.preScan at h
    cases h1 : Upd.prescanOne c rr with
    | some e => simp [h1] at h
    | none =>
      simp only [h1] at h
      obtain ⟨b, hb⟩ := applyRR_some_of_prescan c z rr h1
      simp only [recoverFrom, recoverRow_of_prescan c z rr h1]
      unfold applyAll
      cases hs : applyRR c z rr with
      | mk z' o =>
        rw [hs] at hb
        simp only at hb
        subst hb
        simp only
        exact ih h z' _

/-- the post-update SOA row replays to exactly what `increment_soa_serial` did in memory — also
across the wrap `u32::MAX → 0` (the replayed SOA add compares by RFC 1982 since aeeb945) -/
theorem recoverRow_soa (c : Cfg) (z1 : Zone) (h : KInv c z1) (soa : Rec)
    (hz2 : KInv c (z1.set (c.origin, T_SOA) [soa]))
    (hs : serial (z1.set (c.origin, T_SOA) [soa]) c.origin = (serial z1 c.origin + 1) % 4294967296) :
    recoverRow c z1 soa = some (z1.set (c.origin, T_SOA) [soa]) := by
  obtain ⟨r, s, rest, hg, hr, _, _⟩ := h.soa
  obtain ⟨r2, s2, rest2, hg2, hr2, hk2, hc2⟩ := hz2.soa
  rw [get_set, if_pos rfl] at hg2
  have hr2eq : soa = r2 := by cases hg2; rfl
  subst hr2eq
  have hser2 : s2 = (s + 1) % 4294967296 := by
    have e1 := serial_of_soa (c := c) (z := z1.set (c.origin, T_SOA) [soa]) (r := soa) (by rw [get_set, if_pos rfl]) hr2
    have e2 := serial_of_soa hg hr
    rw [← e1, hs, e2]
  have hty : soa.rtype = T_SOA := by
    have := congrArg Prod.snd hk2; simpa [Rec.key] using this
  have hname : soa.name.toLowercase = c.origin := by
    have := congrArg Prod.fst hk2; simpa [Rec.key] using this
  have hax : soa.rtype ≠ T_AXFR := by rw [hty]; decide
  unfold recoverRow
  rw [if_neg hax]
  unfold updateRecords applyAll
  rw [applyRR_zone hc2 (by intro hh; exact hh.2 hname)]
  have hup : upsert c.zclass z1 soa = (z1.set (c.origin, T_SOA) [soa], true) := by
    unfold upsert
    rw [if_neg (by simp [hc2]), apex_soa_not_blocked c z1 z1 h (fun _ hh => hh) soa hk2]
    simp only [Bool.false_eq_true, if_false, hk2, hg]
    have : rsInsert [r] soa = ([soa], true) := by
      rcases rsInsert_soa r soa s rest hty hr with h1 | ⟨sn, rest', hd, _, h1⟩
      · exfalso
        have hlt := serialNumberLt_succ s
        unfold rsInsert insertPre at h1
        rw [if_pos hty] at h1
        simp [hr, hr2, hser2, hlt, replaceDup] at h1
      · exact h1
    simp [this]
  simp [hup, applyAll]

/-- **one message**: the rows a message appends replay, from the zone before it, to the zone after
it (any well-formed zone, every row writable). -/
theorem updateJ_replays (c : Cfg) (z : Zone) (j : Journal) (m : Msg) (h : KInv c z) (hf : MsgFits m) :
    ∃ rows, (updateJ c z j m).2.1 = j ++ rows ∧ recoverFrom c z rows = some (updateJ c z j m).1 := by
  unfold updateJ
  rw [live_fit c z j m.updates hf]
  cases h1 : verifyPrereqs c z m.prereqs with
  | some e => exact ⟨[], by simp, rfl⟩
  | none =>
    cases h2 : Upd.preScan c m.updates with
    | some e => exact ⟨[], by simp, rfl⟩
    | none =>
      simp only
      refine ⟨m.updates ++ (updateRecords c z m.updates true).2.2.toList, by simp [List.append_assoc], ?_⟩
      rw [recoverFrom_append, recoverFrom_updates c m.updates h2 z false]
      simp only [Option.bind_some]
      obtain ⟨b, hb⟩ := applyAll_some_of_prescan c m.updates h2 z false
      rcases updateRecords_spec c z m.updates h b hb with ⟨_, hu⟩ | ⟨_, soa, hu, hk2, hs⟩
      · rw [hu]; rfl
      · rw [hu]
        simp only [Option.toList_some, recoverFrom]
        rw [recoverRow_soa c _ (kinv_applyAll c m.updates z false h) soa hk2 hs]

/-! ### the property theorems -/

/-- the journal a zone starts with replays to that zone (`persist_to_journal` followed by
`recover_with_journal`): a decidable condition on the initial zone, checked by the harness on every
history (cut at the first boundary) -/
def DumpReplays (c : Cfg) (z0 : Zone) : Prop := recover c (persist z0 []) = some z0

instance (c : Cfg) (z0 : Zone) : Decidable (DumpReplays c z0) := by unfold DumpReplays; exact inferInstance

theorem allFit_cons {m : Msg} {ms : List Msg} (h : AllFit (m :: ms)) : MsgFits m ∧ AllFit ms :=
  ⟨h m List.mem_cons_self, fun m' hm => h m' (List.mem_cons_of_mem _ hm)⟩

theorem allFit_append {h1 h2 : List Msg} (h : AllFit (h1 ++ h2)) : AllFit h1 ∧ AllFit h2 :=
  ⟨fun m hm => h m (List.mem_append_left _ hm), fun m hm => h m (List.mem_append_right _ hm)⟩

theorem replay_run (c : Cfg) (h : List Msg) : ∀ z j, KInv c z → AllFit h →
    recover c j = some z → recover c (runJ c z j h).2 = some (runJ c z j h).1 := by
  induction h with
  | nil => intro z j _ _ hr; exact hr
  | cons m ms ih =>
    intro z j hk hf hr
    obtain ⟨hfm, hfs⟩ := allFit_cons hf
    simp only [runJ]
    obtain ⟨rows, hj, hrep⟩ := updateJ_replays c z j m hk hfm
    have hk' : KInv c (updateJ c z j m).1 := by rw [updateJ_zone c z j m hfm]; exact inv_preserved c z m hk
    apply ih _ _ hk' hfs
    unfold recover at hr ⊢
    rw [hj, recoverFrom_append, hr]
    exact hrep

/-- **recovery_refines_memory** — for every history, replaying the journal reconstructs exactly the
in-memory zone (every acknowledged update present, none half-applied) at the message boundary. -/
theorem recovery_refines_memory (c : Cfg) (z0 : Zone) (h : List Msg) (hk : KInv c z0)
    (hd : DumpReplays c z0) (hf : AllFit h) : recover c (journalAfter c z0 h) = some (zoneAfter c z0 h) :=
  replay_run c h z0 _ hk hf hd

/-- **recovery_total** — recovery never fails on a journal the server itself wrote -/
theorem recovery_total (c : Cfg) (z0 : Zone) (h : List Msg) (hk : KInv c z0)
    (hd : DumpReplays c z0) (hf : AllFit h) : recover c (journalAfter c z0 h) ≠ none := by
  rw [recovery_refines_memory c z0 h hk hd hf]; simp

/-- **recovery_at_every_boundary** — a stop after the last row of *any* message of the history (the
journal cut there) recovers the zone as of that boundary. -/
theorem recovery_at_every_boundary (c : Cfg) (z0 : Zone) (h1 h2 : List Msg) (hk : KInv c z0)
    (hd : DumpReplays c z0) (hf : AllFit (h1 ++ h2)) :
    recover c ((journalAfter c z0 (h1 ++ h2)).take (journalAfter c z0 h1).length) = some (zoneAfter c z0 h1) := by
  have hpre : ∃ rows, journalAfter c z0 (h1 ++ h2) = journalAfter c z0 h1 ++ rows := by
    unfold journalAfter
    rw [runJ_append]
    exact runJ_prefix c h2 _ _
  obtain ⟨rows, hrows⟩ := hpre
  rw [hrows, List.take_left']
  · exact recovery_refines_memory c z0 h1 hk hd (allFit_append hf).1
  · rfl

/-- **continue_after_recovery** — going on after a restart at a boundary is going on without one:
the zone after `h₁ ++ h₂` is the run of `h₂` from the recovered zone. -/
theorem continue_after_recovery (c : Cfg) (z0 : Zone) (h1 h2 : List Msg) (hk : KInv c z0)
    (hd : DumpReplays c z0) (hf : AllFit (h1 ++ h2)) :
    ∃ zr, recover c (journalAfter c z0 h1) = some zr ∧ zoneAfter c z0 (h1 ++ h2) = runAll c zr h2 := by
  obtain ⟨hf1, hf2⟩ := allFit_append hf
  refine ⟨zoneAfter c z0 h1, recovery_refines_memory c z0 h1 hk hd hf1, ?_⟩
  unfold zoneAfter
  rw [runJ_append, runJ_zone c h2 _ _ hf2]

/-- … and the journal it then keeps writing (second crash) still replays to the zone -/
theorem second_recovery (c : Cfg) (z0 : Zone) (h1 h2 : List Msg) (hk : KInv c z0)
    (hd : DumpReplays c z0) (hf : AllFit (h1 ++ h2)) :
    ∃ zr, recover c (journalAfter c z0 h1) = some zr ∧
      recover c (runJ c zr (journalAfter c z0 h1) h2).2 = some (runAll c zr h2) := by
  obtain ⟨hf1, hf2⟩ := allFit_append hf
  refine ⟨zoneAfter c z0 h1, recovery_refines_memory c z0 h1 hk hd hf1, ?_⟩
  have hk1 : KInv c (zoneAfter c z0 h1) := by
    unfold zoneAfter; rw [runJ_zone c h1 _ _ hf1]; exact (inv_preserved_history c h1 z0 hk).1
  rw [← runJ_zone c h2 _ (journalAfter c z0 h1) hf2]
  exact replay_run c h2 _ _ hk1 hf2 (recovery_refines_memory c z0 h1 hk hd hf1)

/-- along a history the serial only ever moves by RFC 1982 advances (across the wrap, too) -/
theorem serial_path_run (c : Cfg) (h : List Msg) : ∀ z, KInv c z →
    SerialPath (serial z c.origin) (serial (runAll c z h) c.origin) := by
  induction h with
  | nil => intro z _; exact SerialPath.refl _
  | cons m ms ih =>
    intro z hk
    simp only [runAll]
    have hstep : SerialPath (serial z c.origin) (serial (update c true z m).1 c.origin) := by
      cases hres : (update c true z m).2.2.1 with
      | panic site => exact absurd hres (no_panic c z m hk site)
      | rc e => rw [update_rc_unchanged c z m hk e hres]; exact SerialPath.refl _
      | ok b =>
        cases b with
        | false => rw [not_updated_unchanged c z m hres]; exact SerialPath.refl _
        | true =>
          obtain ⟨_, hlt, hp⟩ := updated_serial_succ c z m hk hres
          exact SerialPath.step hp hlt
    exact hstep.trans (ih _ (inv_preserved c z m hk))

/-- **serial_monotone_across_recovery** — the serial after recovery is *exactly* the serial the
server last answered with, and whatever serial it had answered with earlier (after any prefix `h₁`
of the history) is connected to it by RFC 1982 advances only — across `u32::MAX → 0` as well.
(RFC 1982's "newer" is not transitive beyond 2³¹, hence the chain rather than one comparison.) -/
theorem serial_monotone_across_recovery (c : Cfg) (z0 : Zone) (h1 h2 : List Msg) (hk : KInv c z0)
    (hd : DumpReplays c z0) (hf : AllFit (h1 ++ h2)) :
    ∃ zr, recover c (journalAfter c z0 (h1 ++ h2)) = some zr ∧
      serial zr c.origin = serial (zoneAfter c z0 (h1 ++ h2)) c.origin ∧
      SerialPath (serial (zoneAfter c z0 h1) c.origin) (serial zr c.origin) := by
  obtain ⟨hf1, hf2⟩ := allFit_append hf
  refine ⟨zoneAfter c z0 (h1 ++ h2), recovery_refines_memory c z0 _ hk hd hf, rfl, ?_⟩
  unfold zoneAfter
  rw [runJ_append, runJ_zone c h2 _ _ hf2, runJ_zone c h1 _ _ hf1]
  exact serial_path_run c h2 _ (inv_preserved_history c h1 z0 hk).1

/-! ### the negative result: cuts inside a row group (known finding) -/

/-- journal lengths at the message boundaries of a history (after the dump, after each message) -/
def boundaries (c : Cfg) (z0 : Zone) (h : List Msg) : List Nat :=
  (List.range (h.length + 1)).map fun i => (journalAfter c z0 (h.take i)).length

/-- class predicate of the finding (decidable): the cut is not at a boundary -/
def CutInsideGroup (c : Cfg) (z0 : Zone) (h : List Msg) (k : Nat) : Prop := k ∉ boundaries c z0 h

instance (c : Cfg) (z0 : Zone) (h : List Msg) (k : Nat) : Decidable (CutInsideGroup c z0 h k) := by
  unfold CutInsideGroup; exact inferInstance

/-- "recovery succeeds and the recovered zone satisfies `p`" -/
def recovered (o : Option Zone) (p : Zone → Bool) : Bool :=
  match o with
  | some z => p z
  | none => false

/-- one message adding two hosts: rows = A, A, SOA -/
def twoAdds : Msg := upd [aRec 98 2 300, aRec 100 3 300]

/-- **cut_inside_update** (negative; finding `cut-inside-update-row-group`).  The journal of the
example zone after `twoAdds` has boundaries at 6 (dump: marker + 5 records) and 9.  A stop after
row 7 (first A only) or row 8 (both A, no SOA row) recovers a zone that is neither the zone before
nor the zone after the message — a half-applied update, resp. the whole update under the old
serial; a stop inside the initial dump recovers a partial zone. -/
theorem cut_inside_update :
    let c := exCfg
    let z0 := exZone 100
    let z1 := zoneAfter c z0 [twoAdds]
    let j := journalAfter c z0 [twoAdds]
    boundaries c z0 [twoAdds] = [6, 9] ∧ j.length = 9 ∧
    recover c (j.take 6) = some z0 ∧ recover c (j.take 9) = some z1 ∧
    CutInsideGroup c z0 [twoAdds] 7 ∧ CutInsideGroup c z0 [twoAdds] 8 ∧ CutInsideGroup c z0 [twoAdds] 3 ∧
    recovered (recover c (j.take 7)) (fun zr => decide (zr ≠ z0 ∧ zr ≠ z1 ∧
      rrsetOf zr (nm 98, T_A) ≠ [] ∧ rrsetOf zr (nm 100, T_A) = [] ∧ serial zr exOrigin = 100)) = true ∧
    recovered (recover c (j.take 8)) (fun zr => decide (zr ≠ z0 ∧ zr ≠ z1 ∧
      rrsetOf zr (nm 100, T_A) ≠ [] ∧ serial zr exOrigin = 100 ∧ serial z1 exOrigin = 101)) = true ∧
    recovered (recover c (j.take 3)) (fun zr => decide (zr ≠ z0 ∧ rrsetOf zr (nm 97, T_A) = [])) = true := by
  decide

/-- non-vacuity: the rows of the example history fit, and a row of 65 535 octets of RDATA does not -/
example : MsgFits twoAdds := by decide

example (b : Bytes) (h : b.length = 65535) :
    rowFits { name := nm 98, rtype := 16, cls := 1, ttl := 300, rdata := .bytes b } = false := by
  simp [rowFits, rdataLen, h]

/-- non-vacuity: the example history satisfies the hypotheses of the theorems above -/
example : KInv exCfg (exZone 100) ∧ DumpReplays exCfg (exZone 100) :=
  ⟨kinv_of_check _ _ (by decide), by decide⟩

/-- regression (was: release-profile / wrapping-add-alone divergence at a boundary): a bump from
`u32::MAX` journals an SOA row with serial 0, and the replay accepts it — the journal recovers the
zone with serial 0, exactly what memory holds -/
example :
    let c := exCfg
    let z0 := exZone U32_MAX
    DumpReplays c z0 ∧ serial (zoneAfter c z0 [twoAdds]) exOrigin = 0 ∧
    recover c (journalAfter c z0 [twoAdds]) = some (zoneAfter c z0 [twoAdds]) := by decide

end HickoryVerif.C14
