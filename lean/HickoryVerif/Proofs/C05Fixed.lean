/-
C05 for the **repaired** `TBS::new` (repo-patches/C05-tbs-canonical-order.diff; model `Tbs.tbsFixed`):
the full-strength statement, with no hypothesis on the RRset.  Becomes the property theorem of the
check once the repair is committed to /repo (see repo-patches/C05-verif-switch-after-fix.diff).
-/
import HickoryVerif.Proofs.C05

namespace HickoryVerif.C05
open HickoryVerif HickoryVerif.Name HickoryVerif.Tbs HickoryVerif.Spec

theorem canonAll_eq (l : List Record) : canonAll l = canonList l := by
  induction l with
  | nil => rfl
  | cons r rs ih =>
    simp only [canonAll, canonList, ih]
    cases canonBytes r.data <;> cases canonList rs <;> rfl

theorem head_dedupAdj (y : Bytes) (ys : List Bytes) : ∃ t, dedupAdj (y :: ys) = y :: t := by
  induction ys generalizing y with
  | nil => exact ⟨[], rfl⟩
  | cons z zs ih =>
    by_cases h : y = z
    · obtain ⟨t, ht⟩ := ih z
      exact ⟨t, by simp [dedupAdj, h, ht]⟩
    · exact ⟨dedupAdj (z :: zs), by simp [dedupAdj, h]⟩

theorem dedupAdj_cons_ne {y z : Bytes} (zs : List Bytes) (h : y ≠ z) :
    dedupAdj (y :: z :: zs) = y :: dedupAdj (z :: zs) := by simp [dedupAdj, h]

theorem dedupAdj_cons_eq (y : Bytes) (zs : List Bytes) :
    dedupAdj (y :: y :: zs) = dedupAdj (y :: zs) := by simp [dedupAdj]

theorem insertStable_head (x z : Bytes) (zs : List Bytes) :
    ∃ h t, insertStable bytesLe x (z :: zs) = h :: t ∧ (h = x ∨ h = z) := by
  simp only [insertStable]
  split
  · exact ⟨x, z :: zs, rfl, Or.inl rfl⟩
  · exact ⟨z, _, rfl, Or.inr rfl⟩

/-- `sort` then `dedup` commutes with the spec's insertion into a strictly sorted set -/
theorem dedup_insert (x : Bytes) (s : List Bytes) :
    dedupAdj (insertStable bytesLe x s) = insertCanon x (dedupAdj s) := by
  induction s with
  | nil => rfl
  | cons y ys ih =>
    cases hc : compare x y with
    | lt =>
      have hne : x ≠ y := fun h => by subst h; simp at hc
      obtain ⟨t, ht⟩ := head_dedupAdj y ys
      simp only [insertStable, bytesLe, hc]
      simp only [bne_iff_ne, ne_eq, reduceCtorEq, not_false_eq_true, ↓reduceIte]
      rw [dedupAdj_cons_ne _ hne, ht]
      simp [insertCanon, hc]
    | eq =>
      have he : x = y := Std.compare_eq_iff_eq.1 hc
      subst he
      obtain ⟨t, ht⟩ := head_dedupAdj x ys
      simp only [insertStable, bytesLe, hc]
      simp only [bne_iff_ne, ne_eq, reduceCtorEq, not_false_eq_true, ↓reduceIte]
      rw [dedupAdj_cons_eq, ht]
      simp [insertCanon]
    | gt =>
      have hne : y ≠ x := fun h => by subst h; simp at hc
      have hins : insertStable bytesLe x (y :: ys) = y :: insertStable bytesLe x ys := by
        simp [insertStable, bytesLe, hc]
      rw [hins]
      cases ys with
      | nil =>
        simp [insertStable, dedupAdj, hne, insertCanon, hc]
      | cons z zs =>
        by_cases hyz : y = z
        · subst hyz
          have hins2 : insertStable bytesLe x (y :: zs) = y :: insertStable bytesLe x zs := by
            simp [insertStable, bytesLe, hc]
          rw [dedupAdj_cons_eq y zs, ← ih, hins2, dedupAdj_cons_eq]
        · obtain ⟨h, t, ht, hh⟩ := insertStable_head x z zs
          have hyh : y ≠ h := by
            rcases hh with rfl | rfl
            · exact hne
            · exact hyz
          rw [ht, dedupAdj_cons_ne _ hyh, ← ht, ih, dedupAdj_cons_ne _ hyz]
          simp [insertCanon, hc]

theorem dedup_sort (l : List Bytes) : dedupAdj (sortStable bytesLe l) = sortDistinct l := by
  induction l with
  | nil => rfl
  | cons x xs ih =>
    have h1 : sortStable bytesLe (x :: xs) = insertStable bytesLe x (sortStable bytesLe xs) := rfl
    have h2 : sortDistinct (x :: xs) = insertCanon x (sortDistinct xs) := rfl
    rw [h1, h2, dedup_insert, ih]

/-- **Signed data, full strength (repaired code).**  For every owner name, class, RRSIG parameter
tuple and record list — any order, duplicates, mixed-case owner and RDATA names, differing TTLs,
foreign records — the repaired `TBS::new` returns exactly the RFC 4035 §5.3.2 signed data (or an
error when there is none / it exceeds the encoder buffer). -/
theorem tbs_eq_spec (name : Name) (cls : Nat) (i : SigInput) (records : List Record)
    (hb : C04.Bounded name) :
    tbsFixed name cls i records = expected name cls i records := by
  have hdn := determine_name_spec name i.numLabels hb
  unfold tbsFixed expected signedData
  simp only [canonAll_eq, canonicalRdatas_eq, sigInputEmit_eq, emitRR_eq]
  cases hcl : canonList (collect name cls i records) with
  | none => cases signedOwner name i.numLabels <;> rfl
  | some rds =>
    simp only [dedup_sort]
    cases hd : determineName name i.numLabels with
    | ok n =>
      rw [hd] at hdn
      cases hs : signedOwner name i.numLabels with
      | none => rw [hs] at hdn; simp [Outcome.map] at hdn
      | some w =>
        rw [hs] at hdn
        simp only [Outcome.map, Outcome.ok.injEq] at hdn
        simp only [hdn]
    | err =>
      rw [hd] at hdn
      cases hs : signedOwner name i.numLabels with
      | none => rfl
      | some w => rw [hs] at hdn; simp [Outcome.map] at hdn
    | panic s =>
      rw [hd] at hdn
      cases hs : signedOwner name i.numLabels <;> rw [hs] at hdn <;> simp [Outcome.map] at hdn

/-- the three inputs on which the current code deviates are handled by the repaired code -/
example :
    tbsFixed exampleCom 1 (sigOf 2) [nsRec nsExampleNet, nsRec nsExampleCom]
      = expected exampleCom 1 (sigOf 2) [nsRec nsExampleNet, nsRec nsExampleCom] ∧
    tbsFixed exampleCom 1 (sigOf 2) [nsRec nsExampleCom, nsRec nsExampleCom]
      = expected exampleCom 1 (sigOf 2) [nsRec nsExampleCom, nsRec nsExampleCom] ∧
    tbsFixed exampleCom 1 (sigOf 1) [aRec 300 [10, 0, 0, 2], aRec 60 [10, 0, 0, 9]]
      = expected exampleCom 1 (sigOf 1) [aRec 300 [10, 0, 0, 2], aRec 60 [10, 0, 0, 9]] := by
  decide

end HickoryVerif.C05
