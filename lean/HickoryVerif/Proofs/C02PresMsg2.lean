/-
C02 — `rdata_preserved` over a whole message, the EDNS and EDNS + TSIG cases (stage 4).
`emitMessage_layouts_edns` / `_tsig` expose the section layouts of `emitMessage_reads_edns` / `_tsig`;
`rdataAt_section(s)` walks them.
-/
import HickoryVerif.Proofs.C02PresMsg
import HickoryVerif.Proofs.C02Tsig
namespace HickoryVerif.C02
open HickoryVerif HickoryVerif.Name HickoryVerif.Wire HickoryVerif.C03

/-- the layouts of the record sections in what `Message::emit` writes, with EDNS -/
theorem emitMessage_layouts_edns (m : Message) (ed : Edns) (hwf : MsgWFE m)
    (hed : m.edns = some ed) (L : Nat) (md' : Metadata) (c : Counts) (e' : Enc)
    (h : emitMessage m ((Enc.new []).setMaxSize L) = .ok (md', c) e') :
    ∃ (w : Written) (p1 p2 p3 p4 : Nat), c.an = w.an ∧ c.ns = w.ns ∧ c.ar = w.ar + (if w.edns then 1 else 0) ∧
      12 ≤ p1 ∧ p4 ≤ e'.buf.length ∧
      layAll ((m.answers.take w.an).map layRecord) H12 e'.buf p1 p2 ∧
      layAll ((m.authorities.take w.ns).map layRecord) H12 e'.buf p2 p3 ∧
      layAll ((m.additionals.take w.ar).map layRecord) H12 e'.buf p3 p4 := by
  obtain ⟨hedwf, hedhigh⟩ := hwf.edns ed hed
  have hed' : ({ ed with rcodeHigh := rcodeHigh m.md.rcode } : Edns) = ed := by
    rw [← hedhigh]
  unfold emitMessage emitMessageParts at h
  generalize hE0 : (Enc.new []).setMaxSize L = e0 at h
  have happ0 : e0.offset = e0.buf.length := by rw [← hE0]; rfl
  have hbuf0 : e0.buf = [] := by rw [← hE0]; rfl
  have hoff0 : e0.offset = 0 := by rw [← hE0]; rfl
  have hptr0 : e0.ptrs = [] := by rw [← hE0]; rfl
  have hnl0 : NoLower e0 := by rw [← hE0]; exact ⟨rfl, by simp [Enc.new, Enc.withOffset, Enc.setMaxSize]⟩
  rw [place_app _ _ happ0] at h
  by_cases hfit : e0.maxSize < e0.offset + 12
  · simp [hfit] at h
  simp only [hfit, ↓reduceIte] at h
  generalize hE1 : ({ e0 with buf := e0.buf ++ List.replicate 12 0, offset := e0.offset + 12 } : Enc) = e1 at h
  have happ1 : e1.offset = e1.buf.length := by rw [← hE1, hbuf0, hoff0]; simp
  have hoff1 : e1.offset = 12 := by rw [← hE1, hoff0]
  have hinv1 : PtrInvH H12 e1 := by
    intro p hp; rw [← hE1] at hp; simp only [hptr0] at hp; cases hp
  have hH1 : ∀ a b, e1.offset ≤ a → H12 (a, b) := by intro a b hab; show 12 ≤ a; omega
  have hnl1 : NoLower e1 := by rw [← hE1]; exact hnl0
  have hmax1 : e1.maxSize = e0.maxSize := by rw [← hE1]
  cases hqr : e1.emitIter (m.queries.map emitQuery) with
  | panic s => rw [hqr] at h; simp at h
  | err k e2 => rw [hqr] at h; simp at h
  | ok qc e2 =>
    rw [hqr] at h
    simp only at h
    have P2 := emitIterFrom_layout emitQuery layQuery m.queries H12 e1 e2 0 qc
      (fun q hq => emits_emitQuery q (hwf.qs q hq).1) (fun q _ => isLayout_query q) happ1 hinv1 hH1 hnl1 hqr
    have hqc : qc = m.queries.length := by
      have := emitIterFrom_ok_count _ e1 0 qc e2 hqr; simpa using this
    have hnl2 : NoLower e2 := ⟨by rw [P2.canon]; exact hnl1.1, by rw [P2.ne]; exact hnl1.2⟩
    have hH2 : ∀ a b, e2.offset ≤ a → H12 (a, b) := by
      intro a b hab; show 12 ≤ a; have := P2.le; omega
    cases han : countWasTruncated (e2.emitIter (m.answers.map emitRecord)) with
    | panic s => rw [han] at h; simp at h
    | err k e3 => rw [han] at h; simp at h
    | ok r3 e3 =>
      rw [han] at h
      obtain ⟨anC, anT⟩ := r3
      simp only at h
      obtain ⟨hanle, han16, hanT, P3⟩ := section_any hwf.an P2.app P2.inv hH2 hnl2 han
      have hnl3 : NoLower e3 := ⟨by rw [P3.canon]; exact hnl2.1, by rw [P3.ne]; exact hnl2.2⟩
      have hH3 : ∀ a b, e3.offset ≤ a → H12 (a, b) := by
        intro a b hab; show 12 ≤ a; have := P2.le; have := P3.le; omega
      cases hns : countWasTruncated (e3.emitIter (m.authorities.map emitRecord)) with
      | panic s => rw [hns] at h; simp at h
      | err k e4 => rw [hns] at h; simp at h
      | ok r4 e4 =>
        rw [hns] at h
        obtain ⟨nsC, nsT⟩ := r4
        simp only at h
        obtain ⟨hnsle, hns16, hnsT, P4⟩ := section_any hwf.ns P3.app P3.inv hH3 hnl3 hns
        have hnl4 : NoLower e4 := ⟨by rw [P4.canon]; exact hnl3.1, by rw [P4.ne]; exact hnl3.2⟩
        have hH4 : ∀ a b, e4.offset ≤ a → H12 (a, b) := by
          intro a b hab; show 12 ≤ a; have := P2.le; have := P3.le; have := P4.le; omega
        cases har : countWasTruncated (e4.emitIter (m.additionals.map emitRecord)) with
        | panic s => rw [har] at h; simp at h
        | err k e5 => rw [har] at h; simp at h
        | ok r5 e5 =>
          rw [har] at h
          obtain ⟨arC, arT⟩ := r5
          obtain ⟨harle, har16, harT, P5⟩ := section_any hwf.ar P4.app P4.inv hH4 hnl4 har
          have hnl5 : NoLower e5 := ⟨by rw [P5.canon]; exact hnl4.1, by rw [P5.ne]; exact hnl4.2⟩
          have hH5 : ∀ a b, e5.offset ≤ a → H12 (a, b) := by
            intro a b hab; show 12 ≤ a; have := P2.le; have := P3.le; have := P4.le; have := P5.le; omega
          simp only [hed, hwf.sig, Option.map_some, hed'] at h
          -- the OPT record
          cases hopt : emitExtra (some (recordOfEdns ed)) (arC, arT) e5 with
          | panic s => rw [hopt] at h; simp at h
          | err k e6 => rw [hopt] at h; simp at h
          | ok r6 e6 =>
          rw [hopt] at h
          obtain ⟨arC1, arT1⟩ := r6
          simp only [emitExtra] at h
          obtain ⟨kept, hkc, hkt, hk16, P6⟩ := optSection_any ed hedwf P5.app P5.inv hH5 hnl5 hopt
          split at h
          · simp at h
          rename_i hqc16
          have hle := P2.le; have hle3 := P3.le; have hle4 := P4.le; have hle5 := P5.le; have hle6 := P6.le
          have hlen6 : e0.offset + 12 ≤ e6.buf.length := by rw [← P6.app]; omega
          have hmax6 : e0.offset + 12 ≤ e6.maxSize := by
            rw [P6.max, P5.max, P4.max, P3.max, P2.max, hmax1]; omega
          rw [placeReplace_header _ _ hlen6 hmax6 (by omega)] at h
          simp only [ERes.ok.injEq, Prod.mk.injEq] at h
          obtain ⟨⟨rfl, rfl⟩, rfl⟩ := h
          simp only at hkc hkt hk16
          refine ⟨⟨anC, nsC, arC, kept⟩, e2.offset, e3.offset, e4.offset, e5.offset, rfl, rfl, hkc, by omega, ?_⟩
          simp only [hoff0, List.take_zero, List.nil_append, Nat.zero_add]
          generalize hMD : ({ m.md with tc := m.md.tc || anT || nsT || arT1 } : Metadata) = mdw
          generalize hC : ({ qd := qc, an := anC, ns := nsC, ar := arC1 } : Counts) = cc
          have hcc : cc.qd = qc ∧ cc.an = anC ∧ cc.ns = nsC ∧ cc.ar = arC1 := by rw [← hC]; exact ⟨rfl, rfl, rfl, rfl⟩
          generalize hfb : headerBytes mdw cc ++ List.drop 12 e6.buf = fb
          have hfblen : fb.length = e6.buf.length := by
            rw [← hfb]; simp only [List.length_append, List.length_drop, headerBytes, List.length_cons,
              List.length_nil]; omega
          have hsame : ∀ i, 12 ≤ i → fb[i]? = e6.buf[i]? := by
            intro i hi
            rw [← hfb, List.getElem?_append_right (by simp [headerBytes]; omega)]
            simp only [headerBytes, List.length_cons, List.length_nil, List.getElem?_drop]
            congr 1; omega
          have hseg : SegAt fb 0 (headerBytes mdw cc) := by
            rw [← hfb]
            refine ⟨by simp, ?_⟩
            simp only [List.drop_zero]
            exact List.take_left' rfl
          have pre6 : e6.buf.take e6.buf.length = e6.buf := List.take_length
          have pre5 : e6.buf.take e5.buf.length = e5.buf := by rw [← P5.app]; exact P6.pre
          have pre4 : e6.buf.take e4.buf.length = e4.buf :=
            take_chain (by rw [← P4.app]; exact P5.pre) pre5
          have pre3 : e6.buf.take e3.buf.length = e3.buf :=
            take_chain (by rw [← P3.app]; exact P4.pre) pre4
          have pre2 : e6.buf.take e2.buf.length = e2.buf :=
            take_chain (by rw [← P2.app]; exact P3.pre) pre3
          have LQ := lay_final (isLayout_all _ (by
            intro L hL; simp only [List.mem_map] at hL; obtain ⟨q, _, rfl⟩ := hL; exact isLayout_query q))
            (by omega) P2.lay pre2 hfblen hsame
          have recsLay : ∀ (b : Bool) (rs : List Record), (∀ r ∈ rs, SectionOK m.md.op r b) →
              IsLayout (layAll (rs.map layRecord)) := by
            intro b rs hrs
            refine isLayout_all _ ?_
            intro L hL
            simp only [List.mem_map] at hL
            obtain ⟨r, hr, rfl⟩ := hL
            refine isLayout_record r ?_
            rcases (hrs r hr).1.data with h1 | h1
            · left; rw [h1]; rfl
            · right; exact h1.1
          have wa := sectionOK_take anC hwf.an
          have wn := sectionOK_take nsC hwf.ns
          have wr := sectionOK_take arC hwf.ar
          have LA := lay_final (recsLay _ _ wa) (by omega) P3.lay pre3 hfblen hsame
          have LN := lay_final (recsLay _ _ wn) (by omega) P4.lay pre4 hfblen hsame
          have LR := lay_final (recsLay _ _ wr) (by omega) P5.lay pre5 hfblen hsame
          refine ⟨by rw [hfblen, ← P6.app]; omega, LA, LN, LR⟩

/-- … with EDNS and a TSIG record -/
theorem emitMessage_layouts_tsig (m : Message) (ed : Edns) (s : Record) (hwf : MsgWFT m)
    (hed : m.edns = some ed) (hsg : m.signature = some s) (L : Nat) (md' : Metadata) (c : Counts) (e' : Enc)
    (h : emitMessage m ((Enc.new []).setMaxSize L) = .ok (md', c) e') :
    ∃ (w : WrittenT) (p1 p2 p3 p4 : Nat), c.an = w.an ∧ c.ns = w.ns ∧
      c.ar = w.ar + (if w.edns then 1 else 0) + (if w.sig then 1 else 0) ∧ 12 ≤ p1 ∧ p4 ≤ e'.buf.length ∧
      layAll ((m.answers.take w.an).map layRecord) H12 e'.buf p1 p2 ∧
      layAll ((m.authorities.take w.ns).map layRecord) H12 e'.buf p2 p3 ∧
      layAll ((m.additionals.take w.ar).map layRecord) H12 e'.buf p3 p4 := by
  obtain ⟨hedwf, hedhigh⟩ := hwf.edns ed hed
  have hswf := hwf.sig s hsg
  have hed' : ({ ed with rcodeHigh := rcodeHigh m.md.rcode } : Edns) = ed := by
    rw [← hedhigh]
  unfold emitMessage emitMessageParts at h
  generalize hE0 : (Enc.new []).setMaxSize L = e0 at h
  have happ0 : e0.offset = e0.buf.length := by rw [← hE0]; rfl
  have hbuf0 : e0.buf = [] := by rw [← hE0]; rfl
  have hoff0 : e0.offset = 0 := by rw [← hE0]; rfl
  have hptr0 : e0.ptrs = [] := by rw [← hE0]; rfl
  have hnl0 : NoLower e0 := by rw [← hE0]; exact ⟨rfl, by simp [Enc.new, Enc.withOffset, Enc.setMaxSize]⟩
  rw [place_app _ _ happ0] at h
  by_cases hfit : e0.maxSize < e0.offset + 12
  · simp [hfit] at h
  simp only [hfit, ↓reduceIte] at h
  generalize hE1 : ({ e0 with buf := e0.buf ++ List.replicate 12 0, offset := e0.offset + 12 } : Enc) = e1 at h
  have happ1 : e1.offset = e1.buf.length := by rw [← hE1, hbuf0, hoff0]; simp
  have hoff1 : e1.offset = 12 := by rw [← hE1, hoff0]
  have hinv1 : PtrInvH H12 e1 := by
    intro p hp; rw [← hE1] at hp; simp only [hptr0] at hp; cases hp
  have hH1 : ∀ a b, e1.offset ≤ a → H12 (a, b) := by intro a b hab; show 12 ≤ a; omega
  have hnl1 : NoLower e1 := by rw [← hE1]; exact hnl0
  have hmax1 : e1.maxSize = e0.maxSize := by rw [← hE1]
  cases hqr : e1.emitIter (m.queries.map emitQuery) with
  | panic s => rw [hqr] at h; simp at h
  | err k e2 => rw [hqr] at h; simp at h
  | ok qc e2 =>
    rw [hqr] at h
    simp only at h
    have P2 := emitIterFrom_layout emitQuery layQuery m.queries H12 e1 e2 0 qc
      (fun q hq => emits_emitQuery q (hwf.qs q hq).1) (fun q _ => isLayout_query q) happ1 hinv1 hH1 hnl1 hqr
    have hqc : qc = m.queries.length := by
      have := emitIterFrom_ok_count _ e1 0 qc e2 hqr; simpa using this
    have hnl2 : NoLower e2 := ⟨by rw [P2.canon]; exact hnl1.1, by rw [P2.ne]; exact hnl1.2⟩
    have hH2 : ∀ a b, e2.offset ≤ a → H12 (a, b) := by
      intro a b hab; show 12 ≤ a; have := P2.le; omega
    cases han : countWasTruncated (e2.emitIter (m.answers.map emitRecord)) with
    | panic s => rw [han] at h; simp at h
    | err k e3 => rw [han] at h; simp at h
    | ok r3 e3 =>
      rw [han] at h
      obtain ⟨anC, anT⟩ := r3
      simp only at h
      obtain ⟨hanle, han16, hanT, P3⟩ := section_any hwf.an P2.app P2.inv hH2 hnl2 han
      have hnl3 : NoLower e3 := ⟨by rw [P3.canon]; exact hnl2.1, by rw [P3.ne]; exact hnl2.2⟩
      have hH3 : ∀ a b, e3.offset ≤ a → H12 (a, b) := by
        intro a b hab; show 12 ≤ a; have := P2.le; have := P3.le; omega
      cases hns : countWasTruncated (e3.emitIter (m.authorities.map emitRecord)) with
      | panic s => rw [hns] at h; simp at h
      | err k e4 => rw [hns] at h; simp at h
      | ok r4 e4 =>
        rw [hns] at h
        obtain ⟨nsC, nsT⟩ := r4
        simp only at h
        obtain ⟨hnsle, hns16, hnsT, P4⟩ := section_any hwf.ns P3.app P3.inv hH3 hnl3 hns
        have hnl4 : NoLower e4 := ⟨by rw [P4.canon]; exact hnl3.1, by rw [P4.ne]; exact hnl3.2⟩
        have hH4 : ∀ a b, e4.offset ≤ a → H12 (a, b) := by
          intro a b hab; show 12 ≤ a; have := P2.le; have := P3.le; have := P4.le; omega
        cases har : countWasTruncated (e4.emitIter (m.additionals.map emitRecord)) with
        | panic s => rw [har] at h; simp at h
        | err k e5 => rw [har] at h; simp at h
        | ok r5 e5 =>
          rw [har] at h
          obtain ⟨arC, arT⟩ := r5
          obtain ⟨harle, har16, harT, P5⟩ := section_any hwf.ar P4.app P4.inv hH4 hnl4 har
          have hnl5 : NoLower e5 := ⟨by rw [P5.canon]; exact hnl4.1, by rw [P5.ne]; exact hnl4.2⟩
          have hH5 : ∀ a b, e5.offset ≤ a → H12 (a, b) := by
            intro a b hab; show 12 ≤ a; have := P2.le; have := P3.le; have := P4.le; have := P5.le; omega
          simp only [hed, hsg, Option.map_some, hed'] at h
          -- the OPT record
          cases hopt : emitExtra (some (recordOfEdns ed)) (arC, arT) e5 with
          | panic s => rw [hopt] at h; simp at h
          | err k e6 => rw [hopt] at h; simp at h
          | ok r6 e6 =>
          rw [hopt] at h
          obtain ⟨arC1, arT1⟩ := r6
          simp only at h
          obtain ⟨kept, hkc, hkt, hk16, P6⟩ := optSection_any ed hedwf P5.app P5.inv hH5 hnl5 hopt
          have hnl6 : NoLower e6 := ⟨by rw [P6.canon]; exact hnl5.1, by rw [P6.ne]; exact hnl5.2⟩
          have hH6 : ∀ a b, e6.offset ≤ a → H12 (a, b) := by
            intro a b hab; show 12 ≤ a
            have := P2.le; have := P3.le; have := P4.le; have := P5.le; have := P6.le; omega
          -- the TSIG record
          cases hsig : emitExtra (some s) (arC1, arT1) e6 with
          | panic s => rw [hsig] at h; simp at h
          | err k e7 => rw [hsig] at h; simp at h
          | ok r7 e7 =>
          rw [hsig] at h
          obtain ⟨arC2, arT2⟩ := r7
          simp only at h
          obtain ⟨keptS, hsc, hst, hs16, P7⟩ := sigSection_any s hswf P6.app P6.inv hH6 hnl6 hsig
          split at h
          · simp at h
          rename_i hqc16
          have hle := P2.le; have hle3 := P3.le; have hle4 := P4.le; have hle5 := P5.le; have hle6 := P6.le
          have hle7 := P7.le
          have hlen7 : e0.offset + 12 ≤ e7.buf.length := by rw [← P7.app]; omega
          have hmax7 : e0.offset + 12 ≤ e7.maxSize := by
            rw [P7.max, P6.max, P5.max, P4.max, P3.max, P2.max, hmax1]; omega
          rw [placeReplace_header _ _ hlen7 hmax7 (by omega)] at h
          simp only [ERes.ok.injEq, Prod.mk.injEq] at h
          obtain ⟨⟨rfl, rfl⟩, rfl⟩ := h
          simp only at hkc hkt hk16 hsc hst hs16
          refine ⟨⟨anC, nsC, arC, kept, keptS⟩, e2.offset, e3.offset, e4.offset, e5.offset, rfl, rfl, by rw [hsc, hkc],
            by omega, ?_⟩
          simp only [hoff0, List.take_zero, List.nil_append, Nat.zero_add]
          generalize hMD : ({ m.md with tc := m.md.tc || anT || nsT || arT2 } : Metadata) = mdw
          generalize hC : ({ qd := qc, an := anC, ns := nsC, ar := arC2 } : Counts) = cc
          have hcc : cc.qd = qc ∧ cc.an = anC ∧ cc.ns = nsC ∧ cc.ar = arC2 := by rw [← hC]; exact ⟨rfl, rfl, rfl, rfl⟩
          generalize hfb : headerBytes mdw cc ++ List.drop 12 e7.buf = fb
          have hfblen : fb.length = e7.buf.length := by
            rw [← hfb]; simp only [List.length_append, List.length_drop, headerBytes, List.length_cons,
              List.length_nil]; omega
          have hsame : ∀ i, 12 ≤ i → fb[i]? = e7.buf[i]? := by
            intro i hi
            rw [← hfb, List.getElem?_append_right (by simp [headerBytes]; omega)]
            simp only [headerBytes, List.length_cons, List.length_nil, List.getElem?_drop]
            congr 1; omega
          have hseg : SegAt fb 0 (headerBytes mdw cc) := by
            rw [← hfb]
            refine ⟨by simp, ?_⟩
            simp only [List.drop_zero]
            exact List.take_left' rfl
          have pre7 : e7.buf.take e7.buf.length = e7.buf := List.take_length
          have pre6 : e7.buf.take e6.buf.length = e6.buf := by rw [← P6.app]; exact P7.pre
          have pre5 : e7.buf.take e5.buf.length = e5.buf :=
            take_chain (by rw [← P5.app]; exact P6.pre) pre6
          have pre4 : e7.buf.take e4.buf.length = e4.buf :=
            take_chain (by rw [← P4.app]; exact P5.pre) pre5
          have pre3 : e7.buf.take e3.buf.length = e3.buf :=
            take_chain (by rw [← P3.app]; exact P4.pre) pre4
          have pre2 : e7.buf.take e2.buf.length = e2.buf :=
            take_chain (by rw [← P2.app]; exact P3.pre) pre3
          have LQ := lay_final (isLayout_all _ (by
            intro L hL; simp only [List.mem_map] at hL; obtain ⟨q, _, rfl⟩ := hL; exact isLayout_query q))
            (by omega) P2.lay pre2 hfblen hsame
          have recsLay : ∀ (b : Bool) (rs : List Record), (∀ r ∈ rs, SectionOK m.md.op r b) →
              IsLayout (layAll (rs.map layRecord)) := by
            intro b rs hrs
            refine isLayout_all _ ?_
            intro L hL
            simp only [List.mem_map] at hL
            obtain ⟨r, hr, rfl⟩ := hL
            refine isLayout_record r ?_
            rcases (hrs r hr).1.data with h1 | h1
            · left; rw [h1]; rfl
            · right; exact h1.1
          have wa := sectionOK_take anC hwf.an
          have wn := sectionOK_take nsC hwf.ns
          have wr := sectionOK_take arC hwf.ar
          have LA := lay_final (recsLay _ _ wa) (by omega) P3.lay pre3 hfblen hsame
          have LN := lay_final (recsLay _ _ wn) (by omega) P4.lay pre4 hfblen hsame
          have LR := lay_final (recsLay _ _ wr) (by omega) P5.lay pre5 hfblen hsame
          refine ⟨by rw [hfblen, ← P7.app]; omega, LA, LN, LR⟩

theorem isLayout_section {ia : Bool} {op : Nat} (rs : List Record) (h : ∀ r ∈ rs, SectionOK op r ia) :
    IsLayout (layAll (rs.map layRecord)) := by
  refine isLayout_all _ ?_
  intro L hL
  simp only [List.mem_map] at hL
  obtain ⟨r, hr, rfl⟩ := hL
  refine isLayout_record r ?_
  rcases (h r hr).1.data with h1 | h1
  · left; rw [h1]; rfl
  · right; exact h1.1

/-- one section: every record written has its RDATA region, which decodes at its position -/
theorem rdataAt_section (opq : Nat → Rd Bytes) {ia : Bool} {op : Nat} {buf : Bytes} (sec : List Record)
    (n p e : Nat) (hsec : ∀ r ∈ sec, SectionOK op r ia) (hp : 12 ≤ p) (he : e ≤ buf.length)
    (hl : layAll ((sec.take n).map layRecord) H12 buf p e) :
    ∀ (i : Nat) (r : Record), i < n → sec[i]? = some r → r.rdata.isUpdate = false →
      ∃ q len, 12 < q ∧ 0 < len ∧ q + len ≤ buf.length ∧ RDataAt opq buf r q len := by
  intro i r hi hr hnu
  have hmem : r ∈ sec := List.mem_of_getElem? hr
  have hget : (sec.take n)[i]? = some r := by rw [List.getElem?_take_of_lt hi]; exact hr
  have hil : ∀ x ∈ sec.take n, IsLayout (layRecord x) := by
    intro x hx
    refine isLayout_record x ?_
    rcases (hsec x (List.mem_of_mem_take hx)).1.data with h1 | h1
    · left; rw [h1]; rfl
    · right; exact h1.1
  obtain ⟨pi, ei, h1, h2, h3⟩ := layAll_get (sec.take n) p e hil hl i r hget
  obtain ⟨q, len, hq1, hq2, hq3, hq4⟩ := rdataAt_of_layRecord (opq := opq) r (hsec r hmem).1 hnu h3
  exact ⟨q, len, by omega, hq3, by omega, hq4⟩

/-- the three sections at once, from their layouts -/
theorem rdataAt_sections (opq : Nat → Rd Bytes) {op : Nat} {buf : Bytes} (an ns ar : List Record)
    (han : ∀ r ∈ an, SectionOK op r) (hns : ∀ r ∈ ns, SectionOK op r) (har : ∀ r ∈ ar, SectionOK op r true)
    (nan nns nar p1 p2 p3 p4 : Nat) (h12 : 12 ≤ p1) (hend : p4 ≤ buf.length)
    (LA : layAll ((an.take nan).map layRecord) H12 buf p1 p2)
    (LN : layAll ((ns.take nns).map layRecord) H12 buf p2 p3)
    (LR : layAll ((ar.take nar).map layRecord) H12 buf p3 p4) :
    ∀ (sec : List Record) (n : Nat), (sec = an ∧ n = nan) ∨ (sec = ns ∧ n = nns) ∨ (sec = ar ∧ n = nar) →
      ∀ (i : Nat) (r : Record), i < n → sec[i]? = some r → r.rdata.isUpdate = false →
        ∃ q len, 12 < q ∧ 0 < len ∧ q + len ≤ buf.length ∧ RDataAt opq buf r q len := by
  have bA := (isLayout_section _ (fun r hr => han r (List.mem_of_mem_take hr))).bounds LA
  have bN := (isLayout_section _ (fun r hr => hns r (List.mem_of_mem_take hr))).bounds LN
  have bR := (isLayout_section _ (fun r hr => har r (List.mem_of_mem_take hr))).bounds LR
  intro sec n hs
  rcases hs with ⟨rfl, rfl⟩ | ⟨rfl, rfl⟩ | ⟨rfl, rfl⟩
  · exact rdataAt_section opq _ _ p1 p2 han h12 (by omega) LA
  · exact rdataAt_section opq _ _ p2 p3 hns (by omega) (by omega) LN
  · exact rdataAt_section opq _ _ p3 p4 har (by omega) hend LR

/-- **`rdata_preserved` over a whole message, with EDNS** (`w` = what was written of the sections) -/
theorem rdata_preserved_message_edns_partial (opq : Nat → Rd Bytes) (m : Message) (ed : Edns) (hwf : MsgWFE m)
    (hed : m.edns = some ed) (L : Nat) (md' : Metadata) (c : Counts) (e' : Enc)
    (h : emitMessage m ((Enc.new []).setMaxSize L) = .ok (md', c) e') :
    ∃ w : Written, c.an = w.an ∧ c.ns = w.ns ∧ c.ar = w.ar + (if w.edns then 1 else 0) ∧
      ∀ (sec : List Record) (n : Nat), (sec = m.answers ∧ n = w.an) ∨ (sec = m.authorities ∧ n = w.ns) ∨
          (sec = m.additionals ∧ n = w.ar) →
        ∀ (i : Nat) (r : Record), i < n → sec[i]? = some r → r.rdata.isUpdate = false →
          ∃ q len, 12 < q ∧ 0 < len ∧ q + len ≤ e'.buf.length ∧ RDataAt opq e'.buf r q len := by
  obtain ⟨w, p1, p2, p3, p4, h1, h2, h3, h12, hend, LA, LN, LR⟩ := emitMessage_layouts_edns m ed hwf hed L md' c e' h
  exact ⟨w, h1, h2, h3, rdataAt_sections opq _ _ _ hwf.an hwf.ns hwf.ar _ _ _ p1 p2 p3 p4 h12 hend LA LN LR⟩

/-- **… with EDNS and a TSIG record** -/
theorem rdata_preserved_message_tsig_partial (opq : Nat → Rd Bytes) (m : Message) (ed : Edns) (s : Record)
    (hwf : MsgWFT m) (hed : m.edns = some ed) (hsg : m.signature = some s) (L : Nat) (md' : Metadata)
    (c : Counts) (e' : Enc) (h : emitMessage m ((Enc.new []).setMaxSize L) = .ok (md', c) e') :
    ∃ w : WrittenT, c.an = w.an ∧ c.ns = w.ns ∧
      c.ar = w.ar + (if w.edns then 1 else 0) + (if w.sig then 1 else 0) ∧
      ∀ (sec : List Record) (n : Nat), (sec = m.answers ∧ n = w.an) ∨ (sec = m.authorities ∧ n = w.ns) ∨
          (sec = m.additionals ∧ n = w.ar) →
        ∀ (i : Nat) (r : Record), i < n → sec[i]? = some r → r.rdata.isUpdate = false →
          ∃ q len, 12 < q ∧ 0 < len ∧ q + len ≤ e'.buf.length ∧ RDataAt opq e'.buf r q len := by
  obtain ⟨w, p1, p2, p3, p4, h1, h2, h3, h12, hend, LA, LN, LR⟩ :=
    emitMessage_layouts_tsig m ed s hwf hed hsg L md' c e' h
  exact ⟨w, h1, h2, h3, rdataAt_sections opq _ _ _ hwf.an hwf.ns hwf.ar _ _ _ p1 p2 p3 p4 h12 hend LA LN LR⟩

end HickoryVerif.C02
