/-
C13, part 2 — **which octets of a message are authenticated** (`tbs_injective`), for the repaired
code (/repo 84e713d: header digested as received, TSIG RR CLASS/TTL forced to ANY/0).

Two messages from which `signed_bitmessage_to_buf` derives the *same* to-be-signed bytes agree on
  * header octets 2..9 verbatim (flags incl. Z, QDCOUNT, ANCOUNT, NSCOUNT) and ARCOUNT,
  * the Original ID inside the TSIG RDATA            (NOT the header id),
  * the offset at which the TSIG RR starts and every octet in `[12, that offset)`,
  * the TSIG variables: key name and algorithm name up to ASCII case and compression, time
    signed, fudge, error, other data  (`tsigVars_injective`);
and both carry CLASS ANY / TTL 0 in the TSIG RR (`tsig_class_ttl_forced`).
What remains unauthenticated, by design: the wire header id (the Original ID is digested
instead), the MAC and its length field (what the digest is compared with), the way the two names
of the TSIG RR are written (case, compression — the canonical form is digested), and whatever
follows the TSIG RR.  Witnesses for these, and regression examples for the repaired items, are in
`Proofs/C13Panic.lean`.

Together with the MAC oracle assumption (`C13.mutation_rejected`) this is the precise form of
"any bit-flipped request is rejected".
-/
import HickoryVerif.Model.Tsig
import HickoryVerif.Proofs.C13Span
import HickoryVerif.Proofs.C04Bounds

namespace HickoryVerif.C13
open HickoryVerif HickoryVerif.Tsig

/-! ### ranges of decoded fields -/

theorem rd16_lt {b : Bytes} (w : Bytes.WF b) {i n : Nat} (h : rd16 b i = some n) : n < 65536 := by
  unfold rd16 at h
  split at h
  · rename_i x y hx hy
    have := w x (List.mem_of_getElem? hx); have := w y (List.mem_of_getElem? hy)
    simp only [Option.some.injEq] at h; omega
  · simp at h

theorem rd32_lt {b : Bytes} (w : Bytes.WF b) {i n : Nat} (h : rd32 b i = some n) :
    n < 4294967296 := by
  unfold rd32 at h
  split at h
  · rename_i x y hx hy
    have := rd16_lt w hx; have := rd16_lt w hy
    simp only [Option.some.injEq] at h; omega
  · simp at h

theorem wf_take {b : Bytes} (w : Bytes.WF b) (n : Nat) : Bytes.WF (b.take n) :=
  fun x hx => w x (List.mem_of_mem_take hx)

structure HdrWF (h : Hdr) : Prop where
  id : h.id < 65536
  b2 : h.b2 < 256
  b3 : h.b3 < 256
  qd : h.qd < 65536
  an : h.an < 65536
  ns : h.ns < 65536
  ar : h.ar < 65536

theorem readHdr_wf {b : Bytes} (w : Bytes.WF b) {h : Hdr} (hh : readHdr b = some h) : HdrWF h := by
  unfold readHdr at hh
  split at hh
  · rename_i id b2 b3 qd an ns ar h1 h2 h3 h4 h5 h6 h7
    simp only [Option.some.injEq] at hh; subst hh
    exact ⟨rd16_lt w h1, w _ (List.mem_of_getElem? h2), w _ (List.mem_of_getElem? h3),
      rd16_lt w h4, rd16_lt w h5, rd16_lt w h6, rd16_lt w h7⟩
  · simp at hh

structure TsigWF (d : TsigData) : Prop where
  time : d.time < 281474976710656
  fudge : d.fudge < 65536
  oid : d.oid < 65536
  error : d.error < 65536
  other : d.other.length < 65536

theorem readTsigData_wf {b : Bytes} (w : Bytes.WF b) {s l : Nat} {d : TsigData}
    (h : readTsigData b s l = .ok d) : TsigWF d := by
  unfold readTsigData at h
  have w' := wf_take w (s + l)
  simp only at h
  split at h
  · split at h
    · rename_i th tl fu ms h1 h2 h3 h4
      split at h
      · simp at h
      · split at h
        · rename_i oid er ol h5 h6 h7
          split at h
          · simp at h
          · simp only [Outcome.ok.injEq] at h; subst h
            have := rd16_lt w' h1; have := rd32_lt w' h2; have := rd16_lt w' h3
            have := rd16_lt w' h5; have := rd16_lt w' h6; have := rd16_lt w' h7
            refine ⟨by simp only; omega, by simpa, by simpa, by simpa, ?_⟩
            simp only [List.length_take]; omega
        · simp at h
    · simp at h
  · simp at h
  · simp at h

/-! ### what `locateSig` establishes -/

/-- everything before the TSIG RR: `qd` questions, then `k₁`, then `k₂` records -/
def PreSpan (qd k₁ k₂ : Nat) : Bytes → Nat → Nat → Prop :=
  Seq (Iter QSpan qd) (Seq (Iter RecSpan k₁) (Iter RecSpan k₂))

theorem Loc.pre (qd k₁ k₂ : Nat) : Loc (PreSpan qd k₁ k₂) :=
  (Loc.q.iter qd).seq ((Loc.record.iter k₁).seq (Loc.record.iter k₂))

/-- the single `read_records(decoder, 1, true, op)` that must yield the TSIG -/
theorem readRecords_one {b : Bytes} {upd : Bool} {p q : Nat} {s : SigRec} {e : Option Nat}
    (h : readRecords b true upd 1 p none none = .ok (q, some s, e)) :
    s.start = p ∧ p < b.length ∧
      ∃ f, readFrame b p = .ok f ∧ readTsigData b f.rdStart f.rdLen = .ok s.data ∧
        s.name = f.name := by
  rw [readRecords] at h
  split at h
  · rename_i f hf
    split at h
    · rename_i td htd
      split at h
      · rename_i sig' edns' hstep
        simp only [readRecords, Outcome.ok.injEq, Prod.mk.injEq] at h
        obtain ⟨_, hsig, _⟩ := h
        subst hsig
        have hlt : p < b.length := by
          have h1 := (readFrame_span hf).2
          unfold readFrame at hf
          split at hf
          · split at hf
            · split at hf
              · simp at hf
              · split at hf
                · simp at hf
                · simp only [Outcome.ok.injEq] at hf; subst hf; simp only at h1; omega
            · simp at hf
          · simp at hf
          · simp at hf
        -- the step produced `some s`: it is the TSIG arm
        unfold recStep at hstep
        split at hstep
        · simp at hstep
        · split at hstep
          · simp at hstep
          · split at hstep
            · simp at hstep
            · split at hstep
              · simp at hstep
              · split at hstep
                · rename_i d
                  simp only [Option.some.injEq, Prod.mk.injEq] at hstep
                  obtain ⟨hs, _⟩ := hstep
                  subst hs
                  refine ⟨rfl, hlt, f, hf, ?_, rfl⟩
                  unfold tsigOf at htd
                  split at htd
                  · split at htd
                    · rename_i d' hd'
                      simp only [Outcome.ok.injEq, Option.some.injEq] at htd
                      rw [← htd]; exact hd'
                    · simp at htd
                    · simp at htd
                  · simp at htd
                · split at hstep
                  · split at hstep <;> simp at hstep
                  · simp at hstep
      · simp at h
    · simp at h
    · simp at h
  · simp at h
  · simp at h

structure Located (b : Bytes) (h : Hdr) (pos : Nat) (s : SigRec) : Prop where
  span : Seq (Iter RecSpan (h.an + h.ns)) (Iter RecSpan (h.ar - 1)) b pos s.start
  lt : s.start < b.length
  data : ∃ f, readFrame b s.start = .ok f ∧ readTsigData b f.rdStart f.rdLen = .ok s.data ∧
    s.name = f.name
  /-- CLASS = ANY and TTL = 0 are enforced (repair 84e713d) -/
  classTtl : s.rclass = 255 ∧ s.ttl = 0

theorem locateSig_ok {b : Bytes} {h : Hdr} {pos : Nat} {rdok : Bool} {s : SigRec}
    (hl : locateSig b h pos rdok = .ok s) : Located b h pos s := by
  unfold locateSig at hl
  split at hl
  · simp at hl
  · split at hl
    · rename_i p1 _ _ h1
      split at hl
      · rename_i p2 sig2 _ h2
        split at hl
        · simp at hl
        · split at hl
          · rename_i q s' e h3
            split at hl
            · simp at hl
            · rename_i hct
              simp only [Outcome.ok.injEq] at hl; subst hl
              obtain ⟨hs, hlt, hf⟩ := readRecords_one h3
              subst hs
              exact ⟨⟨p1, readRecords_span _ _ _ _ _ _ _ _ _ _ h1,
                readRecords_span _ _ _ _ _ _ _ _ _ _ h2⟩, hlt, hf, by omega⟩
          · simp at hl
          · simp at hl
          · simp at hl
      · simp at hl
      · simp at hl
    · simp at hl
    · simp at hl

/-- the pieces of a successful `signed_bitmessage_to_buf` -/
theorem signed_ok {b : Bytes} {prev : Option Bytes} {first rdok : Bool} {t : Bytes} {s : SigRec}
    (h : signedBitmessageToBuf b prev first rdok = .ok (t, s)) :
    ∃ hd, readHdr b = some hd ∧ hd.ar ≠ 0 ∧ t = tbsOf b hd s prev first ∧
      PreSpan hd.qd (hd.an + hd.ns) (hd.ar - 1) b 12 s.start ∧ s.start < b.length ∧
      (∃ f, readFrame b s.start = .ok f ∧ readTsigData b f.rdStart f.rdLen = .ok s.data ∧
        s.name = f.name) ∧ s.rclass = 255 ∧ s.ttl = 0 := by
  unfold signedBitmessageToBuf at h
  split at h
  · simp at h
  · rename_i hd hh
    split at h
    · simp at h
    · rename_i har
      split at h
      · rename_i pos hq
        split at h
        · rename_i s' hl
          simp only [Outcome.ok.injEq, Prod.mk.injEq] at h
          obtain ⟨ht, hs⟩ := h; subst hs
          have L := locateSig_ok hl
          exact ⟨hd, hh, har, ht.symm, ⟨pos, skipQueries_span _ _ _ _ hq, L.span⟩, L.lt, L.data,
            L.classTtl⟩
        · simp at h
        · simp at h
      · simp at h
      · simp at h

/-! ### the theorem -/

theorem getElem?_body (b : Bytes) (n i : Nat) (hi : i < n) :
    ((b.drop 12).take n)[i]? = b[12 + i]? := by
  rw [List.getElem?_take, if_pos hi, List.getElem?_drop]

theorem u16_parts {a b : Nat} (ha : a < 65536) (hb : b < 65536)
    (h1 : a / 256 % 256 = b / 256 % 256) (h2 : a % 256 = b % 256) : a = b := by omega

theorem be16_inj' {a b : Nat} (ha : a < 65536) (hb : b < 65536) (h : be16 a = be16 b) : a = b := by
  simp only [be16, List.cons.injEq, and_true] at h; exact u16_parts ha hb h.1 h.2

theorem readHdr_len12 {b : Bytes} {h : Hdr} (hh : readHdr b = some h) : 12 ≤ b.length := by
  unfold readHdr at hh
  split at hh
  · rename_i id b2 b3 qd an ns ar h1 h2 h3 h4 h5 h6 h7
    unfold rd16 at h7
    split at h7
    · rename_i a c ha hc
      obtain ⟨hlt, _⟩ := List.getElem?_eq_some_iff.mp hc
      omega
    · simp at h7
  · simp at hh

theorem rd16_congr {b₁ b₂ : Bytes} {i : Nat} (h0 : b₁[i]? = b₂[i]?) (h1 : b₁[i + 1]? = b₂[i + 1]?) :
    rd16 b₁ i = rd16 b₂ i := by
  unfold rd16; rw [h0, h1]

theorem readHdr_counts {b : Bytes} {h : Hdr} (hh : readHdr b = some h) :
    rd16 b 4 = some h.qd ∧ rd16 b 6 = some h.an ∧ rd16 b 8 = some h.ns := by
  unfold readHdr at hh
  split at hh
  · rename_i id b2 b3 qd an ns ar h1 h2 h3 h4 h5 h6 h7
    simp only [Option.some.injEq] at hh; subst hh
    exact ⟨h4, h5, h6⟩
  · simp at hh

/-- **Which octets are authenticated** (repaired code).  Two messages from which
`signed_bitmessage_to_buf` derives the same to-be-signed bytes have
  * the same header octets 2..9 *verbatim* (both flag octets incl. the Z bit, QDCOUNT, ANCOUNT,
    NSCOUNT),
  * the same ARCOUNT and the same Original ID,
  * the TSIG RR at the same offset, every octet in `[12, that offset)` equal,
  * the same TSIG variables (resp. timers for a later message);
and (`tsig_class_ttl_forced`) both TSIG RRs have CLASS ANY and TTL 0. -/
theorem tbs_injective {b₁ b₂ : Bytes} {prev : Option Bytes} {first rd₁ rd₂ : Bool} {t : Bytes}
    {s₁ s₂ : SigRec} (w₁ : Bytes.WF b₁) (w₂ : Bytes.WF b₂)
    (h₁ : signedBitmessageToBuf b₁ prev first rd₁ = .ok (t, s₁))
    (h₂ : signedBitmessageToBuf b₂ prev first rd₂ = .ok (t, s₂)) :
    ∃ hd₁ hd₂, readHdr b₁ = some hd₁ ∧ readHdr b₂ = some hd₂ ∧
      (b₁.drop 2).take 8 = (b₂.drop 2).take 8 ∧
      hd₁.ar = hd₂.ar ∧
      s₁.data.oid = s₂.data.oid ∧
      s₁.start = s₂.start ∧ Agree b₁ b₂ 12 s₁.start ∧
      (if first then tsigVars s₁.name s₁.data else tsigTimers s₁.data) =
        (if first then tsigVars s₂.name s₂.data else tsigTimers s₂.data) := by
  obtain ⟨hd₁, hh₁, har₁, ht₁, sp₁, lt₁, ⟨f₁, hf₁, hd1, _⟩, _⟩ := signed_ok h₁
  obtain ⟨hd₂, hh₂, har₂, ht₂, sp₂, lt₂, ⟨f₂, hf₂, hd2, _⟩, _⟩ := signed_ok h₂
  have W₁ := readHdr_wf w₁ hh₁
  have W₂ := readHdr_wf w₂ hh₂
  have T₁ := readTsigData_wf w₁ hd1
  have T₂ := readTsigData_wf w₂ hd2
  have ge₁ : 12 ≤ s₁.start := (Loc.pre _ _ _).le sp₁
  have ge₂ : 12 ≤ s₂.start := (Loc.pre _ _ _).le sp₂
  have l₁ := readHdr_len12 hh₁
  have l₂ := readHdr_len12 hh₂
  -- split the common TBS
  have e := ht₁.symm.trans ht₂
  simp only [tbsOf, hdrDigest, List.append_assoc] at e
  have e := List.append_cancel_left e
  -- Original ID
  obtain ⟨eoid, e⟩ := List.append_inj e (by simp [be16])
  have hoid : s₁.data.oid = s₂.data.oid := be16_inj' T₁.oid T₂.oid eoid
  -- header octets 2..9
  obtain ⟨emid, e⟩ := List.append_inj e (by
    simp only [List.length_take, List.length_drop]; omega)
  -- ARCOUNT
  obtain ⟨ear, er⟩ := List.append_inj e (by simp [be16])
  have har : hd₁.ar = hd₂.ar := by
    have h1 := W₁.ar; have h2 := W₂.ar
    have := be16_inj' (a := hd₁.ar - 1) (b := hd₂.ar - 1) (by omega) (by omega) ear
    omega
  -- the counts, from the verbatim octets
  have hcnt : hd₁.qd = hd₂.qd ∧ hd₁.an = hd₂.an ∧ hd₁.ns = hd₂.ns := by
    have g : ∀ i, 2 ≤ i → i < 10 → b₁[i]? = b₂[i]? := by
      intro i h2 h10
      have c := congrArg (fun l => l[i - 2]?) emid
      simp only [List.getElem?_take, List.getElem?_drop] at c
      rw [if_pos (by omega), if_pos (by omega)] at c
      have : 2 + (i - 2) = i := by omega
      rwa [this] at c
    obtain ⟨a1, a2, a3⟩ := readHdr_counts hh₁
    obtain ⟨c1, c2, c3⟩ := readHdr_counts hh₂
    rw [rd16_congr (g 4 (by omega) (by omega)) (g 5 (by omega) (by omega)), c1] at a1
    rw [rd16_congr (g 6 (by omega) (by omega)) (g 7 (by omega) (by omega)), c2] at a2
    rw [rd16_congr (g 8 (by omega) (by omega)) (g 9 (by omega) (by omega)), c3] at a3
    simp only [Option.some.injEq] at a1 a2 a3
    exact ⟨a1.symm, a2.symm, a3.symm⟩
  obtain ⟨hqd, han, hns⟩ := hcnt
  -- the octets before the TSIG RR
  have len₁ : ((b₁.drop 12).take (s₁.start - 12)).length = s₁.start - 12 := by
    simp only [List.length_take, List.length_drop]; omega
  have len₂ : ((b₂.drop 12).take (s₂.start - 12)).length = s₂.start - 12 := by
    simp only [List.length_take, List.length_drop]; omega
  have agree : Agree b₁ b₂ 12 (min s₁.start s₂.start) := by
    intro i hi1 hi2
    have c := congrArg (fun l => l[i - 12]?) er
    rw [List.getElem?_append_left (by rw [len₁]; omega),
      List.getElem?_append_left (by rw [len₂]; omega),
      getElem?_body _ _ _ (by omega), getElem?_body _ _ _ (by omega)] at c
    have : 12 + (i - 12) = i := by omega
    rwa [this] at c
  have hstart : s₁.start = s₂.start := by
    rw [hqd, han, hns, har] at sp₁
    exact (Loc.pre _ _ _).same_end sp₁ sp₂ agree
  obtain ⟨_, ev⟩ := List.append_inj er (by rw [len₁, len₂, hstart])
  refine ⟨hd₁, hd₂, hh₁, hh₂, emid, har, hoid, hstart, ?_, ev⟩
  rw [← hstart, Nat.min_self] at agree
  exact agree

/-- CLASS and TTL of the TSIG RR are no longer free: every message with a TBS has CLASS ANY and
TTL 0 there (a message with anything else is rejected before any MAC is looked at). -/
theorem tsig_class_ttl_forced {b : Bytes} {prev : Option Bytes} {first rdok : Bool} {t : Bytes}
    {s : SigRec} (h : signedBitmessageToBuf b prev first rdok = .ok (t, s)) :
    s.rclass = 255 ∧ s.ttl = 0 := by
  obtain ⟨_, _, _, _, _, _, _, hc⟩ := signed_ok h
  exact hc

/-! ### the TSIG variables determine the TSIG fields -/

/-- a name as the decoder produces it: no empty label, every label shorter than 256 octets -/
def LabelsOK (n : Name) : Prop := ∀ l ∈ n.labels, l ≠ [] ∧ l.length < 256

theorem wire_prefix_free : ∀ (ls₁ ls₂ : List Bytes) (r₁ r₂ : Bytes),
    (∀ l ∈ ls₁, l ≠ []) → (∀ l ∈ ls₂, l ≠ []) →
    (ls₁.map Name.emitLabel).flatten ++ 0 :: r₁ = (ls₂.map Name.emitLabel).flatten ++ 0 :: r₂ →
    ls₁ = ls₂ ∧ r₁ = r₂
  | [], [], r₁, r₂, _, _, h => by simpa using h
  | [], l :: ls, r₁, r₂, _, h2, h => by
    have := h2 l (by simp)
    simp [Name.emitLabel] at h
    exact absurd (List.length_eq_zero_iff.mp h.1.symm) this
  | l :: ls, [], r₁, r₂, h1, _, h => by
    have := h1 l (by simp)
    simp [Name.emitLabel] at h
    exact absurd h.1 this
  | l :: ls, l' :: ls', r₁, r₂, h1, h2, h => by
    simp only [List.map_cons, List.flatten_cons, Name.emitLabel, List.cons_append,
      List.append_assoc, List.cons.injEq] at h
    obtain ⟨hl, hr⟩ := h
    obtain ⟨e1, e2⟩ := List.append_inj hr hl
    subst e1
    obtain ⟨e3, e4⟩ := wire_prefix_free ls ls' r₁ r₂ (fun x hx => h1 x (by simp [hx]))
      (fun x hx => h2 x (by simp [hx])) e2
    exact ⟨by rw [e3], e4⟩

theorem lowerLabel_ne_nil {l : Bytes} (h : l ≠ []) : Name.lowerLabel l ≠ [] := by
  cases l <;> simp_all [Name.lowerLabel]

/-- `lowerWire` is prefix-free: equal concatenations have equal names (up to case) -/
theorem lowerWire_cancel {n₁ n₂ : Name} {r₁ r₂ : Bytes} (o₁ : LabelsOK n₁) (o₂ : LabelsOK n₂)
    (h : lowerWire n₁ ++ r₁ = lowerWire n₂ ++ r₂) :
    n₁.labels.map Name.lowerLabel = n₂.labels.map Name.lowerLabel ∧ r₁ = r₂ := by
  simp only [lowerWire, Name.wire, Name.toLowercase, List.append_assoc, List.singleton_append] at h
  exact wire_prefix_free _ _ _ _
    (fun l hl => by
      obtain ⟨x, hx, rfl⟩ := List.mem_map.mp hl; exact lowerLabel_ne_nil (o₁ x hx).1)
    (fun l hl => by
      obtain ⟨x, hx, rfl⟩ := List.mem_map.mp hl; exact lowerLabel_ne_nil (o₂ x hx).1) h

theorem be16_inj {a b : Nat} (ha : a < 65536) (hb : b < 65536) (h : be16 a = be16 b) : a = b := by
  simp only [be16, List.cons.injEq, and_true] at h; omega

theorem be48_inj {a b : Nat} (ha : a < 281474976710656) (hb : b < 281474976710656)
    (h : be48 a = be48 b) : a = b := by
  simp only [be48, be16, be32, List.cons_append, List.nil_append, List.cons.injEq, and_true] at h
  omega

/-- **The TSIG variables determine** the key name and the algorithm name up to ASCII case (and
nothing about how they were compressed), the time signed, the fudge, the error and the other
data — for records whose names came out of the decoder (`LabelsOK`, see `readName_labelsOK`). -/
theorem tsigVars_injective {n₁ n₂ : Name} {d₁ d₂ : TsigData}
    (on₁ : LabelsOK n₁) (on₂ : LabelsOK n₂) (oa₁ : LabelsOK d₁.algName) (oa₂ : LabelsOK d₂.algName)
    (T₁ : TsigWF d₁) (T₂ : TsigWF d₂) (h : tsigVars n₁ d₁ = tsigVars n₂ d₂) :
    n₁.labels.map Name.lowerLabel = n₂.labels.map Name.lowerLabel ∧
    d₁.algName.labels.map Name.lowerLabel = d₂.algName.labels.map Name.lowerLabel ∧
    d₁.time = d₂.time ∧ d₁.fudge = d₂.fudge ∧ d₁.error = d₂.error ∧ d₁.other = d₂.other := by
  simp only [tsigVars, List.append_assoc] at h
  obtain ⟨hn, h⟩ := lowerWire_cancel on₁ on₂ h
  simp only [List.cons_append, List.nil_append, List.cons.injEq, true_and] at h
  obtain ⟨ha, h⟩ := lowerWire_cancel oa₁ oa₂ h
  obtain ⟨ht, h⟩ := List.append_inj h (by simp [be48, be16, be32])
  obtain ⟨hf, h⟩ := List.append_inj h (by simp [be16])
  obtain ⟨he, h⟩ := List.append_inj h (by simp [be16])
  obtain ⟨_, ho⟩ := List.append_inj h (by simp [be16])
  exact ⟨hn, ha, be48_inj T₁.time T₂.time ht, be16_inj T₁.fudge T₂.fudge hf,
    be16_inj T₁.error T₂.error he, ho⟩

/-! ### decoded names satisfy `LabelsOK` -/

theorem readLabels_labelsOK (buf : Bytes) (pos ns : Nat) (pm : Option Nat) (acc : Name) :
    LabelsOK acc → ∀ n p, Name.readLabels buf pos ns pm acc = .ok (n, p) → LabelsOK n := by
  fun_induction Name.readLabels buf pos ns pm acc with
  | case1 => intro _ n p h; simp at h
  | case2 => intro _ n p h; simp at h
  | case3 pos ns pm acc _ hb =>
    intro ho n p h
    simp only [Outcome.ok.injEq, Prod.mk.injEq] at h
    rw [← h.1]; exact ho
  | case4 => intro _ n p h; simp at h
  | case5 => intro _ n p h; simp at h
  | case6 pos ns pm acc _ b hb hz h3 b1 hb1 loc hlt hgt n' p' hrec ih =>
    intro ho n p h
    simp only [Outcome.ok.injEq, Prod.mk.injEq] at h
    rw [← h.1]; exact ih ho n' p' hrec
  | case7 => intro _ n p h; simp at h
  | case8 => intro _ n p h; simp at h
  | case9 => intro _ n p h; simp at h
  | case10 pos ns pm acc _ b hb hz h3 h0 hfit acc' hext ih =>
    intro ho n p h
    refine ih ?_ n p h
    obtain ⟨ha, _⟩ := C04.extendName_ok hext
    subst ha
    intro l hl
    simp only [List.mem_append, List.mem_singleton] at hl
    rcases hl with hl | hl
    · exact ho l hl
    · subst hl
      have hlen : ((List.drop (pos + 1) buf).take b).length = b := by
        simp only [List.length_take, List.length_drop]; omega
      refine ⟨?_, by rw [hlen]; omega⟩
      intro hnil
      rw [hnil] at hlen; simp at hlen; omega
  | case11 => intro _ n p h; simp at h
  | case12 => intro _ n p h; simp at h
  | case13 => intro _ n p h; simp at h
  | case14 => intro _ n p h; simp at h

theorem readName_labelsOK {buf : Bytes} {pos p : Nat} {n : Name}
    (h : Name.readName buf pos = .ok (n, p)) : LabelsOK n := by
  unfold Name.readName at h
  split at h
  · rename_i n' p' hl
    split at h
    · simp at h
    · simp only [Outcome.ok.injEq, Prod.mk.injEq] at h
      rw [← h.1]
      exact readLabels_labelsOK _ _ _ _ _ (by intro l hl; simp [Name.new] at hl) _ _ hl
  · simp at h
  · simp at h

theorem readTsigData_labelsOK {b : Bytes} {s l : Nat} {d : TsigData}
    (h : readTsigData b s l = .ok d) : LabelsOK d.algName := by
  unfold readTsigData at h
  simp only at h
  split at h
  · rename_i an p hn
    split at h
    · split at h
      · simp at h
      · split at h
        · split at h
          · simp at h
          · simp only [Outcome.ok.injEq] at h; subst h
            exact fun l hl => readName_labelsOK hn l hl
        · simp at h
    · simp at h
  · simp at h
  · simp at h

theorem readFrame_labelsOK {b : Bytes} {pos : Nat} {f : Frame} (h : readFrame b pos = .ok f) :
    LabelsOK f.name := by
  unfold readFrame at h
  split at h
  · rename_i n p hn
    split at h
    · split at h
      · simp at h
      · split at h
        · simp at h
        · simp only [Outcome.ok.injEq] at h; subst h; exact readName_labelsOK hn
    · simp at h
  · simp at h
  · simp at h

/-- **The authenticated fields of the TSIG RR** (first message): two messages with the same
to-be-signed bytes carry TSIG RRs with the same key name and algorithm name up to ASCII case, the
same time signed, fudge, error and other data (and, by `tbs_injective`, the same Original ID). -/
theorem authenticated_fields {b₁ b₂ : Bytes} {prev : Option Bytes} {rd₁ rd₂ : Bool} {t : Bytes}
    {s₁ s₂ : SigRec} (w₁ : Bytes.WF b₁) (w₂ : Bytes.WF b₂)
    (h₁ : signedBitmessageToBuf b₁ prev true rd₁ = .ok (t, s₁))
    (h₂ : signedBitmessageToBuf b₂ prev true rd₂ = .ok (t, s₂)) :
    s₁.name.labels.map Name.lowerLabel = s₂.name.labels.map Name.lowerLabel ∧
    s₁.data.algName.labels.map Name.lowerLabel = s₂.data.algName.labels.map Name.lowerLabel ∧
    s₁.data.time = s₂.data.time ∧ s₁.data.fudge = s₂.data.fudge ∧
    s₁.data.error = s₂.data.error ∧ s₁.data.other = s₂.data.other ∧
    s₁.data.oid = s₂.data.oid := by
  obtain ⟨_, _, _, _, _, _, hoid, _, _, hv⟩ := tbs_injective w₁ w₂ h₁ h₂
  obtain ⟨_, _, _, _, _, _, ⟨f₁, hf₁, hd1, hn1⟩, _⟩ := signed_ok h₁
  obtain ⟨_, _, _, _, _, _, ⟨f₂, hf₂, hd2, hn2⟩, _⟩ := signed_ok h₂
  simp only [if_true] at hv
  have r := tsigVars_injective (by rw [hn1]; exact readFrame_labelsOK hf₁)
    (by rw [hn2]; exact readFrame_labelsOK hf₂) (readTsigData_labelsOK hd1)
    (readTsigData_labelsOK hd2) (readTsigData_wf w₁ hd1) (readTsigData_wf w₂ hd2) hv
  exact ⟨r.1, r.2.1, r.2.2.1, r.2.2.2.1, r.2.2.2.2.1, r.2.2.2.2.2, hoid⟩

end HickoryVerif.C13
