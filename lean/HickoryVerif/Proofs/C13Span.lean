/-
C13 (helper) — *where* the walker goes depends only on the octets it passes over.

`NameSpan b p e`: the encoded name that starts at `p` ends at `e` (labels until the root octet or
the first compression pointer).  This is purely positional: the target of a pointer is not
looked at.  `readName` succeeds only along a `NameSpan` (`readName_span`); spans are functional
and local, so two buffers that agree on `[p, min e₁ e₂)` have the same span.  The same for a
question, a record, and `k` records.
-/
import HickoryVerif.Model.TsigWalk

namespace HickoryVerif.C13
open HickoryVerif HickoryVerif.Tsig

/-- the two buffers hold the same octets at the indices `lo ≤ i < hi` -/
def Agree (b₁ b₂ : Bytes) (lo hi : Nat) : Prop := ∀ i, lo ≤ i → i < hi → b₁[i]? = b₂[i]?

theorem Agree.symm {b₁ b₂ : Bytes} {lo hi : Nat} (h : Agree b₁ b₂ lo hi) : Agree b₂ b₁ lo hi :=
  fun i h1 h2 => (h i h1 h2).symm

theorem Agree.mono {b₁ b₂ : Bytes} {lo hi lo' hi' : Nat} (h : Agree b₁ b₂ lo hi)
    (h1 : lo ≤ lo') (h2 : hi' ≤ hi) : Agree b₁ b₂ lo' hi' :=
  fun i a c => h i (by omega) (by omega)

/-- A positional relation "the item starting at `p` ends at `e`" that only reads `[p, e)`. -/
structure Loc (S : Bytes → Nat → Nat → Prop) : Prop where
  le : ∀ {b p e}, S b p e → p ≤ e
  func : ∀ {b p e e'}, S b p e → S b p e' → e = e'
  loc : ∀ {b₁ b₂ p e}, S b₁ p e → Agree b₁ b₂ p e → S b₂ p e

/-- two buffers that agree up to the nearer end have the same end -/
theorem Loc.same_end {S} (hS : Loc S) {b₁ b₂ : Bytes} {p e₁ e₂ : Nat}
    (h1 : S b₁ p e₁) (h2 : S b₂ p e₂) (ha : Agree b₁ b₂ p (min e₁ e₂)) : e₁ = e₂ := by
  rcases Nat.le_total e₁ e₂ with h | h
  · exact hS.func (hS.loc h1 (ha.mono (Nat.le_refl _) (by omega))) h2
  · exact (hS.func (hS.loc h2 (ha.symm.mono (Nat.le_refl _) (by omega))) h1).symm

/-- sequential composition -/
def Seq (S T : Bytes → Nat → Nat → Prop) (b : Bytes) (p e : Nat) : Prop :=
  ∃ m, S b p m ∧ T b m e

theorem Loc.seq {S T} (hS : Loc S) (hT : Loc T) : Loc (Seq S T) where
  le := fun ⟨m, h1, h2⟩ => Nat.le_trans (hS.le h1) (hT.le h2)
  func := fun ⟨m, h1, h2⟩ ⟨m', h1', h2'⟩ => by
    have := hS.func h1 h1'; subst this; exact hT.func h2 h2'
  loc := fun ⟨m, h1, h2⟩ ha =>
    ⟨m, hS.loc h1 (ha.mono (Nat.le_refl _) (hT.le h2)), hT.loc h2 (ha.mono (hS.le h1) (Nat.le_refl _))⟩

/-- `k`-fold repetition -/
def Iter (S : Bytes → Nat → Nat → Prop) : Nat → Bytes → Nat → Nat → Prop
  | 0, _, p, e => e = p
  | k + 1, b, p, e => ∃ m, S b p m ∧ Iter S k b m e

theorem Loc.iter {S} (hS : Loc S) : ∀ k, Loc (Iter S k)
  | 0 => { le := fun h => by simp [Iter] at h; omega
           func := fun h h' => by simp [Iter] at h h'; omega
           loc := fun h _ => by simpa [Iter] using h }
  | k + 1 => by
    have := (hS.seq (Loc.iter hS k))
    exact { le := fun h => this.le (S := Seq S (Iter S k)) h
            func := fun h h' => this.func (S := Seq S (Iter S k)) h h'
            loc := fun h ha => this.loc (S := Seq S (Iter S k)) h ha }

/-- `n` octets that exist -/
def Fixed (n : Nat) (b : Bytes) (p e : Nat) : Prop :=
  e = p + n ∧ ∀ i, p ≤ i → i < e → (b[i]?).isSome = true

theorem Loc.fixed (n : Nat) : Loc (Fixed n) where
  le := fun h => by have := h.1; omega
  func := fun h h' => by have := h.1; have := h'.1; omega
  loc := fun h ha => ⟨h.1, fun i h1 h2 => by rw [← ha i h1 h2]; exact h.2 i h1 h2⟩

/-- a 16-bit length followed by that many octets (`RDLENGTH` + `RDATA`) -/
def LenPrefixed (b : Bytes) (p e : Nat) : Prop :=
  ∃ n, rd16 b p = some n ∧ e = p + 2 + n

theorem rd16_agree {b₁ b₂ : Bytes} {p hi : Nat} (ha : Agree b₁ b₂ p hi) (h : p + 2 ≤ hi) :
    rd16 b₁ p = rd16 b₂ p := by
  unfold rd16
  rw [ha p (Nat.le_refl _) (by omega), ha (p + 1) (by omega) (by omega)]

theorem Loc.lenPrefixed : Loc LenPrefixed where
  le := fun ⟨n, _, h⟩ => by omega
  func := fun ⟨n, h1, h2⟩ ⟨n', h1', h2'⟩ => by rw [h1] at h1'; cases h1'; omega
  loc := fun ⟨n, h1, h2⟩ ha => ⟨n, by rw [← rd16_agree ha (by omega)]; exact h1, h2⟩

/-! ### names -/

inductive NameSpan (b : Bytes) : Nat → Nat → Prop
  | root {p : Nat} : b[p]? = some 0 → NameSpan b p (p + 1)
  | ptr {p l l1 : Nat} : b[p]? = some l → l / 64 = 3 → b[p + 1]? = some l1 → NameSpan b p (p + 2)
  | label {p l e : Nat} : b[p]? = some l → l ≠ 0 → l / 64 = 0 → NameSpan b (p + 1 + l) e →
      NameSpan b p e

theorem NameSpan.lt {b : Bytes} {p e : Nat} (h : NameSpan b p e) : p < e := by
  induction h with
  | root _ => omega
  | ptr _ _ _ => omega
  | label _ _ _ _ ih => omega

theorem NameSpan.func {b : Bytes} {p e e' : Nat} (h : NameSpan b p e) (h' : NameSpan b p e') :
    e = e' := by
  induction h generalizing e' with
  | root h0 =>
    cases h' with
    | root _ => rfl
    | ptr h1 h2 _ => rw [h0] at h1; cases h1; simp at h2
    | label h1 h2 _ _ => rw [h0] at h1; cases h1; simp at h2
  | ptr h0 h3 _ =>
    cases h' with
    | root h1 => rw [h0] at h1; cases h1; simp at h3
    | ptr _ _ _ => rfl
    | label h1 _ h2 _ => rw [h0] at h1; cases h1; omega
  | label h0 hne h00 _ ih =>
    cases h' with
    | root h1 => rw [h0] at h1; cases h1; simp at hne
    | ptr h1 h2 _ => rw [h0] at h1; cases h1; omega
    | label h1 _ _ hrest => rw [h0] at h1; cases h1; exact ih hrest

theorem NameSpan.loc {b₁ b₂ : Bytes} {p e : Nat} (h : NameSpan b₁ p e) (ha : Agree b₁ b₂ p e) :
    NameSpan b₂ p e := by
  induction h with
  | root h0 => exact .root (by rw [← ha _ (Nat.le_refl _) (by omega)]; exact h0)
  | ptr h0 h3 h1 =>
    exact .ptr (by rw [← ha _ (Nat.le_refl _) (by omega)]; exact h0) h3
      (by rw [← ha _ (by omega) (by omega)]; exact h1)
  | label h0 hne h00 hrest ih =>
    have := hrest.lt
    exact .label (by rw [← ha _ (Nat.le_refl _) (by omega)]; exact h0) hne h00
      (ih (ha.mono (by omega) (Nat.le_refl _)))

theorem Loc.name : Loc NameSpan where
  le := fun h => Nat.le_of_lt h.lt
  func := NameSpan.func
  loc := NameSpan.loc

/-- `read_inner` only succeeds along a span (and returns its end) -/
theorem readLabels_span (buf : Bytes) (pos ns : Nat) (pm : Option Nat) (acc : Name) :
    ∀ n p, Name.readLabels buf pos ns pm acc = .ok (n, p) → NameSpan buf pos p := by
  fun_induction Name.readLabels buf pos ns pm acc with
  | case1 => intro n p h; simp at h
  | case2 pos ns pm acc _ hb => intro n p h; simp at h
  | case3 pos ns pm acc _ hb =>
    intro n p h
    simp only [Outcome.ok.injEq, Prod.mk.injEq] at h
    rw [← h.2]; exact .root hb
  | case4 => intro n p h; simp at h
  | case5 pos ns pm acc _ b hb hz h3 b1 hb1 loc hlt hgt =>
    intro n p h; simp at h
  | case6 pos ns pm acc _ b hb hz h3 b1 hb1 loc hlt hgt n' p' hrec ih =>
    intro n p h
    simp only [Outcome.ok.injEq, Prod.mk.injEq] at h
    rw [← h.2]; exact .ptr hb h3 hb1
  | case7 => intro n p h; simp at h
  | case8 => intro n p h; simp at h
  | case9 => intro n p h; simp at h
  | case10 pos ns pm acc _ b hb hz h3 h0 hfit acc' hext ih =>
    intro n p h
    exact .label hb hz h0 (ih n p h)
  | case11 => intro n p h; simp at h
  | case12 => intro n p h; simp at h
  | case13 => intro n p h; simp at h
  | case14 => intro n p h; simp at h

theorem readName_span {buf : Bytes} {pos p : Nat} {n : Name}
    (h : Name.readName buf pos = .ok (n, p)) : NameSpan buf pos p := by
  unfold Name.readName at h
  split at h
  · rename_i n' p' hl
    split at h
    · simp at h
    · simp only [Outcome.ok.injEq, Prod.mk.injEq] at h
      rw [← h.2]; exact readLabels_span _ _ _ _ _ _ _ hl
  · simp at h
  · simp at h

/-! ### question, record, sections -/

/-- a question: name, type, class -/
def QSpan : Bytes → Nat → Nat → Prop := Seq NameSpan (Fixed 4)
/-- a record: name, type + class + ttl, rdlength + rdata -/
def RecSpan : Bytes → Nat → Nat → Prop := Seq NameSpan (Seq (Fixed 8) LenPrefixed)

theorem Loc.q : Loc QSpan := Loc.name.seq (Loc.fixed 4)
theorem Loc.record : Loc RecSpan := Loc.name.seq ((Loc.fixed 8).seq Loc.lenPrefixed)

theorem rd16_some {b : Bytes} {p n : Nat} (h : rd16 b p = some n) :
    (b[p]?).isSome = true ∧ (b[p + 1]?).isSome = true := by
  unfold rd16 at h
  split at h <;> simp_all

theorem rd32_some {b : Bytes} {p n : Nat} (h : rd32 b p = some n) :
    (b[p]?).isSome = true ∧ (b[p + 1]?).isSome = true ∧ (b[p + 2]?).isSome = true ∧
      (b[p + 3]?).isSome = true := by
  unfold rd32 at h
  split at h
  · rename_i a c ha hc
    have := rd16_some ha; have := rd16_some hc
    simp_all
  · simp at h

theorem readQuery_span {buf : Bytes} {pos p t c : Nat} {n : Name}
    (h : readQuery buf pos = .ok (n, t, c, p)) : QSpan buf pos p := by
  unfold readQuery at h
  split at h
  · rename_i n' p' hn
    split at h
    · rename_i t' c' ht hc
      simp only [Outcome.ok.injEq, Prod.mk.injEq] at h
      refine ⟨p', readName_span hn, by omega, ?_⟩
      intro i h1 h2
      have a := rd16_some ht; have b := rd16_some hc
      have : i = p' ∨ i = p' + 1 ∨ i = p' + 2 ∨ i = p' + 2 + 1 := by omega
      rcases this with rfl | rfl | rfl | rfl <;> simp_all
    · simp at h
  · simp at h
  · simp at h

theorem skipQueries_span (buf : Bytes) :
    ∀ k pos p, skipQueries buf k pos = .ok p → Iter QSpan k buf pos p := by
  intro k
  induction k with
  | zero => intro pos p h; simp [skipQueries] at h; simp [Iter, h]
  | succ k ih =>
    intro pos p h
    rw [skipQueries] at h
    split at h
    · rename_i n t c p' hq
      exact ⟨p', readQuery_span hq, ih _ _ h⟩
    · simp at h
    · simp at h

theorem readFrame_span {buf : Bytes} {pos : Nat} {f : Frame} (h : readFrame buf pos = .ok f) :
    RecSpan buf pos f.rdEnd ∧ pos < f.rdStart := by
  unfold readFrame at h
  split at h
  · rename_i n p hn
    split at h
    · rename_i t c ttl rdl ht hc httl hrdl
      split at h
      · simp at h
      · split at h
        · simp at h
        · simp only [Outcome.ok.injEq] at h; subst h
          have hs := readName_span hn
          refine ⟨⟨p, hs, p + 8, ⟨rfl, ?_⟩, rdl, hrdl, by simp [Frame.rdEnd]⟩, ?_⟩
          · intro i h1 h2
            have a := rd16_some ht; have b := rd16_some hc; have c := rd32_some httl
            have : i = p ∨ i = p + 1 ∨ i = p + 2 ∨ i = p + 2 + 1 ∨ i = p + 4 ∨ i = p + 4 + 1 ∨
                i = p + 4 + 2 ∨ i = p + 4 + 3 := by omega
            rcases this with rfl | rfl | rfl | rfl | rfl | rfl | rfl | rfl <;> simp_all
          · have := hs.lt; simp; omega
    · simp at h
  · simp at h
  · simp at h

/-- `read_records` reads `k` records one after the other -/
theorem readRecords_span (buf : Bytes) (isAdd upd : Bool) :
    ∀ (k pos : Nat) (sig : Option SigRec) (edns : Option Nat) (p : Nat) (s : Option SigRec)
      (e : Option Nat),
      readRecords buf isAdd upd k pos sig edns = .ok (p, s, e) → Iter RecSpan k buf pos p := by
  intro k
  induction k with
  | zero =>
    intro pos sig edns p s e h
    simp only [readRecords, Outcome.ok.injEq, Prod.mk.injEq] at h
    simp [Iter, h.1]
  | succ k ih =>
    intro pos sig edns p s e h
    rw [readRecords] at h
    split at h
    · rename_i f hf
      split at h
      · split at h
        · exact ⟨_, (readFrame_span hf).1, ih _ _ _ _ _ _ h⟩
        · simp at h
      · simp at h
      · simp at h
    · simp at h
    · simp at h

end HickoryVerif.C13
