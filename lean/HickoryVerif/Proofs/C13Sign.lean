/-
C13, part 5 — sign, then verify (the constructive direction).

`valid_signed_message_verifies`: take any message `front` that the walker gets through with the
counts `(QDCOUNT, ANCOUNT + NSCOUNT, ARCOUNT − 1)` exactly to its end, append the TSIG RR built
from a stub and a MAC (`tsigRRBytes`: uncompressed owner, TYPE 250, CLASS ANY, TTL 0, the RDATA of
`TSIG::emit`).  Then `signed_bitmessage_to_buf` succeeds on the result, finds that RR, and returns
as TBS exactly  previous MAC ‖ received header(id := Original ID, ARCOUNT − 1) ‖ front[12..] ‖ TSIG variables
— i.e. (with `C13.reply_verifies` / `request_verifies`) what the signer MAC'ed.  Hence, under the
MAC oracle, `verify_message_byte` accepts it (`signed_message_accepted`), and inside the window
the server applies the update (`C13Panic`'s examples are instances).

Needs: decoding is stable under appending octets (`readLabels_append` … `readRecords_append_suffix`)
and the TSIG RR round trip (`readFrame_tsigRR`, `readTsigData_rdata`, on top of
`C04.wire_roundtrip`).
-/
import HickoryVerif.Model.Tsig
import HickoryVerif.Proofs.C04Wire
import HickoryVerif.Proofs.C13Tbs
import HickoryVerif.Proofs.C13Reply

namespace HickoryVerif.C13
open HickoryVerif HickoryVerif.Tsig

/-! ### decoding is stable under appending octets -/

theorem getElem?_app {b x : Bytes} {i v : Nat} (h : b[i]? = some v) : (b ++ x)[i]? = some v := by
  obtain ⟨hlt, _⟩ := List.getElem?_eq_some_iff.mp h
  rw [List.getElem?_append_left hlt]; exact h

theorem take_drop_app (b x : Bytes) (p l : Nat) (h : p + l ≤ b.length) :
    ((b ++ x).drop p).take l = (b.drop p).take l := by
  rw [List.drop_append_of_le_length (by omega), List.take_append_of_le_length (by simp; omega)]

theorem readLabels_append (x : Bytes) (buf : Bytes) (pos ns : Nat) (pm : Option Nat) (acc : Name) :
    ∀ r, Name.readLabels buf pos ns pm acc = .ok r →
      Name.readLabels (buf ++ x) pos ns pm acc = .ok r := by
  fun_induction Name.readLabels buf pos ns pm acc with
  | case1 => intro r h; simp at h
  | case2 => intro r h; simp at h
  | case3 pos ns pm acc hpm hb =>
    intro r h
    rw [Name.readLabels.eq_def]
    simpa [hpm, getElem?_app hb] using h
  | case4 => intro r h; simp at h
  | case5 => intro r h; simp at h
  | case6 pos ns pm acc hpm b hb hz h3 b1 hb1 loc hlt hgt n' p' hrec ih =>
    intro r h
    rw [Name.readLabels.eq_def]
    have hgt' : ¬ (buf.length + x.length < (b * 256 + b1) % 16384) := by
      simp only [loc] at hgt; omega
    have hlt' : (b * 256 + b1) % 16384 < ns := hlt
    have := ih _ hrec
    simp only [loc] at this
    simp [hpm, getElem?_app hb, hz, h3, getElem?_app hb1, hlt', hgt', this]
    simpa using h
  | case7 => intro r h; simp at h
  | case8 => intro r h; simp at h
  | case9 => intro r h; simp at h
  | case10 pos ns pm acc hpm b hb hz h3 h0 hfit acc' hext ih =>
    intro r h
    rw [Name.readLabels.eq_def]
    have hfit' : pos + 1 + b ≤ (buf ++ x).length := by simp only [List.length_append]; omega
    have h03 : ¬ ((0 : Nat) = 3) := by decide
    simp only [hpm, getElem?_app hb, hz, h0, hfit', take_drop_app buf x (pos + 1) b hfit, hext,
      ih r h, Bool.false_eq_true, ↓reduceIte, ↓reduceDIte, h03]
  | case11 => intro r h; simp at h
  | case12 => intro r h; simp at h
  | case13 => intro r h; simp at h
  | case14 => intro r h; simp at h

theorem readName_append (x : Bytes) {buf : Bytes} {pos : Nat} {r : Name × Nat}
    (h : Name.readName buf pos = .ok r) : Name.readName (buf ++ x) pos = .ok r := by
  unfold Name.readName at h ⊢
  split at h
  · rename_i n p hl
    rw [readLabels_append x _ _ _ _ _ _ hl]
    exact h
  · simp at h
  · simp at h

theorem rd16_append (x : Bytes) {b : Bytes} {i v : Nat} (h : rd16 b i = some v) :
    rd16 (b ++ x) i = some v := by
  unfold rd16 at h ⊢
  split at h
  · rename_i a c ha hc
    rw [getElem?_app ha, getElem?_app hc]; exact h
  · simp at h

theorem rd32_append (x : Bytes) {b : Bytes} {i v : Nat} (h : rd32 b i = some v) :
    rd32 (b ++ x) i = some v := by
  unfold rd32 at h ⊢
  split at h
  · rename_i a c ha hc
    rw [rd16_append x ha, rd16_append x hc]; exact h
  · simp at h

theorem readQuery_append (x : Bytes) {buf : Bytes} {pos : Nat} {r : Name × Nat × Nat × Nat}
    (h : readQuery buf pos = .ok r) : readQuery (buf ++ x) pos = .ok r := by
  unfold readQuery at h ⊢
  split at h
  · rename_i n p hn
    rw [readName_append x hn]
    simp only
    split at h
    · rename_i t c ht hc
      rw [rd16_append x ht, rd16_append x hc]; exact h
    · simp at h
  · simp at h
  · simp at h

theorem skipQueries_append (x : Bytes) (buf : Bytes) :
    ∀ k pos p, skipQueries buf k pos = .ok p → skipQueries (buf ++ x) k pos = .ok p := by
  intro k
  induction k with
  | zero => intro pos p h; simpa [skipQueries] using h
  | succ k ih =>
    intro pos p h
    rw [skipQueries] at h ⊢
    split at h
    · rename_i n t c p' hq
      rw [readQuery_append x hq]
      exact ih _ _ h
    · simp at h
    · simp at h

theorem readFrame_le {buf : Bytes} {pos : Nat} {f : Frame} (h : readFrame buf pos = .ok f) :
    f.rdEnd ≤ buf.length := by
  unfold readFrame at h
  split at h
  · split at h
    · split at h
      · simp at h
      · split at h
        · simp at h
        · simp only [Outcome.ok.injEq] at h; subst h; simp only [Frame.rdEnd]; omega
    · simp at h
  · simp at h
  · simp at h

theorem readFrame_append (x : Bytes) {buf : Bytes} {pos : Nat} {f : Frame}
    (h : readFrame buf pos = .ok f) : readFrame (buf ++ x) pos = .ok f := by
  unfold readFrame at h ⊢
  split at h
  · rename_i n p hn
    rw [readName_append x hn]
    simp only
    split at h
    · rename_i t c ttl rdl ht hc httl hrdl
      rw [rd16_append x ht, rd16_append x hc, rd32_append x httl, rd16_append x hrdl]
      simp only
      split at h
      · simp at h
      · rename_i hopt
        rw [if_neg hopt]
        split at h
        · simp at h
        · rename_i hlen
          have : ¬ (p + 10 + rdl > (buf ++ x).length) := by
            simp only [List.length_append]; omega
          rw [if_neg this]; exact h
    · simp at h
  · simp at h
  · simp at h

theorem readTsigData_append (x : Bytes) (buf : Bytes) (s l : Nat) (h : s + l ≤ buf.length) :
    readTsigData (buf ++ x) s l = readTsigData buf s l := by
  unfold readTsigData
  simp only [List.take_append_of_le_length h]

theorem tsigOf_append (x : Bytes) {buf : Bytes} {pos : Nat} {f : Frame}
    (h : readFrame buf pos = .ok f) : tsigOf (buf ++ x) f = tsigOf buf f := by
  unfold tsigOf
  rw [readTsigData_append x buf _ _ (readFrame_le h)]

theorem readRecords_append_suffix (x : Bytes) (buf : Bytes) (isAdd upd : Bool) :
    ∀ k pos sig edns r, readRecords buf isAdd upd k pos sig edns = .ok r →
      readRecords (buf ++ x) isAdd upd k pos sig edns = .ok r := by
  intro k
  induction k with
  | zero => intro pos sig edns r h; simpa [readRecords] using h
  | succ k ih =>
    intro pos sig edns r h
    rw [readRecords] at h ⊢
    split at h
    · rename_i f hf
      rw [readFrame_append x hf]
      simp only
      rw [tsigOf_append x hf]
      split at h
      · split at h
        · exact ih _ _ _ _ h
        · simp at h
      · simp at h
      · simp at h
    · simp at h
    · simp at h

/-! ### the TSIG RR as the signer writes it, and its decoding -/

/-- `TSIG::emit` (the RDATA) -/
def tsigRdata (d : TsigData) : Bytes :=
  Name.wire d.algName ++ (be48 d.time ++ be16 d.fudge ++ be16 d.mac.length ++ (d.mac ++
    (be16 d.oid ++ be16 d.error ++ be16 d.other.length ++ d.other)))

/-- `Record::emit` of `make_tsig_record(name, tsig)` with an uncompressed owner:
owner, TYPE 250, CLASS ANY (255), TTL 0, RDLENGTH, RDATA -/
def tsigRRBytes (n : Name) (d : TsigData) : Bytes :=
  Name.wire n ++ ([0, 250, 0, 255, 0, 0, 0, 0] ++ be16 (tsigRdata d).length ++ tsigRdata d)

theorem getElem?_off (pre l : Bytes) (k : Nat) : (pre ++ l)[pre.length + k]? = l[k]? := by
  rw [List.getElem?_append_right (by omega)]
  congr 1; omega

theorem rd16_off (pre l : Bytes) (k : Nat) : rd16 (pre ++ l) (pre.length + k) = rd16 l k := by
  unfold rd16
  rw [getElem?_off, Nat.add_assoc, getElem?_off]

theorem rd32_off (pre l : Bytes) (k : Nat) : rd32 (pre ++ l) (pre.length + k) = rd32 l k := by
  unfold rd32
  rw [rd16_off, Nat.add_assoc, rd16_off]

theorem rd16_be16 (v : Nat) (hv : v < 65536) (rest : Bytes) : rd16 (be16 v ++ rest) 0 = some v := by
  simp only [rd16, be16, List.cons_append, List.nil_append, List.getElem?_cons_zero,
    List.getElem?_cons_succ, Option.some.injEq]
  omega

theorem rd16_skip (a rest : Bytes) (k : Nat) (hk : k = a.length) :
    rd16 (a ++ rest) k = rd16 rest 0 := by
  subst hk; simpa using rd16_off a rest 0

theorem len_be16 (v : Nat) : (be16 v).length = 2 := rfl
theorem len_be48 (t : Nat) : (be48 t).length = 6 := by simp [be48, be16, be32]

/-- `C04.wire_roundtrip` with the emitted bytes named -/
theorem readName_wire (n : Name) (pre post : Bytes) (hn : C04.Bounded n) :
    Name.readName (pre ++ (Name.wire n ++ post)) pre.length
      = .ok ({ n with fqdn := true }, pre.length + (Name.wire n).length) := by
  obtain ⟨bs, he, hr⟩ := C04.wire_roundtrip n pre post hn
  unfold Name.emitUncompressed at he
  split at he
  · simp at he
  · split at he
    · simp at he
    · simp only [Outcome.ok.injEq] at he; subst he
      rw [List.append_assoc] at hr; exact hr

/-- field ranges of a TSIG record that fits the wire format -/
structure Emittable (n : Name) (d : TsigData) : Prop where
  name : C04.Bounded n
  alg : C04.Bounded d.algName
  wf : TsigWF d
  mac : d.mac.length < 65536
  len : (tsigRdata d).length < 65536

theorem be48_hi (t : Nat) (h : t < 281474976710656) (rest : Bytes) :
    rd16 (be48 t ++ rest) 0 = some (t / 4294967296) := by
  simp only [be48, List.append_assoc]
  rw [rd16_be16 _ (by omega)]

theorem be48_lo (t : Nat) (rest : Bytes) :
    rd32 (be48 t ++ rest) 2 = some (t % 4294967296) := by
  simp only [be48, be16, be32, rd32, rd16, List.cons_append, List.nil_append,
    List.getElem?_cons_zero, List.getElem?_cons_succ, Option.some.injEq]
  omega

theorem readTsigData_rdata (pre : Bytes) (n : Name) (d : TsigData) (E : Emittable n d) :
    readTsigData (pre ++ tsigRdata d) pre.length (tsigRdata d).length
      = .ok { d with algName := { d.algName with fqdn := false } } := by
  unfold readTsigData
  have htake : List.take (pre.length + (tsigRdata d).length) (pre ++ tsigRdata d)
      = pre ++ tsigRdata d := List.take_of_length_le (by simp)
  simp only [htake]
  -- the algorithm name
  have hn : Name.readName (pre ++ tsigRdata d) pre.length
      = .ok ({ d.algName with fqdn := true }, pre.length + (Name.wire d.algName).length) := by
    unfold tsigRdata; exact readName_wire _ _ _ E.alg
  rw [hn]
  simp only
  -- the fixed fields after it
  have hb2 : pre ++ tsigRdata d = (pre ++ Name.wire d.algName) ++
      (be48 d.time ++ (be16 d.fudge ++ (be16 d.mac.length ++ (d.mac ++
        (be16 d.oid ++ (be16 d.error ++ (be16 d.other.length ++ d.other))))))) := by
    simp [tsigRdata, List.append_assoc]
  have hq : pre.length + (Name.wire d.algName).length = (pre ++ Name.wire d.algName).length := by
    simp
  have r1 : rd16 (pre ++ tsigRdata d) (pre.length + (Name.wire d.algName).length)
      = some (d.time / 4294967296) := by
    rw [hq, hb2]
    have := rd16_off (pre ++ Name.wire d.algName) (be48 d.time ++ (be16 d.fudge ++ (be16 d.mac.length ++ (d.mac ++
        (be16 d.oid ++ (be16 d.error ++ (be16 d.other.length ++ d.other))))))) 0
    rw [Nat.add_zero] at this
    rw [this, be48_hi _ E.wf.time]
  have r2 : rd32 (pre ++ tsigRdata d) (pre.length + (Name.wire d.algName).length + 2)
      = some (d.time % 4294967296) := by
    rw [hq, hb2, rd32_off, be48_lo]
  have r3 : rd16 (pre ++ tsigRdata d) (pre.length + (Name.wire d.algName).length + 6)
      = some d.fudge := by
    rw [hq, hb2, rd16_off, rd16_skip _ _ 6 (len_be48 _).symm, rd16_be16 _ E.wf.fudge]
  have r4 : rd16 (pre ++ tsigRdata d) (pre.length + (Name.wire d.algName).length + 8)
      = some d.mac.length := by
    rw [hq, hb2, rd16_off, ← List.append_assoc,
      rd16_skip _ _ 8 (by simp [len_be48, len_be16]), rd16_be16 _ E.mac]
  rw [r1, r2, r3, r4]
  simp only
  -- total length
  have hlen : (tsigRdata d).length = (Name.wire d.algName).length + 10 + d.mac.length + 6 +
      d.other.length := by
    simp [tsigRdata, be48, be16, be32]; omega
  have c1 : ¬ (pre.length + (Name.wire d.algName).length + 10 + d.mac.length + 6
      > pre.length + (tsigRdata d).length) := by omega
  rw [if_neg c1]
  -- the fields after the MAC
  have hb3 : pre ++ tsigRdata d = (pre ++ Name.wire d.algName ++ (be48 d.time ++ be16 d.fudge ++
      be16 d.mac.length) ++ d.mac) ++
      (be16 d.oid ++ (be16 d.error ++ (be16 d.other.length ++ d.other))) := by
    simp [tsigRdata, List.append_assoc]
  have hq3 : pre.length + (Name.wire d.algName).length + 10 + d.mac.length
      = (pre ++ Name.wire d.algName ++ (be48 d.time ++ be16 d.fudge ++
          be16 d.mac.length) ++ d.mac).length := by
    simp [be48, be16, be32]; omega
  have s1 : rd16 (pre ++ tsigRdata d) (pre.length + (Name.wire d.algName).length + 10
      + d.mac.length) = some d.oid := by
    rw [hq3, hb3]
    have := rd16_off (pre ++ Name.wire d.algName ++ (be48 d.time ++ be16 d.fudge ++
      be16 d.mac.length) ++ d.mac) (be16 d.oid ++ (be16 d.error ++ (be16 d.other.length ++ d.other))) 0
    rw [Nat.add_zero] at this
    rw [this, rd16_be16 _ E.wf.oid]
  have s2 : rd16 (pre ++ tsigRdata d) (pre.length + (Name.wire d.algName).length + 12
      + d.mac.length) = some d.error := by
    have e : pre.length + (Name.wire d.algName).length + 12 + d.mac.length
        = (pre.length + (Name.wire d.algName).length + 10 + d.mac.length) + 2 := by omega
    rw [e, hq3, hb3, rd16_off, rd16_skip _ _ 2 (len_be16 _).symm, rd16_be16 _ E.wf.error]
  have s3 : rd16 (pre ++ tsigRdata d) (pre.length + (Name.wire d.algName).length + 14
      + d.mac.length) = some d.other.length := by
    have e : pre.length + (Name.wire d.algName).length + 14 + d.mac.length
        = (pre.length + (Name.wire d.algName).length + 10 + d.mac.length) + 4 := by omega
    rw [e, hq3, hb3, rd16_off, ← List.append_assoc,
      rd16_skip _ _ 4 (by simp [len_be16]), rd16_be16 _ E.wf.other]
  rw [s1, s2, s3]
  simp only
  have c2 : ¬ (pre.length + (Name.wire d.algName).length + 16 + d.mac.length + d.other.length
      ≠ pre.length + (tsigRdata d).length) := by omega
  rw [if_neg c2]
  -- MAC and other data
  have m1 : List.take d.mac.length (List.drop (pre.length + (Name.wire d.algName).length + 10)
      (pre ++ tsigRdata d)) = d.mac := by
    have hb : pre ++ tsigRdata d = (pre ++ Name.wire d.algName ++ (be48 d.time ++ be16 d.fudge ++
        be16 d.mac.length)) ++ (d.mac ++
        (be16 d.oid ++ (be16 d.error ++ (be16 d.other.length ++ d.other)))) := by
      simp [tsigRdata, List.append_assoc]
    have hl : pre.length + (Name.wire d.algName).length + 10
        = (pre ++ Name.wire d.algName ++ (be48 d.time ++ be16 d.fudge ++
            be16 d.mac.length)).length := by
      simp [be48, be16, be32]; omega
    rw [hl, hb, List.drop_left, List.take_left]
  have m2 : List.take d.other.length (List.drop (pre.length + (Name.wire d.algName).length + 16
      + d.mac.length) (pre ++ tsigRdata d)) = d.other := by
    have hb : pre ++ tsigRdata d = (pre ++ Name.wire d.algName ++ (be48 d.time ++ be16 d.fudge ++
        be16 d.mac.length) ++ d.mac ++ (be16 d.oid ++ be16 d.error ++ be16 d.other.length)) ++
        d.other := by
      simp [tsigRdata, List.append_assoc]
    have hl : pre.length + (Name.wire d.algName).length + 16 + d.mac.length
        = (pre ++ Name.wire d.algName ++ (be48 d.time ++ be16 d.fudge ++
            be16 d.mac.length) ++ d.mac ++ (be16 d.oid ++ be16 d.error ++
            be16 d.other.length)).length := by
      simp [be48, be16, be32]; omega
    rw [hl, hb, List.drop_left]
    exact List.take_length
  rw [m1, m2]
  have ht : d.time / 4294967296 * 4294967296 + d.time % 4294967296 = d.time := by omega
  rw [ht]

theorem readFrame_tsigRR (front : Bytes) (n : Name) (d : TsigData) (E : Emittable n d) :
    readFrame (front ++ tsigRRBytes n d) front.length
      = .ok { name := { n with fqdn := true }, rtype := 250, rclass := 255, ttl := 0,
              rdStart := front.length + (Name.wire n).length + 10,
              rdLen := (tsigRdata d).length } := by
  unfold readFrame
  have hn : Name.readName (front ++ tsigRRBytes n d) front.length
      = .ok ({ n with fqdn := true }, front.length + (Name.wire n).length) := by
    unfold tsigRRBytes; exact readName_wire _ _ _ E.name
  rw [hn]
  simp only
  have hb : front ++ tsigRRBytes n d = (front ++ Name.wire n) ++
      ([0, 250, 0, 255, 0, 0, 0, 0] ++ (be16 (tsigRdata d).length ++ tsigRdata d)) := by
    simp [tsigRRBytes, List.append_assoc]
  have hq : front.length + (Name.wire n).length = (front ++ Name.wire n).length := by simp
  have r1 : rd16 (front ++ tsigRRBytes n d) (front.length + (Name.wire n).length) = some 250 := by
    rw [hq, hb]
    have := rd16_off (front ++ Name.wire n)
      ([0, 250, 0, 255, 0, 0, 0, 0] ++ (be16 (tsigRdata d).length ++ tsigRdata d)) 0
    rw [Nat.add_zero] at this
    rw [this]; simp [rd16]
  have r2 : rd16 (front ++ tsigRRBytes n d) (front.length + (Name.wire n).length + 2)
      = some 255 := by
    rw [hq, hb, rd16_off]; simp [rd16]
  have r3 : rd32 (front ++ tsigRRBytes n d) (front.length + (Name.wire n).length + 4)
      = some 0 := by
    rw [hq, hb, rd32_off]; simp [rd32, rd16]
  have r4 : rd16 (front ++ tsigRRBytes n d) (front.length + (Name.wire n).length + 8)
      = some (tsigRdata d).length := by
    rw [hq, hb, rd16_off, rd16_skip _ _ 8 (by simp), rd16_be16 _ E.len]
  rw [r1, r2, r3, r4]
  simp only
  have c1 : ¬ ((250 : Nat) = 41 ∧ ({ n with fqdn := true } : Name).isRoot = false) := by
    intro h; exact absurd h.1 (by decide)
  rw [if_neg c1]
  have c2 : ¬ (front.length + (Name.wire n).length + 10 + (tsigRdata d).length
      > (front ++ tsigRRBytes n d).length) := by
    simp [tsigRRBytes, be16]; omega
  rw [if_neg c2]

/-! ### sign, then verify -/

/-- the stub / record data as the decoder returns it (`set_fqdn(false)` on the algorithm name) -/
def decoded (d : TsigData) : TsigData := { d with algName := { d.algName with fqdn := false } }

/-- the TSIG record `read_records` returns for the appended RR -/
def sigRecAt (front : Bytes) (n : Name) (d : TsigData) : SigRec :=
  { start := front.length
    stop := front.length + (Name.wire n).length + 10 + (tsigRdata d).length
    name := { n with fqdn := true }, rclass := 255, ttl := 0, data := decoded d }

theorem readRecords_tsigRR (front : Bytes) (n : Name) (d : TsigData) (E : Emittable n d)
    (upd : Bool) (hlen : (tsigRdata d).length ≠ 0) (z : Option Nat) :
    readRecords (front ++ tsigRRBytes n d) true upd 1 front.length none z
      = .ok ((sigRecAt front n d).stop, some (sigRecAt front n d), z) := by
  rw [readRecords, readFrame_tsigRR front n d E]
  simp only
  have ht : tsigOf (front ++ tsigRRBytes n d)
      { name := { n with fqdn := true }, rtype := 250, rclass := 255, ttl := 0,
        rdStart := front.length + (Name.wire n).length + 10, rdLen := (tsigRdata d).length }
      = .ok (some (decoded d)) := by
    unfold tsigOf
    simp only [true_and, ne_eq, hlen, not_false_eq_true, ↓reduceIte]
    have hb : front ++ tsigRRBytes n d = (front ++ Name.wire n ++
        ([0, 250, 0, 255, 0, 0, 0, 0] ++ be16 (tsigRdata d).length)) ++ tsigRdata d := by
      simp [tsigRRBytes, List.append_assoc]
    have hl : front.length + (Name.wire n).length + 10 = (front ++ Name.wire n ++
        ([0, 250, 0, 255, 0, 0, 0, 0] ++ be16 (tsigRdata d).length)).length := by
      simp [be16]; omega
    rw [hl, hb, readTsigData_rdata _ n d E]
    rfl
  rw [ht]
  simp only [recStep, Bool.true_eq_false, false_and, ↓reduceIte, Option.isSome_none,
    Bool.false_eq_true, Frame.rdEnd, readRecords, sigRecAt, and_false]
  have hne : ¬ (upd = false ∧ tsigRdata d = []) := by
    intro h; exact hlen (by rw [h.2]; rfl)
  simp [hne]

theorem readHdr_append (x : Bytes) {b : Bytes} {h : Hdr} (hh : readHdr b = some h) :
    readHdr (b ++ x) = some h := by
  unfold readHdr at hh ⊢
  split at hh
  · rename_i id b2 b3 qd an ns ar h1 h2 h3 h4 h5 h6 h7
    rw [rd16_append x h1, getElem?_app h2, getElem?_app h3, rd16_append x h4, rd16_append x h5,
      rd16_append x h6, rd16_append x h7]
    exact hh
  · simp at hh

theorem readHdr_len {b : Bytes} {h : Hdr} (hh : readHdr b = some h) : 12 ≤ b.length := by
  unfold readHdr at hh
  split at hh
  · rename_i id b2 b3 qd an ns ar h1 h2 h3 h4 h5 h6 h7
    unfold rd16 at h7
    split at h7
    · rename_i a c ha hc
      obtain ⟨hlt, _⟩ := List.getElem?_eq_some_iff.mp hc
      omega
    · simp at h7
  · simp at hh

/-- `front` is a message the walker gets through exactly to its end with the counts of its own
header, ARCOUNT already counting the TSIG RR that is going to be appended -/
structure Walkable (front : Bytes) (hd : Hdr) : Prop where
  hdr : readHdr front = some hd
  ar : hd.ar ≠ 0
  walk : ∃ pos p1 x y z, skipQueries front hd.qd 12 = .ok pos ∧
    readRecords front false (hd.opcode == 5) (hd.an + hd.ns) pos none none = .ok (p1, x, y) ∧
    readRecords front true (hd.opcode == 5) (hd.ar - 1) p1 none none
      = .ok (front.length, none, z)

theorem tsigRdata_ne (d : TsigData) : (tsigRdata d).length ≠ 0 := by
  simp [tsigRdata, Name.wire, be48, be16, be32]

theorem tsigVars_decoded (n : Name) (d : TsigData) :
    tsigVars { n with fqdn := true } (decoded d) = tsigVars n d := by
  simp [tsigVars, decoded, lowerWire, Name.wire, Name.toLowercase]

/--
**Sign, then verify (the TBS).**  A walkable message followed by the TSIG RR the signer builds
from (`n`, `d`): `signed_bitmessage_to_buf` finds exactly that RR and returns
  previous MAC ‖ header(id := Original ID, ARCOUNT − 1) ‖ front[12..] ‖ TSIG variables of (`n`, `d`).
-/
theorem valid_signed_message_verifies {front : Bytes} {hd : Hdr} (W : Walkable front hd)
    (n : Name) (d : TsigData) (E : Emittable n d) (prev : Option Bytes) (first : Bool) :
    signedBitmessageToBuf (front ++ tsigRRBytes n d) prev first true
      = .ok (prevPart prev ++ hdrDigest front d.oid (hd.ar - 1) ++ front.drop 12 ++
              (if first then tsigVars n d else tsigTimers d),
             sigRecAt front n d) := by
  obtain ⟨pos, p1, x, y, z, hq, h1, h2⟩ := W.walk
  unfold signedBitmessageToBuf
  rw [readHdr_append _ W.hdr]
  simp only [W.ar, ↓reduceIte]
  rw [skipQueries_append _ _ _ _ _ hq]
  simp only
  have hloc : locateSig (front ++ tsigRRBytes n d) hd pos true = .ok (sigRecAt front n d) := by
    unfold locateSig
    simp only [Bool.true_eq_false, ↓reduceIte]
    rw [readRecords_append_suffix _ _ _ _ _ _ _ _ _ h1]
    simp only
    rw [readRecords_append_suffix _ _ _ _ _ _ _ _ _ h2]
    simp only [Option.isSome_none, Bool.false_eq_true, ↓reduceIte]
    rw [readRecords_tsigRR front n d E _ (tsigRdata_ne d) none]
    simp [sigRecAt]
  rw [hloc]
  simp only [Outcome.ok.injEq, Prod.mk.injEq, and_true]
  have h12 := readHdr_len W.hdr
  have hbody : ((front ++ tsigRRBytes n d).drop 12).take ((sigRecAt front n d).start - 12)
      = front.drop 12 := by
    simp only [sigRecAt]
    rw [List.drop_append_of_le_length h12, List.take_append_of_le_length (by simp)]
    exact List.take_of_length_le (by simp)
  have hhdr : hdrDigest (front ++ tsigRRBytes n d) (sigRecAt front n d).data.oid (hd.ar - 1)
      = hdrDigest front d.oid (hd.ar - 1) := by
    simp only [hdrDigest, sigRecAt, decoded]
    rw [List.drop_append_of_le_length (by omega), List.take_append_of_le_length (by simp; omega)]
  simp only [tbsOf, hbody, hhdr]
  have e1 : (sigRecAt front n d).data.oid = d.oid := rfl
  have e2 : tsigVars (sigRecAt front n d).name (sigRecAt front n d).data = tsigVars n d :=
    tsigVars_decoded n d
  have e3 : tsigTimers (sigRecAt front n d).data = tsigTimers d := rfl
  rw [e2, e3]

/-- **Sign, then verify (acceptance).**  If the MAC in the appended RR is one the key's oracle
accepts for those bytes, the RR names the signer's key and algorithm and the MAC has full length,
then `verify_message_byte` accepts, with the window `[time ∸ fudge, time + fudge)`. -/
theorem signed_message_accepted {front : Bytes} {hd : Hdr} (W : Walkable front hd)
    (sg : Signer) (n : Name) (d : TsigData) (E : Emittable n d) (prev : Option Bytes)
    (first : Bool)
    (hname : Name.eq { n with fqdn := true } sg.name = true)
    (halg : algIs d.algName sg.alg = true)
    (hfull : outLen sg.alg ≤ d.mac.length)
    (hmac : sg.macOK (prevPart prev ++ hdrDigest front d.oid (hd.ar - 1) ++
        front.drop 12 ++ (if first then tsigVars n d else tsigTimers d)) d.mac = true) :
    verifyMessageByte sg (front ++ tsigRRBytes n d) prev first true
      = .ok { mac := d.mac, time := d.time, lo := d.time - d.fudge, hi := d.time + d.fudge } := by
  unfold verifyMessageByte
  rw [valid_signed_message_verifies W n d E prev first]
  simp only [sigRecAt, decoded]
  have ha : algIs ({ d.algName with fqdn := false } : Name) sg.alg = true := by
    simpa [algIs] using halg
  simp only [hname, ha, Bool.and_self, Bool.true_eq_false, ↓reduceIte]
  have c1 : ¬ (d.mac.length < outLen sg.alg) := by omega
  simp only [c1, hmac, ↓reduceIte, Bool.true_eq_false]

/-! ### the reply the server builds is accepted by the client -/

theorem tsigVars_mac (n : Name) (d : TsigData) (m : Bytes) :
    tsigVars n { d with mac := m } = tsigVars n d := rfl

/--
**The signed reply is accepted (constructive form of `reply_verifies`).**
`front` is the reply up to its TSIG RR (header id = Original ID = request id, ARCOUNT counting
the TSIG RR, walkable).  The server MACs `encode_response_tbs(request MAC, unsigned
encoding, stub)` where the unsigned encoding is `front` with ARCOUNT − 1, and appends the TSIG RR
carrying that MAC.  Under the MAC oracle assumption the client's
`verify_message_byte(reply, Some(request MAC), first = true)` accepts, returning the reply MAC
(for further chaining), the server's time and the window around it.
-/
theorem server_reply_accepted {front : Bytes} {hd : Hdr} (W : Walkable front hd)
    (w : Bytes.WF front) (sg : Signer) (tag : Bytes → Bytes) (O : MacOracle sg tag)
    (reqMac : Bytes) (stub : TsigData)
    (hid : hd.id = stub.oid)
    (hname : Name.eq { sg.name with fqdn := true } sg.name = true)
    (halg : algIs stub.algName sg.alg = true)
    (E : Emittable sg.name { stub with mac := tag (encodeResponseTbs sg reqMac
        (unsignedOf front front.length (hd.ar - 1)) stub) }) :
    verifyMessageByte sg
        (front ++ tsigRRBytes sg.name { stub with mac := tag (encodeResponseTbs sg reqMac
          (unsignedOf front front.length (hd.ar - 1)) stub) })
        (some reqMac) true true
      = .ok { mac := tag (encodeResponseTbs sg reqMac
                (unsignedOf front front.length (hd.ar - 1)) stub)
              time := stub.time, lo := stub.time - stub.fudge, hi := stub.time + stub.fudge } := by
  have key : prevPart (some reqMac) ++ hdrDigest front stub.oid (hd.ar - 1) ++
      front.drop 12 ++ tsigVars sg.name stub
      = encodeResponseTbs sg reqMac (unsignedOf front front.length (hd.ar - 1)) stub := by
    rw [← hid, hdrDigest_take10 w W.hdr]
    simp only [prevPart, encodeResponseTbs, unsignedOf, List.take_length, List.append_assoc]
  have := signed_message_accepted W sg sg.name
    { stub with mac := tag (encodeResponseTbs sg reqMac
        (unsignedOf front front.length (hd.ar - 1)) stub) } E (some reqMac) true hname halg
    (by simp only; rw [O.len]; exact Nat.le_refl _)
    (by
      simp only [↓reduceIte, tsigVars_mac]
      rw [key]
      exact (O.iff _ _).mpr rfl)
  simpa using this

/-- … and so does the `TSigVerifier` the client kept, provided its own request time lies in the
reply's window (and the final re-parse of the reply succeeds). -/
theorem verifier_accepts_server_reply {front : Bytes} {hd : Hdr} (W : Walkable front hd)
    (w : Bytes.WF front) (sg : Signer) (tag : Bytes → Bytes) (O : MacOracle sg tag)
    (reqMac : Bytes) (requestTime : Nat) (stub : TsigData)
    (hid : hd.id = stub.oid)
    (hname : Name.eq { sg.name with fqdn := true } sg.name = true)
    (halg : algIs stub.algName sg.alg = true)
    (E : Emittable sg.name { stub with mac := tag (encodeResponseTbs sg reqMac
        (unsignedOf front front.length (hd.ar - 1)) stub) })
    (hwin : stub.time - stub.fudge ≤ requestTime ∧ requestTime < stub.time + stub.fudge) :
    ({ signer := sg, previous := reqMac, remoteTime := 0, requestTime := requestTime }
        : Verifier).verify
        (front ++ tsigRRBytes sg.name { stub with mac := tag (encodeResponseTbs sg reqMac
          (unsignedOf front front.length (hd.ar - 1)) stub) }) true true
      = .ok { signer := sg
              previous := tag (encodeResponseTbs sg reqMac
                (unsignedOf front front.length (hd.ar - 1)) stub)
              remoteTime := stub.time, requestTime := requestTime } := by
  unfold Verifier.verify
  simp only [beq_self_eq_true]
  rw [server_reply_accepted W w sg tag O reqMac stub hid hname halg E]
  simp [hwin.1, hwin.2]

/-! ### non-vacuity -/

/-- an UPDATE for the zone `.` with ARCOUNT = 1 (the TSIG RR to come) is walkable … -/
example : Walkable [1, 1, 40, 0, 0, 1, 0, 0, 0, 0, 0, 1, 0, 0, 6, 0, 1]
    { id := 257, b2 := 40, b3 := 0, qd := 1, an := 0, ns := 0, ar := 1 } :=
  ⟨by simp [readHdr, rd16], by decide,
    ⟨17, 17, none, none, none,
      by simp [skipQueries, readQuery, rd16, Name.readName, Name.readLabels, Name.new, Name.len,
        Name.dataLen],
      by simp [readRecords], by simp [readRecords]⟩⟩

/-- … and a TSIG record owned by `.` with algorithm `hmac-sha256` and a 32-octet MAC is
emittable -/
example : Emittable Name.root
    { algName := { labels := [algLabel 256], fqdn := false }, time := 1700000000, fudge := 300,
      mac := List.replicate 32 7, oid := 257, error := 0, other := [] } :=
  ⟨by decide, by decide, ⟨by decide, by decide, by decide, by decide, by decide⟩, by decide,
    by decide⟩

end HickoryVerif.C13
