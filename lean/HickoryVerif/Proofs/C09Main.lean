/-
C09 — the property theorems for the validator exactly as the driver runs it: the concrete base32hex
encoder (whose order-embedding property is `base32hex_order`, no assumption left on the encoder), any
hash function whose values are octet strings.

* `repaired_sound`            : full strength — the code with all five repairs (model switches
                                 `allFixed`); the target statement.
* `current_*_sound_partial`   : the code as it is (`current`: the apex, wildcard-expansion and §8.3 /
                                 RFC 6840 repairs are in /repo as e7e2ac8, cd83193, 6960cfe), under the
                                 two explicit decidable restrictions of the input that the proof still
                                 forces — `NoWrap` and `NoOptOut`, the two open findings, each with a
                                 kernel-checked counter-example in `Proofs/C09Findings.lean`.
-/
import HickoryVerif.Proofs.C09
import HickoryVerif.Proofs.C09Base32

namespace HickoryVerif.C09
open HickoryVerif HickoryVerif.Nsec3 HickoryVerif.Denial3

theorem encOrd_base32hex : EncOrd base32hex := fun x y hx hy => base32hex_order x y hx hy

section
variable {H : Name → Bytes} {soa : Option Name} {recs : List Rec} {Z : ZoneView}
variable {ql : List Bytes} {qtype : Nat} {wl : Option Nat} {soft hard : Nat}

/-- **Soundness of the repaired validator, full strength**: for every query name, type, SOA name,
record list, limits, every hash function (octet-string valued, collision free at the names the proof
speaks about) and every well-formed zone view the records are consistent with: an accepted NXDOMAIN
is a name error (§8.4); an accepted NOERROR without answer RRSIG is "no DS" for QTYPE = DS and a NODATA
or wildcard NODATA otherwise (§8.5–§8.7); an accepted wildcard expansion used the right wildcard and
QNAME does not exist (§8.8). -/
theorem repaired_sound (hwf : HashWF H recs) (hZ : Z.WF)
    (hc : ConsistentWith3 H base32hex recs Z) (hinj : NoCollisions H Z ql) :
    (verifyNsec3 allFixed H base32hex (mk ql) qtype soa rcNXDomain wl recs soft hard = .secure →
      ClaimNameError Z ql) ∧
    (verifyNsec3 allFixed H base32hex (mk ql) qtype soa rcNoError none recs soft hard = .secure →
      (qtype = tDS → ClaimNoDS Z ql) ∧
      (qtype ≠ tDS → ClaimNoData Z ql qtype ∨ ClaimWildcardNoData Z ql qtype)) ∧
    (∀ k, k < (mk ql).numLabels → Z.apex.length ≤ k →
      verifyNsec3 allFixed H base32hex (mk ql) qtype soa rcNoError (some k) recs soft hard = .secure →
      ClaimWildcardAnswer Z ql k) :=
  allFixed_sound encOrd_base32hex hwf hZ hc hinj

/-- **§8.4 for the code as it is** (`current`: apex / wildcard-expansion / §8.3 repairs applied).
The only side conditions left are the two open findings: no wrap-around record (finding 2) and no
Opt-Out record (finding 4) in the input. -/
theorem current_name_error_sound_partial (hwf : HashWF H recs)
    (h : verifyNsec3 current H base32hex (mk ql) qtype soa rcNXDomain wl recs soft hard = .secure)
    (hZ : Z.WF) (hc : ConsistentWith3 H base32hex recs Z) (hinj : NoCollisions H Z ql)
    (hw : NoWrap base32hex recs) (ho : NoOptOut recs) :
    ClaimNameError Z ql :=
  verify_name_error_sound encOrd_base32hex hwf h hZ hc hinj (.inr hw) (.inr ho) (.inl rfl)

/-- **§8.5–§8.7 for the code as it is.**  Side conditions: `NoWrap`, `NoOptOut` (open findings). -/
theorem current_nodata_sound_partial (hwf : HashWF H recs)
    (h : verifyNsec3 current H base32hex (mk ql) qtype soa rcNoError none recs soft hard = .secure)
    (hZ : Z.WF) (hc : ConsistentWith3 H base32hex recs Z) (hinj : NoCollisions H Z ql)
    (hw : NoWrap base32hex recs) (ho : NoOptOut recs) :
    (qtype = tDS → ClaimNoDS Z ql) ∧
    (qtype ≠ tDS → ClaimNoData Z ql qtype ∨ ClaimWildcardNoData Z ql qtype) :=
  verify_nodata_sound encOrd_base32hex hwf h hZ hc hinj (.inr hw) (.inr ho) (.inl rfl) (.inl rfl)

/-- **§8.8 for the code as it is.**  Side conditions: `NoWrap`, `NoOptOut` (open findings). -/
theorem current_wildcard_answer_sound_partial (hwf : HashWF H recs) {k : Nat}
    (h : verifyNsec3 current H base32hex (mk ql) qtype soa rcNoError (some k) recs soft hard = .secure)
    (hk : k < (mk ql).numLabels) (hZ : Z.WF) (hak : Z.apex.length ≤ k)
    (hc : ConsistentWith3 H base32hex recs Z)
    (hw : NoWrap base32hex recs) (ho : NoOptOut recs) :
    ClaimWildcardAnswer Z ql k :=
  verify_wildcard_answer_sound encOrd_base32hex hwf h hk hZ hak hc (.inr hw) (.inr ho) (.inl rfl)

/-- The matching-record and Opt-Out-DS verdicts of the code as it is need neither side condition
but `NoWrap` for the covering in the DS case: a NODATA accepted on a record matching QNAME is sound
as it stands (§8.5 / §8.6, RFC 6840 §4.1 included). -/
theorem current_nodata_match_sound (hwf : HashWF H recs) {pairs : List Pair}
    (hp : mkPairs soa recs = some pairs) (hc : ConsistentWith3 H base32hex recs Z)
    (hinj : NoCollisionAt H Z ql) {r : Pair}
    (hm : findMatching pairs (base32hex (H (mk ql))) = some r)
    (hs : nodataMatch current qtype r = .secure) : ClaimNoData Z ql qtype :=
  nodata_match_sound encOrd_base32hex hwf hp hc hinj hm hs (.inl rfl)

end

end HickoryVerif.C09
