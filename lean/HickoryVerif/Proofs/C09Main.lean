/-
C09 — the property theorems for the validator exactly as the driver runs it: the concrete base32hex
encoder (whose order-embedding property is `base32hex_order`, no assumption left on the encoder), any
hash function whose values are octet strings.

* `repaired_sound`           : full strength — the code with the five proposed repairs
                                (`repo-patches/C09-*.diff`, model switches `allFixed`).
* `asIs_*_sound_partial`     : the code as it is, under the explicit decidable restrictions of the
                                input that the proof forces (`NoWrap`, `NoOptOut`, `NoDelegRec`, query
                                name ≠ SOA name, `NoQnameShortcut`) — each of them a recorded finding with
                                a kernel-checked counter-example in `Proofs/C09Findings.lean`.
-/
import HickoryVerif.Proofs.C09
import HickoryVerif.Proofs.C09Base32

namespace HickoryVerif.C09
open HickoryVerif HickoryVerif.Nsec3 HickoryVerif.Denial3

theorem encOrd_base32hex : EncOrd base32hex := fun x y hx hy => base32hex_order x y hx hy

section
variable {H : Name → Bytes} {soa : Option Name} {recs : List Rec} {Z : ZoneView}
variable {ql : List Bytes} {qtype : Nat} {wl : Option Nat} {soft hard : Nat}

/-- **Soundness of the repaired validator, full strength**: for every query name, type, SOA name,
record list, limits, every hash function (octet-string valued, collision free at the names the proof
speaks about) and every well-formed zone view the records are consistent with: an accepted NXDOMAIN
is a name error (§8.4); an accepted NOERROR without answer RRSIG is "no DS" for QTYPE = DS and a NODATA
or wildcard NODATA otherwise (§8.5–§8.7); an accepted wildcard expansion used the right wildcard and
QNAME does not exist (§8.8). -/
theorem repaired_sound (hwf : HashWF H recs) (hZ : Z.WF)
    (hc : ConsistentWith3 H base32hex recs Z) (hinj : NoCollisions H Z ql) :
    (verifyNsec3 allFixed H base32hex (mk ql) qtype soa rcNXDomain wl recs soft hard = .secure →
      ClaimNameError Z ql) ∧
    (verifyNsec3 allFixed H base32hex (mk ql) qtype soa rcNoError none recs soft hard = .secure →
      (qtype = tDS → ClaimNoDS Z ql) ∧
      (qtype ≠ tDS → ClaimNoData Z ql qtype ∨ ClaimWildcardNoData Z ql qtype)) ∧
    (∀ k, k < (mk ql).numLabels → Z.apex.length ≤ k →
      verifyNsec3 allFixed H base32hex (mk ql) qtype soa rcNoError (some k) recs soft hard = .secure →
      ClaimWildcardAnswer Z ql k) :=
  allFixed_sound encOrd_base32hex hwf hZ hc hinj

/-- §8.4 for the code as it is.  Fails without `NoWrap` (finding 2), `NoOptOut` (finding 4),
`NoDelegRec` (finding 5). -/
theorem asIs_name_error_sound_partial (hwf : HashWF H recs)
    (h : verifyNsec3 asIs H base32hex (mk ql) qtype soa rcNXDomain wl recs soft hard = .secure)
    (hZ : Z.WF) (hc : ConsistentWith3 H base32hex recs Z) (hinj : NoCollisions H Z ql)
    (hw : NoWrap base32hex recs) (ho : NoOptOut recs) (hd : NoDelegRec recs) :
    ClaimNameError Z ql :=
  verify_name_error_sound encOrd_base32hex hwf h hZ hc hinj (.inr hw) (.inr ho) (.inr hd)

/-- §8.5–§8.7 for the code as it is.  Additionally fails for QNAME = SOA name (finding 1). -/
theorem asIs_nodata_sound_partial (hwf : HashWF H recs)
    (h : verifyNsec3 asIs H base32hex (mk ql) qtype soa rcNoError none recs soft hard = .secure)
    (hZ : Z.WF) (hc : ConsistentWith3 H base32hex recs Z) (hinj : NoCollisions H Z ql)
    (hw : NoWrap base32hex recs) (ho : NoOptOut recs) (hd : NoDelegRec recs)
    (ha : eqSoa soa (mk ql) = false) :
    (qtype = tDS → ClaimNoDS Z ql) ∧
    (qtype ≠ tDS → ClaimNoData Z ql qtype ∨ ClaimWildcardNoData Z ql qtype) :=
  verify_nodata_sound encOrd_base32hex hwf h hZ hc hinj (.inr hw) (.inr ho) (.inr hd) (.inr ha)

/-- §8.8 for the code as it is.  Additionally fails when a record matches (or opt-out covers) QNAME
(finding 3). -/
theorem asIs_wildcard_answer_sound_partial (hwf : HashWF H recs) {k : Nat}
    (h : verifyNsec3 asIs H base32hex (mk ql) qtype soa rcNoError (some k) recs soft hard = .secure)
    (hk : k < (mk ql).numLabels) (hZ : Z.WF) (hak : Z.apex.length ≤ k)
    (hc : ConsistentWith3 H base32hex recs Z)
    (hw : NoWrap base32hex recs) (ho : NoOptOut recs)
    (hx : ∀ pairs, mkPairs soa recs = some pairs →
      NoQnameShortcut asIs H base32hex (mk ql) qtype pairs) :
    ClaimWildcardAnswer Z ql k :=
  verify_wildcard_answer_sound encOrd_base32hex hwf h hk hZ hak hc (.inr hw) (.inr ho) (.inr hx)

end

end HickoryVerif.C09
