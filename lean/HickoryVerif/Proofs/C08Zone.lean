/-
C08 (part 2) — what one NSEC link says about a zone view, on keys: a covered name owns no
data; unless the record's next name is below it, it does not exist at all; and every existing
ancestor of a covered name is an ancestor-or-self of the record's owner or of its next name.
These are the facts that justify the validator's closest-encloser search.
-/
import HickoryVerif.Proofs.C08Names

namespace HickoryVerif.C08
open HickoryVerif HickoryVerif.Name HickoryVerif.Nsec HickoryVerif.Spec HickoryVerif.KeyOrder

/-- `r` covers the key `t` in the zone view `Z`: `t` sorts after the owner and before the next
name, or `r` is the last link (next name = apex) and `t` is in the zone. -/
def CoversIn (Z : ZoneView) (t : Key) (r : Nsec) : Prop :=
  K r.owner < t ∧ (t < K r.next ∨ (K r.next = Z.apex ∧ Z.apex <+: t))

/-- The gap of a link, uniformly: a name owning data after the owner and (unless the link
wraps) before the next name is below the owner of an ancestor-delegation record. -/
theorem gap_of_link {Z : ZoneView} {r : Nsec} (hl : LinkOf Z r) {m : Key} (hm : Z.hasData m)
    (hom : K r.owner < m)
    (h : (K r.next ≠ Z.apex ∧ m < K r.next) ∨ (K r.next = Z.apex ∧ Z.apex <+: m)) :
    IsAncestorDelegation r.types ∧ K r.owner <+: m := by
  obtain ⟨_, _, _, _, _, hgap⟩ := hl
  rcases h with ⟨hne, hlt⟩ | ⟨he, hin⟩
  · rw [if_neg hne] at hgap
    exact hgap.2.2 m hm hom hlt
  · rw [if_pos he] at hgap
    exact hgap m hm hin hom

theorem link_owner_lt_next {Z : ZoneView} {r : Nsec} (hl : LinkOf Z r)
    (hne : K r.next ≠ Z.apex) : K r.owner < K r.next ∧ Z.hasData (K r.next) := by
  obtain ⟨_, _, _, _, _, hgap⟩ := hl
  rw [if_neg hne] at hgap
  exact ⟨hgap.1, hgap.2.1⟩

theorem link_owner_data {Z : ZoneView} {r : Nsec} (hl : LinkOf Z r) : Z.hasData (K r.owner) :=
  ⟨47, hl.2.2.1⟩

theorem link_apex_owner {Z : ZoneView} {r : Nsec} (hl : LinkOf Z r) : Z.apex <+: K r.owner :=
  hl.1

/-- a wrapping cover cannot also be an ordinary one -/
theorem cover_cases {Z : ZoneView} {r : Nsec} {t : Key} (hl : LinkOf Z r)
    (hc : CoversIn Z t r) :
    (K r.next ≠ Z.apex ∧ t < K r.next) ∨ (K r.next = Z.apex ∧ Z.apex <+: t) := by
  obtain ⟨hot, h⟩ := hc
  by_cases he : K r.next = Z.apex
  · rcases h with h | h
    · -- apex ≤ owner < t < next = apex
      exfalso
      have h1 : Z.apex ≤ K r.owner := prefix_le hl.1
      rw [he] at h
      exact lt_irrefl _ (lt_trans (lt_of_le_of_lt h1 hot) h)
    · exact Or.inr h
  · rcases h with h | h
    · exact Or.inl ⟨he, h⟩
    · exact absurd h.1 he

/-- names below a covered name: in the gap too, unless the next name is below it -/
theorem below_in_gap {Z : ZoneView} {r : Nsec} {t m : Key} (hl : LinkOf Z r)
    (hc : CoversIn Z t r) (htm : t <+: m)
    (hent : ¬ (t <+: K r.next ∧ t ≠ K r.next)) :
    (K r.next ≠ Z.apex ∧ m < K r.next) ∨ (K r.next = Z.apex ∧ Z.apex <+: m) := by
  rcases cover_cases hl hc with ⟨hne, hlt⟩ | ⟨he, hin⟩
  · left
    refine ⟨hne, ?_⟩
    apply Classical.byContradiction
    intro hnlt
    have hle : K r.next ≤ m := not_lt.1 hnlt
    have : t <+: K r.next :=
      descendants_convex (List.prefix_refl t) htm (le_of_lt hlt) hle
    exact hent ⟨this, fun h => lt_irrefl _ (h ▸ hlt)⟩
  · exact Or.inr ⟨he, List.IsPrefix.trans hin htm⟩

/-- **A covered name does not exist** — provided the record's next name is not below it (else
it is an empty non-terminal) and the record is not an ancestor-delegation record whose owner is
above it (else the name is on the other side of a zone cut). -/
theorem not_exists_of_cover {Z : ZoneView} {r : Nsec} {t : Key} (hl : LinkOf Z r)
    (hc : CoversIn Z t r) (hent : ¬ (t <+: K r.next ∧ t ≠ K r.next))
    (hdel : ¬ (IsAncestorDelegation r.types ∧ K r.owner <+: t)) : ¬ Z.Exists t := by
  rintro ⟨m, hm, htm⟩
  have hom : K r.owner < m := lt_of_lt_of_le hc.1 (prefix_le htm)
  obtain ⟨hd, hpre⟩ := gap_of_link hl hm hom (below_in_gap hl hc htm hent)
  rcases prefix_total hpre htm with h | h
  · exact hdel ⟨hd, h⟩
  · exact lt_irrefl _ (lt_of_lt_of_le hc.1 (prefix_le h))

/-- a covered name owns no data (whether or not it is an empty non-terminal) -/
theorem no_data_of_cover {Z : ZoneView} {r : Nsec} {t : Key} (hl : LinkOf Z r)
    (hc : CoversIn Z t r)
    (hdel : ¬ (IsAncestorDelegation r.types ∧ K r.owner <+: t)) : ¬ Z.hasData t := by
  intro hm
  obtain ⟨hd, hpre⟩ := gap_of_link hl hm hc.1 (cover_cases hl hc)
  exact hdel ⟨hd, hpre⟩

/-- **Every existing ancestor of a covered name is an ancestor-or-self of the covering
record's owner or of its next name.** -/
theorem ancestor_of_cover {Z : ZoneView} {r : Nsec} {t p : Key} (hl : LinkOf Z r)
    (hc : CoversIn Z t r) (hdel : ¬ (IsAncestorDelegation r.types ∧ K r.owner <+: t))
    (hpt : p <+: t) (hp : Z.Exists p) : p <+: K r.owner ∨ p <+: K r.next := by
  obtain ⟨m, hm, hpm⟩ := hp
  by_cases hmo : K r.owner < m
  · -- m after the owner
    have finish : (IsAncestorDelegation r.types ∧ K r.owner <+: m) → p <+: K r.owner := by
      rintro ⟨hd, hpre⟩
      rcases prefix_total hpm hpre with h | h
      · exact h
      · exact absurd ⟨hd, List.IsPrefix.trans h hpt⟩ hdel
    rcases cover_cases hl hc with ⟨hne, hlt⟩ | ⟨he, hin⟩
    · by_cases hmn : m < K r.next
      · exact Or.inl (finish (gap_of_link hl hm hmo (Or.inl ⟨hne, hmn⟩)))
      · right
        exact descendants_convex hpt hpm (le_of_lt hlt) (not_lt.1 hmn)
    · rcases prefix_total hpt hin with h | h
      · right; rw [he]; exact h
      · exact Or.inl (finish (gap_of_link hl hm hmo (Or.inr ⟨he, List.IsPrefix.trans h hpm⟩)))
  · left
    exact descendants_convex hpm hpt (not_lt.1 hmo) (le_of_lt hc.1)

/-- ancestors-or-self of the owner or next name of a link exist -/
theorem exists_of_prefix_link {Z : ZoneView} {r : Nsec} {p : Key} (hl : LinkOf Z r)
    (hp : p <+: K r.owner ∨ p <+: K r.next) : Z.Exists p := by
  rcases hp with hp | hp
  · exact ⟨K r.owner, link_owner_data hl, hp⟩
  · by_cases he : K r.next = Z.apex
    · exact ⟨K r.owner, link_owner_data hl, List.IsPrefix.trans (he ▸ hp) hl.1⟩
    · exact ⟨K r.next, (link_owner_lt_next hl he).2, hp⟩

end HickoryVerif.C08
