/-
C08 (part 1) — the name operations `verify_nsec` uses, read on RFC 4034 §6.1 sort keys:
`>`/`<`/`==`/`zone_of` are `<`/`=`/prefix on keys, `base_name` drops the last key element,
`prepend_label("*")` appends the `*` label, and the closest-encloser search of the code finds
the longest common ancestor it is offered — up to `num_labels()` not counting a leading `*`.
-/
import HickoryVerif.Model.Nsec
import HickoryVerif.Spec.Denial
import HickoryVerif.Lemmas.KeyOrder
import HickoryVerif.Proofs.C04
import HickoryVerif.Proofs.C04Bounds

namespace HickoryVerif.C08
open HickoryVerif HickoryVerif.Name HickoryVerif.Nsec HickoryVerif.Spec HickoryVerif.KeyOrder

/-- key of a name (`Spec.canonKey`) -/
abbrev K (n : Name) : Key := canonKey n

/-! ### comparisons -/

theorem cmp_key {a b : Name} (ha : a.fqdn = true) (hb : b.fqdn = true) :
    Name.cmp a b = compare (K a) (K b) := by
  rw [C04.cmp_is_canonical a b ha hb]; rfl

theorem gt_iff {a b : Name} (ha : a.fqdn = true) (hb : b.fqdn = true) :
    Nsec.gt a b = true ↔ K b < K a := by
  unfold Nsec.gt; rw [cmp_key ha hb, beq_iff_eq, key_compare_gt]

theorem lt_iff {a b : Name} (ha : a.fqdn = true) (hb : b.fqdn = true) :
    Nsec.lt a b = true ↔ K a < K b := by
  unfold Nsec.lt; rw [cmp_key ha hb, beq_iff_eq, key_compare_lt]

theorem eq_iff_key {a b : Name} (ha : a.fqdn = true) (hb : b.fqdn = true) :
    Name.eq a b = true ↔ K a = K b := by
  rw [← C04.cmp_eq_iff, cmp_key ha hb, key_compare_eq]

theorem zoneOf_iff (z n : Name) : z.zoneOf n = true ↔ K z <+: K n := by
  unfold Name.zoneOf; simp only [List.isPrefixOf_iff_prefix]; rfl

theorem key_length (n : Name) : (K n).length = n.labels.length := by
  simp [K, canonKey]

/-! ### the `*` label, `num_labels`, `is_wildcard` -/

theorem lowerByte_eq_42 (b : Nat) : lowerByte b = 42 ↔ b = 42 := by
  unfold lowerByte; split <;> omega

theorem lowerLabel_eq_star (l : Bytes) : lowerLabel l = [42] ↔ l = [42] := by
  unfold lowerLabel
  constructor
  · intro h
    match l, h with
    | [b], h =>
      simp only [List.map_cons, List.map_nil, List.cons.injEq, and_true] at h
      rw [(lowerByte_eq_42 b).1 h]
    | [], h => simp at h
    | _ :: _ :: _, h => simp at h
  · rintro rfl; rfl

theorem key_cons (l : Bytes) (ls : List Bytes) (f : Bool) :
    K ⟨l :: ls, f⟩ = K ⟨ls, true⟩ ++ [lowerLabel l] := by
  simp [K, canonKey]

theorem key_fqdn_irrel (ls : List Bytes) (f g : Bool) : K ⟨ls, f⟩ = K ⟨ls, g⟩ := rfl

theorem getLast_key_cons (l : Bytes) (ls : List Bytes) (f : Bool) :
    (K ⟨l :: ls, f⟩).getLast? = some (lowerLabel l) := by
  rw [key_cons]; simp

/-- `Name::num_labels` is the RFC 4034 §3.1.3 label count of the key. -/
theorem numLabels_eq (n : Name) : n.numLabels = rfcLabels (K n) := by
  unfold numLabels isWildcard rfcLabels
  rcases n with ⟨ls, f⟩
  cases ls with
  | nil => simp [K, canonKey]
  | cons l ls =>
    rw [getLast_key_cons, key_length]
    simp only [Spec.STAR, Option.some.injEq, lowerLabel_eq_star, beq_iff_eq]

theorem rfcLabels_le (k : Key) : rfcLabels k ≤ k.length := by
  unfold rfcLabels; split <;> omega

theorem length_le_rfcLabels_succ (k : Key) : k.length ≤ rfcLabels k + 1 := by
  unfold rfcLabels; split <;> omega

theorem rfcLabels_lt_length {k : Key} (h : rfcLabels k < k.length) :
    k.getLast? = some Spec.STAR ∧ rfcLabels k + 1 = k.length := by
  unfold rfcLabels at *
  split at h
  · rename_i hs
    refine ⟨hs, ?_⟩
    rw [if_pos hs]; omega
  · omega

theorem isWildcard_iff (n : Name) : n.isWildcard = true ↔ (K n).getLast? = some Spec.STAR := by
  rcases n with ⟨ls, f⟩
  cases ls with
  | nil => simp [isWildcard, K, canonKey]
  | cons l ls =>
    rw [getLast_key_cons]
    simp [isWildcard, Spec.STAR, lowerLabel_eq_star]

/-! ### `base_name`, `trim_to`, `prepend_label("*")` -/

theorem key_baseNameT (n : Name) : K (baseNameT n) = (K n).dropLast := by
  rcases n with ⟨ls, f⟩
  cases ls with
  | nil => simp [baseNameT, K, canonKey]
  | cons l ls => rw [key_cons]; simp [baseNameT, K, canonKey]

theorem baseNameT_fqdn {n : Name} (h : n.fqdn = true) : (baseNameT n).fqdn = true := by
  rcases n with ⟨ls, f⟩
  cases ls <;> simp_all [baseNameT]

theorem key_baseNameT_prefix (n : Name) : K (baseNameT n) <+: K n := by
  rw [key_baseNameT]; exact List.dropLast_prefix _

theorem extendAll_labels {s r : Name} {ls : List Bytes} (h : s.extendAll ls = .ok r) :
    r.labels = s.labels ++ ls ∧ r.fqdn = s.fqdn := by
  induction ls generalizing s with
  | nil => simp only [extendAll, Outcome.ok.injEq] at h; subst h; simp
  | cons l ls ih =>
    simp only [extendAll] at h
    cases h1 : s.extendName l with
    | ok s' =>
      rw [h1] at h
      obtain ⟨h2, h3⟩ := ih h
      have hl := C04.extendName_ok h1
      have hf := C04.extendName_fqdn h1
      refine ⟨?_, by rw [h3, hf]⟩
      rw [h2, hl.1]; simp
    | err => rw [h1] at h; cases h
    | panic s => rw [h1] at h; cases h

theorem prependStar_some {n w : Name} (h : prependStar n = some w) :
    w.labels = Nsec.STAR :: n.labels ∧ w.fqdn = n.fqdn := by
  unfold prependStar prependLabel at h
  have hnew : new.appendLabel Nsec.STAR = .ok ⟨[Nsec.STAR], false⟩ := by decide
  rw [hnew] at h
  simp only [Outcome.bind_ok] at h
  cases h1 : extendAll ⟨[Nsec.STAR], false⟩ n.labels with
  | ok r =>
    rw [h1] at h
    simp only [Outcome.map, Outcome.toOption, Option.some.injEq] at h
    obtain ⟨h2, _⟩ := extendAll_labels h1
    subst h
    exact ⟨by simpa using h2, rfl⟩
  | err => rw [h1] at h; simp [Outcome.map, Outcome.toOption] at h
  | panic s => rw [h1] at h; simp [Outcome.map, Outcome.toOption] at h

theorem key_prependStar {n w : Name} (h : prependStar n = some w) :
    K w = K n ++ [Spec.STAR] ∧ w.fqdn = n.fqdn := by
  obtain ⟨h1, h2⟩ := prependStar_some h
  refine ⟨?_, h2⟩
  rcases w with ⟨wl, wf⟩
  simp only at h1
  subst h1
  rw [key_cons]
  rfl

/-! ### the closest-encloser search of `verify_nsec` -/

theorem key_tail_prefix (l : Bytes) (ls : List Bytes) (f : Bool) :
    K ⟨ls, true⟩ <+: K ⟨l :: ls, f⟩ := by
  rw [key_cons]; exact List.prefix_append _ _

/-- what the loop returns is an ancestor-or-self of the seed and of the query name -/
theorem searchEncloser_sound {q : Name} {k : Nat} {S : List Bytes} {f : Bool} {c : Name}
    (h : searchEncloser q k S f = some c) :
    K c <+: K q ∧ K c <+: K ⟨S, f⟩ ∧ k < (K c).length ∧ (f = true → c.fqdn = true) := by
  induction S generalizing f with
  | nil => simp [searchEncloser] at h
  | cons l ls ih =>
    simp only [searchEncloser] at h
    split at h
    · rename_i hk
      split at h
      · rename_i hz
        simp only [Option.some.injEq] at h
        subst h
        exact ⟨(zoneOf_iff _ _).1 hz, List.prefix_refl _, by rw [key_length]; exact hk,
          fun hf => hf⟩
      · obtain ⟨h1, h2, h3, h4⟩ := ih h
        exact ⟨h1, List.IsPrefix.trans h2 (key_tail_prefix l ls f), h3, fun _ => h4 rfl⟩
    · cases h

/-- and it does not miss a longer common ancestor -/
theorem searchEncloser_complete (q : Name) (k : Nat) (S : List Bytes) (f : Bool) (p : Key)
    (hpS : p <+: K ⟨S, f⟩) (hpq : p <+: K q) :
    (∃ c, searchEncloser q k S f = some c ∧ p.length ≤ (K c).length) ∨ p.length ≤ k := by
  induction S generalizing f with
  | nil =>
    have : p = [] := by simpa [K, canonKey] using hpS
    subst this
    right; simp
  | cons l ls ih =>
    simp only [searchEncloser]
    by_cases hk : (l :: ls).length > k
    · rw [if_pos hk]
      by_cases hz : (⟨l :: ls, f⟩ : Name).zoneOf q = true
      · rw [if_pos hz]
        exact Or.inl ⟨_, rfl, List.IsPrefix.length_le hpS⟩
      · rw [if_neg hz]
        have hne : p ≠ K ⟨l :: ls, f⟩ := by
          rintro rfl; exact hz ((zoneOf_iff _ _).2 hpq)
        rw [key_cons] at hpS hne
        have : p <+: K ⟨ls, true⟩ := by
          rcases List.prefix_concat_iff.1 hpS with h1 | h1
          · exact absurd h1 hne
          · exact h1
        exact ih true this
    · rw [if_neg hk]
      right
      have h1 := List.IsPrefix.length_le hpS
      rw [key_length] at h1
      simp only at h1
      omega

/-- the loop of `closer_encloser_exists`: if it finds nothing, no common ancestor of the seed
and the query name has more than `k` labels -/
theorem closerLoop_false (q : Name) (k : Nat) (S : List Bytes) (f : Bool)
    (h : closerLoop q k S f = false) (p : Key) (hpS : p <+: K ⟨S, f⟩) (hpq : p <+: K q) :
    p.length ≤ k := by
  induction S generalizing f with
  | nil =>
    have : p = [] := by simpa [K, canonKey] using hpS
    subst this; simp
  | cons l ls ih =>
    simp only [closerLoop] at h
    by_cases hk : (l :: ls).length > k
    · rw [if_pos hk] at h
      by_cases hz : (⟨l :: ls, f⟩ : Name).zoneOf q = true
      · rw [if_pos hz] at h; cases h
      · rw [if_neg hz] at h
        have hne : p ≠ K ⟨l :: ls, f⟩ := by
          rintro rfl; exact hz ((zoneOf_iff _ _).2 hpq)
        rw [key_cons] at hpS hne
        have : p <+: K ⟨ls, true⟩ := by
          rcases List.prefix_concat_iff.1 hpS with h1 | h1
          · exact absurd h1 hne
          · exact h1
        exact ih true h this
    · have h1 := List.IsPrefix.length_le hpS
      rw [key_length] at h1
      simp only at h1
      omega

/-- One `for seed_name in …` iteration: properties of the updated `next_closest_encloser`. -/
theorem encloserStep_spec {q nce seed : Name} (hq : K nce <+: K q) :
    let nce' := encloserStep q nce seed
    K nce' <+: K q ∧ (K nce).length ≤ (K nce').length ∧
    (nce.fqdn = true → seed.fqdn = true → nce'.fqdn = true) ∧
    (nce' = nce ∨ K nce' <+: K seed) ∧
    ∀ p : Key, p <+: K seed → p <+: K q → p.length ≤ (K nce').length := by
  intro nce'
  have hdef : nce' = (searchEncloser q nce.labels.length seed.labels seed.fqdn).getD nce := rfl
  cases hs : searchEncloser q nce.labels.length seed.labels seed.fqdn with
  | none =>
    rw [hs] at hdef
    simp only [Option.getD_none] at hdef
    rw [hdef]
    refine ⟨hq, Nat.le_refl _, fun h _ => h, Or.inl rfl, ?_⟩
    intro p hp1 hp2
    rcases searchEncloser_complete q nce.labels.length seed.labels seed.fqdn p hp1 hp2 with
      ⟨c, hc, _⟩ | h
    · rw [hs] at hc; cases hc
    · rw [key_length]; exact h
  | some c =>
    rw [hs] at hdef
    simp only [Option.getD_some] at hdef
    rw [hdef]
    obtain ⟨h1, h2, h3, h4⟩ := searchEncloser_sound hs
    have hlen : (K nce).length ≤ (K c).length := by rw [key_length]; omega
    refine ⟨h1, hlen, fun _ hsf => h4 hsf, Or.inr h2, ?_⟩
    intro p hp1 hp2
    rcases searchEncloser_complete q nce.labels.length seed.labels seed.fqdn p hp1 hp2 with
      ⟨c', hc', hl⟩ | h
    · rw [hs] at hc'; cases hc'; exact hl
    · omega

/-- The closest encloser `verify_nsec` computes from a starting name `nce0` above the query
name: an ancestor-or-self of the query name that is the start or an ancestor-or-self of the
covering record's owner or next name, and **no common ancestor of the query name with the
owner or the next name is longer**. -/
theorem encloser_spec {q nce0 : Name} {cov : Nsec} (h0 : K nce0 <+: K q) :
    let nce := encloserStep q (encloserStep q nce0 cov.owner) cov.next
    K nce <+: K q ∧
    (K nce0).length ≤ (K nce).length ∧
    (nce = nce0 ∨ K nce <+: K cov.owner ∨ K nce <+: K cov.next) ∧
    (nce0.fqdn = true → cov.owner.fqdn = true → cov.next.fqdn = true → nce.fqdn = true) ∧
    ∀ p : Key, (p <+: K cov.owner ∨ p <+: K cov.next) → p <+: K q →
      p.length ≤ (K nce).length := by
  intro nce
  obtain ⟨a1, a2, a4, a5, a6⟩ := encloserStep_spec (seed := cov.owner) h0
  obtain ⟨b1, b2, b4, b5, b6⟩ := encloserStep_spec (seed := cov.next) a1
  refine ⟨b1, Nat.le_trans a2 b2, ?_, fun h1 h2 h3 => b4 (a4 h1 h2) h3, ?_⟩
  · rcases b5 with h | h
    · rcases a5 with h' | h'
      · left; show encloserStep q (encloserStep q nce0 cov.owner) cov.next = nce0
        rw [h, h']
      · right; left
        show K (encloserStep q (encloserStep q nce0 cov.owner) cov.next) <+: _
        rw [h]; exact h'
    · right; right; exact h
  · intro p hp hpq
    rcases hp with hp | hp
    · exact Nat.le_trans (a6 p hp hpq) b2
    · exact b6 p hp hpq

/-! ### `trim_to`, success of `prepend_label("*")`, `min_by_key`, common prefixes -/

theorem key_trimToT {n : Name} {k : Nat} (h : k ≤ n.labels.length) :
    K (trimToT n k) = (K n).take k := by
  unfold trimToT
  rw [if_neg (by omega)]
  simp only [K, canonKey]
  rw [← List.map_take]
  congr 1
  rw [List.reverse_drop]
  congr 1
  omega

theorem extendAll_ok_of_fits (s : Name) (ls : List Bytes)
    (hfit : s.encodedLen + ls.length + (ls.map List.length).sum ≤ 255) :
    ∃ r, s.extendAll ls = .ok r := by
  induction ls generalizing s with
  | nil => exact ⟨s, rfl⟩
  | cons l ls ih =>
    simp only [List.length_cons, List.map_cons, List.sum_cons] at hfit
    have hext : s.extendName l = .ok { s with labels := s.labels ++ [l] } := by
      unfold extendName; simp only [MAX_LENGTH]
      have hc : ¬ (s.encodedLen + l.length + 1 > 255) := by omega
      simp [hc]
    obtain ⟨r, hr⟩ := ih { s with labels := s.labels ++ [l] } (by
      rw [C04.encodedLen_snoc]; omega)
    exact ⟨r, by simp only [extendAll, hext, Outcome.bind_ok]; exact hr⟩

theorem prependStar_ok {n : Name} (h : n.encodedLen + 2 ≤ 255) : ∃ w, prependStar n = some w := by
  unfold prependStar prependLabel
  have hnew : new.appendLabel Nsec.STAR = .ok ⟨[Nsec.STAR], false⟩ := by decide
  rw [hnew]
  simp only [Outcome.bind_ok]
  have hl : (⟨[Nsec.STAR], false⟩ : Name).encodedLen = 3 := by decide
  obtain ⟨r, hr⟩ := extendAll_ok_of_fits ⟨[Nsec.STAR], false⟩ n.labels (by
    rw [hl]; unfold encodedLen dataLen at h; omega)
  rw [hr]
  exact ⟨_, rfl⟩

theorem sum_drop_add_le (ls : List Bytes) (k : Nat) (hk : k < ls.length)
    (hpos : ∀ l ∈ ls, 1 ≤ l.length) :
    ((ls.drop (ls.length - k)).map List.length).sum + (ls.length - k) + (ls.length - k)
      ≤ (ls.map List.length).sum + (ls.length - k) := by
  induction ls generalizing k with
  | nil => simp at hk
  | cons l ls ih =>
    have hl := hpos l (by simp)
    simp only [List.length_cons] at hk ⊢
    by_cases hk' : k < ls.length
    · have h1 : ls.length + 1 - k = (ls.length - k) + 1 := by omega
      rw [h1]
      simp only [List.drop_succ_cons, List.map_cons, List.sum_cons]
      have := ih k hk' (fun x hx => hpos x (by simp [hx]))
      omega
    · have hk2 : k = ls.length := by omega
      subst hk2
      have h1 : ls.length + 1 - ls.length = 1 := by omega
      rw [h1]
      simp only [List.drop_succ_cons, List.drop_zero, List.map_cons, List.sum_cons]
      omega

/-- trimming a bounded name by at least one label leaves room for the `*` label -/
theorem encodedLen_trimToT {n : Name} {k : Nat} (hb : C04.Bounded n) (hk : k < n.labels.length) :
    (trimToT n k).encodedLen + 2 ≤ 255 := by
  unfold trimToT
  rw [if_neg (by omega)]
  have h1 := hb.1
  unfold encodedLen dataLen at *
  simp only [List.length_drop]
  have := sum_drop_add_le n.labels k hk (fun l hl => (hb.2 l hl).1)
  omega

theorem minByKey_le {α} (key : α → Nat) (xs : List α) (x : α) (hx : x ∈ xs) :
    ∃ y, minByKey key xs = some y ∧ y ∈ xs ∧ key y ≤ key x := by
  induction xs with
  | nil => simp at hx
  | cons a as ih =>
    simp only [minByKey]
    cases hm : minByKey key as with
    | none =>
      have : as = [] := by
        cases as with
        | nil => rfl
        | cons b bs =>
          obtain ⟨y, hy, _⟩ := ih' b bs key
          rw [hm] at hy; cases hy
      subst this
      simp only [List.mem_singleton] at hx
      subst hx
      exact ⟨x, rfl, by simp, Nat.le_refl _⟩
    | some y =>
      simp only
      rcases List.mem_cons.1 hx with rfl | hx'
      · split
        · rename_i hlt
          obtain ⟨y', hy', hy'm, _⟩ := ih_some key as y hm
          exact ⟨y, rfl, List.mem_cons_of_mem _ hy'm, Nat.le_of_lt hlt⟩
        · exact ⟨x, rfl, by simp, Nat.le_refl _⟩
      · obtain ⟨y', hy', hy'm, hle⟩ := ih hx'
        rw [hm] at hy'
        cases hy'
        split
        · exact ⟨y, rfl, List.mem_cons_of_mem _ hy'm, hle⟩
        · rename_i hnlt
          exact ⟨a, rfl, by simp, by omega⟩
where
  ih' {α} (b : α) (bs : List α) (key : α → Nat) : ∃ y, minByKey key (b :: bs) = some y ∧ True := by
    simp only [minByKey]
    cases minByKey key bs with
    | none => exact ⟨b, rfl, trivial⟩
    | some y => simp only; split <;> exact ⟨_, rfl, trivial⟩
  ih_some {α} (key : α → Nat) (as : List α) (y : α) (h : minByKey key as = some y) :
      ∃ y', minByKey key as = some y' ∧ y ∈ as ∧ True := by
    refine ⟨y, h, ?_, trivial⟩
    induction as generalizing y with
    | nil => simp [minByKey] at h
    | cons a as ih2 =>
      simp only [minByKey] at h
      cases hm : minByKey key as with
      | none => rw [hm] at h; simp only [Option.some.injEq] at h; subst h; simp
      | some z =>
        rw [hm] at h
        simp only at h
        split at h
        · simp only [Option.some.injEq] at h; subst h
          exact List.mem_cons_of_mem _ (ih2 z hm)
        · simp only [Option.some.injEq] at h; subst h; simp

end HickoryVerif.C08
