/-
C08 — regression theorems: the nine inputs on which `verify_nsec` used to answer `Secure`
although the records do not entail the claim (former findings C08-F1a … C08-F6, repaired in
/repo by aa6d1e8, 3224d1f, f7f02bc, a5c3ba8, ced54a3, 4e1b3c6) are now rejected by the model
of the repaired code (`decide`).  The same inputs are in corpus/C08/hand.case and are replayed
on the real code on every run; `C08Refute.lean` keeps, for each, the zone view that is
consistent with the records and falsifies the claim (so `Secure` would be wrong).
-/
import HickoryVerif.Model.Nsec

namespace HickoryVerif.C08.Cex
open HickoryVerif HickoryVerif.Nsec

/-- former C08-F1a `nxdomain-for-empty-non-terminal`: b.example. 1, soa example., rcode 3, answers -, NSECs a.example. NSEC c.b.example. [1+46+47] -/
def C08_F1a_q : Name := ⟨[[98], [101, 120, 97, 109, 112, 108, 101]], true⟩
def C08_F1a_soa : Option Name := some ⟨[[101, 120, 97, 109, 112, 108, 101]], true⟩
def C08_F1a_answers : List Ans := []
def C08_F1a_nsecs : List Nsec := [{ owner := ⟨[[97], [101, 120, 97, 109, 112, 108, 101]], true⟩, next := ⟨[[99], [98], [101, 120, 97, 109, 112, 108, 101]], true⟩, types := [1, 46, 47] }]
theorem C08_F1a_rejected :
    verifyNsec C08_F1a_q 1 C08_F1a_soa 3 C08_F1a_answers C08_F1a_nsecs = .bogus := by
  decide

/-- former C08-F1b `wildcard-answer-for-empty-non-terminal`: b.example. 1, soa -, rcode 0, answers b.example. rrsig-labels=-; b.example. rrsig-labels=1, NSECs a.example. NSEC c.b.example. [1+46+47]; example. NSEC a.example. [2+6+46+47] -/
def C08_F1b_q : Name := ⟨[[98], [101, 120, 97, 109, 112, 108, 101]], true⟩
def C08_F1b_soa : Option Name := none
def C08_F1b_answers : List Ans := [{ name := ⟨[[98], [101, 120, 97, 109, 112, 108, 101]], true⟩, secure := true, rrsigLabels := none }, { name := ⟨[[98], [101, 120, 97, 109, 112, 108, 101]], true⟩, secure := true, rrsigLabels := some 1 }]
def C08_F1b_nsecs : List Nsec := [{ owner := ⟨[[97], [101, 120, 97, 109, 112, 108, 101]], true⟩, next := ⟨[[99], [98], [101, 120, 97, 109, 112, 108, 101]], true⟩, types := [1, 46, 47] }, { owner := ⟨[[101, 120, 97, 109, 112, 108, 101]], true⟩, next := ⟨[[97], [101, 120, 97, 109, 112, 108, 101]], true⟩, types := [2, 6, 46, 47] }]
theorem C08_F1b_rejected :
    verifyNsec C08_F1b_q 1 C08_F1b_soa 0 C08_F1b_answers C08_F1b_nsecs = .bogus := by
  decide

/-- former C08-F1c `nxdomain-with-empty-non-terminal-wildcard`: b.example. 1, soa example., rcode 3, answers -, NSECs a.example. NSEC c.example. [1+46+47]; example. NSEC x.*.example. [2+6+46+47] -/
def C08_F1c_q : Name := ⟨[[98], [101, 120, 97, 109, 112, 108, 101]], true⟩
def C08_F1c_soa : Option Name := some ⟨[[101, 120, 97, 109, 112, 108, 101]], true⟩
def C08_F1c_answers : List Ans := []
def C08_F1c_nsecs : List Nsec := [{ owner := ⟨[[97], [101, 120, 97, 109, 112, 108, 101]], true⟩, next := ⟨[[99], [101, 120, 97, 109, 112, 108, 101]], true⟩, types := [1, 46, 47] }, { owner := ⟨[[101, 120, 97, 109, 112, 108, 101]], true⟩, next := ⟨[[120], [42], [101, 120, 97, 109, 112, 108, 101]], true⟩, types := [2, 6, 46, 47] }]
theorem C08_F1c_rejected :
    verifyNsec C08_F1c_q 1 C08_F1c_soa 3 C08_F1c_answers C08_F1c_nsecs = .bogus := by
  decide

/-- former C08-F2a `ancestor-delegation-nsec-used-below-cut`: www.sub.example. 1, soa example., rcode 3, answers -, NSECs sub.example. NSEC t.example. [2+46+47] -/
def C08_F2a_q : Name := ⟨[[119, 119, 119], [115, 117, 98], [101, 120, 97, 109, 112, 108, 101]], true⟩
def C08_F2a_soa : Option Name := some ⟨[[101, 120, 97, 109, 112, 108, 101]], true⟩
def C08_F2a_answers : List Ans := []
def C08_F2a_nsecs : List Nsec := [{ owner := ⟨[[115, 117, 98], [101, 120, 97, 109, 112, 108, 101]], true⟩, next := ⟨[[116], [101, 120, 97, 109, 112, 108, 101]], true⟩, types := [2, 46, 47] }]
theorem C08_F2a_rejected :
    verifyNsec C08_F2a_q 1 C08_F2a_soa 3 C08_F2a_answers C08_F2a_nsecs = .bogus := by
  decide

/-- former C08-F2b `ancestor-delegation-nsec-nodata-for-non-ds-type`: sub.example. 1, soa example., rcode 0, answers -, NSECs sub.example. NSEC t.example. [2+46+47] -/
def C08_F2b_q : Name := ⟨[[115, 117, 98], [101, 120, 97, 109, 112, 108, 101]], true⟩
def C08_F2b_soa : Option Name := some ⟨[[101, 120, 97, 109, 112, 108, 101]], true⟩
def C08_F2b_answers : List Ans := []
def C08_F2b_nsecs : List Nsec := [{ owner := ⟨[[115, 117, 98], [101, 120, 97, 109, 112, 108, 101]], true⟩, next := ⟨[[116], [101, 120, 97, 109, 112, 108, 101]], true⟩, types := [2, 46, 47] }]
theorem C08_F2b_rejected :
    verifyNsec C08_F2b_q 1 C08_F2b_soa 0 C08_F2b_answers C08_F2b_nsecs = .bogus := by
  decide

/-- former C08-F3 `no-soa-closest-encloser-assumed`: a.b.example. 1, soa -, rcode 3, answers -, NSECs *.example. NSEC z.example. [1+46+47] -/
def C08_F3_q : Name := ⟨[[97], [98], [101, 120, 97, 109, 112, 108, 101]], true⟩
def C08_F3_soa : Option Name := none
def C08_F3_answers : List Ans := []
def C08_F3_nsecs : List Nsec := [{ owner := ⟨[[42], [101, 120, 97, 109, 112, 108, 101]], true⟩, next := ⟨[[122], [101, 120, 97, 109, 112, 108, 101]], true⟩, types := [1, 46, 47] }]
theorem C08_F3_rejected :
    verifyNsec C08_F3_q 1 C08_F3_soa 3 C08_F3_answers C08_F3_nsecs = .bogus := by
  decide

/-- former C08-F4 `wildcard-answer-closer-encloser-not-excluded`: a.z.w.example. 1, soa -, rcode 0, answers a.z.w.example. rrsig-labels=-; a.z.w.example. rrsig-labels=2, NSECs z.w.example. NSEC zz.w.example. [1+46+47] -/
def C08_F4_q : Name := ⟨[[97], [122], [119], [101, 120, 97, 109, 112, 108, 101]], true⟩
def C08_F4_soa : Option Name := none
def C08_F4_answers : List Ans := [{ name := ⟨[[97], [122], [119], [101, 120, 97, 109, 112, 108, 101]], true⟩, secure := true, rrsigLabels := none }, { name := ⟨[[97], [122], [119], [101, 120, 97, 109, 112, 108, 101]], true⟩, secure := true, rrsigLabels := some 2 }]
def C08_F4_nsecs : List Nsec := [{ owner := ⟨[[122], [119], [101, 120, 97, 109, 112, 108, 101]], true⟩, next := ⟨[[122, 122], [119], [101, 120, 97, 109, 112, 108, 101]], true⟩, types := [1, 46, 47] }]
theorem C08_F4_rejected :
    verifyNsec C08_F4_q 1 C08_F4_soa 0 C08_F4_answers C08_F4_nsecs = .bogus := by
  decide

/-- former C08-F5 `closest-encloser-search-discounts-wildcard-label`: !.*.example. 1, soa example., rcode 0, answers -, NSECs *.example. NSEC ).*.example. [16+46+47] -/
def C08_F5_q : Name := ⟨[[33], [42], [101, 120, 97, 109, 112, 108, 101]], true⟩
def C08_F5_soa : Option Name := some ⟨[[101, 120, 97, 109, 112, 108, 101]], true⟩
def C08_F5_answers : List Ans := []
def C08_F5_nsecs : List Nsec := [{ owner := ⟨[[42], [101, 120, 97, 109, 112, 108, 101]], true⟩, next := ⟨[[41], [42], [101, 120, 97, 109, 112, 108, 101]], true⟩, types := [16, 46, 47] }]
theorem C08_F5_rejected :
    verifyNsec C08_F5_q 1 C08_F5_soa 0 C08_F5_answers C08_F5_nsecs = .bogus := by
  decide

/-- former C08-F6 `nsec-rrsig-bits-not-ignored`: a.example. 47, soa example., rcode 0, answers -, NSECs a.example. NSEC b.example. [1] -/
def C08_F6_q : Name := ⟨[[97], [101, 120, 97, 109, 112, 108, 101]], true⟩
def C08_F6_soa : Option Name := some ⟨[[101, 120, 97, 109, 112, 108, 101]], true⟩
def C08_F6_answers : List Ans := []
def C08_F6_nsecs : List Nsec := [{ owner := ⟨[[97], [101, 120, 97, 109, 112, 108, 101]], true⟩, next := ⟨[[98], [101, 120, 97, 109, 112, 108, 101]], true⟩, types := [1] }]
theorem C08_F6_rejected :
    verifyNsec C08_F6_q 47 C08_F6_soa 0 C08_F6_answers C08_F6_nsecs = .bogus := by
  decide

end HickoryVerif.C08.Cex
