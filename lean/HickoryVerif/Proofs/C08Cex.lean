/-
C08 — kernel-checked counter-examples to the full soundness statement: for each known deviation
class, a concrete input on which the model of `verify_nsec` answers `Secure` and to which the
class applies (`decide`).  These are the replay inputs of the entries of known-findings.json
(the harness replays them on the real code through `verif_hooks::verify_nsec` on every run and
its oracle exhibits, each time, a zone view consistent with the records in which the claim is
false).  `C08Refute.lean` proves for them, in Lean, that such a zone view exists.
-/
import HickoryVerif.Model.Nsec

namespace HickoryVerif.C08.Cex
open HickoryVerif HickoryVerif.Nsec

/-- C08-F1a `nxdomain-for-empty-non-terminal`: b.example. 1, soa example., rcode 3, answers -, NSECs a.example. NSEC c.b.example. [1+46+47] -/
def C08_F1a_q : Name := ⟨[[98], [101, 120, 97, 109, 112, 108, 101]], true⟩
def C08_F1a_soa : Option Name := some ⟨[[101, 120, 97, 109, 112, 108, 101]], true⟩
def C08_F1a_answers : List Ans := []
def C08_F1a_nsecs : List Nsec := [{ owner := ⟨[[97], [101, 120, 97, 109, 112, 108, 101]], true⟩, next := ⟨[[99], [98], [101, 120, 97, 109, 112, 108, 101]], true⟩, types := [1, 46, 47] }]
theorem C08_F1a_accepted :
    verifyNsec C08_F1a_q 1 C08_F1a_soa 3 C08_F1a_answers C08_F1a_nsecs = .secure ∧
    classify C08_F1a_q 1 C08_F1a_soa 3 C08_F1a_answers C08_F1a_nsecs = some "nxdomain-for-empty-non-terminal" := by
  decide

/-- C08-F1b `wildcard-answer-for-empty-non-terminal`: b.example. 1, soa -, rcode 0, answers b.example. rrsig-labels=-; b.example. rrsig-labels=1, NSECs a.example. NSEC c.b.example. [1+46+47]; example. NSEC a.example. [2+6+46+47] -/
def C08_F1b_q : Name := ⟨[[98], [101, 120, 97, 109, 112, 108, 101]], true⟩
def C08_F1b_soa : Option Name := none
def C08_F1b_answers : List Ans := [{ name := ⟨[[98], [101, 120, 97, 109, 112, 108, 101]], true⟩, secure := true, rrsigLabels := none }, { name := ⟨[[98], [101, 120, 97, 109, 112, 108, 101]], true⟩, secure := true, rrsigLabels := some 1 }]
def C08_F1b_nsecs : List Nsec := [{ owner := ⟨[[97], [101, 120, 97, 109, 112, 108, 101]], true⟩, next := ⟨[[99], [98], [101, 120, 97, 109, 112, 108, 101]], true⟩, types := [1, 46, 47] }, { owner := ⟨[[101, 120, 97, 109, 112, 108, 101]], true⟩, next := ⟨[[97], [101, 120, 97, 109, 112, 108, 101]], true⟩, types := [2, 6, 46, 47] }]
theorem C08_F1b_accepted :
    verifyNsec C08_F1b_q 1 C08_F1b_soa 0 C08_F1b_answers C08_F1b_nsecs = .secure ∧
    classify C08_F1b_q 1 C08_F1b_soa 0 C08_F1b_answers C08_F1b_nsecs = some "wildcard-answer-for-empty-non-terminal" := by
  decide

/-- C08-F1c `nxdomain-with-empty-non-terminal-wildcard`: b.example. 1, soa example., rcode 3, answers -, NSECs a.example. NSEC c.example. [1+46+47]; example. NSEC x.*.example. [2+6+46+47] -/
def C08_F1c_q : Name := ⟨[[98], [101, 120, 97, 109, 112, 108, 101]], true⟩
def C08_F1c_soa : Option Name := some ⟨[[101, 120, 97, 109, 112, 108, 101]], true⟩
def C08_F1c_answers : List Ans := []
def C08_F1c_nsecs : List Nsec := [{ owner := ⟨[[97], [101, 120, 97, 109, 112, 108, 101]], true⟩, next := ⟨[[99], [101, 120, 97, 109, 112, 108, 101]], true⟩, types := [1, 46, 47] }, { owner := ⟨[[101, 120, 97, 109, 112, 108, 101]], true⟩, next := ⟨[[120], [42], [101, 120, 97, 109, 112, 108, 101]], true⟩, types := [2, 6, 46, 47] }]
theorem C08_F1c_accepted :
    verifyNsec C08_F1c_q 1 C08_F1c_soa 3 C08_F1c_answers C08_F1c_nsecs = .secure ∧
    classify C08_F1c_q 1 C08_F1c_soa 3 C08_F1c_answers C08_F1c_nsecs = some "nxdomain-with-empty-non-terminal-wildcard" := by
  decide

/-- C08-F2a `ancestor-delegation-nsec-used-below-cut`: www.sub.example. 1, soa example., rcode 3, answers -, NSECs sub.example. NSEC t.example. [2+46+47] -/
def C08_F2a_q : Name := ⟨[[119, 119, 119], [115, 117, 98], [101, 120, 97, 109, 112, 108, 101]], true⟩
def C08_F2a_soa : Option Name := some ⟨[[101, 120, 97, 109, 112, 108, 101]], true⟩
def C08_F2a_answers : List Ans := []
def C08_F2a_nsecs : List Nsec := [{ owner := ⟨[[115, 117, 98], [101, 120, 97, 109, 112, 108, 101]], true⟩, next := ⟨[[116], [101, 120, 97, 109, 112, 108, 101]], true⟩, types := [2, 46, 47] }]
theorem C08_F2a_accepted :
    verifyNsec C08_F2a_q 1 C08_F2a_soa 3 C08_F2a_answers C08_F2a_nsecs = .secure ∧
    classify C08_F2a_q 1 C08_F2a_soa 3 C08_F2a_answers C08_F2a_nsecs = some "ancestor-delegation-nsec-used-below-cut" := by
  decide

/-- C08-F2b `ancestor-delegation-nsec-nodata-for-non-ds-type`: sub.example. 1, soa example., rcode 0, answers -, NSECs sub.example. NSEC t.example. [2+46+47] -/
def C08_F2b_q : Name := ⟨[[115, 117, 98], [101, 120, 97, 109, 112, 108, 101]], true⟩
def C08_F2b_soa : Option Name := some ⟨[[101, 120, 97, 109, 112, 108, 101]], true⟩
def C08_F2b_answers : List Ans := []
def C08_F2b_nsecs : List Nsec := [{ owner := ⟨[[115, 117, 98], [101, 120, 97, 109, 112, 108, 101]], true⟩, next := ⟨[[116], [101, 120, 97, 109, 112, 108, 101]], true⟩, types := [2, 46, 47] }]
theorem C08_F2b_accepted :
    verifyNsec C08_F2b_q 1 C08_F2b_soa 0 C08_F2b_answers C08_F2b_nsecs = .secure ∧
    classify C08_F2b_q 1 C08_F2b_soa 0 C08_F2b_answers C08_F2b_nsecs = some "ancestor-delegation-nsec-nodata-for-non-ds-type" := by
  decide

/-- C08-F3 `no-soa-closest-encloser-assumed`: a.b.example. 1, soa -, rcode 3, answers -, NSECs *.example. NSEC z.example. [1+46+47] -/
def C08_F3_q : Name := ⟨[[97], [98], [101, 120, 97, 109, 112, 108, 101]], true⟩
def C08_F3_soa : Option Name := none
def C08_F3_answers : List Ans := []
def C08_F3_nsecs : List Nsec := [{ owner := ⟨[[42], [101, 120, 97, 109, 112, 108, 101]], true⟩, next := ⟨[[122], [101, 120, 97, 109, 112, 108, 101]], true⟩, types := [1, 46, 47] }]
theorem C08_F3_accepted :
    verifyNsec C08_F3_q 1 C08_F3_soa 3 C08_F3_answers C08_F3_nsecs = .secure ∧
    classify C08_F3_q 1 C08_F3_soa 3 C08_F3_answers C08_F3_nsecs = some "no-soa-closest-encloser-assumed" := by
  decide

/-- C08-F4 `wildcard-answer-closer-encloser-not-excluded`: a.z.w.example. 1, soa -, rcode 0, answers a.z.w.example. rrsig-labels=-; a.z.w.example. rrsig-labels=2, NSECs z.w.example. NSEC zz.w.example. [1+46+47] -/
def C08_F4_q : Name := ⟨[[97], [122], [119], [101, 120, 97, 109, 112, 108, 101]], true⟩
def C08_F4_soa : Option Name := none
def C08_F4_answers : List Ans := [{ name := ⟨[[97], [122], [119], [101, 120, 97, 109, 112, 108, 101]], true⟩, secure := true, rrsigLabels := none }, { name := ⟨[[97], [122], [119], [101, 120, 97, 109, 112, 108, 101]], true⟩, secure := true, rrsigLabels := some 2 }]
def C08_F4_nsecs : List Nsec := [{ owner := ⟨[[122], [119], [101, 120, 97, 109, 112, 108, 101]], true⟩, next := ⟨[[122, 122], [119], [101, 120, 97, 109, 112, 108, 101]], true⟩, types := [1, 46, 47] }]
theorem C08_F4_accepted :
    verifyNsec C08_F4_q 1 C08_F4_soa 0 C08_F4_answers C08_F4_nsecs = .secure ∧
    classify C08_F4_q 1 C08_F4_soa 0 C08_F4_answers C08_F4_nsecs = some "wildcard-answer-closer-encloser-not-excluded" := by
  decide

/-- C08-F5 `closest-encloser-search-discounts-wildcard-label`: !.*.example. 1, soa example., rcode 0, answers -, NSECs *.example. NSEC ).*.example. [16+46+47] -/
def C08_F5_q : Name := ⟨[[33], [42], [101, 120, 97, 109, 112, 108, 101]], true⟩
def C08_F5_soa : Option Name := some ⟨[[101, 120, 97, 109, 112, 108, 101]], true⟩
def C08_F5_answers : List Ans := []
def C08_F5_nsecs : List Nsec := [{ owner := ⟨[[42], [101, 120, 97, 109, 112, 108, 101]], true⟩, next := ⟨[[41], [42], [101, 120, 97, 109, 112, 108, 101]], true⟩, types := [16, 46, 47] }]
theorem C08_F5_accepted :
    verifyNsec C08_F5_q 1 C08_F5_soa 0 C08_F5_answers C08_F5_nsecs = .secure ∧
    classify C08_F5_q 1 C08_F5_soa 0 C08_F5_answers C08_F5_nsecs = some "closest-encloser-search-discounts-wildcard-label" := by
  decide

/-- C08-F6 `nsec-rrsig-bits-not-ignored`: a.example. 47, soa example., rcode 0, answers -, NSECs a.example. NSEC b.example. [1] -/
def C08_F6_q : Name := ⟨[[97], [101, 120, 97, 109, 112, 108, 101]], true⟩
def C08_F6_soa : Option Name := some ⟨[[101, 120, 97, 109, 112, 108, 101]], true⟩
def C08_F6_answers : List Ans := []
def C08_F6_nsecs : List Nsec := [{ owner := ⟨[[97], [101, 120, 97, 109, 112, 108, 101]], true⟩, next := ⟨[[98], [101, 120, 97, 109, 112, 108, 101]], true⟩, types := [1] }]
theorem C08_F6_accepted :
    verifyNsec C08_F6_q 47 C08_F6_soa 0 C08_F6_answers C08_F6_nsecs = .secure ∧
    classify C08_F6_q 47 C08_F6_soa 0 C08_F6_answers C08_F6_nsecs = some "nsec-rrsig-bits-not-ignored" := by
  decide

end HickoryVerif.C08.Cex
