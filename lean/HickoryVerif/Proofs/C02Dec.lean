/-
C02 — what the decoder can produce (stage 3).

`readMessage_wf` : a message decoded from ANY byte string (octets < 256) whose records are of the
covered RDATA variants (or have empty RDATA) satisfies the well-formedness predicate `MsgWF` /
`MsgWFE` the round-trip theorems ask for, and all its names are fully qualified — so
`reencode_stable` no longer assumes it (`reencode_stable_decoded_partial`, `…_edns_partial`).

A small partial-correctness calculus `PostV r P` ("if `r` returns `Ok a` on a buffer of octets then
`P a`") over C01's reader monad does the work; it is independent of C01's cost contracts.
-/
import HickoryVerif.Proofs.C01
import HickoryVerif.Proofs.C02Rest
namespace HickoryVerif.C02
open HickoryVerif HickoryVerif.Name HickoryVerif.Wire HickoryVerif.C03

/-! ### the calculus -/

/-- if `r` succeeds on a buffer of octets, its value satisfies `P` -/
def PostV {α} (r : Rd α) (P : α → Prop) : Prop :=
  ∀ (buf : Bytes) (st : DSt) (a : α) (st' : DSt), Bytes.WF buf → r buf st = (.ok a, st') → P a

theorem PostV.triv {α} (r : Rd α) : PostV r (fun _ => True) := fun _ _ _ _ _ _ => trivial

theorem PostV.weaken {α} {r : Rd α} {P Q : α → Prop} (h : PostV r P) (hpq : ∀ a, P a → Q a) : PostV r Q :=
  fun buf st a st' hb hr => hpq a (h buf st a st' hb hr)

theorem PostV.and {α} {r : Rd α} {P Q : α → Prop} (h1 : PostV r P) (h2 : PostV r Q) :
    PostV r (fun a => P a ∧ Q a) :=
  fun buf st a st' hb hr => ⟨h1 buf st a st' hb hr, h2 buf st a st' hb hr⟩

theorem PostV.bind {α β} {x : Rd α} {f : α → Rd β} {P : α → Prop} {Q : β → Prop}
    (hx : PostV x P) (hf : ∀ a, P a → PostV (f a) Q) : PostV (Rd.bind x f) Q := by
  intro buf st b st' hb hr
  unfold Rd.bind at hr
  cases hxr : x buf st with
  | mk o st1 =>
    rw [hxr] at hr
    cases o with
    | ok a => exact hf a (hx buf st a st1 hb hxr) buf st1 b st' hb hr
    | err => simp at hr
    | panic s => simp at hr

theorem PostV.pure {α} (a : α) {P : α → Prop} (h : P a) : PostV (Rd.pure a) P := by
  intro buf st b st' _ hr
  simp only [Rd.pure, Prod.mk.injEq, Outcome.ok.injEq] at hr
  rw [← hr.1]; exact h

theorem PostV.fail {α} {P : α → Prop} : PostV (Rd.fail : Rd α) P := by
  intro buf st b st' _ hr; simp [Rd.fail] at hr

theorem PostV.panic {α} {P : α → Prop} (s : String) : PostV (Rd.panic s : Rd α) P := by
  intro buf st b st' _ hr; simp [Rd.panic] at hr

theorem PostV.ite {α} {r1 r2 : Rd α} {P : α → Prop} (c : Prop) [Decidable c]
    (h1 : c → PostV r1 P) (h2 : ¬ c → PostV r2 P) : PostV (if c then r1 else r2) P := by
  by_cases hc : c
  · rw [if_pos hc]; exact h1 hc
  · rw [if_neg hc]; exact h2 hc

theorem PostV.lift {α} {o : Outcome α} {P : α → Prop} (h : ∀ a, o = .ok a → P a) : PostV (Rd.lift o) P := by
  intro buf st b st' _ hr
  simp only [Rd.lift, Prod.mk.injEq] at hr
  exact h b hr.1

theorem mem_wf_of_get {buf : Bytes} {i b : Nat} (hb : Bytes.WF buf) (h : buf[i]? = some b) : b < 256 :=
  hb b (List.mem_of_getElem? h)

theorem PostV.pop : PostV Rd.pop (· < 256) := by
  intro buf st b st' hb hr
  unfold Rd.pop at hr
  cases hg : buf[st.pos]? with
  | none => rw [hg] at hr; simp at hr
  | some v =>
    rw [hg] at hr
    simp only [Prod.mk.injEq, Outcome.ok.injEq] at hr
    rw [← hr.1]; exact mem_wf_of_get hb hg

theorem wf_take_drop {buf : Bytes} (hb : Bytes.WF buf) (p n : Nat) : Bytes.WF ((buf.drop p).take n) :=
  fun x hx => hb x (List.mem_of_mem_drop (List.mem_of_mem_take hx))

theorem PostV.readSlice (n : Nat) : PostV (Rd.readSlice n) (fun s => Bytes.WF s ∧ s.length = n) := by
  intro buf st b st' hb hr
  unfold Rd.readSlice at hr
  by_cases hc : n > buf.length - st.pos
  · simp [hc] at hr
  · simp only [hc, ↓reduceIte, Prod.mk.injEq, Outcome.ok.injEq] at hr
    rw [← hr.1]
    exact ⟨wf_take_drop hb _ _, by simp only [List.length_take, List.length_drop]; omega⟩

theorem PostV.readVecToEnd : PostV Rd.readVecToEnd Bytes.WF := by
  intro buf st b st' hb hr
  simp only [Rd.readVecToEnd, Prod.mk.injEq, Outcome.ok.injEq] at hr
  rw [← hr.1]
  exact fun x hx => hb x (List.mem_of_mem_drop hx)

theorem PostV.readCharacterData : PostV Rd.readCharacterData (fun s => Bytes.WF s ∧ s.length ≤ 255) := by
  unfold Rd.readCharacterData
  refine PostV.bind PostV.pop fun b hb => ?_
  exact (PostV.readSlice b).weaken fun s hs => ⟨hs.1, by omega⟩

theorem PostV.readU16 : PostV Rd.readU16 (· < 65536) := by
  unfold Rd.readU16
  refine PostV.bind (PostV.readSlice 2) fun s hs => ?_
  match s, hs with
  | [a, b], hs =>
    refine PostV.pure _ ?_
    have ha := hs.1 a (by simp); have hb := hs.1 b (by simp); omega
  | [], hs => simp at hs
  | [_], hs => simp at hs
  | _ :: _ :: _ :: _, hs => simp at hs

theorem PostV.readU32 : PostV Rd.readU32 (· < 4294967296) := by
  unfold Rd.readU32
  refine PostV.bind (PostV.readSlice 4) fun s hs => ?_
  match s, hs with
  | [a, b, c, d], hs =>
    simp only [List.length_cons, List.length_nil, ne_eq, not_true_eq_false, ↓reduceIte]
    refine PostV.pure _ ?_
    have ha := hs.1 a (by simp); have hb := hs.1 b (by simp)
    have hc := hs.1 c (by simp); have hd := hs.1 d (by simp); omega
  | [], hs => simp at hs
  | [_], hs => simp at hs
  | [_, _], hs => simp at hs
  | [_, _, _], hs => simp at hs
  | _ :: _ :: _ :: _ :: _ :: _, hs => simp at hs

theorem PostV.readI32 : PostV Rd.readI32 (fun i => -2147483648 ≤ i ∧ i < 2147483648) := by
  unfold Rd.readI32
  refine PostV.bind PostV.readU32 fun n hn => ?_
  refine PostV.pure _ ?_
  unfold Rd.toI32
  split <;> omega

theorem PostV.splitOff {α} {inner : Rd α} {P : α → Prop} (n : Nat) (h : PostV inner P) :
    PostV (Rd.splitOff n inner) P := by
  intro buf st b st' hb hr
  unfold Rd.splitOff at hr
  by_cases h1 : n > buf.length - st.pos
  · simp [h1] at hr
  · by_cases h2 : st.pos + n > buf.length
    · simp [h1, h2] at hr
    · simp only [h1, h2, ↓reduceIte, Prod.mk.injEq] at hr
      have hbt : Bytes.WF (buf.take (st.pos + n)) := fun x hx => hb x (List.mem_of_mem_take hx)
      exact h (buf.take (st.pos + n)) st b (inner (buf.take (st.pos + n)) st).2 hbt (Prod.ext hr.1 rfl)

/-- the same when the sub-decoder is not empty: the inner reader starts with at least one octet left -/
theorem PostV.splitOff_ne {α} {inner : Rd α} {P : α → Prop} (n : Nat) (hn : n ≠ 0)
    (h : ∀ (buf : Bytes) (st : DSt) (a : α) (st' : DSt), Bytes.WF buf → st.pos < buf.length →
      inner buf st = (.ok a, st') → P a) :
    PostV (Rd.splitOff n inner) P := by
  intro buf st b st' hb hr
  unfold Rd.splitOff at hr
  by_cases h1 : n > buf.length - st.pos
  · simp [h1] at hr
  · by_cases h2 : st.pos + n > buf.length
    · simp [h1, h2] at hr
    · simp only [h1, h2, ↓reduceIte, Prod.mk.injEq] at hr
      have hbt : Bytes.WF (buf.take (st.pos + n)) := fun x hx => hb x (List.mem_of_mem_take hx)
      refine h (buf.take (st.pos + n)) st b (inner (buf.take (st.pos + n)) st).2 hbt ?_ (Prod.ext hr.1 rfl)
      simp only [List.length_take]; omega

theorem PostV.attempt {α} {x : Rd α} {P : α → Prop} (h : PostV x P) :
    PostV (Rd.attempt x) (fun o => ∀ a, o = some a → P a) := by
  intro buf st b st' hb hr
  unfold Rd.attempt at hr
  cases hxr : x buf st with
  | mk o st1 =>
    rw [hxr] at hr
    cases o with
    | ok a =>
      simp only [Prod.mk.injEq, Outcome.ok.injEq] at hr
      intro a' ha'
      rw [← hr.1] at ha'
      cases ha'
      exact h buf st a st1 hb hxr
    | err =>
      simp only [Prod.mk.injEq, Outcome.ok.injEq] at hr
      intro a' ha'; rw [← hr.1] at ha'; cases ha'
    | panic s => simp at hr

theorem PostV.toEnd {α} {p : Bytes → Outcome α × Nat} {P : α → Prop}
    (h : ∀ d a, Bytes.WF d → (p d).1 = .ok a → P a) : PostV (toEnd p) P := by
  show PostV (Rd.bind Rd.readVecToEnd (fun d => Rd.bind (Rd.tick (p d).2) fun _ => Rd.lift (p d).1)) P
  refine PostV.bind PostV.readVecToEnd fun d hd => ?_
  refine PostV.bind (PostV.triv _) fun _ _ => ?_
  exact PostV.lift fun a ha => h d a hd ha

/-! ### names -/

theorem readLabels_wf (buf : Bytes) (pos ns : Nat) (pm : Option Nat) (acc : Name) (hb : Bytes.WF buf)
    (hacc : ∀ l ∈ acc.labels, Bytes.WF l) :
    ∀ (n : Name) (p : Nat), readLabels buf pos ns pm acc = .ok (n, p) →
      (∀ l ∈ n.labels, Bytes.WF l) ∧ n.fqdn = true := by
  fun_induction readLabels buf pos ns pm acc <;> intro n p h
  case case3 => cases h; exact ⟨hacc, rfl⟩
  case case6 hx ih => cases h; exact ih hacc _ _ hx
  case case10 b _ hb0 _ hb' hfit acc' hext ih =>
    refine ih ?_ n p h
    obtain ⟨rfl, _⟩ := C01.extendName_ok hext
    intro l hlmem
    simp only [List.mem_append, List.mem_singleton] at hlmem
    rcases hlmem with hm | rfl
    · exact hacc l hm
    · exact wf_take_drop hb _ _
  all_goals cases h

/-- **A name decoded from octets is a well-formed, fully qualified name.** -/
theorem readName_wf (buf : Bytes) (pos : Nat) (n : Name) (p : Nat) (hb : Bytes.WF buf)
    (h : readName buf pos = .ok (n, p)) : n.WF ∧ n.fqdn = true := by
  have hbd := C01.readName_bounds buf pos n p h
  unfold readName at h
  cases h' : readLabels buf pos pos none new with
  | ok v =>
    obtain ⟨n', p'⟩ := v
    rw [h'] at h; simp only at h
    split at h
    · cases h
    · cases h
      have := readLabels_wf buf pos pos none new hb (by intro l hl; simp [Name.new] at hl) _ _ h'
      exact ⟨⟨hbd.1, fun l hl => ⟨(hbd.2 l hl).1, (hbd.2 l hl).2, this.1 l hl⟩⟩, this.2⟩
  | err => rw [h'] at h; cases h
  | panic s' => rw [h'] at h; cases h

theorem PostV.name : PostV Rd.name (fun n => n.WF ∧ n.fqdn = true) := by
  intro buf st n st' hb hr
  unfold Rd.name at hr
  have hfst := C01.readNameSteps_fst buf st.pos
  cases hs : Name.readNameSteps buf st.pos with
  | mk o k =>
    rw [hs] at hr hfst
    simp only at hfst
    cases o with
    | ok v =>
      obtain ⟨n', p⟩ := v
      simp only [Prod.mk.injEq, Outcome.ok.injEq] at hr
      rw [← hr.1]
      exact readName_wf buf st.pos n' p hb hfst.symm
    | err => simp at hr
    | panic s => simp at hr

/-! ### header, question -/

theorem post_header : PostV readHeader (fun r => r.1.id < 65536 ∧ r.1.op < 16 ∧ r.1.rcode < 16) := by
  unfold readHeader
  simp only [C01.bind_eq, C01.pure_eq]
  refine PostV.bind PostV.readU16 fun id hid => ?_
  refine PostV.bind PostV.pop fun b2 h2 => ?_
  refine PostV.bind PostV.pop fun b3 h3 => ?_
  refine PostV.bind (PostV.triv _) fun _ _ => ?_
  refine PostV.bind (PostV.triv _) fun _ _ => ?_
  refine PostV.bind (PostV.triv _) fun _ _ => ?_
  refine PostV.bind (PostV.triv _) fun _ _ => ?_
  refine PostV.pure _ ⟨hid, ?_, ?_⟩
  · show b2 / 8 % 16 < 16; omega
  · show b3 % 16 < 16; omega

/-- what `Query::read` returns -/
def QV (q : Query) : Prop := q.name.WF ∧ q.name.fqdn = true ∧ q.qtype < 65536 ∧ q.qclass < 65536

theorem post_query : PostV readQuery QV := by
  unfold readQuery
  simp only [C01.bind_eq, C01.pure_eq]
  refine PostV.bind PostV.name fun n hn => ?_
  refine PostV.bind PostV.readU16 fun t ht => ?_
  refine PostV.bind PostV.readU16 fun c hc => ?_
  exact PostV.pure _ ⟨hn.1, hn.2, ht, hc⟩

/-! ### inversion of the primitive readers -/

theorem bind_ok {α β} {x : Rd α} {f : α → Rd β} {buf : Bytes} {st st' : DSt} {b : β}
    (h : Rd.bind x f buf st = (.ok b, st')) : ∃ a st1, x buf st = (.ok a, st1) ∧ f a buf st1 = (.ok b, st') := by
  unfold Rd.bind at h
  cases hx : x buf st with
  | mk o st1 =>
    rw [hx] at h
    cases o with
    | ok a => exact ⟨a, st1, rfl, h⟩
    | err => simp at h
    | panic s => simp at h

theorem pop_inv {buf : Bytes} {st st1 : DSt} {b : Nat} (h : Rd.pop buf st = (.ok b, st1)) :
    buf[st.pos]? = some b ∧ st1.pos = st.pos + 1 := by
  unfold Rd.pop at h
  cases hg : buf[st.pos]? with
  | none => rw [hg] at h; simp at h
  | some v =>
    rw [hg] at h
    simp only [Prod.mk.injEq, Outcome.ok.injEq] at h
    exact ⟨by rw [h.1], by rw [← h.2]⟩

theorem pure_inv {α} {a b : α} {buf : Bytes} {st st1 : DSt} (h : Rd.pure a buf st = (.ok b, st1)) :
    a = b ∧ st1 = st := by
  simp only [Rd.pure, Prod.mk.injEq, Outcome.ok.injEq] at h
  exact ⟨h.1, h.2.symm⟩

theorem readU16_inv {buf : Bytes} {st st1 : DSt} {v : Nat} (h : Rd.readU16 buf st = (.ok v, st1)) :
    ∃ a b, (buf.drop st.pos).take 2 = [a, b] ∧ v = a * 256 + b ∧ st1.pos = st.pos + 2 ∧
      st.pos + 2 ≤ buf.length := by
  unfold Rd.readU16 at h
  obtain ⟨s, s1, h1, h2⟩ := bind_ok h
  unfold Rd.readSlice at h1
  by_cases hc : 2 > buf.length - st.pos
  · simp [hc] at h1
  · simp only [hc, ↓reduceIte, Prod.mk.injEq, Outcome.ok.injEq] at h1
    obtain ⟨hs, hs1⟩ := h1
    match s, hs, h2 with
    | [a, b], hs, h2 =>
      obtain ⟨hv, hst⟩ := pure_inv h2
      exact ⟨a, b, hs, hv.symm, by rw [hst, ← hs1], by omega⟩
    | [], hs, h2 => simp [Rd.panic] at h2
    | [_], hs, h2 => simp [Rd.panic] at h2
    | _ :: _ :: _ :: _, hs, h2 => simp [Rd.panic] at h2

/-! ### RDATA -/

/-- what `RData::read` returns for type `t`: never the empty-RDATA marker, and — when the variant is
one of the covered ones — it belongs to `t`, its fields are in range, its names are well-formed and
fully qualified -/
def RDV (t : Nat) (d : RData) : Prop :=
  d.isUpdate = false ∧ (d.proved = true → d.typeOK t ∧ d.namesWF ∧ d.fq = d) ∧
  (∀ os, d = .opt os → t = T_OPT ∧ ∀ o ∈ os, OptOK o)

theorem fq_self {n : Name} (h : n.fqdn = true) : ({ n with fqdn := true } : Name) = n := by
  cases n; simp_all

theorem parseTxt_lens (d : Bytes) : ∀ ss, Bytes.WF d → (parseTxt d).1 = .ok ss → ∀ s ∈ ss, s.length ≤ 255 := by
  fun_induction parseTxt d <;> intro ss hb h
  case case1 => simp at h; subst h; intro s hs; cases hs
  case case2 b rest hfit ss' k hx ih =>
    rw [hx] at ih
    simp only [Outcome.ok.injEq] at h
    subst h
    have hb256 : b < 256 := hb b (by simp)
    have hrest : Bytes.WF (rest.drop b) := fun x hx' => hb x (by simp [List.mem_of_mem_drop hx'])
    intro s hs
    rcases List.mem_cons.1 hs with rfl | hs
    · simp only [List.length_take]; omega
    · exact ih ss' hrest rfl s hs
  all_goals simp at h


/-- a reader whose every result is outside the covered set -/
def NP (d : RData) : Prop := d.isUpdate = false ∧ d.proved = false ∧ ∀ os, d ≠ .opt os

theorem RDV_of_NP {t : Nat} {d : RData} (h : NP d) : RDV t d :=
  ⟨h.1, fun hp => (by rw [h.2.1] at hp; cases hp), fun os hd => absurd hd (h.2.2 os)⟩

macro "np_step" : tactic =>
  `(tactic| first
    | exact PostV.fail
    | exact PostV.panic _
    | exact PostV.pure _ ⟨rfl, rfl, fun _ h => by cases h⟩
    | refine PostV.ite _ (fun _ => ?_) (fun _ => ?_)
    | refine PostV.bind (PostV.triv _) (fun _ _ => ?_))

/-- `TSIG::read_data`: the value is in the range `TSIG::emit` accepts, the algorithm name relative -/
theorem post_tsig : PostV readTsig (RDV 250) := by
  unfold readTsig
  simp only [C01.bind_eq, C01.pure_eq]
  refine PostV.bind (PostV.triv _) fun left _ => ?_
  refine PostV.bind (PostV.triv _) fun idx0 _ => ?_
  refine PostV.bind PostV.name fun alg halg => ?_
  refine PostV.bind PostV.readU16 fun th hth => ?_
  refine PostV.bind PostV.readU32 fun tl htl => ?_
  refine PostV.bind PostV.readU16 fun fudge hf => ?_
  refine PostV.bind PostV.readU16 fun macSize hms => ?_
  refine PostV.bind (PostV.triv _) fun idx _ => ?_
  refine PostV.ite _ (fun _ => PostV.ite _ (fun _ => PostV.panic _) (fun _ => PostV.fail)) (fun _ => ?_)
  refine PostV.bind (PostV.readSlice macSize) fun mac hmac => ?_
  refine PostV.bind PostV.readU16 fun oid ho => ?_
  refine PostV.bind PostV.readU16 fun err he => ?_
  refine PostV.bind PostV.readU16 fun otherLen hol => ?_
  refine PostV.bind (PostV.triv _) fun idx' _ => ?_
  refine PostV.ite _ (fun _ => PostV.ite _ (fun _ => PostV.panic _) (fun _ => PostV.fail)) (fun _ => ?_)
  refine PostV.bind (PostV.readSlice otherLen) fun other hother => ?_
  refine PostV.pure _ ⟨rfl, fun _ => ⟨⟨rfl, hf, ho, he⟩, ⟨halg.1, ?_, ?_, ?_⟩, rfl⟩, fun _ h => by cases h⟩
  · omega
  · rw [hmac.2]; exact hms
  · rw [hother.2]; exact hol

theorem post_typeSet : PostV readTypeSet TypeSetOK := by
  unfold readTypeSet
  refine PostV.toEnd fun d ts _ h => ?_
  cases hp : parseBitmap d .window [] with
  | ok v =>
    rw [hp] at h
    simp only [Outcome.map, Outcome.ok.injEq] at h
    subst h
    exact ⟨d, rfl, hp⟩
  | err => rw [hp] at h; simp [Outcome.map] at h
  | panic s => rw [hp] at h; simp [Outcome.map] at h

theorem post_nsec3Head : PostV readNsec3Head (fun x => x.2.1 < 65536 ∧ x.2.2.length < 256) := by
  unfold readNsec3Head
  simp only [C01.bind_eq, C01.pure_eq]
  refine PostV.bind (PostV.triv _) fun _ _ => ?_
  refine PostV.ite _ (fun _ => PostV.fail) (fun _ => ?_)
  refine PostV.bind (PostV.triv _) fun _ _ => ?_
  refine PostV.ite _ (fun _ => PostV.fail) (fun _ => ?_)
  refine PostV.bind PostV.readU16 fun iter hi => ?_
  refine PostV.bind PostV.pop fun sl hsl => ?_
  refine PostV.bind (PostV.triv _) fun _ _ => ?_
  refine PostV.ite _ (fun _ => PostV.fail) (fun _ => ?_)
  refine PostV.bind (PostV.readSlice sl) fun salt hs => ?_
  exact PostV.pure _ ⟨hi, by rw [hs.2]; exact hsl⟩

theorem post_readTag : ∀ (n : Nat) (acc : Bytes),
    PostV (readTag n acc) (fun tag => tag.length = acc.length + n ∧ (acc.all isAlnum = true → tag.all isAlnum = true))
  | 0, acc => by
    simp only [readTag, C01.pure_eq]
    exact PostV.pure _ ⟨rfl, fun h => h⟩
  | n + 1, acc => by
    simp only [readTag, C01.bind_eq]
    refine PostV.bind (PostV.triv _) fun c _ => ?_
    refine PostV.ite _ (fun hc => ?_) (fun _ => PostV.fail)
    refine (post_readTag n (acc ++ [c])).weaken ?_
    intro tag ⟨h1, h2⟩
    refine ⟨by rw [h1]; simp; omega, fun hacc => h2 ?_⟩
    simp only [List.all_append, List.all_cons, List.all_nil, Bool.and_true, Bool.and_eq_true]
    exact ⟨hacc, hc⟩

/-- the DNSSEC codecs: DS / CDS, DNSKEY / CDNSKEY and NSEC3PARAM are covered (stage 3); the others are not -/
theorem post_dnssec (t : Nat) : PostV (readDnssec t) (RDV t) := by
  unfold readDnssec
  simp only [C01.bind_eq, C01.pure_eq]
  refine PostV.ite _ (fun h1 => ?_) (fun n1 => ?_)
  · refine PostV.bind PostV.readU16 fun tag htag => ?_
    refine PostV.bind PostV.pop fun alg halg => ?_
    refine PostV.bind PostV.pop fun dt hdt => ?_
    refine PostV.bind (PostV.triv _) fun dg _ => ?_
    exact PostV.pure _ ⟨rfl, fun _ => ⟨⟨Or.inl h1, htag⟩, ⟨halg, hdt⟩, rfl⟩, fun _ h => by cases h⟩
  refine PostV.ite _ (fun h2 => ?_) (fun n2 => ?_)
  · refine PostV.bind PostV.readU16 fun tag htag => ?_
    refine PostV.bind PostV.pop fun alg halg => ?_
    refine PostV.bind PostV.pop fun dt hdt => ?_
    refine PostV.bind (PostV.triv _) fun dg _ => ?_
    exact PostV.pure _ ⟨rfl, fun _ => ⟨⟨Or.inr h2, htag⟩, ⟨halg, hdt⟩, rfl⟩, fun _ h => by cases h⟩
  refine PostV.ite _ (fun h3 => ?_) (fun n3 => ?_)
  · refine PostV.bind PostV.readU16 fun flags hfl => ?_
    refine PostV.bind (PostV.triv _) fun proto _ => ?_
    refine PostV.ite _ (fun _ => PostV.fail) (fun _ => ?_)
    refine PostV.bind PostV.pop fun alg halg => ?_
    refine PostV.bind (PostV.triv _) fun k _ => ?_
    exact PostV.pure _ ⟨rfl, fun _ => ⟨⟨Or.inl ⟨h3, rfl⟩, hfl⟩, halg, rfl⟩, fun _ h => by cases h⟩
  refine PostV.ite _ (fun h4 => ?_) (fun n4 => ?_)
  · refine PostV.bind PostV.readU16 fun flags hfl => ?_
    refine PostV.bind (PostV.triv _) fun proto _ => ?_
    refine PostV.ite _ (fun _ => PostV.fail) (fun _ => ?_)
    refine PostV.bind PostV.pop fun alg halg => ?_
    refine PostV.bind (PostV.triv _) fun k _ => ?_
    exact PostV.pure _ ⟨rfl, fun _ => ⟨⟨Or.inr ⟨h4, rfl⟩, hfl⟩, halg, rfl⟩, fun _ h => by cases h⟩
  refine PostV.ite _ (fun h5 => ?_) (fun n5 => ?_)
  · -- RRSIG / SIG
    refine PostV.bind PostV.readU16 fun covered hc => ?_
    refine PostV.bind PostV.pop fun alg halg => ?_
    refine PostV.bind PostV.pop fun labels hlab => ?_
    refine PostV.bind PostV.readU32 fun ottl ho => ?_
    refine PostV.bind PostV.readU32 fun exp he => ?_
    refine PostV.bind PostV.readU32 fun inc hi => ?_
    refine PostV.bind PostV.readU16 fun tag htag => ?_
    refine PostV.bind PostV.name fun signer hs => ?_
    refine PostV.bind (PostV.triv _) fun sg _ => ?_
    refine PostV.pure _ ⟨rfl, fun _ => ⟨⟨h5, hc, ho, he, hi, htag⟩, ⟨hs.1, halg, hlab⟩, ?_⟩, fun _ h => by cases h⟩
    show RData.sig _ _ _ _ _ _ _ { signer with fqdn := true } _ = _
    rw [fq_self hs.2]
  refine PostV.ite _ (fun h6 => ?_) (fun n6 => ?_)
  · -- NSEC
    refine PostV.bind PostV.name fun next hn => ?_
    refine PostV.bind post_typeSet fun ts hts => ?_
    refine PostV.pure _ ⟨rfl, fun _ => ⟨⟨h6, hts⟩, ⟨hn.1, ?_⟩, ?_⟩, fun _ h => by cases h⟩
    · obtain ⟨bs, ho, _⟩ := hts; rw [ho]; rfl
    · show RData.nsec { next with fqdn := true } _ = _
      rw [fq_self hn.2]
  refine PostV.ite _ (fun h7 => ?_) (fun n7 => ?_)
  · -- NSEC3
    refine PostV.bind post_nsec3Head fun x hx => ?_
    obtain ⟨oo, iter, salt⟩ := x
    simp only
    refine PostV.bind PostV.pop fun hl hhl => ?_
    refine PostV.bind (PostV.triv _) fun _ _ => ?_
    refine PostV.ite _ (fun _ => PostV.fail) (fun _ => ?_)
    refine PostV.bind (PostV.readSlice hl) fun hash hh => ?_
    refine PostV.bind post_typeSet fun ts hts => ?_
    refine PostV.pure _ ⟨rfl, fun _ => ⟨⟨h7, hx.1, rfl, hts⟩, ⟨hx.2, by rw [hh.2]; exact hhl, ?_⟩, rfl⟩,
      fun _ h => by cases h⟩
    obtain ⟨bs, ho, _⟩ := hts; rw [ho]; rfl
  refine PostV.ite _ (fun h8 => ?_) (fun n8 => ?_)
  · refine PostV.bind post_nsec3Head fun x hx => ?_
    obtain ⟨oo, iter, salt⟩ := x
    exact PostV.pure _ ⟨rfl, fun _ => ⟨⟨h8, hx.1⟩, hx.2, rfl⟩, fun _ h => by cases h⟩
  refine PostV.ite _ (fun h9 => ?_) (fun _ => PostV.panic _)
  -- KEY: the flags word that passes the checks
  refine PostV.bind PostV.readU16 fun flags hfl => ?_
  refine PostV.ite _ (fun _ => PostV.fail) (fun k1 => ?_)
  refine PostV.ite _ (fun _ => PostV.panic _) (fun _ => ?_)
  refine PostV.ite _ (fun _ => PostV.panic _) (fun _ => ?_)
  refine PostV.ite _ (fun _ => PostV.fail) (fun k4 => ?_)
  refine PostV.bind PostV.pop fun proto hp => ?_
  refine PostV.bind PostV.pop fun alg ha => ?_
  refine PostV.bind (PostV.triv _) fun k _ => ?_
  refine PostV.pure _ ⟨rfl, fun _ => ⟨⟨h9, hfl, ?_, ?_, ?_, ?_⟩, ⟨hp, ha⟩, rfl⟩, fun _ h => by cases h⟩
  all_goals omega

/-! EDNS options as decoded -/

theorem dauAlgs_idem (d : Bytes) : dauAlgs (dauAlgs d) = dauAlgs d := by
  unfold dauAlgs
  apply List.filter_congr
  intro a ha
  simp only [List.contains_eq_mem, List.mem_filter, decide_eq_decide]
  exact ⟨fun h => by simpa using h.2, fun h => ⟨ha, by simpa using h⟩⟩

theorem parseSubnet_subnetOK (d : Bytes) (v : OptVal) (hd : Bytes.WF d) (h : parseSubnet d = .ok v) :
    ∃ family sp scope addr, v = .subnet family sp scope addr ∧ SubnetOK family sp scope addr := by
  unfold parseSubnet at h
  match d, hd with
  | f0 :: f1 :: sp :: scope :: rest, hd =>
    simp only at h
    have hsp : sp < 256 := hd sp (by simp)
    have hsc : scope < 256 := hd scope (by simp)
    by_cases hf : f0 * 256 + f1 = 1 ∨ f0 * 256 + f1 = 2
    · rw [if_pos hf] at h
      have hsub : sp / 8 + (if sp % 8 > 0 then 1 else 0) = subnetAddrLen sp := rfl
      simp only [hsub] at h
      generalize hW : (if f0 * 256 + f1 = 1 then 4 else 16) = W at h
      by_cases hw : subnetAddrLen sp > W
      · rw [if_pos hw] at h; cases h
      rw [if_neg hw] at h
      by_cases hr : subnetAddrLen sp > rest.length
      · rw [if_pos hr] at h; cases h
      rw [if_neg hr] at h
      simp only [Outcome.ok.injEq] at h
      obtain ⟨k, hk⟩ : ∃ k, subnetAddrLen sp = k := ⟨_, rfl⟩
      rw [hk] at hw hr
      have hl : (rest.take k).length = k := by rw [List.length_take]; omega
      refine ⟨_, _, _, _, h.symm, hf, hsp, hsc, ?_, ?_, ?_⟩
      · rw [hW, hk]; simp only [List.length_append, hl, List.length_replicate]; omega
      · rw [hk]; simp only [List.length_append, hl, List.length_replicate]; omega
      · rw [hk, List.take_append_of_le_length (Nat.le_of_eq hl.symm), List.take_of_length_le (Nat.le_of_eq hl)]
        simp only [List.length_append, hl, List.length_replicate]
        have : k + (W - k) - k = W - k := by omega
        rw [this]
    · rw [if_neg hf] at h; cases h
  | [], _ => simp at h
  | [_], _ => simp at h
  | [_, _], _ => simp at h
  | [_, _, _], _ => simp at h

theorem mkOpt_optOK (code : Nat) (d : Bytes) (o : OptEntry) (hc : code < 65536) (hd : Bytes.WF d)
    (hl : d.length < 65536) (h : mkOpt code d = .ok o) : OptOK o := by
  unfold mkOpt at h
  by_cases h5 : code = 5
  · rw [if_pos h5] at h
    simp only [Outcome.ok.injEq] at h
    subst h
    refine ⟨hc, ?_, Or.inr (Or.inr (Or.inl ⟨_, rfl, h5, dauAlgs_idem d⟩))⟩
    simp only [optValBytes, dauAlgs]
    have := List.length_filter_le (fun a => d.contains a) [5, 8, 7, 10, 13, 14, 15]
    simp only [List.length_cons, List.length_nil] at this
    omega
  rw [if_neg h5] at h
  by_cases h8 : code = 8
  · rw [if_pos h8] at h
    cases hp : parseSubnet d with
    | ok v =>
      rw [hp] at h
      simp only [Outcome.map, Outcome.ok.injEq] at h
      subst h
      obtain ⟨family, sp, scope, addr, rfl, hs⟩ := parseSubnet_subnetOK d v hd hp
      refine ⟨hc, ?_, Or.inr (Or.inr (Or.inr ⟨_, _, _, _, rfl, h8, hs⟩))⟩
      obtain ⟨_, _, _, hlen, hle, _⟩ := hs
      simp only [optValBytes, u16b, List.length_append, List.length_cons, List.length_nil, List.length_take]
      split at hlen <;> omega
    | err => rw [hp] at h; simp [Outcome.map] at h
    | panic s => rw [hp] at h; simp [Outcome.map] at h
  rw [if_neg h8] at h
  by_cases h3 : code = 3
  · rw [if_pos h3] at h
    split at h
    · cases h
    simp only [Outcome.ok.injEq] at h
    subst h
    exact ⟨hc, hl, Or.inr (Or.inl ⟨_, rfl, h3⟩)⟩
  rw [if_neg h3] at h
  simp only [Outcome.ok.injEq] at h
  subst h
  exact ⟨hc, hl, Or.inl ⟨_, rfl, h3, h5, h8⟩⟩

theorem parseOpt_optOK (total : Nat) (d : Bytes) (acc : List OptEntry) :
    ∀ os, Bytes.WF d → (∀ o ∈ acc, OptOK o) → (parseOpt total d acc).1 = .ok os → ∀ o ∈ os, OptOK o := by
  fun_induction parseOpt total d acc <;> intro os hd hacc h
  all_goals try (simp at h; done)
  case case1 acc =>
    simp only [Outcome.ok.injEq] at h
    subst h
    intro o ho
    exact hacc o (List.mem_reverse.1 ho)
  case case3 => simp only [Outcome.ok.injEq] at h; subst h; intro o ho; cases ho
  case case6 c0 c1 l0 l1 rest acc code len _ _ o hmk r ih =>
    have h0 : c0 < 256 := hd c0 (by simp)
    have h1 : c1 < 256 := hd c1 (by simp)
    have ho : OptOK o := mkOpt_optOK code [] o (by show c0 * 256 + c1 < 65536; omega)
      (by intro x hx; cases hx) (by simp) hmk
    refine ih os (fun x hx => hd x (by simp [hx])) ?_ h
    intro x hx
    rcases List.mem_cons.1 hx with rfl | hx
    · exact ho
    · exact hacc x hx
  case case9 => simp only [Outcome.ok.injEq] at h; subst h; intro o ho; cases ho
  case case10 c0 c1 l0 l1 rest acc code len _ _ _ o hmk r ih =>
    have h0 : c0 < 256 := hd c0 (by simp)
    have h1 : c1 < 256 := hd c1 (by simp)
    have h2 : l0 < 256 := hd l0 (by simp)
    have h3 : l1 < 256 := hd l1 (by simp)
    have hrest : Bytes.WF rest := fun x hx => hd x (by simp [hx])
    have ho : OptOK o := mkOpt_optOK code (rest.take len) o (by show c0 * 256 + c1 < 65536; omega)
      (fun x hx => hrest x (List.mem_of_mem_take hx))
      (by have : (rest.take len).length ≤ len := by simp only [List.length_take]; omega
          have : len < 65536 := by show l0 * 256 + l1 < 65536; omega
          omega) hmk
    refine ih os (fun x hx => hrest x (List.mem_of_mem_drop hx)) ?_ h
    intro x hx
    rcases List.mem_cons.1 hx with rfl | hx
    · exact ho
    · exact hacc x hx

/-! SVCB / HTTPS parameters as decoded -/

theorem svcKeys_post : ∀ (d : Bytes) (ks : List Nat), Bytes.WF d → svcKeys d = .ok ks →
    (∀ k ∈ ks, k < 65536) ∧ (ks.map u16b).flatten.length ≤ d.length
  | [], ks, _, h => by simp [svcKeys] at h; subst h; simp
  | [_], ks, _, h => by simp [svcKeys] at h
  | a :: b :: rest, ks, hd, h => by
    simp only [svcKeys] at h
    cases hr : svcKeys rest with
    | ok ks' =>
      rw [hr] at h
      simp only [Outcome.map, Outcome.ok.injEq] at h
      subst h
      have ih := svcKeys_post rest ks' (fun x hx => hd x (by simp [hx])) hr
      have ha := hd a (by simp); have hb := hd b (by simp)
      refine ⟨?_, ?_⟩
      · intro k hk
        rcases List.mem_cons.1 hk with rfl | hk
        · omega
        · exact ih.1 k hk
      · simp only [List.map_cons, List.flatten_cons, List.length_append, u16b, List.length_cons,
          List.length_nil]
        have := ih.2; omega
    | err => rw [hr] at h; simp [Outcome.map] at h
    | panic s => rw [hr] at h; simp [Outcome.map] at h

theorem svcAlpns_post (d : Bytes) : ∀ (xs : List Bytes), Bytes.WF d → svcAlpns d = .ok xs →
    (∀ a ∈ xs, a.length ≤ 255 ∧ validUtf8 a = true) ∧ (flat xs).length ≤ d.length := by
  fun_induction svcAlpns d <;> intro xs hd h
  case case1 => simp at h; subst h; simp [flat]
  case case2 n rest hfit hutf ih =>
    cases hr : svcAlpns (rest.drop n) with
    | ok xs' =>
      rw [hr] at h
      simp only [Outcome.map, Outcome.ok.injEq] at h
      subst h
      have hn : n < 256 := hd n (by simp)
      have ih' := ih xs' (fun x hx => hd x (by simp [List.mem_of_mem_drop hx])) hr
      refine ⟨?_, ?_⟩
      · intro a ha
        rcases List.mem_cons.1 ha with rfl | ha
        · exact ⟨by simp only [List.length_take]; omega, hutf⟩
        · exact ih'.1 a ha
      · have := ih'.2
        simp only [flat_cons, List.length_cons, List.length_append, List.length_take, List.length_drop] at this ⊢
        omega
    | err => rw [hr] at h; simp [Outcome.map] at h
    | panic s => rw [hr] at h; simp [Outcome.map] at h
  all_goals simp at h

theorem svcValue_post (key : Nat) (d : Bytes) (v : SvcVal) (hd : Bytes.WF d) (h : svcValue key d = .ok v) :
    SvcValOK key v ∧ (svcValBytes v).length ≤ d.length := by
  unfold svcValue at h
  by_cases h0 : key = 0
  · rw [if_pos h0] at h
    cases hk : svcKeys d with
    | ok ks =>
      rw [hk] at h
      cases ks with
      | nil => simp at h
      | cons a t =>
        simp only [Outcome.ok.injEq] at h
        subst h
        have := svcKeys_post d (a :: t) hd hk
        exact ⟨⟨h0, by simp, this.1⟩, this.2⟩
    | err => rw [hk] at h; simp at h
    | panic s => rw [hk] at h; simp at h
  rw [if_neg h0] at h
  by_cases h1 : key = 1
  · rw [if_pos h1] at h
    cases hk : svcAlpns d with
    | ok xs =>
      rw [hk] at h
      cases xs with
      | nil => simp at h
      | cons a t =>
        simp only [Outcome.ok.injEq] at h
        subst h
        have := svcAlpns_post d (a :: t) hd hk
        exact ⟨⟨h1, by simp, this.1⟩, this.2⟩
    | err => rw [hk] at h; simp at h
    | panic s => rw [hk] at h; simp at h
  rw [if_neg h1] at h
  by_cases h2 : key = 2
  · rw [if_pos h2] at h
    split at h
    · simp at h
    · simp only [Outcome.ok.injEq] at h; subst h; exact ⟨h2, by simp [svcValBytes]⟩
  rw [if_neg h2] at h
  by_cases h3 : key = 3
  · rw [if_pos h3] at h
    match d, hd, h with
    | [a, b], hd, h =>
      simp only [Outcome.ok.injEq] at h
      subst h
      have ha := hd a (by simp); have hb := hd b (by simp)
      exact ⟨⟨h3, by omega⟩, by simp [svcValBytes, u16b]⟩
    | [], _, h => simp at h
    | [_], _, h => simp at h
    | _ :: _ :: _ :: _, _, h => simp at h
  rw [if_neg h3] at h
  by_cases h4 : key = 4
  · rw [if_pos h4] at h
    split at h
    · simp only [Outcome.ok.injEq] at h; subst h; rename_i hm; exact ⟨⟨h4, hm⟩, Nat.le_refl _⟩
    · simp at h
  rw [if_neg h4] at h
  by_cases h5 : key = 5
  · rw [if_pos h5] at h
    simp only [Outcome.ok.injEq] at h; subst h; exact ⟨h5, Nat.le_refl _⟩
  rw [if_neg h5] at h
  by_cases h6 : key = 6
  · rw [if_pos h6] at h
    split at h
    · simp only [Outcome.ok.injEq] at h; subst h; rename_i hm; exact ⟨⟨h6, hm, hd⟩, Nat.le_refl _⟩
    · simp at h
  rw [if_neg h6] at h
  simp only [Outcome.ok.injEq] at h; subst h
  exact ⟨by show 7 ≤ key; omega, Nat.le_refl _⟩

theorem svcParams_post (d : Bytes) (last : Option Nat) (acc : List (Nat × SvcVal)) :
    ∀ r, Bytes.WF d → (svcParams d last acc).1 = .ok r → ∃ ps', r = acc ++ ps' ∧ SvcParamsOK last ps' := by
  fun_induction svcParams d last acc <;> intro r hd h
  all_goals try (simp at h; done)
  case case3 k0 k1 l0 l1 rest last acc key len hfit v hv hord rr ih =>
    have h0 := hd k0 (by simp); have h1 := hd k1 (by simp)
    have h2 := hd l0 (by simp); have h3 := hd l1 (by simp)
    have hrest : Bytes.WF rest := fun x hx => hd x (by simp [hx])
    obtain ⟨ps'', hr, hok⟩ := ih r (fun x hx => hrest x (List.mem_of_mem_drop hx)) h
    have hvp := svcValue_post key (rest.take len) v (fun x hx => hrest x (List.mem_of_mem_take hx)) hv
    refine ⟨(key, v) :: ps'', by rw [hr]; simp, ?_, ?_, hvp.1, ?_, hok⟩
    · intro lk hlk
      subst hlk
      simp only [decide_eq_true_eq] at hord
      omega
    · show k0 * 256 + k1 < 65536; omega
    · have := hvp.2
      have hl : len < 65536 := by show l0 * 256 + l1 < 65536; omega
      simp only [List.length_take] at this
      omega
  case case6 =>
    simp only [Outcome.ok.injEq] at h
    subst h
    exact ⟨[], by simp, trivial⟩


theorem PostV.parsePrefix {α} {p : Bytes → Outcome α × Nat} {P : α → Prop}
    (h : ∀ d a, Bytes.WF d → (p d).1 = .ok a → P a) : PostV (Rd.parsePrefix p) P := by
  intro buf st a st' hb hr
  simp only [Rd.parsePrefix, Prod.mk.injEq] at hr
  exact h (buf.drop st.pos) a (fun x hx => hb x (List.mem_of_mem_drop hx)) hr.1

macro "rdv_np" : tactic =>
  `(tactic| (refine PostV.weaken (Q := RDV _) ?_ (fun _ h => RDV_of_NP h); repeat np_step))

theorem post_rdataBody (opq : Nat → Rd Bytes) (t : Nat) (hmeta : ¬ (t = 255 ∨ t = 252 ∨ t = 251)) :
    PostV (readRDataBody opq t) (RDV t) := by
  unfold readRDataBody
  simp only [C01.bind_eq, C01.pure_eq]
  refine PostV.ite _ (fun h1 => ?_) (fun n1 => ?_)
  · -- A
    refine PostV.bind (PostV.triv _) fun a _ => ?_
    refine PostV.bind (PostV.triv _) fun b _ => ?_
    refine PostV.bind (PostV.triv _) fun c _ => ?_
    refine PostV.bind (PostV.triv _) fun d _ => ?_
    exact PostV.pure _ ⟨rfl, fun _ => ⟨⟨h1, rfl⟩, trivial, rfl⟩, fun _ h => by cases h⟩
  refine PostV.ite _ (fun h2 => ?_) (fun n2 => ?_)
  · -- AAAA
    refine PostV.bind PostV.readU16 fun a ha => ?_
    refine PostV.bind PostV.readU16 fun b hb => ?_
    refine PostV.bind PostV.readU16 fun c hc => ?_
    refine PostV.bind PostV.readU16 fun d hd => ?_
    refine PostV.bind PostV.readU16 fun e he => ?_
    refine PostV.bind PostV.readU16 fun f hf => ?_
    refine PostV.bind PostV.readU16 fun g hg => ?_
    refine PostV.bind PostV.readU16 fun h hh => ?_
    refine PostV.pure _ ⟨rfl, fun _ => ⟨⟨h2, rfl⟩, ⟨rfl, ?_⟩, rfl⟩, fun _ h => by cases h⟩
    intro x hx
    simp only [List.mem_cons, List.not_mem_nil, or_false] at hx
    omega
  refine PostV.ite _ (fun h3 => ?_) (fun n3 => ?_)
  · -- ANAME CNAME NS PTR
    refine PostV.bind PostV.name fun n hn => ?_
    refine PostV.pure _ ⟨rfl, fun _ => ⟨?_, hn.1, ?_⟩, fun _ h => by cases h⟩
    · show t = 2 ∨ t = 5 ∨ t = 12 ∨ t = 65305; omega
    · show RData.name { n with fqdn := true } = RData.name n; rw [fq_self hn.2]
  refine PostV.ite _ (fun h4 => ?_) (fun n4 => ?_)
  · -- MX
    refine PostV.bind PostV.readU16 fun p hp => ?_
    refine PostV.bind PostV.name fun n hn => ?_
    refine PostV.pure _ ⟨rfl, fun _ => ⟨⟨h4, hp⟩, hn.1, ?_⟩, fun _ h => by cases h⟩
    show RData.mx p { n with fqdn := true } = RData.mx p n; rw [fq_self hn.2]
  refine PostV.ite _ (fun h5 => ?_) (fun n5 => ?_)
  · -- SOA
    refine PostV.bind PostV.name fun m hm => ?_
    refine PostV.bind PostV.name fun r hr => ?_
    refine PostV.bind PostV.readU32 fun serial hs => ?_
    refine PostV.bind PostV.readI32 fun refresh hrf => ?_
    refine PostV.bind PostV.readI32 fun retry hrt => ?_
    refine PostV.bind PostV.readI32 fun expire hex => ?_
    refine PostV.bind PostV.readU32 fun minimum hmin => ?_
    refine PostV.pure _ ⟨rfl, fun _ => ⟨⟨h5, hs, hmin, hrf, hrt, hex⟩, ⟨hm.1, hr.1⟩, ?_⟩, fun _ h => by cases h⟩
    show RData.soa { m with fqdn := true } { r with fqdn := true } _ _ _ _ _ = _
    rw [fq_self hm.2, fq_self hr.2]
  refine PostV.ite _ (fun h6 => ?_) (fun n6 => ?_)
  · -- TXT
    refine PostV.bind (PostV.toEnd (P := fun ss => ∀ s ∈ ss, s.length ≤ 255)
      (fun d ss hd h => parseTxt_lens d ss hd h)) fun ss hss => ?_
    exact PostV.pure _ ⟨rfl, fun _ => ⟨⟨h6, hss⟩, trivial, rfl⟩, fun _ h => by cases h⟩
  refine PostV.ite _ (fun h7 => ?_) (fun n7 => ?_)
  · -- SRV
    refine PostV.bind PostV.readU16 fun p hp => ?_
    refine PostV.bind PostV.readU16 fun w hw => ?_
    refine PostV.bind PostV.readU16 fun port hport => ?_
    refine PostV.bind PostV.name fun n hn => ?_
    refine PostV.pure _ ⟨rfl, fun _ => ⟨⟨h7, hp, hw, hport⟩, hn.1, ?_⟩, fun _ h => by cases h⟩
    show RData.srv p w port { n with fqdn := true } = _; rw [fq_self hn.2]
  refine PostV.ite _ (fun h8 => ?_) (fun n8 => ?_)
  · -- HINFO
    refine PostV.bind PostV.readCharacterData fun c hc => ?_
    refine PostV.bind PostV.readCharacterData fun o ho => ?_
    exact PostV.pure _ ⟨rfl, fun _ => ⟨⟨h8, hc.2, ho.2⟩, trivial, rfl⟩, fun _ h => by cases h⟩
  refine PostV.ite _ (fun h9 => ?_) (fun n9 => ?_)
  · -- NULL
    refine PostV.bind (PostV.triv _) fun d _ => ?_
    exact PostV.pure _ ⟨rfl, fun _ => ⟨h9, trivial, rfl⟩, fun _ h => by cases h⟩
  refine PostV.ite _ (fun h10 => ?_) (fun n10 => ?_)
  · -- OPT
    refine PostV.bind (PostV.triv _) fun total _ => ?_
    refine PostV.bind (PostV.toEnd (P := fun os => ∀ o ∈ os, OptOK o)
      (fun d os hd h => parseOpt_optOK total d [] os hd (by intro o ho; cases ho) h)) fun os hos => ?_
    refine PostV.pure _ ⟨rfl, fun hp => by simp [RData.proved] at hp, fun os' h => ?_⟩
    cases h; exact ⟨h10, hos⟩
  refine PostV.ite _ (fun _ => ?_) (fun n11 => ?_)
  · rdv_np
  refine PostV.ite _ (fun _ => ?_) (fun n12 => ?_)
  · rename_i h12; rw [h12]; exact post_tsig
  refine PostV.ite _ (fun h13 => ?_) (fun n13 => ?_)
  · -- CERT: `rdata_length <= 5` is refused, so the certificate data is never empty
    intro buf st a st' hb hr
    obtain ⟨left, s0, h0, g0⟩ := bind_ok hr
    simp only [Rd.remaining, Prod.mk.injEq, Outcome.ok.injEq] at h0
    obtain ⟨hleft, hs0⟩ := h0
    subst hs0
    by_cases hl : left ≤ 5
    · rw [if_pos hl] at g0; simp [Rd.fail] at g0
    rw [if_neg hl] at g0
    obtain ⟨ct, s1, p1, g1⟩ := bind_ok g0
    obtain ⟨tag, s2, p2, g2⟩ := bind_ok g1
    obtain ⟨alg, s3, p3, g3⟩ := bind_ok g2
    obtain ⟨dd, s4, p4, g4⟩ := bind_ok g3
    obtain ⟨hv, _⟩ := pure_inv g4
    have hct := PostV.readU16 buf st ct s1 hb p1
    have htag := PostV.readU16 buf s1 tag s2 hb p2
    have halg := PostV.pop buf s2 alg s3 hb p3
    obtain ⟨_, _, _, _, q1, _⟩ := readU16_inv p1
    obtain ⟨_, _, _, _, q2, _⟩ := readU16_inv p2
    obtain ⟨_, q3⟩ := pop_inv p3
    simp only [Rd.readVecToEnd, Prod.mk.injEq, Outcome.ok.injEq] at p4
    have hdd : dd ≠ [] := by
      rw [← p4.1]
      intro hc
      have := congrArg List.length hc
      simp only [List.length_drop, List.length_nil] at this
      omega
    rw [← hv]
    exact ⟨rfl, fun _ => ⟨⟨h13, hct, htag, hdd⟩, halg, rfl⟩, fun _ h => by cases h⟩
  refine PostV.ite _ (fun h14 => ?_) (fun n14 => ?_)
  · -- CSYNC
    refine PostV.bind PostV.readU32 fun serial hs => ?_
    refine PostV.bind PostV.readU16 fun flags hf => ?_
    refine PostV.ite _ (fun _ => PostV.fail) (fun hm => ?_)
    refine PostV.bind post_typeSet fun ts hts => ?_
    refine PostV.pure _ ⟨rfl, fun _ => ⟨⟨h14, hs, hf, by omega, hts⟩, ?_, rfl⟩, fun _ h => by cases h⟩
    obtain ⟨bs, ho, _⟩ := hts
    show ts.orig.isSome = true
    rw [ho]; rfl
  refine PostV.ite _ (fun h15 => ?_) (fun n15 => ?_)
  · -- TLSA / SMIMEA
    refine PostV.bind PostV.pop fun u hu => ?_
    refine PostV.bind PostV.pop fun sel hsel => ?_
    refine PostV.bind PostV.pop fun m hm => ?_
    refine PostV.bind (PostV.triv _) fun dd _ => ?_
    exact PostV.pure _ ⟨rfl, fun _ => ⟨h15, ⟨hu, hsel, hm⟩, rfl⟩, fun _ h => by cases h⟩
  refine PostV.ite _ (fun h16 => ?_) (fun n16 => ?_)
  · -- SSHFP
    refine PostV.bind PostV.pop fun a ha => ?_
    refine PostV.bind PostV.pop fun f hf => ?_
    refine PostV.bind (PostV.triv _) fun dd _ => ?_
    exact PostV.pure _ ⟨rfl, fun _ => ⟨h16, ⟨ha, hf⟩, rfl⟩, fun _ h => by cases h⟩
  refine PostV.ite _ (fun h17 => ?_) (fun n17 => ?_)
  · -- OPENPGPKEY
    refine PostV.bind (PostV.triv _) fun dd _ => ?_
    exact PostV.pure _ ⟨rfl, fun _ => ⟨h17, trivial, rfl⟩, fun _ h => by cases h⟩
  refine PostV.ite _ (fun h18 => ?_) (fun n18 => ?_)
  · -- CAA
    refine PostV.bind PostV.pop fun flags hfl => ?_
    refine PostV.bind PostV.pop fun tl htl => ?_
    refine PostV.ite _ (fun _ => PostV.fail) (fun hn => ?_)
    refine PostV.bind (post_readTag tl []) fun tag htag => ?_
    refine PostV.bind (PostV.triv _) fun v _ => ?_
    have hlen : tag.length = tl := by simpa using htag.1
    refine PostV.pure _ ⟨rfl, fun _ => ⟨⟨h18, by omega, by omega, htag.2 rfl⟩, ⟨?_, by omega⟩, rfl⟩,
      fun _ h => by cases h⟩
    show flags % 128 < 128
    omega
  refine PostV.ite _ (fun h19 => ?_) (fun n19 => ?_)
  · -- NAPTR
    refine PostV.bind PostV.readU16 fun order ho => ?_
    refine PostV.bind PostV.readU16 fun pref hp => ?_
    refine PostV.bind PostV.readCharacterData fun flags hf => ?_
    refine PostV.ite _ (fun _ => PostV.fail) (fun hal => ?_)
    refine PostV.bind PostV.readCharacterData fun services hs => ?_
    refine PostV.bind PostV.readCharacterData fun regexp hr => ?_
    refine PostV.bind PostV.name fun n hn => ?_
    refine PostV.pure _ ⟨rfl, fun _ => ⟨⟨h19, ho, hp, hf.2, hs.2, hr.2, by simpa using hal⟩, hn.1, ?_⟩,
      fun _ h => by cases h⟩
    show RData.naptr _ _ _ _ _ { n with fqdn := true } = _
    rw [fq_self hn.2]
  refine PostV.ite _ (fun h20 => ?_) (fun n20 => ?_)
  · -- SVCB / HTTPS
    refine PostV.bind PostV.readU16 fun prio hp => ?_
    refine PostV.bind PostV.name fun target ht => ?_
    refine PostV.bind (PostV.parsePrefix (P := fun ps => SvcParamsOK none ps) (fun d ps hd h => by
      obtain ⟨ps', hr, hok⟩ := svcParams_post d none [] ps hd h
      simp only [List.nil_append] at hr
      rw [hr]; exact hok)) fun ps hps => ?_
    refine PostV.pure _ ⟨rfl, fun _ => ⟨⟨h20, hp⟩, ⟨ht.1, hps⟩, ?_⟩, fun _ h => by cases h⟩
    show RData.svcb prio { target with fqdn := true } ps = _
    rw [fq_self ht.2]
  refine PostV.ite _ (fun _ => ?_) (fun n21 => ?_)
  · exact post_dnssec t
  refine PostV.ite _ (fun _ => ?_) (fun n22 => ?_)
  · rdv_np
  -- Unknown
  refine PostV.bind (PostV.triv _) fun d _ => ?_
  refine PostV.pure _ ⟨rfl, fun _ => ⟨⟨rfl, ?_, ?_⟩, trivial, rfl⟩, fun _ h => by cases h⟩
  · simp only [List.mem_cons, List.not_mem_nil, or_false, not_or]
    simp only [isDnssec, List.contains_cons, List.contains_nil, Bool.or_false, Bool.or_eq_true, beq_iff_eq, not_or] at n21
    repeat' apply And.intro
    all_goals omega
  · simpa using n21

theorem post_rdata (opq : Nat → Rd Bytes) (t : Nat) : PostV (readRData opq t) (RDV t) := by
  unfold readRData
  simp only [C01.bind_eq, C01.pure_eq]
  refine PostV.bind (PostV.triv _) fun start _ => ?_
  refine PostV.ite _ (fun _ => PostV.fail) (fun hm => ?_)
  refine PostV.bind (PostV.attempt (post_rdataBody opq t hm)) fun result hres => ?_
  refine PostV.bind (PostV.triv _) fun idx _ => ?_
  refine PostV.ite _ (fun _ => PostV.panic _) (fun _ => ?_)
  refine PostV.bind (PostV.triv _) fun empty _ => ?_
  refine PostV.ite _ (fun _ => PostV.fail) (fun _ => ?_)
  cases result with
  | some v => exact PostV.pure _ (hres v rfl)
  | none => exact PostV.fail

/-- `RData::read` returns what the codec returned, and the codec consumed the whole sub-decoder -/
theorem readRData_body {opq : Nat → Rd Bytes} {t : Nat} {buf : Bytes} {st st' : DSt} {d : RData}
    (h : readRData opq t buf st = (.ok d, st')) :
    ∃ st1, readRDataBody opq t buf st = (.ok d, st1) ∧ buf.length ≤ st1.pos ∧
      ¬ (t = 255 ∨ t = 252 ∨ t = 251) := by
  unfold readRData at h
  simp only [C01.bind_eq, C01.pure_eq] at h
  obtain ⟨start, s0, h0, g1⟩ := bind_ok h
  have hs0 : s0 = st := by simp only [Rd.index, Prod.mk.injEq] at h0; exact h0.2.symm
  subst hs0
  by_cases hm : t = 255 ∨ t = 252 ∨ t = 251
  · rw [if_pos hm] at g1; simp [Rd.fail] at g1
  rw [if_neg hm] at g1
  obtain ⟨result, s1, h1, g2⟩ := bind_ok g1
  obtain ⟨idx, s2, hi2, g3⟩ := bind_ok g2
  have hs2 : s2 = s1 := by simp only [Rd.index, Prod.mk.injEq] at hi2; exact hi2.2.symm
  subst hs2
  split at g3
  · simp [Rd.panic] at g3
  obtain ⟨empty, s3, hi3, g4⟩ := bind_ok g3
  simp only [Rd.isEmpty, Prod.mk.injEq, Outcome.ok.injEq] at hi3
  split at g4
  · simp [Rd.fail] at g4
  rename_i hemp
  have hend : buf.length ≤ s2.pos := by
    rw [← hi3.1] at hemp
    simp only [Bool.not_eq_true, Bool.not_eq_false', decide_eq_true_eq] at hemp
    omega
  cases result with
  | none => simp [Rd.fail] at g4
  | some v =>
    simp only [Rd.pure, Prod.mk.injEq, Outcome.ok.injEq] at g4
    unfold Rd.attempt at h1
    revert h1
    generalize hbb : readRDataBody opq t buf s0 = r
    obtain ⟨o, s4⟩ := r
    cases o with
    | ok a =>
      intro h1
      simp only [Prod.mk.injEq, Outcome.ok.injEq, Option.some.injEq] at h1
      exact ⟨s4, by rw [← g4.1, ← h1.1], by rw [h1.2]; exact hend, hm⟩
    | err => intro h1; simp at h1
    | panic s => intro h1; simp at h1

theorem parseTxt_ne (d : Bytes) (hd : d ≠ []) (ss : List Bytes) (h : (parseTxt d).1 = .ok ss) : ss ≠ [] := by
  cases d with
  | nil => exact absurd rfl hd
  | cons b rest =>
    unfold parseTxt at h
    by_cases hfit : b ≤ rest.length
    · simp only [hfit, ↓reduceDIte] at h
      generalize parseTxt (rest.drop b) = r at h
      obtain ⟨o, k⟩ := r
      cases o with
      | ok ss' => simp only [Outcome.ok.injEq] at h; rw [← h]; simp
      | err => simp at h
      | panic s => simp at h
    · simp [hfit] at h

/-- RDATA decoded from a non-empty sub-decoder is not one of the values that encode to nothing -/
theorem rdata_nonEmpty {opq : Nat → Rd Bytes} {t : Nat} {buf : Bytes} {st st' : DSt} {d : RData}
    (hlt : st.pos < buf.length) (h : readRData opq t buf st = (.ok d, st')) (hp : d.proved = true)
    (hty : d.typeOK t) : d.nonEmpty := by
  obtain ⟨st1, hb, _, _⟩ := readRData_body h
  have hdrop : buf.drop st.pos ≠ [] := by
    intro hc
    have := congrArg List.length hc
    simp only [List.length_drop, List.length_nil] at this
    omega
  cases d <;> first | (simp [RData.proved] at hp; done) | skip
  all_goals try exact trivial
  case txt ss =>
    obtain ⟨rfl, _⟩ := hty
    unfold readRDataBody at hb
    simp only [Nat.reduceEqDiff, ↓reduceIte, or_self, C01.bind_eq, C01.pure_eq, Rd.bind, toEnd,
      Rd.readVecToEnd, Rd.tick, Rd.lift, Rd.pure] at hb
    cases hpt : (parseTxt (buf.drop st.pos)).1 with
    | ok ss' =>
      rw [hpt] at hb
      simp only [Prod.mk.injEq, Outcome.ok.injEq, RData.txt.injEq] at hb
      rw [← hb.1]
      exact parseTxt_ne _ hdrop _ hpt
    | err => rw [hpt] at hb; simp at hb
    | panic s => rw [hpt] at hb; simp at hb
  case null dd =>
    have ht : t = 10 := hty
    subst ht
    unfold readRDataBody at hb
    simp only [Nat.reduceEqDiff, ↓reduceIte, or_self, C01.bind_eq, C01.pure_eq, Rd.bind,
      Rd.readVecToEnd, Rd.pure, Prod.mk.injEq, Outcome.ok.injEq, RData.null.injEq] at hb
    show dd ≠ []
    rw [← hb.1]; exact hdrop
  case openpgpkey dd =>
    have ht : t = 61 := hty
    subst ht
    have hbody : readRDataBody opq 61 = (do
        let d ← Rd.readVecToEnd
        pure (.openpgpkey d)) := rfl
    rw [hbody] at hb
    simp only [C01.bind_eq, C01.pure_eq, Rd.bind,
      Rd.readVecToEnd, Rd.pure, Prod.mk.injEq, Outcome.ok.injEq, RData.openpgpkey.injEq] at hb
    show dd ≠ []
    rw [← hb.1]; exact hdrop
  case unknown c dd =>
    obtain ⟨rfl, hu1, hu2⟩ := hty
    simp only [List.mem_cons, List.not_mem_nil, or_false, not_or] at hu1
    obtain ⟨n1, n2, n3, n4, n5, n6, n7, n8, n9, n10, n11, n12, n13, n14, n15, n16, n17, n18, n19, n20, n21,
      n22, n23, n24, n25, _⟩ := hu1
    unfold readRDataBody at hb
    simp only [n1, n2, n3, n4, n5, n6, n7, n8, n9, n10, n11, n12, n13, n14, n15, n16, n17, n18, n19, n20,
      n21, n22, n23, n24, n25, hu2, unmodelled, ↓reduceIte, or_self, Bool.false_eq_true,
      List.contains_nil, C01.bind_eq, C01.pure_eq, Rd.bind,
      Rd.readVecToEnd, Rd.pure, Prod.mk.injEq, Outcome.ok.injEq, RData.unknown.injEq] at hb
    show dd ≠ []
    rw [← hb.1.2]; exact hdrop

/-! ### records -/

/-- what `Record::read` returns -/
structure RecV (r : Record) : Prop where
  name : r.name.WF
  fqdn : r.name.fqdn = true
  rtype : r.rtype < 65536
  cls : r.cls < 65536
  clsOpt : r.rtype = T_OPT → 512 ≤ r.cls
  ttl : r.ttl < 4294967296
  upd : r.rdata.isUpdate = true → r.rdata = .update0 r.rtype
  data : r.rdata.proved = true →
    r.rdata.typeOK r.rtype ∧ r.rdata.namesWF ∧ r.rdata.fq = r.rdata ∧ r.rdata.nonEmpty
  opts : ∀ os, r.rdata = .opt os → r.rtype = T_OPT ∧ ∀ o ∈ os, OptOK o

theorem post_class (n : Name) (t : Nat) :
    PostV (readClass n t) (fun c => c < 65536 ∧ (t = T_OPT → 512 ≤ c)) := by
  unfold readClass
  refine PostV.ite _ (fun ht => ?_) (fun ht => ?_)
  · refine PostV.ite _ (fun _ => PostV.fail) (fun _ => ?_)
    simp only [C01.bind_eq, C01.pure_eq]
    refine PostV.bind PostV.readU16 fun v hv => ?_
    exact PostV.pure _ ⟨by omega, fun _ => by omega⟩
  · exact PostV.readU16.weaken fun c hc => ⟨hc, fun h => absurd h ht⟩

theorem post_record (opq : Nat → Rd Bytes) : PostV (readRecord opq) RecV := by
  unfold readRecord
  simp only [C01.bind_eq, C01.pure_eq]
  refine PostV.bind PostV.name fun n hn => ?_
  refine PostV.bind PostV.readU16 fun t ht => ?_
  refine PostV.bind (post_class n t) fun cls hcls => ?_
  refine PostV.bind PostV.readU32 fun ttl httl => ?_
  refine PostV.bind (PostV.triv _) fun rdlen _ => ?_
  refine PostV.bind (PostV.triv _) fun left _ => ?_
  refine PostV.ite _ (fun _ => PostV.fail) (fun _ => ?_)
  refine PostV.ite _ (fun _ => ?_) (fun hne => ?_)
  · exact PostV.pure _ ⟨hn.1, hn.2, ht, hcls.1, hcls.2, httl, fun _ => rfl,
      fun hp => by simp [RData.proved] at hp, fun _ h => by cases h⟩
  · refine PostV.bind (PostV.splitOff_ne (P := fun d => RDV t d ∧ (d.proved = true → d.typeOK t → d.nonEmpty))
      rdlen hne ?_) fun rd hrd => ?_
    · intro buf st d st' hb hlt hr
      exact ⟨post_rdata opq t buf st d st' hb hr, fun hp hty => rdata_nonEmpty hlt hr hp hty⟩
    · obtain ⟨⟨hu, hpv, hopt⟩, hne'⟩ := hrd
      refine PostV.pure _ ⟨hn.1, hn.2, ht, hcls.1, hcls.2, httl, ?_, ?_, hopt⟩
      · intro h; simp only at h; rw [hu] at h; cases h
      · intro hp
        obtain ⟨h1, h2, h3⟩ := hpv hp
        exact ⟨h1, h2, h3, hne' hp h1⟩

/-- `Edns::from(&Record)` on a decoded OPT record gives an `Edns` the round trip covers -/
theorem ednsFrom_wf (r : Record) (e : Edns) (hr : RecV r) (ht : r.rtype = T_OPT) (h : ednsFrom r = .ok e) :
    EdnsWF e ∧ e.rcodeHigh = r.ttl / 16777216 := by
  have httl := hr.ttl
  have hc := hr.cls
  have hc2 := hr.clsOpt ht
  unfold ednsFrom at h
  rw [if_neg (by simp [ht])] at h
  cases hd : r.rdata <;> rw [hd] at h <;> simp only [Outcome.ok.injEq, reduceCtorEq] at h
  all_goals subst h
  all_goals refine ⟨⟨?_, ?_, ?_, ?_, hc, hc2⟩, rfl⟩
  case update0.refine_1 t => intro o ho; cases ho
  case null.refine_1 d => intro o ho; cases ho
  case opt.refine_1 os => exact (hr.opts os hd).2
  all_goals first
    | (show r.ttl / 16777216 < 256; omega)
    | (show r.ttl / 65536 % 256 < 256; omega)
    | (show r.ttl % 32768 < 32768; omega)

/-- is the value a TSIG? (`read_records` gives such a record to `signature`) -/
def _root_.HickoryVerif.Wire.RData.isTsig : RData → Bool
  | .tsig _ _ _ _ _ _ _ => true
  | _ => false

/-- what `read_records` keeps in a section's list -/
def Kept (isAdd : Bool) (op : Nat) (r : Record) : Prop :=
  RecV r ∧ (r.rdata.isUpdate = true → op = OP_UPDATE ∧ r.rtype ≠ T_OPT) ∧
  (isAdd = false → r.rtype ≠ T_OPT ∧ r.rtype ≠ T_SIG ∧ r.rtype ≠ T_TSIG) ∧
  (isAdd = true → r.rdata.isTsig = false)

/-- the accumulator of `read_records` -/
def AccV (isAdd : Bool) (op : Nat) (acc : RecAcc) : Prop :=
  (∀ r ∈ acc.1, Kept isAdd op r) ∧
  (∀ e, acc.2.1 = some e → EdnsWF e) ∧
  (∀ s, acc.2.2 = some s → RecV s ∧ s.rdata.isTsig = true)

theorem post_records (opq : Nat → Rd Bytes) (isAdd : Bool) (op : Nat) :
    ∀ (count : Nat) (acc : RecAcc), AccV isAdd op acc →
      PostV (readRecords opq isAdd op count acc) (AccV isAdd op)
  | 0, acc, h => by
    simp only [readRecords, C01.pure_eq]
    exact PostV.pure _ h
  | count + 1, (recs, edns, sig), h => by
    simp only [readRecords, C01.bind_eq]
    refine PostV.bind (PostV.triv _) fun _ _ => ?_
    refine PostV.bind (post_record opq) fun r hr => ?_
    refine PostV.ite _ (fun _ => PostV.fail) (fun n1 => ?_)
    refine PostV.ite _ (fun _ => PostV.fail) (fun _ => ?_)
    refine PostV.ite _ (fun _ => PostV.fail) (fun n3 => ?_)
    have hupd : r.rdata.isUpdate = true → r.rtype ≠ T_OPT → op = OP_UPDATE := by
      intro hu ht
      by_cases hop : op = OP_UPDATE
      · exact hop
      · exact absurd ⟨hop, ht, hu⟩ n1
    have push : (r.rdata.isUpdate = true → r.rtype ≠ T_OPT) → (isAdd = false → r.rtype ≠ T_OPT ∧ r.rtype ≠ T_SIG ∧ r.rtype ≠ T_TSIG) →
        (isAdd = true → r.rdata.isTsig = false) →
        PostV (readRecords opq isAdd op count (recs ++ [r], edns, sig)) (AccV isAdd op) := by
      intro hk1 hk2 hk3
      refine post_records opq isAdd op count _ ⟨?_, h.2⟩
      intro x hx
      simp only [List.mem_append, List.mem_singleton] at hx
      rcases hx with hx | rfl
      · exact h.1 x hx
      · exact ⟨hr, fun hu => ⟨hupd hu (hk1 hu), hk1 hu⟩, hk2, hk3⟩
    refine PostV.ite _ (fun hna => ?_) (fun ha => ?_)
    · have hf : isAdd = false := by simpa using hna
      have hnt : r.rtype ≠ T_OPT ∧ r.rtype ≠ T_SIG ∧ r.rtype ≠ T_TSIG := by
        refine ⟨fun hc => n3 ⟨hna, Or.inl hc⟩, fun hc => n3 ⟨hna, Or.inr (Or.inl hc)⟩,
          fun hc => n3 ⟨hna, Or.inr (Or.inr hc)⟩⟩
      exact push (fun _ => hnt.1) (fun _ => hnt) (fun hc => by rw [hf] at hc; cases hc)
    · have ht : isAdd = true := by simpa using ha
      have hk2 : isAdd = false → r.rtype ≠ T_OPT ∧ r.rtype ≠ T_SIG ∧ r.rtype ≠ T_TSIG := by
        intro hc; rw [ht] at hc; cases hc
      have hedns : ∀ e, r.rtype = T_OPT → ednsFrom r = .ok e →
          PostV (readRecords opq isAdd op count (recs, some e, sig)) (AccV isAdd op) := by
        intro e hto he
        refine post_records opq isAdd op count _ ⟨h.1, ?_, h.2.2⟩
        intro e' he'
        simp only [Option.some.injEq] at he'
        subst he'
        exact (ednsFrom_wf r e hr hto he).1
      cases hd : r.rdata
      case tsig a1 a2 a3 a4 a5 a6 a7 =>
        simp only
        refine post_records opq isAdd op count _ ⟨h.1, h.2.1, ?_⟩
        intro s hs
        simp only [Option.some.injEq] at hs
        subst hs
        exact ⟨hr, by rw [hd]; rfl⟩
      case opt os =>
        simp only
        refine PostV.ite _ (fun _ => PostV.fail) (fun _ => ?_)
        refine PostV.bind (P := fun e => ednsFrom r = .ok e) (PostV.lift fun a ha => ha) fun e he => ?_
        exact hedns e (hr.opts os hd).1 he
      case update0 t =>
        have htt : t = r.rtype := by
          have := hr.upd (by rw [hd]; rfl)
          rw [hd] at this
          cases this; rfl
        simp only
        refine PostV.ite _ (fun hto => ?_) (fun hto => ?_)
        · refine PostV.ite _ (fun _ => PostV.fail) (fun _ => ?_)
          refine PostV.bind (P := fun e => ednsFrom r = .ok e) (PostV.lift fun a ha => ha) fun e he => ?_
          exact hedns e (by rw [← htt]; exact hto) he
        · exact push (fun _ => by rw [← htt]; exact hto) hk2 (fun _ => by rw [hd]; rfl)
      all_goals
        simp only
        exact push (fun hu => by rw [hd] at hu; cases hu) hk2 (fun _ => by rw [hd]; rfl)

/-! ### the message -/

theorem post_queries : ∀ (count : Nat) (acc : List Query), (∀ q ∈ acc, QV q) →
    PostV (readQueries count acc) (fun qs => ∀ q ∈ qs, QV q)
  | 0, acc, h => by
    simp only [readQueries, C01.pure_eq]
    exact PostV.pure _ h
  | count + 1, acc, h => by
    simp only [readQueries, C01.bind_eq]
    refine PostV.bind (PostV.triv _) fun _ _ => ?_
    refine PostV.bind post_query fun q hq => ?_
    refine post_queries count _ ?_
    intro x hx
    simp only [List.mem_append, List.mem_singleton] at hx
    rcases hx with hx | rfl
    · exact h x hx
    · exact hq

/-- what `Message::read` returns -/
def MsgV (m : Message) : Prop :=
  ∃ md0 : Metadata, md0.id < 65536 ∧ md0.op < 16 ∧ md0.rcode < 16 ∧ m.md = mergeRcode md0 m.edns ∧
    (∀ q ∈ m.queries, QV q) ∧ (∀ r ∈ m.answers, Kept false md0.op r) ∧
    (∀ r ∈ m.authorities, Kept false md0.op r) ∧ (∀ r ∈ m.additionals, Kept true md0.op r) ∧
    (∀ e, m.edns = some e → EdnsWF e) ∧
    (∀ s, m.signature = some s → RecV s ∧ s.rdata.isTsig = true)

theorem accV_nil (isAdd : Bool) (op : Nat) : AccV isAdd op ([], none, none) :=
  ⟨fun r hr => (by cases hr), fun e he => (by cases he), fun s hs => (by cases hs)⟩

theorem post_message (opq : Nat → Rd Bytes) : PostV (readMessage opq) MsgV := by
  unfold readMessage
  simp only [C01.bind_eq, C01.pure_eq]
  refine PostV.bind post_header fun x hx => ?_
  obtain ⟨md, counts⟩ := x
  simp only at hx ⊢
  refine PostV.bind (post_queries counts.qd [] (fun q hq => by cases hq)) fun qs hqs => ?_
  refine PostV.bind (post_records opq false md.op counts.an _ (accV_nil _ _)) fun x1 h1 => ?_
  obtain ⟨an, e1, s1⟩ := x1
  simp only
  refine PostV.bind (post_records opq false md.op counts.ns _ (accV_nil _ _)) fun x2 h2 => ?_
  obtain ⟨ns, e2, s2⟩ := x2
  simp only
  refine PostV.bind (post_records opq true md.op counts.ar _ (accV_nil _ _)) fun x3 h3 => ?_
  obtain ⟨ar, e3, s3⟩ := x3
  simp only
  exact PostV.pure _ ⟨md, hx.1, hx.2.1, hx.2.2, rfl, hqs, h1.1, h2.1, h3.1, h3.2.1, h3.2.2⟩

/-- **What the decoder can produce**: a message decoded from any string of octets. -/
theorem readMessage_msgV (opq : Nat → Rd Bytes) (b : Bytes) (m : Message) (p : Nat) (hb : Bytes.WF b)
    (h : Rd.run (readMessage opq) b 0 = .ok (m, p)) : MsgV m := by
  unfold Rd.run at h
  cases hr : readMessage opq b { pos := 0 } with
  | mk o st =>
    rw [hr] at h
    cases o with
    | ok a =>
      simp only [Outcome.ok.injEq, Prod.mk.injEq] at h
      rw [← h.1]
      exact post_message opq b _ a st hb hr
    | err => simp at h
    | panic s => simp at h

/-! ### from "decoded" to "well-formed" -/

/-- a covered variant is never of type OPT -/
theorem typeOK_not_special {d : RData} {t : Nat} (hp : d.proved = true) (h : d.typeOK t) : t ≠ T_OPT := by
  cases d <;> first | (simp [RData.proved] at hp; done) | skip
  all_goals simp only [RData.typeOK, UnknownType, List.mem_cons, List.not_mem_nil, or_false, not_or] at h
  all_goals simp only [T_OPT]
  all_goals omega

/-- a covered variant of type TSIG is the TSIG variant -/
theorem typeOK_tsig {d : RData} (hp : d.proved = true) (h : d.typeOK T_TSIG) : d.isTsig = true := by
  cases d <;> first | (simp [RData.proved] at hp; done) | skip
  all_goals simp only [RData.typeOK, UnknownType, T_TSIG, List.mem_cons, List.not_mem_nil, or_false, not_or] at h
  all_goals first | rfl | (exfalso; omega) | (exfalso; simp at h; done) | (exfalso; simp [isDnssec] at h; done) | (exfalso; obtain ⟨_, h2, _⟩ := h; omega)

/-- the records of the message's sections are all of covered RDATA variants or have empty RDATA
(`Update0`) — since stage 4 that is every record type hickory decodes, SIG(0) and TSIG-typed records
among the additionals included -/
structure Covered (m : Message) : Prop where
  an : ∀ r ∈ m.answers, r.rdata.proved = true ∨ r.rdata.isUpdate = true
  ns : ∀ r ∈ m.authorities, r.rdata.proved = true ∨ r.rdata.isUpdate = true
  ar : ∀ r ∈ m.additionals, r.rdata.proved = true ∨ r.rdata.isUpdate = true

theorem sectionOK_of_kept {isAdd : Bool} {op : Nat} {r : Record} (hk : Kept isAdd op r)
    (hc : r.rdata.proved = true ∨ r.rdata.isUpdate = true) :
    SectionOK op r isAdd ∧ r.fq = r := by
  obtain ⟨hv, hu, hna, hnt⟩ := hk
  have hname : ({ r.name with fqdn := true } : Name) = r.name := fq_self hv.fqdn
  have h2 : isAdd = false → r.rtype ≠ T_SIG ∧ r.rtype ≠ T_TSIG := fun hf => (hna hf).2
  rcases hc with hp | hup
  · obtain ⟨h1, h2', h3, h4⟩ := hv.data hp
    have hsp := typeOK_not_special hp h1
    have hnu : r.rdata.isUpdate = false := by
      cases hd : r.rdata <;> rw [hd] at hp <;> simp [RData.proved] at hp <;> rfl
    refine ⟨⟨⟨hv.name, ⟨hv.rtype, hsp⟩, hv.cls, hv.ttl, Or.inr ⟨hp, h1, h2', h4⟩⟩, h2, ?_, ?_⟩, ?_⟩
    · intro ha ht
      exfalso
      rw [ht] at h1
      have := typeOK_tsig hp h1
      rw [hnt ha] at this
      cases this
    · intro hc; rw [hnu] at hc; cases hc
    · simp only [Record.fq, hname, h3]
  · have hd := hv.upd hup
    obtain ⟨hop, hnopt⟩ := hu hup
    refine ⟨⟨⟨hv.name, ⟨hv.rtype, hnopt⟩, hv.cls, hv.ttl, Or.inl hd⟩, h2, fun _ _ => hup, fun _ => hop⟩, ?_⟩
    simp only [Record.fq, hname]
    rw [hd]
    cases r with
    | mk n t c ttl rd => simp only at hd; subst hd; rfl

theorem map_id_of {α} (f : α → α) (l : List α) (h : ∀ x ∈ l, f x = x) : l.map f = l := by
  induction l with
  | nil => rfl
  | cons a t ih =>
    simp only [List.map_cons]
    rw [h a (by simp), ih (fun x hx => h x (by simp [hx]))]

/-- the three sections of a decoded, covered message -/
theorem sections_of_msgV {m : Message} {md0 : Metadata} (hopm : m.md.op = md0.op) (hc : Covered m)
    (han : ∀ r ∈ m.answers, Kept false md0.op r) (hns : ∀ r ∈ m.authorities, Kept false md0.op r)
    (har : ∀ r ∈ m.additionals, Kept true md0.op r) :
    (∀ r ∈ m.answers, SectionOK m.md.op r ∧ r.fq = r) ∧ (∀ r ∈ m.authorities, SectionOK m.md.op r ∧ r.fq = r) ∧
      (∀ r ∈ m.additionals, SectionOK m.md.op r true ∧ r.fq = r) := by
  refine ⟨?_, ?_, ?_⟩
  · intro r hr; rw [hopm]; exact sectionOK_of_kept (han r hr) (hc.an r hr)
  · intro r hr; rw [hopm]; exact sectionOK_of_kept (hns r hr) (hc.ns r hr)
  · intro r hr; rw [hopm]; exact sectionOK_of_kept (har r hr) (hc.ar r hr)

theorem fq_of_sections {m : Message} (hq : ∀ q ∈ m.queries, QV q)
    (san : ∀ r ∈ m.answers, r.fq = r) (sns : ∀ r ∈ m.authorities, r.fq = r)
    (sar : ∀ r ∈ m.additionals, r.fq = r) : m.fq = m := by
  unfold Message.fq
  rw [map_id_of _ _ san, map_id_of _ _ sns, map_id_of _ _ sar,
    map_id_of _ m.queries (fun q hq' => by
      have := (hq q hq').2.1
      show ({ q with name := { q.name with fqdn := true } } : Query) = q
      rw [fq_self this])]

/-- **`readMessage_wf`** — a message decoded from any string of octets whose records are covered and
that carries neither EDNS nor TSIG satisfies `MsgWF`, and every name in it is fully qualified. -/
theorem readMessage_wf (opq : Nat → Rd Bytes) (b : Bytes) (m : Message) (p : Nat) (hb : Bytes.WF b)
    (h : Rd.run (readMessage opq) b 0 = .ok (m, p)) (hc : Covered m) (hed : m.edns = none)
    (hsig : m.signature = none) : MsgWF m ∧ AllFq m := by
  obtain ⟨md0, hid, hop, hrc, hmd, hq, han, hns, har, _, _⟩ := readMessage_msgV opq b m p hb h
  rw [hed] at hmd
  simp only [mergeRcode] at hmd
  obtain ⟨san, sns, sar⟩ := sections_of_msgV (by rw [hmd]) hc han hns har
  refine ⟨⟨by rw [hmd]; exact hid, by rw [hmd]; exact hop, by rw [hmd]; exact hrc,
    fun q hq' => ⟨(hq q hq').1, (hq q hq').2.2⟩, fun r hr => (san r hr).1, fun r hr => (sns r hr).1,
    fun r hr => (sar r hr).1, hed, hsig⟩, ?_⟩
  exact fq_of_sections hq (fun r hr => (san r hr).2) (fun r hr => (sns r hr).2) (fun r hr => (sar r hr).2)

/-- the re-encoding of `m` under the 64 KiB limit of `to_vec` is `bs` and dropped nothing (known finding
C02-F2 is a decodable message outside this predicate) -/
def EncFits (m : Message) (bs : Bytes) : Prop :=
  ∃ md' c e', emitMessage m ((Enc.new []).setMaxSize 65535) = .ok (md', c) e' ∧ e'.buf = bs ∧
    c.an = m.answers.length ∧ c.ns = m.authorities.length ∧
    c.ar = m.additionals.length + (if m.edns.isSome then 1 else 0) + (if m.signature.isSome then 1 else 0)

/-
FULL STATEMENT (kept visible):
  reencode_stable : readMessage b = .ok m → EncFits m bs → readMessage bs = .ok m        for every b
Proved without any well-formedness hypothesis on the decoded message for byte strings whose records
are of the covered RDATA variants (`Covered`: every record type hickory decodes); with and without EDNS,
with and without a TSIG record (Proofs/C02Tsig.lean: `reencode_stable_decoded_tsig_partial`).
-/

/-- **Any string of octets that decodes (no EDNS, no TSIG) re-encodes to bytes that decode to the same
message**, provided the re-encoding fits. -/
theorem reencode_stable_decoded_partial (opq : Nat → Rd Bytes) (b bs : Bytes) (m : Message) (p : Nat)
    (hb : Bytes.WF b) (hdec : Rd.run (readMessage opq) b 0 = .ok (m, p)) (hc : Covered m)
    (hed : m.edns = none) (hsig : m.signature = none) (hfits : EncFits m bs) :
    Rd.run (readMessage opq) bs 0 = .ok (m, bs.length) := by
  obtain ⟨hwf, hfq⟩ := readMessage_wf opq b m p hb hdec hc hed hsig
  obtain ⟨md', c, e', he, rfl, h1, h2, h3⟩ := hfits
  rw [hed, hsig] at h3
  exact reencode_stable_partial opq b m p hdec hfq hwf md' c e' he ⟨h1, h2, by simpa using h3⟩

/-- the same with EDNS: the decoded `Edns` (options of all four kinds come out in the normal form
`OptOK`) and the merged 12-bit response code satisfy `MsgWFE` -/
theorem readMessage_wfe (opq : Nat → Rd Bytes) (b : Bytes) (m : Message) (ed : Edns) (p : Nat)
    (hb : Bytes.WF b) (h : Rd.run (readMessage opq) b 0 = .ok (m, p)) (hc : Covered m)
    (hed : m.edns = some ed) (hsig : m.signature = none) : MsgWFE m ∧ AllFq m := by
  obtain ⟨md0, hid, hop, hrc, hmd, hq, han, hns, har, hedns, _⟩ := readMessage_msgV opq b m p hb h
  have hew := hedns ed hed
  rw [hed] at hmd
  simp only [mergeRcode] at hmd
  obtain ⟨san, sns, sar⟩ := sections_of_msgV (by rw [hmd]) hc han hns har
  have hhigh := hew.high
  refine ⟨⟨by rw [hmd]; exact hid, by rw [hmd]; exact hop, ?_,
    fun q hq' => ⟨(hq q hq').1, (hq q hq').2.2⟩, fun r hr => (san r hr).1, fun r hr => (sns r hr).1,
    fun r hr => (sar r hr).1, ?_, hsig⟩, ?_⟩
  · rw [hmd]; show ed.rcodeHigh * 16 + md0.rcode % 16 < 4096; omega
  · intro ed' hed'
    rw [hed] at hed'
    cases hed'
    refine ⟨hew, ?_⟩
    rw [hmd]
    show ed.rcodeHigh = (ed.rcodeHigh * 16 + md0.rcode % 16) / 16 % 256
    omega
  · exact fq_of_sections hq (fun r hr => (san r hr).2) (fun r hr => (sns r hr).2) (fun r hr => (sar r hr).2)

/-- **… and with EDNS** (options of all four kinds, extended response codes). -/
theorem reencode_stable_decoded_edns_partial (opq : Nat → Rd Bytes) (b bs : Bytes) (m : Message) (ed : Edns)
    (p : Nat) (hb : Bytes.WF b) (hdec : Rd.run (readMessage opq) b 0 = .ok (m, p)) (hc : Covered m)
    (hed : m.edns = some ed) (hsig : m.signature = none) (hfits : EncFits m bs) :
    Rd.run (readMessage opq) bs 0 = .ok (m, bs.length) := by
  obtain ⟨hwf, hfq⟩ := readMessage_wfe opq b m ed p hb hdec hc hed hsig
  obtain ⟨md', c, e', he, rfl, h1, h2, h3⟩ := hfits
  rw [hed, hsig] at h3
  exact reencode_stable_edns_partial opq b m ed p hdec hfq hwf hed md' c e' he ⟨h1, h2, by simpa using h3⟩

end HickoryVerif.C02
