/-
C13 — ties between the literals of `Model/Tsig*.lean` and the constants / code tables that
`tools/extract_consts.py` re-derives from /repo on every run.
-/
import HickoryVerif.Model.Tsig
import HickoryVerif.Generated.Consts
import HickoryVerif.Generated.Tables

namespace HickoryVerif.C13
open HickoryVerif

theorem tie_badsig : Generated.TSIG_ERR_BADSIG = Tsig.BADSIG := rfl
theorem tie_badkey : Generated.TSIG_ERR_BADKEY = Tsig.BADKEY := rfl
theorem tie_badtime : Generated.TSIG_ERR_BADTIME = Tsig.BADTIME := rfl
theorem tie_refused : Generated.RCODE_REFUSED = Tsig.REFUSED := rfl
theorem tie_notauth : Generated.RCODE_NOTAUTH = Tsig.NOTAUTH := rfl
/-- the `5` in `h.opcode == 5` / `req.hdr.opcode = 5` -/
theorem tie_opcode_update : Generated.OPCODE_UPDATE = 5 := rfl
/-- the `300` printed for the unsigned BADKEY reply (`Drv/C13.lean: showResp`) -/
theorem tie_unknown_key_fudge : Generated.TSIG_UNKNOWN_KEY_FUDGE = 300 := rfl

/-- record type codes used by `readFrame` / `recStep` / `dispatch`: OPT 41, SIG 24, TSIG 250,
SOA 6, AXFR 252; class ANY 255 (`tsigVars`) -/
theorem tie_type_codes :
    Generated.recordTypeToCode.lookup "OPT" = some 41 ∧
    Generated.recordTypeToCode.lookup "SIG" = some 24 ∧
    Generated.recordTypeToCode.lookup "TSIG" = some 250 ∧
    Generated.recordTypeToCode.lookup "SOA" = some 6 ∧
    Generated.recordTypeToCode.lookup "AXFR" = some 252 ∧
    Generated.dnsClassToCode.lookup "ANY" = some 255 := by decide

end HickoryVerif.C13
