/-
C02 — encode/decode round trip.  STAGE 2: whole messages, layer by layer.

* `Reads r buf p a q` : a small calculus for running the C01 decoder model (`Rd`) on a buffer;
* `reads_header` : `Header::read` inverts `Header::emit`;
* layouts (`Lay`, `IsLayout`) : what an emitter leaves in the buffer, in a form that survives later
  appends, back-patches outside it and truncation behind it; `Emits f L` : from every appending
  encoder state satisfying the candidate-table invariant, a successful `f` leaves layout `L`
  between the old and the new offset and re-establishes the invariant; closed under `?`-sequencing,
  the RDATA mode guards and the RDLENGTH pattern (`emits_*`);
* per layer: `emits_emitQuery` / `reads_query`, `emits_emitRecord` / `reads_record` for the RDATA
  types listed there.
-/
import HickoryVerif.Proofs.C02
import HickoryVerif.Proofs.C01
import HickoryVerif.Model.MessageEmit
namespace HickoryVerif.C02
open HickoryVerif HickoryVerif.Name HickoryVerif.Wire

/-! ## stage 2: reading back what the message emitters wrote -/

/-- reader `r`, run on `buf` from index `p`, returns `a` and stands at `q` (whatever the tick
counter) -/
def Reads {α} (r : Rd α) (buf : Bytes) (p : Nat) (a : α) (q : Nat) : Prop :=
  ∀ t, ∃ t', r buf { pos := p, ticks := t } = (.ok a, { pos := q, ticks := t' })

theorem Reads.pure {α} (a : α) (buf : Bytes) (p : Nat) : Reads (Pure.pure a : Rd α) buf p a p :=
  fun t => ⟨t, rfl⟩

theorem Reads.bind {α β} {x : Rd α} {f : α → Rd β} {buf : Bytes} {p q s : Nat} {a : α} {b : β}
    (hx : Reads x buf p a q) (hf : Reads (f a) buf q b s) : Reads (x >>= f) buf p b s := by
  intro t
  obtain ⟨t1, h1⟩ := hx t
  obtain ⟨t2, h2⟩ := hf t1
  exact ⟨t2, by show Rd.bind x f buf _ = _; simp only [Rd.bind, h1, h2]⟩

theorem Reads.run {α} {r : Rd α} {buf : Bytes} {p q : Nat} {a : α} (h : Reads r buf p a q) :
    Rd.run r buf p = .ok (a, q) := by
  obtain ⟨t', h'⟩ := h 0
  simp only [Rd.run]
  have : ({ pos := p } : DSt) = { pos := p, ticks := 0 } := rfl
  rw [this, h']

theorem Reads.pop {buf : Bytes} {p b : Nat} (h : buf[p]? = some b) : Reads Rd.pop buf p b (p + 1) := by
  intro t; exact ⟨t, by simp [Rd.pop, h]⟩

/-- `bs` stands in `buf` at index `p` -/
def SegAt (buf : Bytes) (p : Nat) (bs : Bytes) : Prop :=
  p + bs.length ≤ buf.length ∧ (buf.drop p).take bs.length = bs

theorem SegAt.getElem? {buf bs : Bytes} {p i : Nat} (h : SegAt buf p bs) (hi : i < bs.length) :
    buf[p + i]? = bs[i]? := by
  have := congrArg (fun l => l[i]?) h.2
  simp only [List.getElem?_take, List.getElem?_drop, hi, ↓reduceIte] at this
  exact this

theorem SegAt.append_left {buf a b : Bytes} {p : Nat} (h : SegAt buf p (a ++ b)) : SegAt buf p a := by
  refine ⟨by have := h.1; simp at this; omega, ?_⟩
  have := congrArg (List.take a.length) h.2
  simp only [List.take_take, List.length_append, List.take_left'] at this
  rw [Nat.min_eq_left (by omega)] at this
  simpa using this

theorem SegAt.append_right {buf a b : Bytes} {p : Nat} (h : SegAt buf p (a ++ b)) :
    SegAt buf (p + a.length) b := by
  refine ⟨by have := h.1; simp at this; omega, ?_⟩
  have := congrArg (List.drop a.length) h.2
  simp only [List.length_append, List.drop_left'] at this
  rw [List.drop_take, List.drop_drop] at this
  simpa [Nat.add_comm] using this

theorem Reads.readSlice {buf bs : Bytes} {p : Nat} (h : SegAt buf p bs) :
    Reads (Rd.readSlice bs.length) buf p bs (p + bs.length) := by
  intro t
  refine ⟨t, ?_⟩
  simp only [Rd.readSlice]
  rw [if_neg (by have := h.1; omega), h.2]

theorem Reads.readU16 {buf : Bytes} {p a b : Nat} (h : SegAt buf p [a, b]) :
    Reads Rd.readU16 buf p (a * 256 + b) (p + 2) := by
  have := Reads.readSlice h
  intro t
  obtain ⟨t', ht⟩ := this t
  simp only [List.length_cons, List.length_nil, Nat.zero_add, Nat.reduceAdd] at ht
  exact ⟨t', by simp only [Rd.readU16, Rd.bind, ht]; rfl⟩

theorem Reads.readU32 {buf : Bytes} {p a b c d : Nat} (h : SegAt buf p [a, b, c, d]) :
    Reads Rd.readU32 buf p (((a * 256 + b) * 256 + c) * 256 + d) (p + 4) := by
  have := Reads.readSlice h
  intro t
  obtain ⟨t', ht⟩ := this t
  simp only [List.length_cons, List.length_nil, Nat.zero_add, Nat.reduceAdd] at ht
  exact ⟨t', by simp only [Rd.readU32, Rd.bind, ht]; rfl⟩

/-- `Name::read` as a reader, from the layout relation -/
theorem Reads.name {H : Nat × Nat → Prop} {buf : Bytes} {p q : Nat} {ls : List Bytes}
    (h : LaidH H buf p ls q) (hlen : (flat ls).length + 1 ≤ 255) :
    Reads Rd.name buf p { labels := ls, fqdn := true } q := by
  have hr := readName_of_LaidH h hlen
  have hs := C01.readNameSteps_fst buf p
  intro t
  simp only [Rd.name]
  generalize hx : Name.readNameSteps buf p = x at hs
  obtain ⟨o, k⟩ := x
  simp only at hs
  rw [hr] at hs
  subst hs
  exact ⟨t + k, rfl⟩

theorem Reads.pure' {α} {a a' : α} (buf : Bytes) (p : Nat) (h : a = a') :
    Reads (Pure.pure a : Rd α) buf p a' p := h ▸ Reads.pure a buf p

theorem u16_split (x : Nat) (h : x < 65536) : x / 256 % 256 * 256 + x % 256 = x := by omega

theorem segAt_of_getElem {buf bs : Bytes} {p i b : Nat} (h : SegAt buf p bs) (hb : bs[i]? = some b) :
    buf[p + i]? = some b := by
  have hi : i < bs.length := (List.getElem?_eq_some_iff.1 hb).1
  rw [h.getElem? hi]; exact hb

/-- a sub-segment of a segment -/
theorem SegAt.sub {buf bs : Bytes} {p : Nat} (h : SegAt buf p bs) (i n : Nat) (hin : i + n ≤ bs.length) :
    SegAt buf (p + i) ((bs.drop i).take n) := by
  have hl : ((bs.drop i).take n).length = n := by simp; omega
  refine ⟨by rw [hl]; have := h.1; omega, ?_⟩
  rw [hl, ← h.2]
  simp only [List.drop_take, List.take_take, List.drop_drop]
  rw [Nat.min_eq_left (by omega)]

/-- the header fields are in range (what the Rust types guarantee: `u16` id and counts, 4-bit opcode) -/
def HeaderWF (md : Metadata) (c : Counts) : Prop :=
  md.id < 65536 ∧ md.op < 16 ∧ c.qd < 65536 ∧ c.an < 65536 ∧ c.ns < 65536 ∧ c.ar < 65536

theorem flag2_decode (md : Metadata) (hop : md.op < 16) :
    decide (flagOctet2 md % 256 / 128 = 1) = md.qr ∧ (flagOctet2 md % 256 / 8) % 16 = md.op ∧
    decide ((flagOctet2 md % 256 / 4) % 2 = 1) = md.aa ∧ decide ((flagOctet2 md % 256 / 2) % 2 = 1) = md.tc ∧
    decide (flagOctet2 md % 256 % 2 = 1) = md.rd := by
  unfold flagOctet2
  have : md.op % 16 = md.op := Nat.mod_eq_of_lt hop
  rw [this]
  cases md.qr <;> cases md.aa <;> cases md.tc <;> cases md.rd <;> simp <;> omega

theorem flag3_decode (md : Metadata) :
    decide (flagOctet3 md % 256 / 128 = 1) = md.ra ∧ decide ((flagOctet3 md % 256 / 32) % 2 = 1) = md.ad ∧
    decide ((flagOctet3 md % 256 / 16) % 2 = 1) = md.cd ∧ flagOctet3 md % 256 % 16 = md.rcode % 16 := by
  unfold flagOctet3
  cases md.ra <;> cases md.ad <;> cases md.cd <;> simp <;> omega


/-- **`Header::read` inverts `Header::emit`**: reading the twelve octets `headerBytes md c` gives back
every flag, the id, the opcode, the four counts, and the low four bits of the response code. -/
theorem reads_header {buf : Bytes} {p : Nat} (md : Metadata) (c : Counts) (hwf : HeaderWF md c)
    (h : SegAt buf p (headerBytes md c)) :
    Reads readHeader buf p ({ md with rcode := md.rcode % 16 }, c) (p + 12) := by
  obtain ⟨h1, h2, h3, h4, h5, h6⟩ := hwf
  obtain ⟨a1, a2, a3, a4, a5⟩ := flag2_decode md h2
  obtain ⟨b1, b2, b3, b4⟩ := flag3_decode md
  have s0 := h.sub 0 2 (by simp [headerBytes])
  have s4 := h.sub 4 2 (by simp [headerBytes])
  have s6 := h.sub 6 2 (by simp [headerBytes])
  have s8 := h.sub 8 2 (by simp [headerBytes])
  have s10 := h.sub 10 2 (by simp [headerBytes])
  have g2 := segAt_of_getElem (i := 2) h (by simp [headerBytes]; rfl)
  have g3 := segAt_of_getElem (i := 3) h (by simp [headerBytes]; rfl)
  simp only [headerBytes, List.drop, List.take] at s0 s4 s6 s8 s10
  unfold readHeader
  refine Reads.bind (Reads.readU16 s0) ?_
  refine Reads.bind (Reads.pop g2) ?_
  refine Reads.bind (Reads.pop g3) ?_
  refine Reads.bind (Reads.readU16 s4) ?_
  refine Reads.bind (Reads.readU16 s6) ?_
  refine Reads.bind (Reads.readU16 s8) ?_
  refine Reads.bind (Reads.readU16 s10) ?_
  refine Reads.pure' _ _ ?_
  rw [u16_split _ h1, u16_split _ h3, u16_split _ h4, u16_split _ h5, u16_split _ h6]
  simp only [a1, a2, a3, a4, a5, b1, b2, b3, b4]
/-! ### layouts -/

/-- a layout: a property of (footprint condition, buffer, start, end) -/
abbrev Lay := (Nat × Nat → Prop) → Bytes → Nat → Nat → Prop

/-- `b'` agrees with `b` on `[p, q)` and on every `H`-admitted run ending at or before `q` -/
def AgreeOn (H : Nat × Nat → Prop) (p q : Nat) (b b' : Bytes) : Prop :=
  q ≤ b'.length ∧ (∀ i, p ≤ i → i < q → b'[i]? = b[i]?) ∧
  (∀ iv : Nat × Nat, H iv → iv.2 ≤ q → ∀ i, iv.1 ≤ i → i < iv.2 → b'[i]? = b[i]?)

/-- the laws of a layout: it lies between its bounds inside the buffer, depends only on the octets
between its bounds and on admitted runs below its end, and is monotone in the footprint condition -/
structure IsLayout (L : Lay) : Prop where
  bounds : ∀ {H b p q}, L H b p q → p ≤ q ∧ q ≤ b.length
  stable : ∀ {H b b' p q}, L H b p q → AgreeOn H p q b b' → L H b' p q
  mono : ∀ {H H' : Nat × Nat → Prop} {b p q}, L H b p q →
    (∀ iv : Nat × Nat, iv.1 < iv.2 → iv.2 ≤ q → H iv → H' iv) → L H' b p q

theorem agreeOn_prefix {H : Nat × Nat → Prop} {p q : Nat} {b b' : Bytes} (hq : q ≤ b.length)
    (h : b'.take b.length = b) : AgreeOn H p q b b' := by
  have key : ∀ i, i < q → b'[i]? = b[i]? := by
    intro i hi
    have := congrArg (fun l => l[i]?) h
    simp only [List.getElem?_take] at this
    rw [if_pos (by omega)] at this
    exact this
  have hl : b.length ≤ b'.length := by
    have := congrArg List.length h
    simp only [List.length_take] at this; omega
  exact ⟨by omega, fun i _ hi => key i hi, fun iv _ hiv i _ hi => key i (by omega)⟩

theorem agreeOn_take {H : Nat × Nat → Prop} {p q : Nat} {b : Bytes} (k : Nat) (hk : q ≤ k)
    (hq : q ≤ b.length) :
    AgreeOn H p q b (b.take k) := by
  have key : ∀ i, i < q → (b.take k)[i]? = b[i]? := by
    intro i hi
    rw [List.getElem?_take, if_pos (by omega)]
  exact ⟨by simp only [List.length_take]; omega, fun i _ hi => key i hi,
    fun iv _ hiv i _ hi => key i (by omega)⟩

theorem AgreeOn.sub {H : Nat × Nat → Prop} {p q p' q' : Nat} {b b' : Bytes} (h : AgreeOn H p q b b')
    (hp : p ≤ p') (hq : q' ≤ q) : AgreeOn H p' q' b b' :=
  ⟨by have := h.1; omega, fun i h1 h2 => h.2.1 i (by omega) (by omega),
    fun iv hiv h2 i h3 h4 => h.2.2 iv hiv (by omega) i h3 h4⟩

/-- the octets `bs` -/
def laySeg (bs : Bytes) : Lay := fun _ b p q => SegAt b p bs ∧ q = p + bs.length

theorem segAt_congr {b b' bs : Bytes} {p : Nat} (h : SegAt b p bs) (hlen : p + bs.length ≤ b'.length)
    (hag : ∀ i, p ≤ i → i < p + bs.length → b'[i]? = b[i]?) : SegAt b' p bs := by
  refine ⟨hlen, ?_⟩
  have : (b'.drop p).take bs.length = (b.drop p).take bs.length := by
    apply List.ext_getElem?
    intro i
    simp only [List.getElem?_take, List.getElem?_drop]
    by_cases hi : i < bs.length
    · simp only [hi, ↓reduceIte]
      exact hag (p + i) (by omega) (by omega)
    · simp only [hi, ↓reduceIte]
  exact this.trans h.2

theorem isLayout_seg (bs : Bytes) : IsLayout (laySeg bs) where
  bounds := by
    intro H b p q h
    obtain ⟨h1, rfl⟩ := h
    exact ⟨by omega, h1.1⟩
  stable := by
    intro H b b' p q h hag
    obtain ⟨h1, rfl⟩ := h
    exact ⟨segAt_congr h1 hag.1 (fun i hi1 hi2 => hag.2.1 i hi1 hi2), rfl⟩
  mono := by intro H H' b p q h _; exact h

/-- the name with labels `ls` -/
def layName (ls : List Bytes) : Lay := fun H b p q => LaidH H b p ls q

theorem isLayout_name (ls : List Bytes) : IsLayout (layName ls) where
  bounds := by
    intro H b p q h
    obtain ⟨F, h1, _⟩ := h
    exact ⟨Nat.le_of_lt h1.pos_lt_end, h1.end_le_length⟩
  stable := by
    intro H b b' p q h hag
    obtain ⟨F, h1, h2⟩ := h
    refine ⟨F, h1.frame_footprint (Nat.le_refl _) ?_, h2⟩
    intro iv hiv i hi1 hi2
    have := h1.footprint_le (Nat.le_refl _) iv hiv
    exact hag.2.2 iv (h2 iv hiv) this.2 i hi1 hi2
  mono := by
    intro H H' b p q h himp
    exact LaidH.mono h himp

/-- `L1` followed by `L2` -/
def laySeq (L1 L2 : Lay) : Lay := fun H b p q => ∃ m, L1 H b p m ∧ L2 H b m q

theorem isLayout_seq {L1 L2 : Lay} (h1 : IsLayout L1) (h2 : IsLayout L2) : IsLayout (laySeq L1 L2) where
  bounds := by
    intro H b p q h
    obtain ⟨m, a1, a2⟩ := h
    have := h1.bounds a1; have := h2.bounds a2
    exact ⟨by omega, by omega⟩
  stable := by
    intro H b b' p q h hag
    obtain ⟨m, a1, a2⟩ := h
    have b1 := h1.bounds a1; have b2 := h2.bounds a2
    exact ⟨m, h1.stable a1 (hag.sub (Nat.le_refl _) b2.1), h2.stable a2 (hag.sub b1.1 (Nat.le_refl _))⟩
  mono := by
    intro H H' b p q h himp
    obtain ⟨m, a1, a2⟩ := h
    have b2 := h2.bounds a2
    exact ⟨m, h1.mono a1 (fun iv x y z => himp iv x (by omega) z), h2.mono a2 himp⟩

/-- nothing -/
def layEmpty : Lay := fun _ b p q => q = p ∧ p ≤ b.length

theorem isLayout_empty : IsLayout layEmpty where
  bounds := by intro H b p q h; obtain ⟨rfl, h2⟩ := h; exact ⟨Nat.le_refl _, h2⟩
  stable := by intro H b b' p q h hag; obtain ⟨rfl, h2⟩ := h; exact ⟨rfl, hag.1⟩
  mono := by intro H H' b p q h _; exact h

/-- a `u16` length `len`, then `L` over exactly `len` octets (the RDLENGTH pattern) -/
def layLen (L : Lay) : Lay := fun H b p q =>
  ∃ len, len ≤ 65535 ∧ SegAt b p [len / 256 % 256, len % 256] ∧ L H b (p + 2) q ∧ q = p + 2 + len

theorem isLayout_len {L : Lay} (hL : IsLayout L) : IsLayout (layLen L) where
  bounds := by
    intro H b p q h
    obtain ⟨len, _, _, a3, rfl⟩ := h
    have := hL.bounds a3
    exact ⟨by omega, this.2⟩
  stable := by
    intro H b b' p q h hag
    obtain ⟨len, a1, a2, a3, rfl⟩ := h
    have b3 := hL.bounds a3
    refine ⟨len, a1, segAt_congr a2 (by have := hag.1; simp; omega)
      (fun i h1 h2 => hag.2.1 i h1 (by simp at h2; omega)), hL.stable a3 (hag.sub (by omega) (Nat.le_refl _)), rfl⟩
  mono := by
    intro H H' b p q h himp
    obtain ⟨len, a1, a2, a3, rfl⟩ := h
    exact ⟨len, a1, a2, hL.mono a3 himp, rfl⟩

/-! ### emitters and the layouts they leave -/

/-- no mode that lower-cases names is on (messages are never emitted in DNSSEC canonical form) -/
def NoLower (e : Enc) : Prop := e.canonicalForm = false ∧ e.nameEncoding ≠ .uncompressedLowercase

structure EmitsPost (H : Nat × Nat → Prop) (L : Lay) (e e' : Enc) : Prop where
  inv : PtrInvH H e'
  app : e'.offset = e'.buf.length
  le : e.offset ≤ e'.offset
  pre : e'.buf.take e.offset = e.buf
  lay : L H e'.buf e.offset e'.offset
  canon : e'.canonicalForm = e.canonicalForm
  ne : e'.nameEncoding = e.nameEncoding
  max : e'.maxSize = e.maxSize

/-- from every appending state satisfying the candidate-table invariant (no lower-casing mode on),
a successful `f` leaves layout `L` between the old and the new offset, touches nothing below the
old offset, and re-establishes the invariant -/
def Emits (f : Enc → ERes Unit) (L : Lay) : Prop :=
  ∀ (H : Nat × Nat → Prop) (e e' : Enc), e.offset = e.buf.length → PtrInvH H e →
    (∀ a b, e.offset ≤ a → H (a, b)) → NoLower e → f e = .ok () e' → EmitsPost H L e e'

theorem segAt_append (b d : Bytes) : SegAt (b ++ d) b.length d :=
  ⟨by simp, by rw [List.drop_left, List.take_length]⟩

theorem emits_emitSlice (d : Bytes) : Emits (fun e => e.emitSlice d) (laySeg d) := by
  intro H e e' happ hinv _ _ h
  simp only at h
  obtain ⟨h1, h2, h3, h4⟩ := ptrInvH_emitSlice e e' d happ hinv h
  have hoff : e'.offset = e.offset + d.length := by rw [h2, h3, happ]; simp
  refine ⟨h1, h2, by omega, by rw [h3, happ]; simp, ⟨by rw [h3, happ]; exact segAt_append _ _, hoff⟩, ?_, ?_, ?_⟩
  all_goals
    rw [emitSlice_app _ _ happ] at h
    split at h
    · simp at h
    · simp only [ERes.ok.injEq, true_and] at h; rw [← h]

theorem emits_emitU8 (v : Nat) : Emits (fun e => e.emitU8 v) (laySeg [v % 256]) := emits_emitSlice _
theorem emits_emitU16 (v : Nat) : Emits (fun e => e.emitU16 v) (laySeg [v / 256 % 256, v % 256]) :=
  emits_emitSlice _
theorem emits_emitU32 (v : Nat) :
    Emits (fun e => e.emitU32 v) (laySeg [v / 16777216 % 256, v / 65536 % 256, v / 256 % 256, v % 256]) :=
  emits_emitSlice _

theorem emits_nothing : Emits emitNothing layEmpty := by
  intro H e e' happ hinv _ _ h
  simp only [emitNothing, ERes.ok.injEq, true_and] at h
  subst h
  exact ⟨hinv, happ, Nat.le_refl _, by rw [happ]; simp, ⟨rfl, by omega⟩, rfl, rfl, rfl⟩

theorem emits_emitName (n : Name) (hwf : n.WF) : Emits (fun e => Name.emit e n) (layName n.labels) := by
  intro H e e' happ hinv hH hnl h
  have hp := emit_post hwf happ hinv hH h
  have hem : (emitted e n).labels = n.labels := by simp [emitted, hnl.2]
  obtain ⟨x, hx⟩ := hp.ext
  refine ⟨hp.inv, hp.app, ?_, by rw [hx, happ]; simp, by rw [← hem]; exact hp.laid, hp.canon, hp.ne, hp.max⟩
  obtain ⟨F, hl, _⟩ := hp.laid
  exact Nat.le_of_lt hl.pos_lt_end

theorem emits_seq {f g : Enc → ERes Unit} {L1 L2 : Lay} (hL1 : IsLayout L1) (hf : Emits f L1)
    (hg : Emits g L2) : Emits (Enc.seq f g) (laySeq L1 L2) := by
  intro H e e' happ hinv hH hnl h
  unfold Enc.seq at h
  cases hfe : f e with
  | ok u e1 =>
    rw [hfe] at h
    have p1 := hf H e e1 happ hinv hH hnl hfe
    have hnl1 : NoLower e1 := ⟨by rw [p1.canon]; exact hnl.1, by rw [p1.ne]; exact hnl.2⟩
    have p2 := hg H e1 e' p1.app p1.inv (fun a b hab => hH a b (by have := p1.le; omega)) hnl1 h
    have hpre : e'.buf.take e1.buf.length = e1.buf := by rw [← p1.app]; exact p2.pre
    have hq1 : e1.offset ≤ e1.buf.length := by rw [p1.app]; exact Nat.le_refl _
    refine ⟨p2.inv, p2.app, by have := p1.le; have := p2.le; omega, ?_, ⟨e1.offset, ?_, p2.lay⟩,
      by rw [p2.canon, p1.canon], by rw [p2.ne, p1.ne], by rw [p2.max, p1.max]⟩
    · have := congrArg (List.take e.offset) p2.pre
      rw [List.take_take, Nat.min_eq_left p1.le] at this
      rw [this, p1.pre]
    · exact hL1.stable p1.lay (agreeOn_prefix hq1 hpre)
  | err k e1 => rw [hfe] at h; simp at h
  | panic s => rw [hfe] at h; simp at h

theorem emits_withRdataBehavior {f : Enc → ERes Unit} {L : Lay} (hf : Emits f L) (r : RDataEncoding) :
    Emits (fun e => e.withRdataBehavior r f) L := by
  intro H e e' happ hinv hH hnl h
  simp only [Enc.withRdataBehavior] at h
  cases hfe : f { e with nameEncoding := Enc.rdataNameEncoding r e.canonicalForm e.nameEncoding } with
  | ok u e1 =>
    rw [hfe] at h
    simp only [Enc.restoreNameEncoding, ERes.ok.injEq, true_and] at h
    subst h
    have hnl' : NoLower { e with nameEncoding := Enc.rdataNameEncoding r e.canonicalForm e.nameEncoding } := by
      refine ⟨hnl.1, ?_⟩
      simp only [hnl.1]
      cases r <;> simp [Enc.rdataNameEncoding, hnl.2]
    have p := hf H { e with nameEncoding := Enc.rdataNameEncoding r e.canonicalForm e.nameEncoding } e1 happ hinv hH hnl' hfe
    exact ⟨p.inv, p.app, p.le, p.pre, p.lay, p.canon, rfl, p.max⟩
  | err k e1 => rw [hfe] at h; simp [Enc.restoreNameEncoding] at h
  | panic s => rw [hfe] at h; simp [Enc.restoreNameEncoding] at h

theorem emits_lenPrefixed {body : Enc → ERes Unit} {L : Lay} (hL : IsLayout L) (hb : Emits body L) :
    Emits (Enc.lenPrefixed body) (layLen L) := by
  intro H e e' happ hinv hH hnl h
  unfold Enc.lenPrefixed at h
  cases hpl : e.place 2 with
  | panic s => rw [hpl] at h; simp at h
  | err k e1 => rw [hpl] at h; simp at h
  | ok start e1 =>
    rw [hpl] at h
    simp only at h
    obtain ⟨hst, happ1, hoff1, hinv1⟩ := ptrInvH_place e e1 2 start happ hinv hpl
    subst hst
    have he1 : e1 = { e with buf := e.buf ++ List.replicate 2 0, offset := e.offset + 2 } := by
      rw [place_app _ _ happ] at hpl
      split at hpl
      · simp at hpl
      · simp only [ERes.ok.injEq] at hpl; exact hpl.2.symm
    have hnl1 : NoLower e1 := by rw [he1]; exact hnl
    cases hbody : body e1 with
    | panic s => rw [hbody] at h; simp at h
    | err k e2 => rw [hbody] at h; simp at h
    | ok u e2 =>
      rw [hbody] at h
      simp only at h
      have p2 := hb _ e1 e2 happ1 hinv1
        (fun a b hab => ⟨hH a b (by omega), Or.inr (by simp only; omega)⟩) hnl1 hbody
      have hoff2 := p2.le
      have happ2 := p2.app
      unfold Enc.lenSincePlace at h
      rw [if_neg (by omega)] at h
      simp only at h
      split at h
      · simp at h
      rename_i hlen
      have hin : e.offset + 2 ≤ e2.buf.length := by rw [← p2.app]; omega
      have hspec := placeReplace_spec e2 e' e.offset 2 _ (by simp) hin h
      obtain ⟨hinv3, hoff3, hlen3, _⟩ := ptrInvH_placeReplace e2 e' e.offset 2 _ (by simp) hin p2.inv
        (fun iv hiv => hiv.2) h
      have hsame : ∀ i, i < e.offset ∨ e.offset + 2 ≤ i → e'.buf[i]? = e2.buf[i]? := by
        intro i hi
        rw [hspec]
        exact getElem?_splice e2.buf _ e.offset 2 i (by simp) hin hi
      refine ⟨ptrInvH_mono hinv3 (fun iv _ _ hiv => hiv.1), by omega, by omega, ?_, ?_, ?_, ?_, ?_⟩
      · -- nothing below the old offset moved
        apply List.ext_getElem?
        intro i
        by_cases hi : i < e.offset
        · rw [List.getElem?_take_of_lt hi, hsame i (by omega)]
          have h1 := congrArg (fun l => l[i]?) p2.pre
          simp only [List.getElem?_take_of_lt (show i < e1.offset by omega)] at h1
          rw [h1, he1]
          simp only
          rw [List.getElem?_append_left (by omega)]
        · rw [List.getElem?_eq_none (by simp only [List.length_take]; omega),
            List.getElem?_eq_none (by omega)]
      · refine ⟨e2.offset - e.offset - 2, by omega, ?_, ?_, by omega⟩
        · rw [hspec]
          refine ⟨by simp; omega, ?_⟩
          simp only
          rw [List.append_assoc, List.drop_left' (by simp only [List.length_take]; omega)]
          exact List.take_left' (by simp)
        · have hl2 : L (fun iv => H iv ∧ (iv.2 ≤ e.offset ∨ e.offset + 2 ≤ iv.1)) e'.buf (e.offset + 2) e2.offset := by
            have := p2.lay
            rw [hoff1] at this
            refine hL.stable this ⟨by omega, fun i h1 _ => hsame i (Or.inr h1), ?_⟩
            intro iv hiv _ i h1 h2
            exact hsame i (by have := hiv.2; omega)
          rw [hoff3]
          exact hL.mono hl2 (fun iv _ _ hiv => hiv.1)
      · rw [hspec]; simp only; exact p2.canon.trans (by rw [he1])
      · rw [hspec]; simp only; exact p2.ne.trans (by rw [he1])
      · rw [hspec]; simp only; exact p2.max.trans (by rw [he1])
/-! ### RDATA, records, questions: what the emitters leave -/

def u16b (v : Nat) : Bytes := [v / 256 % 256, v % 256]
def u32b (v : Nat) : Bytes := [v / 16777216 % 256, v / 65536 % 256, v / 256 % 256, v % 256]

/-- `seqAll` of one, two, three, four steps as nested `seq` -/
theorem emits_seqAll1 {f1 : Enc → ERes Unit} {L1 : Lay} (i1 : IsLayout L1) (h1 : Emits f1 L1) :
    Emits (seqAll [f1]) (laySeq L1 layEmpty) := emits_seq i1 h1 emits_nothing

theorem emits_seqAll2 {f1 f2 : Enc → ERes Unit} {L1 L2 : Lay} (i1 : IsLayout L1) (i2 : IsLayout L2)
    (h1 : Emits f1 L1) (h2 : Emits f2 L2) :
    Emits (seqAll [f1, f2]) (laySeq L1 (laySeq L2 layEmpty)) :=
  emits_seq i1 h1 (emits_seqAll1 i2 h2)

theorem emits_seqAll3 {f1 f2 f3 : Enc → ERes Unit} {L1 L2 L3 : Lay} (i1 : IsLayout L1) (i2 : IsLayout L2)
    (i3 : IsLayout L3) (h1 : Emits f1 L1) (h2 : Emits f2 L2) (h3 : Emits f3 L3) :
    Emits (seqAll [f1, f2, f3]) (laySeq L1 (laySeq L2 (laySeq L3 layEmpty))) :=
  emits_seq i1 h1 (emits_seqAll2 i2 i3 h2 h3)

theorem emits_seqAll4 {f1 f2 f3 f4 : Enc → ERes Unit} {L1 L2 L3 L4 : Lay} (i1 : IsLayout L1)
    (i2 : IsLayout L2) (i3 : IsLayout L3) (i4 : IsLayout L4) (h1 : Emits f1 L1) (h2 : Emits f2 L2)
    (h3 : Emits f3 L3) (h4 : Emits f4 L4) :
    Emits (seqAll [f1, f2, f3, f4]) (laySeq L1 (laySeq L2 (laySeq L3 (laySeq L4 layEmpty)))) :=
  emits_seq i1 h1 (emits_seqAll3 i2 i3 i4 h2 h3 h4)

theorem emits_seqAll5 {f1 f2 f3 f4 f5 : Enc → ERes Unit} {L1 L2 L3 L4 L5 : Lay} (i1 : IsLayout L1)
    (i2 : IsLayout L2) (i3 : IsLayout L3) (i4 : IsLayout L4) (i5 : IsLayout L5) (h1 : Emits f1 L1)
    (h2 : Emits f2 L2) (h3 : Emits f3 L3) (h4 : Emits f4 L4) (h5 : Emits f5 L5) :
    Emits (seqAll [f1, f2, f3, f4, f5]) (laySeq L1 (laySeq L2 (laySeq L3 (laySeq L4 (laySeq L5 layEmpty))))) :=
  emits_seq i1 h1 (emits_seqAll4 i2 i3 i4 i5 h2 h3 h4 h5)

theorem segAt_concat {b a c : Bytes} {p : Nat} (h1 : SegAt b p a) (h2 : SegAt b (p + a.length) c) :
    SegAt b p (a ++ c) := by
  refine ⟨by have := h2.1; simp only [List.length_append]; omega, ?_⟩
  apply List.ext_getElem?
  intro i
  simp only [List.getElem?_take, List.getElem?_drop, List.length_append]
  by_cases hi : i < a.length + c.length
  · simp only [hi, ↓reduceIte]
    by_cases hia : i < a.length
    · rw [List.getElem?_append_left hia, h1.getElem? hia]
    · rw [List.getElem?_append_right (by omega)]
      have := h2.getElem? (i := i - a.length) (by omega)
      rw [← this]; congr 1; omega
  · simp only [hi, ↓reduceIte]
    rw [List.getElem?_eq_none (by simp only [List.length_append]; omega)]

theorem Emits.weaken {f : Enc → ERes Unit} {L L' : Lay} (h : Emits f L)
    (himp : ∀ H b p q, L H b p q → L' H b p q) : Emits f L' := by
  intro H e e' happ hinv hH hnl hf
  have p := h H e e' happ hinv hH hnl hf
  exact ⟨p.inv, p.app, p.le, p.pre, himp _ _ _ _ p.lay, p.canon, p.ne, p.max⟩

/-- two emitters of plain octets in sequence emit the concatenation -/
theorem emits_seg_seq {f g : Enc → ERes Unit} {a c : Bytes} (hf : Emits f (laySeg a)) (hg : Emits g (laySeg c)) :
    Emits (Enc.seq f g) (laySeg (a ++ c)) := by
  refine (emits_seq (isLayout_seg a) hf hg).weaken ?_
  intro H b p q h
  obtain ⟨m, ⟨s1, rfl⟩, s2, rfl⟩ := h
  exact ⟨segAt_concat s1 s2, by simp only [List.length_append]; omega⟩

theorem emits_nothing_seg : Emits emitNothing (laySeg []) := by
  refine emits_nothing.weaken ?_
  intro H b p q h
  obtain ⟨rfl, h2⟩ := h
  exact ⟨⟨by simpa using h2, by simp⟩, by simp⟩

/-- `emit_character_data` of a string that fits: the length octet and the string -/
theorem emits_emitCharacterData (s : Bytes) : Emits (fun e => e.emitCharacterData s) (laySeg (s.length :: s)) := by
  intro H e e' happ hinv hH hnl h
  simp only [Enc.emitCharacterData] at h
  by_cases hl : s.length > 255
  · simp [hl] at h
  · simp only [hl, ↓reduceIte] at h
    have hm : s.length % 256 = s.length := by omega
    have := emits_seg_seq (emits_emitU8 s.length) (emits_emitSlice s) H e e' happ hinv hH hnl h
    rw [hm] at this
    exact this

/-- the character-strings of a TXT record one after the other -/
theorem emits_txt : ∀ (ss : List Bytes), Emits (seqAll (ss.map fun s => fun e => e.emitCharacterData s)) (laySeg (flat ss))
  | [] => by simpa [seqAll, flat] using emits_nothing_seg
  | s :: ss => by
    simp only [List.map_cons, seqAll, flat_cons]
    have := emits_seg_seq (emits_emitCharacterData s) (emits_txt ss)
    simpa using this

/-- `TXT::read_data` inverts it -/
theorem parseTxt_flat : ∀ (ss : List Bytes), (∀ s ∈ ss, s.length ≤ 255) → (parseTxt (flat ss)).1 = .ok ss
  | [], _ => by simp [flat, parseTxt]
  | s :: ss, h => by
    have ih := parseTxt_flat ss (fun x hx => h x (by simp [hx]))
    rw [flat_cons, parseTxt]
    have hle : s.length ≤ (s ++ flat ss).length := by simp
    simp only [hle, ↓reduceDIte, List.drop_left, List.take_left]
    generalize hr : parseTxt (flat ss) = r at ih
    obtain ⟨o, k⟩ := r
    simp only at ih
    subst ih
    rfl

theorem i32_roundtrip (i : Int) (h : -2147483648 ≤ i ∧ i < 2147483648) : Rd.toI32 (i32ToU32 i) = i := by
  unfold Rd.toI32 i32ToU32
  split <;> omega

theorem emits_emitPairs : ∀ (b : Bytes), b.length % 2 = 0 → (∀ x ∈ b, x < 256) → Emits (emitPairs b) (laySeg b)
  | [], _, _ => by unfold emitPairs; exact emits_nothing_seg
  | [_], h, _ => by simp at h
  | a :: c :: rest, h, hb => by
    unfold emitPairs
    have ha := hb a (by simp); have hc := hb c (by simp)
    have h1 : (a * 256 + c) / 256 % 256 = a := by omega
    have h2 : (a * 256 + c) % 256 = c := by omega
    have := emits_seg_seq (emits_emitU16 (a * 256 + c))
      (emits_emitPairs rest (by simp at h; omega) (fun x hx => hb x (by simp [hx])))
    rw [h1, h2] at this
    simpa using this

theorem emits_seqAll7 {f1 f2 f3 f4 f5 f6 f7 : Enc → ERes Unit} {L1 L2 L3 L4 L5 L6 L7 : Lay} (i1 : IsLayout L1)
    (i2 : IsLayout L2) (i3 : IsLayout L3) (i4 : IsLayout L4) (i5 : IsLayout L5) (i6 : IsLayout L6)
    (i7 : IsLayout L7) (h1 : Emits f1 L1) (h2 : Emits f2 L2) (h3 : Emits f3 L3) (h4 : Emits f4 L4)
    (h5 : Emits f5 L5) (h6 : Emits f6 L6) (h7 : Emits f7 L7) :
    Emits (seqAll [f1, f2, f3, f4, f5, f6, f7])
      (laySeq L1 (laySeq L2 (laySeq L3 (laySeq L4 (laySeq L5 (laySeq L6 (laySeq L7 layEmpty))))))) :=
  emits_seq i1 h1 (emits_seq i2 h2 (emits_seqAll5 i3 i4 i5 i6 i7 h3 h4 h5 h6 h7))

/-! ### SVCB / HTTPS parameters -/

/-- the octets of a parameter value -/
def svcValBytes : SvcVal → Bytes
  | .mandatory keys => (keys.map u16b).flatten
  | .alpn ids => flat ids
  | .noDefaultAlpn => []
  | .port p => u16b p
  | .ipv4hint a => a
  | .ech d => d
  | .ipv6hint a => a
  | .unknown d => d

/-- the octets of the parameter list: key, length, value -/
def paramsBytes (ps : List (Nat × SvcVal)) : Bytes :=
  (ps.map fun kv => u16b kv.1 ++ (u16b (svcValBytes kv.2).length ++ svcValBytes kv.2)).flatten

/-- the normal form of a parameter value under key `key` (what `SvcParamValue::read` produces and
`SvcParamValue::emit` accepts) -/
def SvcValOK (key : Nat) : SvcVal → Prop
  | .mandatory keys => key = 0 ∧ keys ≠ [] ∧ ∀ k ∈ keys, k < 65536
  | .alpn ids => key = 1 ∧ ids ≠ [] ∧ ∀ a ∈ ids, a.length ≤ 255 ∧ validUtf8 a = true
  | .noDefaultAlpn => key = 2
  | .port p => key = 3 ∧ p < 65536
  | .ipv4hint a => key = 4 ∧ a.length % 4 = 0
  | .ech _ => key = 5
  | .ipv6hint a => key = 6 ∧ a.length % 16 = 0 ∧ ∀ x ∈ a, x < 256
  | .unknown _ => 7 ≤ key

/-- keys strictly increasing (after `last`), each value in normal form and shorter than 64 KiB -/
def SvcParamsOK : Option Nat → List (Nat × SvcVal) → Prop
  | _, [] => True
  | last, (k, v) :: rest => (∀ lk, last = some lk → lk < k) ∧ k < 65536 ∧ SvcValOK k v ∧
      (svcValBytes v).length < 65536 ∧ SvcParamsOK (some k) rest

theorem chunks_flatten (n : Nat) : ∀ (fuel : Nat) (l : Bytes), l.length ≤ fuel → (chunks n fuel l).flatten = l
  | 0, l, h => by
    have : l = [] := List.eq_nil_of_length_eq_zero (by omega)
    subst this; simp [chunks]
  | fuel + 1, [], _ => by simp [chunks]
  | fuel + 1, a :: l, h => by
    simp only [chunks, List.flatten_cons]
    rw [chunks_flatten n fuel _ (by simp only [List.length_drop, List.length_cons] at h ⊢; omega)]
    exact List.take_append_drop _ _

theorem emits_slices : ∀ (cs : List Bytes), Emits (seqAll (cs.map fun a => fun e => e.emitSlice a)) (laySeg cs.flatten)
  | [] => by simpa [seqAll] using emits_nothing_seg
  | c :: cs => by
    have := emits_seg_seq (emits_emitSlice c) (emits_slices cs)
    simpa [seqAll] using this

theorem emits_u16s : ∀ (ks : List Nat), Emits (seqAll (ks.map fun k => fun e => e.emitU16 k)) (laySeg (ks.map u16b).flatten)
  | [] => by simpa [seqAll] using emits_nothing_seg
  | k :: ks => by
    have := emits_seg_seq (emits_emitU16 k) (emits_u16s ks)
    simpa [seqAll, u16b] using this

theorem emits_pairChunks : ∀ (cs : List Bytes), (∀ c ∈ cs, c.length % 2 = 0 ∧ ∀ x ∈ c, x < 256) →
    Emits (seqAll (cs.map emitPairs)) (laySeg cs.flatten)
  | [], _ => by simpa [seqAll] using emits_nothing_seg
  | c :: cs, h => by
    have hc := h c (by simp)
    have := emits_seg_seq (emits_emitPairs c hc.1 hc.2) (emits_pairChunks cs (fun x hx => h x (by simp [hx])))
    simpa [seqAll] using this

theorem chunks16_ok : ∀ (fuel : Nat) (l : Bytes), l.length % 16 = 0 → (∀ x ∈ l, x < 256) →
    ∀ c ∈ chunks 16 fuel l, c.length % 2 = 0 ∧ ∀ x ∈ c, x < 256
  | 0, l, _, _ => by simp [chunks]
  | fuel + 1, [], _, _ => by simp [chunks]
  | fuel + 1, a :: l, hl, hb => by
    intro c hc
    simp only [chunks, List.mem_cons] at hc
    have h16 : (a :: l).length ≥ 16 := by
      simp only [List.length_cons] at hl ⊢; omega
    rcases hc with rfl | hc
    · refine ⟨by simp only [List.length_take]; omega, fun x hx => hb x (List.mem_of_mem_take hx)⟩
    · exact chunks16_ok fuel _ (by simp only [List.length_drop]; omega)
        (fun x hx => hb x (List.mem_of_mem_drop hx)) c hc

theorem emits_ifErr {f : Enc → ERes Unit} {L : Lay} (c : Prop) [Decidable c] (hc : ¬ c) (hf : Emits f L) :
    Emits (fun e => if c then .err .other e else f e) L := by
  have : (fun e => if c then ERes.err EncErr.other e else f e) = f := by funext e; rw [if_neg hc]
  rw [this]; exact hf

theorem emits_emitSvcVal (k : Nat) (v : SvcVal) (h : SvcValOK k v) : Emits (emitSvcVal v) (laySeg (svcValBytes v)) := by
  cases v with
  | mandatory keys =>
    unfold emitSvcVal svcValBytes
    refine emits_ifErr _ ?_ (emits_u16s keys)
    have := h.2.1; cases keys <;> simp_all
  | alpn ids =>
    unfold emitSvcVal svcValBytes
    refine emits_ifErr _ ?_ (emits_txt ids)
    have := h.2.1; cases ids <;> simp_all
  | noDefaultAlpn => exact emits_nothing_seg
  | port p => exact emits_emitU16 p
  | ipv4hint a =>
    unfold emitSvcVal svcValBytes
    have := emits_slices (chunks 4 a.length a)
    rwa [chunks_flatten 4 a.length a (Nat.le_refl _)] at this
  | ech d => exact emits_emitSlice d
  | ipv6hint a =>
    unfold emitSvcVal svcValBytes
    have := emits_pairChunks (chunks 16 a.length a) (chunks16_ok a.length a h.2.1 h.2.2)
    rwa [chunks_flatten 16 a.length a (Nat.le_refl _)] at this
  | unknown d => exact emits_emitSlice d

theorem lenPrefixedTry_ok {body : Enc → ERes Unit} {e e' : Enc} (h : Enc.lenPrefixedTry body e = .ok () e') :
    Enc.lenPrefixed body e = .ok () e' := by
  unfold Enc.lenPrefixedTry at h
  unfold Enc.lenPrefixed
  cases hpl : e.place 2 with
  | panic s => rw [hpl] at h; simp at h
  | err k e1 => rw [hpl] at h; simp at h
  | ok start e1 =>
    rw [hpl] at h; simp only at h ⊢
    cases hb : body e1 with
    | panic s => rw [hb] at h; simp at h
    | err k e2 => rw [hb] at h; simp at h
    | ok u e2 =>
      rw [hb] at h; simp only at h ⊢
      cases hl : e2.lenSincePlace start 2 with
      | panic s => rw [hl] at h; simp at h
      | err => rw [hl] at h; simp at h
      | ok len =>
        rw [hl] at h; simp only at h ⊢
        by_cases hbig : len > 65535
        · simp [hbig] at h
        · simp only [hbig, ↓reduceIte] at h ⊢; exact h

/-- a length-prefixed octet string is an octet string -/
theorem emits_lenSegTry {body : Enc → ERes Unit} {vb : Bytes} (hb : Emits body (laySeg vb)) :
    Emits (Enc.lenPrefixedTry body) (laySeg (u16b vb.length ++ vb)) := by
  intro H e e' happ hinv hH hnl h
  have p := emits_lenPrefixed (isLayout_seg vb) hb H e e' happ hinv hH hnl (lenPrefixedTry_ok h)
  refine ⟨p.inv, p.app, p.le, p.pre, ?_, p.canon, p.ne, p.max⟩
  obtain ⟨len, hlen, hseg, hbody, hq⟩ := p.lay
  obtain ⟨hs2, hq2⟩ := hbody
  have hl : len = vb.length := by omega
  subst hl
  refine ⟨segAt_concat hseg (by simpa [u16b] using hs2), ?_⟩
  simp only [List.length_append, u16b, List.length_cons, List.length_nil]; omega

theorem emits_emitSvcParams : ∀ (ps : List (Nat × SvcVal)) (last : Option Nat), SvcParamsOK last ps →
    Emits (emitSvcParams last ps) (laySeg (paramsBytes ps))
  | [], last, _ => by unfold emitSvcParams; simpa [paramsBytes] using emits_nothing_seg
  | (k, v) :: rest, last, h => by
    obtain ⟨hlast, hk, hv, hlen, hrest⟩ := h
    unfold emitSvcParams
    refine emits_ifErr _ ?_ ?_
    · cases last with
      | none => simp
      | some lk => have := hlast lk rfl; simp; omega
    have := emits_seg_seq (emits_emitU16 k) (emits_seg_seq (emits_lenSegTry (emits_emitSvcVal k v hv))
      (emits_emitSvcParams rest (some k) hrest))
    simpa [paramsBytes, u16b, List.append_assoc] using this

/-! the decoder inverts it -/

theorem svcKeys_bytes : ∀ (keys : List Nat), (∀ k ∈ keys, k < 65536) → svcKeys (keys.map u16b).flatten = .ok keys
  | [], _ => by simp [svcKeys]
  | k :: ks, h => by
    have hk := h k (by simp)
    have ih := svcKeys_bytes ks (fun x hx => h x (by simp [hx]))
    simp only [List.map_cons, List.flatten_cons, u16b, List.cons_append, List.nil_append, svcKeys, ih,
      Outcome.map, u16_split k hk]

theorem svcAlpns_flat : ∀ (ids : List Bytes), (∀ a ∈ ids, a.length ≤ 255 ∧ validUtf8 a = true) →
    svcAlpns (flat ids) = .ok ids
  | [], _ => by simp [flat, svcAlpns]
  | a :: ids, h => by
    have ha := h a (by simp)
    have ih := svcAlpns_flat ids (fun x hx => h x (by simp [hx]))
    rw [flat_cons, svcAlpns]
    have hle : a.length ≤ (a ++ flat ids).length := by simp
    simp only [hle, ↓reduceDIte, List.take_left, List.drop_left, ha.2, ↓reduceIte, ih, Outcome.map]

theorem svcValue_bytes (k : Nat) (v : SvcVal) (h : SvcValOK k v) : svcValue k (svcValBytes v) = .ok v := by
  cases v with
  | mandatory keys =>
    obtain ⟨rfl, hne, hk⟩ := h
    cases keys with
    | nil => exact absurd rfl hne
    | cons a t => simp only [svcValue, svcValBytes, ↓reduceIte, svcKeys_bytes (a :: t) hk]
  | alpn ids =>
    obtain ⟨rfl, hne, hk⟩ := h
    cases ids with
    | nil => exact absurd rfl hne
    | cons a t => simp only [svcValue, svcValBytes, Nat.reduceEqDiff, ↓reduceIte, svcAlpns_flat (a :: t) hk]
  | noDefaultAlpn =>
    have hk : k = 2 := h
    subst hk
    simp [svcValue, svcValBytes]
  | port p =>
    obtain ⟨rfl, hp⟩ := h
    simp only [svcValue, svcValBytes, Nat.reduceEqDiff, ↓reduceIte, u16b, u16_split p hp]
  | ipv4hint a =>
    obtain ⟨rfl, ha⟩ := h
    simp [svcValue, svcValBytes, ha]
  | ech d =>
    have hk : k = 5 := h
    subst hk
    simp [svcValue, svcValBytes]
  | ipv6hint a =>
    obtain ⟨rfl, ha, _⟩ := h
    simp [svcValue, svcValBytes, ha]
  | unknown d =>
    have hk : 7 ≤ k := h
    simp only [svcValue, svcValBytes]
    rw [if_neg (by omega), if_neg (by omega), if_neg (by omega), if_neg (by omega), if_neg (by omega),
      if_neg (by omega), if_neg (by omega)]

theorem svcParams_bytes : ∀ (ps : List (Nat × SvcVal)) (last : Option Nat) (acc : List (Nat × SvcVal)),
    SvcParamsOK last ps → svcParams (paramsBytes ps) last acc = (.ok (acc ++ ps), (paramsBytes ps).length)
  | [], last, acc, _ => by simp [paramsBytes, svcParams]
  | (k, v) :: rest, last, acc, h => by
    obtain ⟨hlast, hk, hv, hlen, hrest⟩ := h
    have ih := svcParams_bytes rest (some k) (acc ++ [(k, v)]) hrest
    have hb : paramsBytes ((k, v) :: rest) = k / 256 % 256 :: k % 256 :: (svcValBytes v).length / 256 % 256 ::
        (svcValBytes v).length % 256 :: (svcValBytes v ++ paramsBytes rest) := by
      simp [paramsBytes, u16b]
    rw [hb]
    have hnot : ¬ (svcValBytes v).length > (svcValBytes v ++ paramsBytes rest).length := by simp
    cases last with
    | none =>
      simp only [svcParams, u16_split k hk, u16_split _ hlen, hnot, ↓reduceDIte, List.take_left, List.drop_left,
        svcValue_bytes k v hv, Bool.false_eq_true, ↓reduceIte, ih]
      simp only [List.append_assoc, List.cons_append, List.nil_append, List.length_cons, List.length_append]
      congr 1
      omega
    | some lk =>
      have := hlast lk rfl
      have hd : decide (lk ≥ k) = false := by simp; omega
      simp only [svcParams, u16_split k hk, u16_split _ hlen, hnot, ↓reduceDIte, List.take_left, List.drop_left,
        svcValue_bytes k v hv, hd, Bool.false_eq_true, ↓reduceIte, ih]
      simp only [List.append_assoc, List.cons_append, List.nil_append, List.length_cons, List.length_append]
      congr 1
      omega

theorem Reads.parsePrefix {α} {p : Bytes → Outcome α × Nat} {buf : Bytes} {pos : Nat} {a : α} {used : Nat}
    (h : p (buf.drop pos) = (.ok a, used)) (hu : pos + used ≤ buf.length) :
    Reads (Rd.parsePrefix p) buf pos a (pos + used) := by
  intro t
  refine ⟨t + used, ?_⟩
  simp only [Rd.parsePrefix, h]
  have : min used (buf.drop pos).length = used := by
    rw [List.length_drop]; omega
  rw [this]


/-- the RDATA variants covered by the round-trip proof so far -/
def _root_.HickoryVerif.Wire.RData.proved : RData → Bool
  | .a _ | .aaaa _ | .name _ | .mx _ _ | .soa _ _ _ _ _ _ _ | .txt _ | .srv _ _ _ _ | .hinfo _ _ | .null _
  | .unknown _ _
  | .ds _ _ _ _ | .dnskey _ _ _ _ | .tlsa _ _ _ _ | .sshfp _ _ _ | .openpgpkey _ | .cert _ _ _ _
  | .nsec3param _ _ _ | .caa _ _ _ _ | .key _ _ _ _ | .naptr _ _ _ _ _ _ | .sig _ _ _ _ _ _ _ _ _
  | .tsig _ _ _ _ _ _ _ | .nsec _ _ | .nsec3 _ _ _ _ _ _ | .csync _ _ _ | .svcb _ _ _ => true
  | _ => false

/-- the octets `RecordTypeSet::emit` writes for a set that carries its original encoding -/
def tsBytes (ts : TypeSet) : Bytes := ts.orig.getD []

/-- the normal form of a decoded `RecordTypeSet`: it carries the octets it was decoded from, and
`types` is what the bitmap state machine reads from them -/
def TypeSetOK (ts : TypeSet) : Prop := ∃ bs, ts.orig = some bs ∧ parseBitmap bs .window [] = .ok ts.types

/-- wire form of the name-free "blob" variants (stage 3): fixed fields, then the rest as it is -/
def blobWire : RData → Bytes
  | .ds tag alg dt dg => u16b tag ++ ([alg, dt] ++ dg)
  | .dnskey _ flags alg key => u16b flags ++ ([3, alg] ++ key)
  | .tlsa u sel m d => [u, sel, m] ++ d
  | .sshfp a f d => [a, f] ++ d
  | .openpgpkey d => d
  | .cert ct tag alg d => u16b ct ++ (u16b tag ++ ([alg] ++ d))
  | .nsec3param oo iter salt => [1, (if oo then 1 else 0)] ++ (u16b iter ++ ([salt.length] ++ salt))
  | .caa cr rs tag v => [rs + (if cr then 128 else 0), tag.length] ++ (tag ++ v)
  | .key flags proto alg k => u16b flags ++ ([proto, alg] ++ k)
  | .nsec3 oo iter salt hash _ ts =>
    [1, (if oo then 1 else 0)] ++ (u16b iter ++ ([salt.length] ++ (salt ++ ([hash.length] ++ (hash ++ tsBytes ts)))))
  | .csync serial flags ts => u32b serial ++ (u16b flags ++ tsBytes ts)
  | _ => []

/-- the layout `RData::emit` leaves for the covered variants -/
def layRData : RData → Lay
  | .a b => laySeg b
  | .aaaa b => laySeg b
  | .name n => layName n.labels
  | .mx p n => laySeq (laySeg (u16b p)) (laySeq (layName n.labels) layEmpty)
  | .srv p w port n =>
    laySeq (laySeg (u16b p)) (laySeq (laySeg (u16b w)) (laySeq (laySeg (u16b port))
      (laySeq (layName n.labels) layEmpty)))
  | .soa m r serial refresh retry expire minimum =>
    laySeq (layName m.labels) (laySeq (layName r.labels) (laySeq (laySeg (u32b serial))
      (laySeq (laySeg (u32b (i32ToU32 refresh))) (laySeq (laySeg (u32b (i32ToU32 retry)))
        (laySeq (laySeg (u32b (i32ToU32 expire))) (laySeq (laySeg (u32b minimum)) layEmpty))))))
  | .txt ss => laySeg (flat ss)
  | .hinfo c o => laySeg ((c.length :: c) ++ (o.length :: o))
  | .null d => laySeg d
  | .unknown _ d => laySeg d
  | .ds tag alg dt dg => laySeg (blobWire (.ds tag alg dt dg))
  | .dnskey cd flags alg key => laySeg (blobWire (.dnskey cd flags alg key))
  | .tlsa u sel m d => laySeg (blobWire (.tlsa u sel m d))
  | .sshfp a f d => laySeg (blobWire (.sshfp a f d))
  | .openpgpkey d => laySeg (blobWire (.openpgpkey d))
  | .cert ct tag alg d => laySeg (blobWire (.cert ct tag alg d))
  | .nsec3param oo iter salt => laySeg (blobWire (.nsec3param oo iter salt))
  | .caa cr rs tag v => laySeg (blobWire (.caa cr rs tag v))
  | .key flags proto alg k => laySeg (blobWire (.key flags proto alg k))
  | .nsec3 oo iter salt hash b32 ts => laySeg (blobWire (.nsec3 oo iter salt hash b32 ts))
  | .csync serial flags ts => laySeg (blobWire (.csync serial flags ts))
  | .nsec next ts => laySeq (layName next.labels) (laySeq (laySeg (tsBytes ts)) layEmpty)
  | .svcb prio target ps =>
    laySeq (laySeg (u16b prio)) (laySeq (layName target.labels) (laySeq (laySeg (paramsBytes ps)) layEmpty))
  | .naptr order pref flags services regexp n =>
    laySeq (laySeg (u16b order)) (laySeq (laySeg (u16b pref)) (laySeq (laySeg (flags.length :: flags))
      (laySeq (laySeg (services.length :: services)) (laySeq (laySeg (regexp.length :: regexp))
        (laySeq (layName n.labels) layEmpty)))))
  | .sig covered alg labels ottl exp inc tag signer sg =>
    laySeq (laySeq (laySeg (u16b covered)) (laySeq (laySeg [alg]) (laySeq (laySeg [labels])
      (laySeq (laySeg (u32b ottl)) (laySeq (laySeg (u32b exp)) (laySeq (laySeg (u32b inc))
        (laySeq (laySeg (u16b tag)) (laySeq (layName signer.labels) layEmpty))))))))
      (laySeq (laySeg sg) layEmpty)
  | .tsig alg time fudge mac oid err other =>
    laySeq (layName alg.labels) (laySeq (laySeg (u16b (time / 4294967296)))
      (laySeq (laySeg (u32b (time % 4294967296))) (laySeq (laySeg (u16b fudge)) (laySeq (laySeg (u16b mac.length))
        (laySeq (laySeg mac) (laySeq (laySeg (u16b oid)) (laySeq (laySeg (u16b err))
          (laySeq (laySeg (u16b other.length)) (laySeq (laySeg other) layEmpty)))))))))
  | _ => fun _ _ _ _ => False

/-- the names inside the covered RDATA variants are well-formed names -/
def _root_.HickoryVerif.Wire.RData.namesWF : RData → Prop
  | .name n => n.WF
  | .mx _ n => n.WF
  | .srv _ _ _ n => n.WF
  | .soa m r _ _ _ _ _ => m.WF ∧ r.WF
  | .aaaa b => b.length = 16 ∧ ∀ x ∈ b, x < 256
  -- the blob family: the one-octet fields are octets (`as u8` / `u8::from` on the Rust side)
  | .ds _ alg dt _ => alg < 256 ∧ dt < 256
  | .dnskey _ _ alg _ => alg < 256
  | .tlsa u sel m _ => u < 256 ∧ sel < 256 ∧ m < 256
  | .sshfp a f _ => a < 256 ∧ f < 256
  | .cert _ _ alg _ => alg < 256
  | .nsec3param _ _ salt => salt.length < 256
  | .caa _ rs tag _ => rs < 128 ∧ tag.length < 256
  | .key _ proto alg _ => proto < 256 ∧ alg < 256
  -- the type-bitmap family: the set carries its original encoding (a decoded set always does)
  | .nsec next ts => next.WF ∧ ts.orig.isSome = true
  | .nsec3 _ _ salt hash _ ts => salt.length < 256 ∧ hash.length < 256 ∧ ts.orig.isSome = true
  | .csync _ _ ts => ts.orig.isSome = true
  -- SVCB / HTTPS: keys strictly increasing, every value in its normal form
  | .svcb _ target ps => target.WF ∧ SvcParamsOK none ps
  | .naptr _ _ _ _ _ n => n.WF
  | .sig _ alg labels _ _ _ _ signer _ => signer.WF ∧ alg < 256 ∧ labels < 256
  -- TSIG: the `u16::try_from` / 48-bit conversions of `TSIG::emit` succeed
  | .tsig alg time _ mac _ _ other => alg.WF ∧ time < 281474976710656 ∧ mac.length < 65536 ∧ other.length < 65536
  | _ => True

theorem isLayout_rdata (d : RData) (hp : d.proved = true) : IsLayout (layRData d) := by
  cases d <;> first | (simp [RData.proved] at hp; done) | skip
  all_goals unfold layRData
  case a => exact isLayout_seg _
  case aaaa => exact isLayout_seg _
  case name => exact isLayout_name _
  case mx => exact isLayout_seq (isLayout_seg _) (isLayout_seq (isLayout_name _) isLayout_empty)
  case soa =>
    exact isLayout_seq (isLayout_name _) (isLayout_seq (isLayout_name _) (isLayout_seq (isLayout_seg _)
      (isLayout_seq (isLayout_seg _) (isLayout_seq (isLayout_seg _) (isLayout_seq (isLayout_seg _)
        (isLayout_seq (isLayout_seg _) isLayout_empty))))))
  case txt => exact isLayout_seg _
  case srv =>
    exact isLayout_seq (isLayout_seg _) (isLayout_seq (isLayout_seg _) (isLayout_seq (isLayout_seg _)
      (isLayout_seq (isLayout_name _) isLayout_empty)))
  case hinfo => exact isLayout_seg _
  case null => exact isLayout_seg _
  case unknown => exact isLayout_seg _
  case nsec => exact isLayout_seq (isLayout_name _) (isLayout_seq (isLayout_seg _) isLayout_empty)
  case svcb =>
    exact isLayout_seq (isLayout_seg _) (isLayout_seq (isLayout_name _) (isLayout_seq (isLayout_seg _) isLayout_empty))
  case naptr =>
    exact isLayout_seq (isLayout_seg _) (isLayout_seq (isLayout_seg _) (isLayout_seq (isLayout_seg _)
      (isLayout_seq (isLayout_seg _) (isLayout_seq (isLayout_seg _) (isLayout_seq (isLayout_name _) isLayout_empty)))))
  case sig =>
    exact isLayout_seq (isLayout_seq (isLayout_seg _) (isLayout_seq (isLayout_seg _) (isLayout_seq (isLayout_seg _)
      (isLayout_seq (isLayout_seg _) (isLayout_seq (isLayout_seg _) (isLayout_seq (isLayout_seg _)
        (isLayout_seq (isLayout_seg _) (isLayout_seq (isLayout_name _) isLayout_empty))))))))
      (isLayout_seq (isLayout_seg _) isLayout_empty)
  case tsig =>
    exact isLayout_seq (isLayout_name _) (isLayout_seq (isLayout_seg _) (isLayout_seq (isLayout_seg _)
      (isLayout_seq (isLayout_seg _) (isLayout_seq (isLayout_seg _) (isLayout_seq (isLayout_seg _)
        (isLayout_seq (isLayout_seg _) (isLayout_seq (isLayout_seg _) (isLayout_seq (isLayout_seg _)
          (isLayout_seq (isLayout_seg _) isLayout_empty)))))))))
  all_goals exact isLayout_seg _

theorem emits_emitTypeSet (ts : TypeSet) (h : ts.orig.isSome = true) : Emits (emitTypeSet ts) (laySeg (tsBytes ts)) := by
  unfold emitTypeSet tsBytes
  cases ho : ts.orig with
  | none => rw [ho] at h; cases h
  | some bs => exact emits_emitSlice bs

theorem emits_emitRData (t : Nat) (d : RData) (hp : d.proved = true) (hwf : d.namesWF) :
    Emits (emitRData t d) (layRData d) := by
  cases d <;> first | (simp [RData.proved] at hp; done) | skip
  all_goals unfold emitRData layRData
  case a b => exact emits_emitSlice b
  case aaaa b => exact emits_emitPairs b (by rw [hwf.1]) hwf.2
  case name n => exact emits_withRdataBehavior (emits_emitName n hwf) _
  case mx p n =>
    exact emits_withRdataBehavior (emits_seqAll2 (isLayout_seg _) (isLayout_name _) (emits_emitU16 p)
      (emits_emitName n hwf)) _
  case srv p w port n =>
    exact emits_withRdataBehavior (emits_seqAll4 (isLayout_seg _) (isLayout_seg _) (isLayout_seg _)
      (isLayout_name _) (emits_emitU16 p) (emits_emitU16 w) (emits_emitU16 port) (emits_emitName n hwf)) _
  case soa m r serial refresh retry expire minimum =>
    exact emits_withRdataBehavior (emits_seqAll7 (isLayout_name _) (isLayout_name _) (isLayout_seg _)
      (isLayout_seg _) (isLayout_seg _) (isLayout_seg _) (isLayout_seg _) (emits_emitName m hwf.1)
      (emits_emitName r hwf.2) (emits_emitU32 _) (emits_emitU32 _) (emits_emitU32 _) (emits_emitU32 _)
      (emits_emitU32 _)) _
  case txt ss => exact emits_txt ss
  case hinfo c o =>
    have := emits_seg_seq (emits_emitCharacterData c) (emits_seg_seq (emits_emitCharacterData o) emits_nothing_seg)
    simpa [seqAll] using this
  case null d => exact emits_emitSlice d
  case unknown c d => exact emits_emitSlice d
  case openpgpkey d => exact emits_emitSlice d
  case ds tag alg dt dg =>
    have h1 := emits_emitU8 alg; have h2 := emits_emitU8 dt
    rw [Nat.mod_eq_of_lt hwf.1] at h1; rw [Nat.mod_eq_of_lt hwf.2] at h2
    have := emits_seg_seq (emits_emitU16 tag) (emits_seg_seq h1 (emits_seg_seq h2
      (emits_seg_seq (emits_emitSlice dg) emits_nothing_seg)))
    simpa [seqAll, blobWire, u16b] using this
  case dnskey cd flags alg key =>
    have h1 := emits_emitU8 alg; have h3 := emits_emitU8 3
    rw [Nat.mod_eq_of_lt hwf] at h1
    have := emits_seg_seq (emits_emitU16 flags) (emits_seg_seq h3 (emits_seg_seq h1
      (emits_seg_seq (emits_emitSlice key) emits_nothing_seg)))
    simpa [seqAll, blobWire, u16b] using this
  case tlsa u sel m d =>
    have h1 := emits_emitU8 u; have h2 := emits_emitU8 sel; have h3 := emits_emitU8 m
    rw [Nat.mod_eq_of_lt hwf.1] at h1; rw [Nat.mod_eq_of_lt hwf.2.1] at h2; rw [Nat.mod_eq_of_lt hwf.2.2] at h3
    have := emits_seg_seq h1 (emits_seg_seq h2 (emits_seg_seq h3
      (emits_seg_seq (emits_emitSlice d) emits_nothing_seg)))
    simpa [seqAll, blobWire] using this
  case sshfp a f d =>
    have h1 := emits_emitU8 a; have h2 := emits_emitU8 f
    rw [Nat.mod_eq_of_lt hwf.1] at h1; rw [Nat.mod_eq_of_lt hwf.2] at h2
    have := emits_seg_seq h1 (emits_seg_seq h2 (emits_seg_seq (emits_emitSlice d) emits_nothing_seg))
    simpa [seqAll, blobWire] using this
  case cert ct tag alg d =>
    have h1 := emits_emitU8 alg
    rw [Nat.mod_eq_of_lt hwf] at h1
    have := emits_seg_seq (emits_emitU16 ct) (emits_seg_seq (emits_emitU16 tag) (emits_seg_seq h1
      (emits_seg_seq (emits_emitSlice d) emits_nothing_seg)))
    refine emits_withRdataBehavior ?_ _
    simpa [seqAll, blobWire, u16b] using this
  case nsec3param oo iter salt =>
    have h1 := emits_emitU8 1
    have h2 := emits_emitU8 (if oo then 1 else 0)
    have h3 := emits_emitU8 (salt.length % 256)
    have e2 : (if oo then 1 else 0) % 256 = (if oo then 1 else 0) := by cases oo <;> rfl
    rw [e2] at h2
    rw [Nat.mod_mod, Nat.mod_eq_of_lt hwf] at h3
    have := emits_seg_seq h1 (emits_seg_seq h2 (emits_seg_seq (emits_emitU16 iter) (emits_seg_seq h3
      (emits_seg_seq (emits_emitSlice salt) emits_nothing_seg))))
    have hmod : salt.length % 256 = salt.length := Nat.mod_eq_of_lt hwf
    simpa [seqAll, blobWire, u16b, hmod] using this
  case svcb prio target ps =>
    exact emits_withRdataBehavior (emits_seqAll3 (isLayout_seg _) (isLayout_name _) (isLayout_seg _)
      (emits_emitU16 prio) (emits_emitName target hwf.1) (emits_emitSvcParams ps none hwf.2)) _
  case nsec next ts =>
    exact emits_withRdataBehavior (emits_seqAll2 (isLayout_name _) (isLayout_seg _) (emits_emitName next hwf.1)
      (emits_emitTypeSet ts hwf.2)) _
  case nsec3 oo iter salt hash b32 ts =>
    have h1 := emits_emitU8 1
    have h2 := emits_emitU8 (if oo then 1 else 0)
    have h3 := emits_emitU8 (salt.length % 256)
    have h4 := emits_emitU8 (hash.length % 256)
    have e2 : (if oo then 1 else 0) % 256 = (if oo then 1 else 0) := by cases oo <;> rfl
    rw [e2] at h2
    rw [Nat.mod_mod, Nat.mod_eq_of_lt hwf.1] at h3
    rw [Nat.mod_mod, Nat.mod_eq_of_lt hwf.2.1] at h4
    have := emits_seg_seq h1 (emits_seg_seq h2 (emits_seg_seq (emits_emitU16 iter) (emits_seg_seq h3
      (emits_seg_seq (emits_emitSlice salt) (emits_seg_seq h4 (emits_seg_seq (emits_emitSlice hash)
        (emits_seg_seq (emits_emitTypeSet ts hwf.2.2) emits_nothing_seg)))))))
    have hm1 : salt.length % 256 = salt.length := Nat.mod_eq_of_lt hwf.1
    have hm2 : hash.length % 256 = hash.length := Nat.mod_eq_of_lt hwf.2.1
    simpa [seqAll, blobWire, u16b, hm1, hm2] using this
  case csync serial flags ts =>
    have := emits_seg_seq (emits_emitU32 serial) (emits_seg_seq (emits_emitU16 flags)
      (emits_seg_seq (emits_emitTypeSet ts hwf) emits_nothing_seg))
    simpa [seqAll, blobWire, u16b, u32b] using this
  case key flags proto alg k =>
    have h1 := emits_emitU8 proto; have h2 := emits_emitU8 alg
    rw [Nat.mod_eq_of_lt hwf.1] at h1; rw [Nat.mod_eq_of_lt hwf.2] at h2
    have := emits_seg_seq (emits_emitU16 flags) (emits_seg_seq h1 (emits_seg_seq h2
      (emits_seg_seq (emits_emitSlice k) emits_nothing_seg)))
    simpa [seqAll, blobWire, u16b] using this
  case naptr order pref flags services regexp n =>
    refine emits_withRdataBehavior ?_ _
    exact emits_seq (isLayout_seg _) (emits_emitU16 order) (emits_seqAll5 (isLayout_seg _) (isLayout_seg _)
      (isLayout_seg _) (isLayout_seg _) (isLayout_name _) (emits_emitU16 pref) (emits_emitCharacterData flags)
      (emits_emitCharacterData services) (emits_emitCharacterData regexp) (emits_emitName n hwf))
  case sig covered alg labels ottl exp inc tag signer sg =>
    have h1 := emits_emitU8 alg; have h2 := emits_emitU8 labels
    rw [Nat.mod_eq_of_lt hwf.2.1] at h1; rw [Nat.mod_eq_of_lt hwf.2.2] at h2
    have hin := emits_seq (isLayout_seg _) (emits_emitU16 covered) (emits_seqAll7 (isLayout_seg _) (isLayout_seg _)
      (isLayout_seg _) (isLayout_seg _) (isLayout_seg _) (isLayout_seg _) (isLayout_name _) h1 h2
      (emits_emitU32 ottl) (emits_emitU32 exp) (emits_emitU32 inc) (emits_emitU16 tag) (emits_emitName signer hwf.1))
    refine emits_withRdataBehavior ?_ _
    exact emits_seqAll2 (isLayout_seq (isLayout_seg _) (isLayout_seq (isLayout_seg _) (isLayout_seq (isLayout_seg _)
      (isLayout_seq (isLayout_seg _) (isLayout_seq (isLayout_seg _) (isLayout_seq (isLayout_seg _)
        (isLayout_seq (isLayout_seg _) (isLayout_seq (isLayout_name _) isLayout_empty))))))))
      (isLayout_seg _) (emits_withRdataBehavior hin _) (emits_emitSlice sg)
  case tsig alg time fudge mac oid err other =>
    obtain ⟨halg, htime, hmac, hother⟩ := hwf
    have c1 : ¬ time / 4294967296 > 65535 := by omega
    have c2 : ¬ mac.length > 65535 := by omega
    have c3 : ¬ other.length > 65535 := by omega
    simp only [c1, c2, c3, ↓reduceIte]
    refine emits_withRdataBehavior ?_ _
    exact emits_seq (isLayout_name _) (emits_emitName alg halg) (emits_seq (isLayout_seg _) (emits_emitU16 _)
      (emits_seq (isLayout_seg _) (emits_emitU32 _) (emits_seqAll7 (isLayout_seg _) (isLayout_seg _)
        (isLayout_seg _) (isLayout_seg _) (isLayout_seg _) (isLayout_seg _) (isLayout_seg _)
        (emits_emitU16 fudge) (emits_emitU16 mac.length) (emits_emitSlice mac) (emits_emitU16 oid)
        (emits_emitU16 err) (emits_emitU16 other.length) (emits_emitSlice other))))
  case caa cr rs tag v =>
    have h1 := emits_emitU8 (rs % 128 + (if cr then 128 else 0))
    have e1 : (rs % 128 + (if cr then 128 else 0)) % 256 = rs + (if cr then 128 else 0) := by
      have := hwf.1; cases cr <;> simp <;> omega
    rw [e1] at h1
    have h2 := emits_emitU8 tag.length
    rw [Nat.mod_eq_of_lt hwf.2] at h2
    have hnot : ¬ tag.length > 255 := by have := hwf.2; omega
    refine emits_withRdataBehavior ?_ _
    simp only [hnot, ↓reduceIte]
    have := emits_seg_seq h1 (emits_seg_seq h2 (emits_seg_seq (emits_emitSlice tag)
      (emits_seg_seq (emits_emitSlice v) emits_nothing_seg)))
    simpa [seqAll, blobWire] using this

/-- the layout of a record -/
def layRecord (r : Record) : Lay :=
  laySeq (layName r.name.labels) (laySeq (laySeg (u16b r.rtype)) (laySeq (laySeg (u16b r.cls))
    (laySeq (laySeg (u32b r.ttl))
      (laySeq (layLen (if r.rdata.isUpdate then layEmpty else layRData r.rdata)) layEmpty))))

theorem isLayout_record (r : Record) (hp : r.rdata.isUpdate = true ∨ r.rdata.proved = true) :
    IsLayout (layRecord r) := by
  unfold layRecord
  refine isLayout_seq (isLayout_name _) (isLayout_seq (isLayout_seg _) (isLayout_seq (isLayout_seg _)
    (isLayout_seq (isLayout_seg _) (isLayout_seq (isLayout_len ?_) isLayout_empty))))
  split
  · exact isLayout_empty
  · rename_i hu
    exact isLayout_rdata _ (by rcases hp with h | h; exact absurd h hu; exact h)

/-- **`Record::emit` leaves the record's layout** (owner name, type, class, TTL, RDLENGTH, RDATA) and
re-establishes the candidate-table invariant. -/
theorem emits_emitRecord (r : Record) (hn : r.name.WF)
    (hp : r.rdata.isUpdate = true ∨ (r.rdata.proved = true ∧ r.rdata.namesWF)) :
    Emits (emitRecord r) (layRecord r) := by
  unfold emitRecord layRecord
  refine emits_seqAll5 (isLayout_name _) (isLayout_seg _) (isLayout_seg _) (isLayout_seg _)
    (isLayout_len ?_) (emits_emitName _ hn) (emits_emitU16 _) (emits_emitU16 _) (emits_emitU32 _) ?_
  · split
    · exact isLayout_empty
    · rename_i hu
      exact isLayout_rdata _ (by rcases hp with h | h; exact absurd h hu; exact h.1)
  · split
    · exact emits_lenPrefixed isLayout_empty emits_nothing
    · rename_i hu
      have hp' : r.rdata.proved = true ∧ r.rdata.namesWF := by
        rcases hp with h | h; exact absurd h hu; exact h
      exact emits_lenPrefixed (isLayout_rdata _ hp'.1) (emits_emitRData _ _ hp'.1 hp'.2)

/-- the layout of a question -/
def layQuery (q : Query) : Lay :=
  laySeq (layName q.name.labels) (laySeq (laySeg (u16b q.qtype)) (laySeq (laySeg (u16b q.qclass)) layEmpty))

theorem isLayout_query (q : Query) : IsLayout (layQuery q) :=
  isLayout_seq (isLayout_name _) (isLayout_seq (isLayout_seg _) (isLayout_seq (isLayout_seg _) isLayout_empty))

theorem emits_emitQuery (q : Query) (hn : q.name.WF) : Emits (emitQuery q) (layQuery q) :=
  emits_seqAll3 (isLayout_name _) (isLayout_seg _) (isLayout_seg _) (emits_emitName _ hn)
    (emits_emitU16 _) (emits_emitU16 _)
/-! ### reading the layouts back -/

theorem Reads.remaining (buf : Bytes) (p : Nat) : Reads Rd.remaining buf p (buf.length - p) p :=
  fun t => ⟨t, rfl⟩

theorem Reads.index (buf : Bytes) (p : Nat) : Reads Rd.index buf p p p := fun t => ⟨t, rfl⟩

theorem Reads.isEmpty (buf : Bytes) (p : Nat) : Reads Rd.isEmpty buf p (decide (buf.length - p = 0)) p :=
  fun t => ⟨t, rfl⟩

theorem Reads.attempt {α} {x : Rd α} {buf : Bytes} {p q : Nat} {a : α} (h : Reads x buf p a q) :
    Reads (Rd.attempt x) buf p (some a) q := by
  intro t
  obtain ⟨t', ht⟩ := h t
  exact ⟨t', by simp only [Rd.attempt, ht]⟩

theorem Reads.splitOff {α} {inner : Rd α} {buf : Bytes} {p q n : Nat} {a : α} (hn : p + n ≤ buf.length)
    (h : Reads inner (buf.take (p + n)) p a q) : Reads (Rd.splitOff n inner) buf p a (p + n) := by
  intro t
  obtain ⟨t', ht⟩ := h t
  refine ⟨t', ?_⟩
  simp only [Rd.splitOff]
  rw [if_neg (by omega), if_neg (by omega), ht]

theorem Reads.readVecToEnd (buf : Bytes) (p : Nat) : Reads Rd.readVecToEnd buf p (buf.drop p) buf.length :=
  fun t => ⟨t, rfl⟩

theorem u32_split (x : Nat) (h : x < 4294967296) :
    ((x / 16777216 % 256 * 256 + x / 65536 % 256) * 256 + x / 256 % 256) * 256 + x % 256 = x := by omega

theorem reads_u16_of_seg {H : Nat × Nat → Prop} {b : Bytes} {p q v : Nat} (h : laySeg (u16b v) H b p q)
    (hv : v < 65536) : Reads Rd.readU16 b p v q := by
  obtain ⟨h1, rfl⟩ := h
  have := Reads.readU16 h1
  rw [u16_split v hv] at this
  exact this

theorem reads_u32_of_seg {H : Nat × Nat → Prop} {b : Bytes} {p q v : Nat} (h : laySeg (u32b v) H b p q)
    (hv : v < 4294967296) : Reads Rd.readU32 b p v q := by
  obtain ⟨h1, rfl⟩ := h
  have := Reads.readU32 h1
  rw [u32_split v hv] at this
  exact this

theorem wf_flat_len {n : Name} (h : n.WF) : (flat n.labels).length + 1 ≤ 255 := by
  have h2 := h.1
  have h3 := flat_length n.labels
  simp only [Name.encodedLen, Name.dataLen] at h2
  omega

theorem reads_name_of_lay {H : Nat × Nat → Prop} {b : Bytes} {p q : Nat} {n : Name}
    (h : layName n.labels H b p q) (hwf : n.WF) : Reads Rd.name b p { n with fqdn := true } q :=
  Reads.name h (wf_flat_len hwf)

/-- a question reads back -/
theorem reads_query {H : Nat × Nat → Prop} {b : Bytes} {p e : Nat} (q : Query) (hn : q.name.WF)
    (ht : q.qtype < 65536) (hc : q.qclass < 65536) (h : layQuery q H b p e) :
    Reads readQuery b p { q with name := { q.name with fqdn := true } } e := by
  obtain ⟨m1, l1, m2, l2, m3, l3, l4⟩ := h
  obtain ⟨rfl, _⟩ := l4
  unfold readQuery
  refine Reads.bind (reads_name_of_lay l1 hn) ?_
  refine Reads.bind (reads_u16_of_seg l2 ht) ?_
  refine Reads.bind (reads_u16_of_seg l3 hc) ?_
  exact Reads.pure _ _ _

/-- `RData::read` around a body that reads `rd` and consumes the (clamped) decoder to its end -/
theorem reads_readRData {opq : Nat → Rd Bytes} {t : Nat} {buf : Bytes} {p : Nat} {rd : RData}
    (ht : ¬ (t = 255 ∨ t = 252 ∨ t = 251)) (hp : p ≤ buf.length)
    (h : Reads (readRDataBody opq t) buf p rd buf.length) : Reads (readRData opq t) buf p rd buf.length := by
  unfold readRData
  refine Reads.bind (Reads.index buf p) ?_
  rw [if_neg ht]
  refine Reads.bind (Reads.attempt h) ?_
  refine Reads.bind (Reads.index buf buf.length) ?_
  rw [if_neg (by omega)]
  refine Reads.bind (Reads.isEmpty buf buf.length) ?_
  simp only [Nat.sub_self, decide_true, Bool.not_true, Bool.false_eq_true, ↓reduceIte]
  exact Reads.pure _ _ _

/-- a type code that `RData::read` dispatches to `Unknown` -/
def UnknownType (t : Nat) : Prop :=
  t ∉ [1, 28, 65305, 5, 2, 12, 15, 6, 16, 33, 13, 10, 41, 0, 250, 37, 62, 52, 53, 44, 61, 257, 35, 64, 65,
       255, 252, 251] ∧ isDnssec t = false

/-- the record type matches the RDATA variant, and the numeric fields are in range -/
def _root_.HickoryVerif.Wire.RData.typeOK (t : Nat) : RData → Prop
  | .a b => t = 1 ∧ b.length = 4
  | .aaaa b => t = 28 ∧ b.length = 16
  | .name _ => t = 2 ∨ t = 5 ∨ t = 12 ∨ t = 65305
  | .mx p _ => t = 15 ∧ p < 65536
  | .srv p w port _ => t = 33 ∧ p < 65536 ∧ w < 65536 ∧ port < 65536
  | .soa _ _ serial refresh retry expire minimum =>
    t = 6 ∧ serial < 4294967296 ∧ minimum < 4294967296 ∧
      (-2147483648 ≤ refresh ∧ refresh < 2147483648) ∧ (-2147483648 ≤ retry ∧ retry < 2147483648) ∧
      (-2147483648 ≤ expire ∧ expire < 2147483648)
  | .txt ss => t = 16 ∧ ∀ s ∈ ss, s.length ≤ 255
  | .hinfo c o => t = 13 ∧ c.length ≤ 255 ∧ o.length ≤ 255
  | .null _ => t = 10
  | .unknown c _ => c = t ∧ UnknownType t
  -- the blob family; what the decoders insist on is part of the contract: a CERT without certificate
  -- data and a CAA whose tag is not 1..15 alphanumerics are refused by `read_data`
  | .ds tag _ _ _ => (t = 43 ∨ t = 59) ∧ tag < 65536
  | .dnskey cd flags _ _ => ((t = 48 ∧ cd = false) ∨ (t = 60 ∧ cd = true)) ∧ flags < 65536
  | .tlsa _ _ _ _ => t = 52 ∨ t = 53
  | .sshfp _ _ _ => t = 44
  | .openpgpkey _ => t = 61
  | .cert ct tag _ d => t = 37 ∧ ct < 65536 ∧ tag < 65536 ∧ d ≠ []
  | .nsec3param _ iter _ => t = 51 ∧ iter < 65536
  | .caa _ _ tag _ => t = 257 ∧ 1 ≤ tag.length ∧ tag.length ≤ 15 ∧ tag.all isAlnum = true
  -- KEY: the flags word `KEY::read_data` accepts (reserved bits clear, no extended flags)
  | .key flags _ _ _ => t = 25 ∧ flags < 65536 ∧ (flags / 8192) % 2 = 0 ∧ (flags / 1024) % 4 = 0 ∧
      (flags / 16) % 16 = 0 ∧ (flags / 4096) % 2 = 0
  | .naptr order pref flags services regexp _ => t = 35 ∧ order < 65536 ∧ pref < 65536 ∧
      flags.length ≤ 255 ∧ services.length ≤ 255 ∧ regexp.length ≤ 255 ∧ flags.all isAlnum = true
  | .sig covered _ _ ottl exp inc tag _ _ => (t = 46 ∨ t = 24) ∧ covered < 65536 ∧ ottl < 4294967296 ∧
      exp < 4294967296 ∧ inc < 4294967296 ∧ tag < 65536
  | .tsig _ _ fudge _ oid err _ => t = 250 ∧ fudge < 65536 ∧ oid < 65536 ∧ err < 65536
  -- the type-bitmap family: the set is in the decoder's normal form `TypeSetOK`; NSEC3's base32 label is
  -- the one computed from the hash; CSYNC's flags pass the (low-octet) mask of `read_data`
  | .nsec _ ts => t = 47 ∧ TypeSetOK ts
  | .nsec3 _ iter _ hash b32 ts => t = 50 ∧ iter < 65536 ∧ b32 = b32Label hash ∧ TypeSetOK ts
  | .csync serial flags ts => t = 62 ∧ serial < 4294967296 ∧ flags < 65536 ∧ (flags % 256) / 4 = 0 ∧ TypeSetOK ts
  | .svcb prio _ _ => (t = 64 ∨ t = 65) ∧ prio < 65536
  | _ => False

/-- the value with every embedded name made fully qualified (what `Name::read` returns) -/
def _root_.HickoryVerif.Wire.RData.fq : RData → RData
  | .name n => .name { n with fqdn := true }
  | .mx p n => .mx p { n with fqdn := true }
  | .srv p w port n => .srv p w port { n with fqdn := true }
  | .soa m r a b c d e => .soa { m with fqdn := true } { r with fqdn := true } a b c d e
  | .naptr o p f s r n => .naptr o p f s r { n with fqdn := true }
  | .sig c a l o e i t signer sg => .sig c a l o e i t { signer with fqdn := true } sg
  -- `TsigAlgorithm::to_name()` gives the algorithm name back relative
  | .tsig alg t f m o e x => .tsig { alg with fqdn := false } t f m o e x
  | .nsec next ts => .nsec { next with fqdn := true } ts
  | .svcb prio target ps => .svcb prio { target with fqdn := true } ps
  | d => d

theorem drop_of_segAt_end {buf d : Bytes} {p : Nat} (h : SegAt buf p d) (he : p + d.length = buf.length) :
    buf.drop p = d := by
  have := h.2
  rwa [List.take_of_length_le (by simp only [List.length_drop]; omega)] at this

theorem Reads.toEnd {α} {p : Bytes → Outcome α × Nat} {buf : Bytes} {pos : Nat} {a : α}
    (h : (p (buf.drop pos)).1 = .ok a) : Reads (toEnd p) buf pos a buf.length := by
  intro t
  refine ⟨t + (p (buf.drop pos)).2, ?_⟩
  show Rd.bind Rd.readVecToEnd (fun d => Rd.bind (Rd.tick (p d).2) fun _ => Rd.lift (p d).1) buf _ = _
  simp only [Rd.bind, Rd.readVecToEnd, Rd.tick, Rd.lift, h]

theorem reads_i32_of_seg {H : Nat × Nat → Prop} {b : Bytes} {p q : Nat} {i : Int}
    (h : laySeg (u32b (i32ToU32 i)) H b p q) (hi : -2147483648 ≤ i ∧ i < 2147483648) :
    Reads Rd.readI32 b p i q := by
  have hv : i32ToU32 i < 4294967296 := by unfold i32ToU32; omega
  have := reads_u32_of_seg h hv
  unfold Rd.readI32
  refine Reads.bind this ?_
  exact Reads.pure' _ _ (i32_roundtrip i hi)

theorem reads_charData {buf s : Bytes} {p : Nat} (h : SegAt buf p (s.length :: s)) :
    Reads Rd.readCharacterData buf p s (p + 1 + s.length) := by
  have g0 := segAt_of_getElem (i := 0) h rfl
  have hs : SegAt buf (p + 1) s := by
    have := SegAt.append_right (a := [s.length]) (b := s) (by simpa using h)
    simpa using this
  unfold Rd.readCharacterData
  refine Reads.bind (show Reads Rd.pop buf p s.length (p + 1) from by simpa using Reads.pop g0) ?_
  exact Reads.readSlice hs

theorem reads_aaaa {opq : Nat → Rd Bytes} {buf b : Bytes} {p : Nat} (hlen : b.length = 16) (hb : ∀ x ∈ b, x < 256)
    (hseg : SegAt buf p b) (hq : buf.length = p + 16) :
    Reads (readRDataBody opq 28) buf p (.aaaa b) buf.length := by
  rcases b with _ | ⟨b0, _ | ⟨b1, _ | ⟨b2, _ | ⟨b3, _ | ⟨b4, _ | ⟨b5, _ | ⟨b6, _ | ⟨b7, _ | ⟨b8, _ | ⟨b9, _ |
    ⟨b10, _ | ⟨b11, _ | ⟨b12, _ | ⟨b13, _ | ⟨b14, _ | ⟨b15, _ | ⟨b16, r⟩⟩⟩⟩⟩⟩⟩⟩⟩⟩⟩⟩⟩⟩⟩⟩⟩ <;> simp at hlen
  have s0 := hseg.sub 0 2 (by simp)
  have s1 := hseg.sub 2 2 (by simp)
  have s2 := hseg.sub 4 2 (by simp)
  have s3 := hseg.sub 6 2 (by simp)
  have s4 := hseg.sub 8 2 (by simp)
  have s5 := hseg.sub 10 2 (by simp)
  have s6 := hseg.sub 12 2 (by simp)
  have s7 := hseg.sub 14 2 (by simp)
  simp only [List.drop, List.take] at s0 s1 s2 s3 s4 s5 s6 s7
  simp only [readRDataBody, Nat.reduceEqDiff, ↓reduceIte]
  refine Reads.bind (Reads.readU16 s0) ?_
  refine Reads.bind (Reads.readU16 s1) ?_
  refine Reads.bind (Reads.readU16 s2) ?_
  refine Reads.bind (Reads.readU16 s3) ?_
  refine Reads.bind (Reads.readU16 s4) ?_
  refine Reads.bind (Reads.readU16 s5) ?_
  refine Reads.bind (Reads.readU16 s6) ?_
  refine Reads.bind (Reads.readU16 s7) ?_
  have e : p + 0 + 2 + 2 + 2 + 2 + 2 + 2 + 2 + 2 = buf.length := by omega
  have hh : ∀ x y : Nat, x < 256 → y < 256 → (x * 256 + y) / 256 = x ∧ (x * 256 + y) % 256 = y := by
    intro x y hx hy; omega
  have a0 := hh b0 b1 (hb _ (by simp)) (hb _ (by simp))
  have a1 := hh b2 b3 (hb _ (by simp)) (hb _ (by simp))
  have a2 := hh b4 b5 (hb _ (by simp)) (hb _ (by simp))
  have a3 := hh b6 b7 (hb _ (by simp)) (hb _ (by simp))
  have a4 := hh b8 b9 (hb _ (by simp)) (hb _ (by simp))
  have a5 := hh b10 b11 (hb _ (by simp)) (hb _ (by simp))
  have a6 := hh b12 b13 (hb _ (by simp)) (hb _ (by simp))
  have a7 := hh b14 b15 (hb _ (by simp)) (hb _ (by simp))
  have hp : p + 2 + 2 + 2 + 2 + 2 + 2 + 2 + 2 = buf.length := by omega
  simp only [Nat.add_zero] at *
  rw [← hp]
  refine Reads.pure' _ _ ?_
  rw [a0.1, a0.2, a1.1, a1.2, a2.1, a2.2, a3.1, a3.2, a4.1, a4.2, a5.1, a5.2, a6.1, a6.2, a7.1, a7.2]

/-- **the RDATA decoders invert the RDATA emitters** (covered variants) -/
theorem segAt_cons_get {buf : Bytes} {p x : Nat} {rest : Bytes} (h : SegAt buf p (x :: rest)) :
    buf[p]? = some x := by
  have := segAt_of_getElem (i := 0) h rfl; simpa using this

theorem segAt_cons_tail {buf : Bytes} {p x : Nat} {rest : Bytes} (h : SegAt buf p (x :: rest)) :
    SegAt buf (p + 1) rest := by
  have := SegAt.append_right (a := [x]) (b := rest) (by simpa using h); simpa using this

theorem reads_u16_seg {buf rest : Bytes} {p v : Nat} (h : SegAt buf p (u16b v ++ rest)) (hv : v < 65536) :
    Reads Rd.readU16 buf p v (p + 2) :=
  reads_u16_of_seg (H := fun _ => True) ⟨h.append_left, rfl⟩ hv

theorem segAt_u16_tail {buf rest : Bytes} {p v : Nat} (h : SegAt buf p (u16b v ++ rest)) :
    SegAt buf (p + 2) rest := by simpa [u16b] using h.append_right

theorem reads_toEnd_seg {buf rest : Bytes} {p : Nat} (h : SegAt buf p rest) (he : p + rest.length = buf.length) :
    Reads Rd.readVecToEnd buf p rest buf.length := by
  have := Reads.readVecToEnd buf p; rwa [drop_of_segAt_end h he] at this

theorem reads_typeSet {buf : Bytes} {p : Nat} (ts : TypeSet) (hok : TypeSetOK ts)
    (h : SegAt buf p (tsBytes ts)) (he : p + (tsBytes ts).length = buf.length) :
    Reads readTypeSet buf p ts buf.length := by
  obtain ⟨bs, ho, hp⟩ := hok
  have hb : tsBytes ts = bs := by simp [tsBytes, ho]
  rw [hb] at h he
  unfold readTypeSet
  refine Reads.toEnd ?_
  rw [drop_of_segAt_end h he]
  simp only [hp, Outcome.map]
  congr 1
  cases ts with
  | mk types orig => simp only at ho; subst ho; rfl

theorem reads_readTag {buf : Bytes} : ∀ (tag acc : Bytes) (p : Nat), SegAt buf p tag → tag.all isAlnum = true →
    Reads (readTag tag.length acc) buf p (acc ++ tag) (p + tag.length)
  | [], acc, p, _, _ => by simpa [readTag] using Reads.pure acc buf p
  | c :: tag, acc, p, h, hall => by
    simp only [List.all_cons, Bool.and_eq_true] at hall
    simp only [List.length_cons, readTag]
    refine Reads.bind (Reads.pop (segAt_cons_get h)) ?_
    rw [if_pos hall.1]
    have := reads_readTag tag (acc ++ [c]) (p + 1) (segAt_cons_tail h) hall.2
    simpa [List.append_assoc, Nat.add_assoc, Nat.add_comm 1] using this

theorem reads_rdataBody {H : Nat × Nat → Prop} {opq : Nat → Rd Bytes} {t : Nat} {buf : Bytes} {p : Nat}
    (d : RData) (hp : d.proved = true) (hty : d.typeOK t) (hwf : d.namesWF)
    (hl : layRData d H buf p buf.length) : Reads (readRDataBody opq t) buf p d.fq buf.length := by
  cases d <;> first | (simp [RData.proved] at hp; done) | skip
  case a b =>
    obtain ⟨rfl, hlen⟩ := hty
    obtain ⟨hseg, hq⟩ := hl
    rcases b with _ | ⟨a0, _ | ⟨a1, _ | ⟨a2, _ | ⟨a3, _ | ⟨a4, r⟩⟩⟩⟩⟩ <;> simp at hlen
    have g0 := segAt_of_getElem (i := 0) hseg rfl
    have g1 := segAt_of_getElem (i := 1) hseg rfl
    have g2 := segAt_of_getElem (i := 2) hseg rfl
    have g3 := segAt_of_getElem (i := 3) hseg rfl
    simp only [readRDataBody, ↓reduceIte]
    refine Reads.bind (Reads.pop g0) ?_
    refine Reads.bind (Reads.pop g1) ?_
    refine Reads.bind (Reads.pop g2) ?_
    refine Reads.bind (Reads.pop g3) ?_
    have : p + 0 + 1 + 1 + 1 + 1 = buf.length := by simp at hq; omega
    rw [← this]
    exact Reads.pure _ _ _
  case aaaa b =>
    obtain ⟨rfl, _⟩ := hty
    obtain ⟨hseg, hq⟩ := hl
    exact reads_aaaa hwf.1 hwf.2 hseg (by rw [hq, hwf.1])
  case name n =>
    have hbody : readRDataBody opq t = (do let n ← Rd.name; pure (.name n)) := by
      unfold readRDataBody
      rcases hty with rfl | rfl | rfl | rfl <;> simp
    rw [hbody]
    refine Reads.bind (reads_name_of_lay hl hwf) ?_
    exact Reads.pure _ _ _
  case mx pr n =>
    obtain ⟨rfl, hpr⟩ := hty
    obtain ⟨m1, l1, m2, l2, l3⟩ := hl
    obtain ⟨rfl, _⟩ := l3
    simp only [readRDataBody, Nat.reduceEqDiff, ↓reduceIte, or_self]
    refine Reads.bind (reads_u16_of_seg l1 hpr) ?_
    refine Reads.bind (reads_name_of_lay l2 hwf) ?_
    exact Reads.pure _ _ _
  case srv pr w port n =>
    obtain ⟨rfl, hpr, hw, hport⟩ := hty
    obtain ⟨m1, l1, m2, l2, m3, l3, m4, l4, l5⟩ := hl
    obtain ⟨rfl, _⟩ := l5
    simp only [readRDataBody, Nat.reduceEqDiff, ↓reduceIte, or_self]
    refine Reads.bind (reads_u16_of_seg l1 hpr) ?_
    refine Reads.bind (reads_u16_of_seg l2 hw) ?_
    refine Reads.bind (reads_u16_of_seg l3 hport) ?_
    refine Reads.bind (reads_name_of_lay l4 hwf) ?_
    exact Reads.pure _ _ _
  case soa m r serial refresh retry expire minimum =>
    obtain ⟨rfl, hser, hmin, hrf, hrt, hex⟩ := hty
    obtain ⟨m1, l1, m2, l2, m3, l3, m4, l4, m5, l5, m6, l6, m7, l7, l8⟩ := hl
    obtain ⟨rfl, _⟩ := l8
    simp only [readRDataBody, Nat.reduceEqDiff, ↓reduceIte, or_self]
    refine Reads.bind (reads_name_of_lay l1 hwf.1) ?_
    refine Reads.bind (reads_name_of_lay l2 hwf.2) ?_
    refine Reads.bind (reads_u32_of_seg l3 hser) ?_
    refine Reads.bind (reads_i32_of_seg l4 hrf) ?_
    refine Reads.bind (reads_i32_of_seg l5 hrt) ?_
    refine Reads.bind (reads_i32_of_seg l6 hex) ?_
    refine Reads.bind (reads_u32_of_seg l7 hmin) ?_
    exact Reads.pure _ _ _
  case txt ss =>
    obtain ⟨rfl, hss⟩ := hty
    obtain ⟨hseg, hq⟩ := hl
    simp only [readRDataBody, Nat.reduceEqDiff, ↓reduceIte, or_self]
    refine Reads.bind (Reads.toEnd (a := ss) ?_) ?_
    · rw [drop_of_segAt_end hseg hq.symm]; exact parseTxt_flat ss hss
    · exact Reads.pure _ _ _
  case hinfo c o =>
    obtain ⟨rfl, hc, ho⟩ := hty
    obtain ⟨hseg, hq⟩ := hl
    have s1 : SegAt buf p (c.length :: c) := hseg.append_left
    have s2 : SegAt buf (p + (c.length :: c).length) (o.length :: o) := hseg.append_right
    simp only [readRDataBody, Nat.reduceEqDiff, ↓reduceIte, or_self]
    refine Reads.bind (reads_charData s1) ?_
    have : p + (c.length :: c).length = p + 1 + c.length := by simp; omega
    rw [this] at s2
    refine Reads.bind (reads_charData s2) ?_
    have hend : p + 1 + c.length + 1 + o.length = buf.length := by
      simp only [List.length_append, List.length_cons] at hq; omega
    rw [hend]
    exact Reads.pure _ _ _
  case null d =>
    obtain rfl := hty
    obtain ⟨hseg, hq⟩ := hl
    simp only [readRDataBody, Nat.reduceEqDiff, ↓reduceIte, or_self]
    refine Reads.bind (Reads.readVecToEnd buf p) ?_
    rw [drop_of_segAt_end hseg hq.symm]
    exact Reads.pure _ _ _
  case unknown c d =>
    obtain ⟨rfl, hu1, hu2⟩ := hty
    obtain ⟨hseg, hq⟩ := hl
    simp only [List.mem_cons, List.not_mem_nil, or_false, not_or] at hu1
    obtain ⟨n1, n2, n3, n4, n5, n6, n7, n8, n9, n10, n11, n12, n13, n14, n15, n16, n17, n18, n19, n20,
      n21, n22, n23, n24, n25, _, _, _⟩ := hu1
    have hbody : readRDataBody opq c = (do let d ← Rd.readVecToEnd; pure (.unknown c d)) := by
      unfold readRDataBody
      simp [n1, n2, n3, n4, n5, n6, n7, n8, n9, n10, n11, n12, n13, n14, n15, n16, n17, n18, n19, n20,
        n21, n22, n23, n24, n25, hu2, unmodelled]
    rw [hbody]
    refine Reads.bind (Reads.readVecToEnd buf p) ?_
    rw [drop_of_segAt_end hseg hq.symm]
    exact Reads.pure _ _ _
  case ds tag alg dt dg =>
    obtain ⟨ht, htag⟩ := hty
    obtain ⟨hseg, hq⟩ := hl
    simp only [blobWire, List.length_append, List.length_cons, List.length_nil, u16b] at hq
    have s1 := segAt_u16_tail hseg
    have s2 := segAt_cons_tail s1
    have s3 : SegAt buf (p + 2 + 1 + 1) dg := segAt_cons_tail s2
    have hbody : readRDataBody opq t = (do
        let tag ← Rd.readU16; let alg ← Rd.pop; let dt ← Rd.pop
        let d ← Rd.readVecToEnd
        pure (.ds tag alg dt d)) := by
      rcases ht with rfl | rfl <;> rfl
    rw [hbody]
    refine Reads.bind (reads_u16_seg hseg htag) ?_
    refine Reads.bind (Reads.pop (segAt_cons_get s1)) ?_
    refine Reads.bind (Reads.pop (segAt_cons_get s2)) ?_
    refine Reads.bind (reads_toEnd_seg s3 (by omega)) ?_
    exact Reads.pure _ _ _
  case dnskey cd flags alg key =>
    obtain ⟨ht, hfl⟩ := hty
    obtain ⟨hseg, hq⟩ := hl
    simp only [blobWire, List.length_append, List.length_cons, List.length_nil, u16b] at hq
    have s1 := segAt_u16_tail hseg
    have s2 := segAt_cons_tail s1
    have s3 : SegAt buf (p + 2 + 1 + 1) key := segAt_cons_tail s2
    have hbody : readRDataBody opq t = (do
        let flags ← Rd.readU16
        let proto ← Rd.pop
        if proto ≠ 3 then Rd.fail
        else
          let alg ← Rd.pop
          let k ← Rd.readVecToEnd
          pure (.dnskey cd flags alg k)) := by
      rcases ht with ⟨rfl, rfl⟩ | ⟨rfl, rfl⟩ <;> rfl
    rw [hbody]
    refine Reads.bind (reads_u16_seg hseg hfl) ?_
    refine Reads.bind (Reads.pop (segAt_cons_get s1)) ?_
    rw [if_neg (by simp)]
    refine Reads.bind (Reads.pop (segAt_cons_get s2)) ?_
    refine Reads.bind (reads_toEnd_seg s3 (by omega)) ?_
    exact Reads.pure _ _ _
  case tlsa u sel m d =>
    obtain ⟨hseg, hq⟩ := hl
    simp only [blobWire, List.length_append, List.length_cons, List.length_nil] at hq
    have s1 := segAt_cons_tail hseg
    have s2 := segAt_cons_tail s1
    have s3 : SegAt buf (p + 1 + 1 + 1) d := segAt_cons_tail s2
    have hbody : readRDataBody opq t = (do
        let u ← Rd.pop; let sel ← Rd.pop; let m ← Rd.pop
        let d ← Rd.readVecToEnd
        pure (.tlsa u sel m d)) := by
      rcases hty with rfl | rfl <;> rfl
    rw [hbody]
    refine Reads.bind (Reads.pop (segAt_cons_get hseg)) ?_
    refine Reads.bind (Reads.pop (segAt_cons_get s1)) ?_
    refine Reads.bind (Reads.pop (segAt_cons_get s2)) ?_
    refine Reads.bind (reads_toEnd_seg s3 (by omega)) ?_
    exact Reads.pure _ _ _
  case sshfp a f d =>
    obtain rfl := hty
    obtain ⟨hseg, hq⟩ := hl
    simp only [blobWire, List.length_append, List.length_cons, List.length_nil] at hq
    have s1 := segAt_cons_tail hseg
    have s2 : SegAt buf (p + 1 + 1) d := segAt_cons_tail s1
    have hbody : readRDataBody opq 44 = (do
        let a ← Rd.pop; let f ← Rd.pop
        let d ← Rd.readVecToEnd
        pure (.sshfp a f d)) := rfl
    rw [hbody]
    refine Reads.bind (Reads.pop (segAt_cons_get hseg)) ?_
    refine Reads.bind (Reads.pop (segAt_cons_get s1)) ?_
    refine Reads.bind (reads_toEnd_seg s2 (by omega)) ?_
    exact Reads.pure _ _ _
  case openpgpkey d =>
    obtain rfl := hty
    obtain ⟨hseg, hq⟩ := hl
    simp only [blobWire] at hq hseg
    have hbody : readRDataBody opq 61 = (do
        let d ← Rd.readVecToEnd
        pure (.openpgpkey d)) := rfl
    rw [hbody]
    refine Reads.bind (reads_toEnd_seg hseg (by omega)) ?_
    exact Reads.pure _ _ _
  case cert ct tag alg d =>
    obtain ⟨rfl, hct, htag, hne⟩ := hty
    obtain ⟨hseg, hq⟩ := hl
    simp only [blobWire, List.length_append, List.length_cons, List.length_nil, u16b] at hq
    have hdl : 0 < d.length := List.length_pos_iff.2 hne
    have s1 := segAt_u16_tail hseg
    have s2 := segAt_u16_tail s1
    have s3 : SegAt buf (p + 2 + 2 + 1) d := segAt_cons_tail s2
    have hbody : readRDataBody opq 37 = (do
        let left ← Rd.remaining
        if left ≤ 5 then Rd.fail
        else
          let ct ← Rd.readU16; let tag ← Rd.readU16; let alg ← Rd.pop
          let d ← Rd.readVecToEnd
          pure (.cert ct tag alg d)) := rfl
    rw [hbody]
    refine Reads.bind (Reads.remaining buf p) ?_
    rw [if_neg (by omega)]
    refine Reads.bind (reads_u16_seg hseg hct) ?_
    refine Reads.bind (reads_u16_seg s1 htag) ?_
    refine Reads.bind (Reads.pop (segAt_cons_get s2)) ?_
    refine Reads.bind (reads_toEnd_seg s3 (by omega)) ?_
    exact Reads.pure _ _ _
  case nsec3param oo iter salt =>
    obtain ⟨rfl, hit⟩ := hty
    obtain ⟨hseg, hq⟩ := hl
    simp only [blobWire, List.length_append, List.length_cons, List.length_nil, u16b] at hq
    have s1 := segAt_cons_tail hseg
    have s2 := segAt_cons_tail s1
    have s3 := segAt_u16_tail s2
    have s4 : SegAt buf (p + 1 + 1 + 2 + 1) salt := segAt_cons_tail s3
    have hbody : readRDataBody opq 51 = (do
        let (optOut, iter, salt) ← readNsec3Head
        pure (.nsec3param optOut iter salt)) := rfl
    rw [hbody]
    have hhead : Reads readNsec3Head buf p (oo, iter, salt) buf.length := by
      unfold readNsec3Head
      refine Reads.bind (Reads.pop (segAt_cons_get hseg)) ?_
      rw [if_neg (by simp)]
      refine Reads.bind (Reads.pop (segAt_cons_get s1)) ?_
      rw [if_neg (by cases oo <;> simp)]
      refine Reads.bind (reads_u16_seg s2 hit) ?_
      refine Reads.bind (Reads.pop (segAt_cons_get s3)) ?_
      refine Reads.bind (Reads.remaining buf _) ?_
      rw [if_neg (by omega)]
      refine Reads.bind (Reads.readSlice s4) ?_
      have he : p + 1 + 1 + 2 + 1 + salt.length = buf.length := by omega
      rw [he]
      refine Reads.pure' _ _ ?_
      cases oo <;> simp
    refine Reads.bind hhead ?_
    exact Reads.pure _ _ _
  case svcb prio target ps =>
    obtain ⟨ht, hprio⟩ := hty
    obtain ⟨m1, l1, m2, l2, m3, l3, l4⟩ := hl
    obtain ⟨rfl, _⟩ := l4
    obtain ⟨g3, e3⟩ := l3
    have hbody : readRDataBody opq t = (do
        let prio ← Rd.readU16
        let target ← Rd.name
        let ps ← Rd.parsePrefix fun d => svcParams d none []
        pure (.svcb prio target ps)) := by
      rcases ht with rfl | rfl <;> rfl
    rw [hbody]
    refine Reads.bind (reads_u16_of_seg l1 hprio) ?_
    refine Reads.bind (reads_name_of_lay l2 hwf.1) ?_
    have hd : buf.drop m2 = paramsBytes ps := drop_of_segAt_end g3 e3.symm
    have hpp := Reads.parsePrefix (p := fun d => svcParams d none []) (buf := buf) (pos := m2) (a := ps)
      (used := (paramsBytes ps).length) (by rw [hd]; simpa using svcParams_bytes ps none [] hwf.2) (by omega)
    rw [← e3] at hpp
    refine Reads.bind hpp ?_
    exact Reads.pure _ _ _
  case nsec next ts =>
    obtain ⟨rfl, hts⟩ := hty
    obtain ⟨m1, l1, m2, l2, l3⟩ := hl
    obtain ⟨rfl, _⟩ := l3
    obtain ⟨g2, e2⟩ := l2
    have hbody : readRDataBody opq 47 = readDnssec 47 := rfl
    rw [hbody]
    simp only [readDnssec, Nat.reduceEqDiff, ↓reduceIte, or_self]
    refine Reads.bind (reads_name_of_lay l1 hwf.1) ?_
    refine Reads.bind (reads_typeSet ts hts g2 e2.symm) ?_
    exact Reads.pure _ _ _
  case nsec3 oo iter salt hash b32 ts =>
    obtain ⟨rfl, hit, hb32, hts⟩ := hty
    obtain ⟨hsl, hhl, _⟩ := hwf
    obtain ⟨hseg, hq⟩ := hl
    simp only [blobWire, List.length_append, List.length_cons, List.length_nil, u16b] at hq
    have s1 := segAt_cons_tail hseg
    have s2 := segAt_cons_tail s1
    have s3 := segAt_u16_tail s2
    have s4 : SegAt buf (p + 1 + 1 + 2 + 1) (salt ++ ([hash.length] ++ (hash ++ tsBytes ts))) := segAt_cons_tail s3
    have s5 : SegAt buf (p + 1 + 1 + 2 + 1) salt := s4.append_left
    have s6 : SegAt buf (p + 1 + 1 + 2 + 1 + salt.length) ([hash.length] ++ (hash ++ tsBytes ts)) := s4.append_right
    have s7 : SegAt buf (p + 1 + 1 + 2 + 1 + salt.length + 1) (hash ++ tsBytes ts) := segAt_cons_tail s6
    have s8 : SegAt buf (p + 1 + 1 + 2 + 1 + salt.length + 1) hash := s7.append_left
    have s9 : SegAt buf (p + 1 + 1 + 2 + 1 + salt.length + 1 + hash.length) (tsBytes ts) := s7.append_right
    have hbody : readRDataBody opq 50 = readDnssec 50 := rfl
    rw [hbody]
    simp only [readDnssec, Nat.reduceEqDiff, ↓reduceIte, or_self]
    have hhead : Reads readNsec3Head buf p (oo, iter, salt) (p + 1 + 1 + 2 + 1 + salt.length) := by
      unfold readNsec3Head
      refine Reads.bind (Reads.pop (segAt_cons_get hseg)) ?_
      rw [if_neg (by simp)]
      refine Reads.bind (Reads.pop (segAt_cons_get s1)) ?_
      rw [if_neg (by cases oo <;> simp)]
      refine Reads.bind (reads_u16_seg s2 hit) ?_
      refine Reads.bind (Reads.pop (segAt_cons_get s3)) ?_
      refine Reads.bind (Reads.remaining buf _) ?_
      rw [if_neg (by omega)]
      refine Reads.bind (Reads.readSlice s5) ?_
      refine Reads.pure' _ _ ?_
      cases oo <;> simp
    refine Reads.bind hhead ?_
    simp only
    refine Reads.bind (Reads.pop (segAt_cons_get s6)) ?_
    refine Reads.bind (Reads.remaining buf _) ?_
    rw [if_neg (by omega)]
    refine Reads.bind (Reads.readSlice s8) ?_
    refine Reads.bind (reads_typeSet ts hts s9 (by omega)) ?_
    refine Reads.pure' _ _ ?_
    rw [hb32]; rfl
  case csync serial flags ts =>
    obtain ⟨rfl, hser, hfl, hmask, hts⟩ := hty
    obtain ⟨hseg, hq⟩ := hl
    simp only [blobWire, List.length_append, List.length_cons, List.length_nil, u16b, u32b] at hq
    have s1 : SegAt buf (p + 4) (u16b flags ++ tsBytes ts) := by simpa [u32b] using hseg.append_right
    have s2 := segAt_u16_tail s1
    have hbody : readRDataBody opq 62 = (do
        let serial ← Rd.readU32
        let flags ← Rd.readU16
        if (flags % 256) / 4 ≠ 0 then Rd.fail
        else
          let ts ← readTypeSet
          pure (.csync serial flags ts)) := rfl
    rw [hbody]
    refine Reads.bind (reads_u32_of_seg (H := fun _ => True) ⟨hseg.append_left, rfl⟩ hser) ?_
    refine Reads.bind (reads_u16_seg s1 hfl) ?_
    rw [if_neg (by omega)]
    have he : p + 4 + 2 + (tsBytes ts).length = buf.length := by
      omega
    refine Reads.bind (reads_typeSet ts hts s2 he) ?_
    exact Reads.pure _ _ _
  case key flags proto alg k =>
    obtain ⟨rfl, hfl, hk1, hk2, hk3, hk4⟩ := hty
    obtain ⟨hseg, hq⟩ := hl
    simp only [blobWire, List.length_append, List.length_cons, List.length_nil, u16b] at hq
    have s1 := segAt_u16_tail hseg
    have s2 := segAt_cons_tail s1
    have s3 : SegAt buf (p + 2 + 1 + 1) k := segAt_cons_tail s2
    have hbody : readRDataBody opq 25 = readDnssec 25 := rfl
    rw [hbody]
    simp only [readDnssec, Nat.reduceEqDiff, ↓reduceIte, or_self]
    refine Reads.bind (reads_u16_seg hseg hfl) ?_
    rw [if_neg (by omega), if_neg (by omega), if_neg (by omega), if_neg (by omega)]
    refine Reads.bind (Reads.pop (segAt_cons_get s1)) ?_
    refine Reads.bind (Reads.pop (segAt_cons_get s2)) ?_
    refine Reads.bind (reads_toEnd_seg s3 (by omega)) ?_
    exact Reads.pure _ _ _
  case naptr order pref flags services regexp n =>
    obtain ⟨rfl, ho, hpf, hf, hs, hr, hal⟩ := hty
    obtain ⟨m1, l1, m2, l2, m3, l3, m4, l4, m5, l5, m6, l6, l7⟩ := hl
    obtain ⟨rfl, _⟩ := l7
    obtain ⟨g3, rfl⟩ := l3
    obtain ⟨g4, rfl⟩ := l4
    obtain ⟨g5, rfl⟩ := l5
    have hbody : readRDataBody opq 35 = (do
        let order ← Rd.readU16
        let pref ← Rd.readU16
        let flags ← Rd.readCharacterData
        if !flags.all isAlnum then Rd.fail
        else
          let services ← Rd.readCharacterData
          let regexp ← Rd.readCharacterData
          let n ← Rd.name
          pure (.naptr order pref flags services regexp n)) := rfl
    rw [hbody]
    refine Reads.bind (reads_u16_of_seg l1 ho) ?_
    refine Reads.bind (reads_u16_of_seg l2 hpf) ?_
    refine Reads.bind (reads_charData g3) ?_
    rw [if_neg (by simp [hal])]
    have e3 : m2 + (flags.length :: flags).length = m2 + 1 + flags.length := by simp; omega
    rw [e3] at g4 l6 g5
    refine Reads.bind (reads_charData g4) ?_
    have e4 : m2 + 1 + flags.length + (services.length :: services).length =
        m2 + 1 + flags.length + 1 + services.length := by simp; omega
    rw [e4] at g5 l6
    refine Reads.bind (reads_charData g5) ?_
    have e5 : m2 + 1 + flags.length + 1 + services.length + (regexp.length :: regexp).length =
        m2 + 1 + flags.length + 1 + services.length + 1 + regexp.length := by simp; omega
    rw [e5] at l6
    refine Reads.bind (reads_name_of_lay l6 hwf) ?_
    exact Reads.pure _ _ _
  case sig covered alg labels ottl exp inc tag signer sg =>
    obtain ⟨ht, hc, ho, he, hi, htg⟩ := hty
    obtain ⟨mA, lA, lB⟩ := hl
    obtain ⟨m1, l1, m2, l2, m3, l3, m4, l4, m5, l5, m6, l6, m7, l7, m8, l8, l9⟩ := lA
    obtain ⟨rfl, _⟩ := l9
    obtain ⟨mB, lsg, lend⟩ := lB
    obtain ⟨rfl, _⟩ := lend
    obtain ⟨g2, rfl⟩ := l2
    obtain ⟨g3, rfl⟩ := l3
    obtain ⟨gsg, hq⟩ := lsg
    have hbody : readRDataBody opq t = (do
        let covered ← Rd.readU16
        let alg ← Rd.pop
        let labels ← Rd.pop
        let ottl ← Rd.readU32
        let exp ← Rd.readU32
        let inc ← Rd.readU32
        let tag ← Rd.readU16
        let signer ← Rd.name
        let sg ← Rd.readVecToEnd
        pure (.sig covered alg labels ottl exp inc tag signer sg)) := by
      rcases ht with rfl | rfl <;> rfl
    rw [hbody]
    refine Reads.bind (reads_u16_of_seg l1 hc) ?_
    refine Reads.bind (Reads.pop (segAt_cons_get g2)) ?_
    refine Reads.bind (Reads.pop (segAt_cons_get g3)) ?_
    simp only [List.length_cons, List.length_nil, Nat.zero_add] at l4
    refine Reads.bind (reads_u32_of_seg l4 ho) ?_
    refine Reads.bind (reads_u32_of_seg l5 he) ?_
    refine Reads.bind (reads_u32_of_seg l6 hi) ?_
    refine Reads.bind (reads_u16_of_seg l7 htg) ?_
    refine Reads.bind (reads_name_of_lay l8 hwf.1) ?_
    refine Reads.bind (reads_toEnd_seg gsg hq.symm) ?_
    exact Reads.pure _ _ _
  case tsig alg time fudge mac oid err other =>
    obtain ⟨rfl, hf, ho, he⟩ := hty
    obtain ⟨halg, htime, hmac, hother⟩ := hwf
    obtain ⟨m1, l1, m2, l2, m3, l3, m4, l4, m5, l5, m6, l6, m7, l7, m8, l8, m9, l9, m10, l10, l11⟩ := hl
    obtain ⟨rfl, _⟩ := l11
    have b1 := (isLayout_name _).bounds l1
    have e2 := l2.2; have e3 := l3.2; have e4 := l4.2; have e5 := l5.2
    have e7 := l7.2; have e8 := l8.2; have e9 := l9.2
    obtain ⟨g6, e6⟩ := l6
    obtain ⟨g10, e10⟩ := l10
    simp only [u16b, u32b, List.length_cons, List.length_nil] at e2 e3 e4 e5 e7 e8 e9
    have hbody : readRDataBody opq 250 = readTsig := rfl
    rw [hbody]
    unfold readTsig
    refine Reads.bind (Reads.remaining buf p) ?_
    refine Reads.bind (Reads.index buf p) ?_
    refine Reads.bind (reads_name_of_lay l1 halg) ?_
    refine Reads.bind (reads_u16_of_seg l2 (by omega)) ?_
    refine Reads.bind (reads_u32_of_seg l3 (by omega)) ?_
    refine Reads.bind (reads_u16_of_seg l4 hf) ?_
    refine Reads.bind (reads_u16_of_seg l5 hmac) ?_
    refine Reads.bind (Reads.index buf m5) ?_
    rw [if_neg (fun hn => hn (by omega))]
    rw [e6] at l7
    refine Reads.bind (Reads.readSlice g6) ?_
    refine Reads.bind (reads_u16_of_seg l7 ho) ?_
    refine Reads.bind (reads_u16_of_seg l8 he) ?_
    refine Reads.bind (reads_u16_of_seg l9 hother) ?_
    refine Reads.bind (Reads.index buf m9) ?_
    rw [if_neg (fun hn => hn (by omega))]
    have := Reads.readSlice g10
    rw [← e10] at this
    refine Reads.bind this ?_
    refine Reads.pure' _ _ ?_
    have ht : time / 4294967296 * 4294967296 + time % 4294967296 = time := by omega
    simp only [RData.fq, ht]
  case caa cr rs tag v =>
    obtain ⟨rfl, ht1, ht15, hal⟩ := hty
    obtain ⟨hseg, hq⟩ := hl
    simp only [blobWire, List.length_append, List.length_cons, List.length_nil] at hq
    have s1 := segAt_cons_tail hseg
    have s2 : SegAt buf (p + 1 + 1) (tag ++ v) := segAt_cons_tail s1
    have s3 : SegAt buf (p + 1 + 1) tag := s2.append_left
    have s4 : SegAt buf (p + 1 + 1 + tag.length) v := s2.append_right
    have hbody : readRDataBody opq 257 = (do
        let flags ← Rd.pop
        let tagLen ← Rd.pop
        if tagLen = 0 ∨ tagLen > 15 then Rd.fail
        else
          let tag ← readTag tagLen []
          let v ← Rd.readVecToEnd
          pure (.caa (decide (flags / 128 = 1)) (flags % 128) tag v)) := rfl
    rw [hbody]
    refine Reads.bind (Reads.pop (segAt_cons_get hseg)) ?_
    refine Reads.bind (Reads.pop (segAt_cons_get s1)) ?_
    rw [if_neg (by omega)]
    have := reads_readTag tag [] (p + 1 + 1) s3 hal
    simp only [List.nil_append] at this
    refine Reads.bind this ?_
    refine Reads.bind (reads_toEnd_seg s4 (by omega)) ?_
    have hrs := hwf.1
    have e1 : decide ((rs + (if cr then 128 else 0)) / 128 = 1) = cr := by cases cr <;> simp <;> omega
    have e2 : (rs + (if cr then 128 else 0)) % 128 = rs := by cases cr <;> simp <;> omega
    rw [e1, e2]
    exact Reads.pure _ _ _

/-- RDATA that encodes to at least one octet (RDLENGTH 0 is read as `Update0`) -/
def _root_.HickoryVerif.Wire.RData.nonEmpty : RData → Prop
  | .txt ss => ss ≠ []
  | .null d => d ≠ []
  | .unknown _ d => d ≠ []
  | .openpgpkey d => d ≠ []
  | _ => True

theorem layRData_pos {H : Nat × Nat → Prop} {b : Bytes} {p q : Nat} (d : RData) (hp : d.proved = true)
    (hty : ∃ t, d.typeOK t) (hne : d.nonEmpty) (hl : layRData d H b p q) : p < q := by
  obtain ⟨t, hty⟩ := hty
  cases d <;> first | (simp [RData.proved] at hp; done) | skip
  case a bb => obtain ⟨_, rfl⟩ := hl; have := hty.2; omega
  case aaaa bb => obtain ⟨_, rfl⟩ := hl; have := hty.2; omega
  case name n => obtain ⟨F, h1, _⟩ := hl; exact h1.pos_lt_end
  case mx pr n =>
    obtain ⟨m1, l1, m2, l2, l3⟩ := hl
    obtain ⟨_, rfl⟩ := l1
    have := (isLayout_name _).bounds l2
    obtain ⟨rfl, _⟩ := l3
    simp [u16b] at *; omega
  case srv pr w port n =>
    obtain ⟨m1, l1, m2, l2, m3, l3, m4, l4, l5⟩ := hl
    obtain ⟨_, rfl⟩ := l1
    have := (isLayout_seg _).bounds l2
    have := (isLayout_seg _).bounds l3
    have := (isLayout_name _).bounds l4
    obtain ⟨rfl, _⟩ := l5
    simp [u16b] at *; omega
  case soa m r serial refresh retry expire minimum =>
    obtain ⟨m1, l1, rest⟩ := hl
    obtain ⟨F, h1, _⟩ := l1
    have h2 := h1.pos_lt_end
    obtain ⟨m2, l2, m3, l3, m4, l4, m5, l5, m6, l6, m7, l7, l8⟩ := rest
    have b2 := (isLayout_name _).bounds l2
    have b3 := (isLayout_seg _).bounds l3
    have b4 := (isLayout_seg _).bounds l4
    have b5 := (isLayout_seg _).bounds l5
    have b6 := (isLayout_seg _).bounds l6
    have b7 := (isLayout_seg _).bounds l7
    obtain ⟨rfl, _⟩ := l8
    omega
  case txt ss =>
    obtain ⟨_, rfl⟩ := hl
    cases ss with
    | nil => exact absurd rfl hne
    | cons x xs => simp [flat_cons]
  case hinfo c o =>
    obtain ⟨_, rfl⟩ := hl
    simp
  case null dd =>
    obtain ⟨_, rfl⟩ := hl
    have : dd.length ≠ 0 := fun h => hne (List.eq_nil_of_length_eq_zero h)
    omega
  case unknown c dd =>
    obtain ⟨_, rfl⟩ := hl
    have : dd.length ≠ 0 := fun h => hne (List.eq_nil_of_length_eq_zero h)
    omega
  case openpgpkey dd =>
    obtain ⟨_, rfl⟩ := hl
    have : dd.length ≠ 0 := fun h => hne (List.eq_nil_of_length_eq_zero h)
    simp only [blobWire]; omega
  case nsec next ts =>
    obtain ⟨m1, l1, rest⟩ := hl
    obtain ⟨F, h1, _⟩ := l1
    have h2 := h1.pos_lt_end
    have := (isLayout_seq (isLayout_seg _) isLayout_empty).bounds rest
    omega
  case svcb prio target ps =>
    obtain ⟨m1, l1, rest⟩ := hl
    obtain ⟨_, rfl⟩ := l1
    have := (isLayout_seq (isLayout_name _) (isLayout_seq (isLayout_seg _) isLayout_empty)).bounds rest
    simp [u16b] at *; omega
  case tsig alg time fudge mac oid err other =>
    obtain ⟨m1, l1, rest⟩ := hl
    obtain ⟨F, h1, _⟩ := l1
    have h2 := h1.pos_lt_end
    have := (isLayout_seq (isLayout_seg _) (isLayout_seq (isLayout_seg _)
      (isLayout_seq (isLayout_seg _) (isLayout_seq (isLayout_seg _) (isLayout_seq (isLayout_seg _)
        (isLayout_seq (isLayout_seg _) (isLayout_seq (isLayout_seg _) (isLayout_seq (isLayout_seg _)
          (isLayout_seq (isLayout_seg _) isLayout_empty))))))))).bounds rest
    omega
  case naptr order pref flags services regexp n =>
    obtain ⟨m1, l1, rest⟩ := hl
    obtain ⟨_, rfl⟩ := l1
    have := (isLayout_seq (isLayout_seg _) (isLayout_seq (isLayout_seg _) (isLayout_seq (isLayout_seg _)
      (isLayout_seq (isLayout_seg _) (isLayout_seq (isLayout_name _) isLayout_empty))))).bounds rest
    simp [u16b] at *; omega
  case sig covered alg labels ottl exp inc tag signer sg =>
    obtain ⟨mA, lA, lB⟩ := hl
    obtain ⟨m1, l1, rest⟩ := lA
    obtain ⟨_, rfl⟩ := l1
    have b1 := (isLayout_seq (isLayout_seg _) (isLayout_seq (isLayout_seg _)
      (isLayout_seq (isLayout_seg _) (isLayout_seq (isLayout_seg _) (isLayout_seq (isLayout_seg _)
        (isLayout_seq (isLayout_seg _) (isLayout_seq (isLayout_name _) isLayout_empty))))))).bounds rest
    have b2 := (isLayout_seq (isLayout_seg _) isLayout_empty).bounds lB
    simp [u16b] at *; omega
  all_goals
    obtain ⟨_, rfl⟩ := hl
    simp [blobWire, u16b, u32b]

/-- the record with every name made fully qualified -/
def _root_.HickoryVerif.Wire.Record.fq (r : Record) : Record :=
  { r with name := { r.name with fqdn := true }, rdata := r.rdata.fq }

/-- a covered RDATA variant never belongs to a meta type (ANY / AXFR / IXFR), which `RData::read` refuses -/
theorem typeOK_not_meta {d : RData} {t : Nat} (hp : d.proved = true) (h : d.typeOK t) :
    ¬ (t = 255 ∨ t = 252 ∨ t = 251) := by
  cases d <;> first | (simp [RData.proved] at hp; done) | skip
  all_goals simp only [RData.typeOK, UnknownType, List.mem_cons, List.not_mem_nil, or_false, not_or] at h
  all_goals omega

/-- what the round-trip proof needs of a record (not OPT; empty RDATA — `Update0` — of any type, or a
covered variant of its own type) -/
structure RecWF (r : Record) : Prop where
  name : r.name.WF
  rtype : r.rtype < 65536 ∧ r.rtype ≠ T_OPT
  cls : r.cls < 65536
  ttl : r.ttl < 4294967296
  data : r.rdata = .update0 r.rtype ∨
    (r.rdata.proved = true ∧ r.rdata.typeOK r.rtype ∧ r.rdata.namesWF ∧ r.rdata.nonEmpty)

/-- **`Record::read` inverts `Record::emit`** on the record's layout (covered RDATA variants). -/
theorem reads_record {H : Nat × Nat → Prop} {opq : Nat → Rd Bytes} {buf : Bytes} {p e : Nat} (r : Record)
    (hwf : RecWF r) (hl : layRecord r H buf p e) : Reads (readRecord opq) buf p r.fq e := by
  obtain ⟨m1, l1, m2, l2, m3, l3, m4, l4, m5, l5, l6⟩ := hl
  obtain ⟨rfl, _⟩ := l6
  obtain ⟨len, hlen, hseg, hbody, rfl⟩ := l5
  unfold readRecord
  refine Reads.bind (reads_name_of_lay l1 hwf.name) ?_
  refine Reads.bind (reads_u16_of_seg l2 hwf.rtype.1) ?_
  have hcls : readClass { r.name with fqdn := true } r.rtype = Rd.readU16 := by
    unfold readClass; rw [if_neg hwf.rtype.2]
  rw [hcls]
  refine Reads.bind (reads_u16_of_seg l3 hwf.cls) ?_
  refine Reads.bind (reads_u32_of_seg l4 hwf.ttl) ?_
  have hl16 : laySeg (u16b len) H buf m4 (m4 + 2) := ⟨hseg, rfl⟩
  refine Reads.bind (reads_u16_of_seg hl16 (by omega)) ?_
  refine Reads.bind (Reads.remaining buf (m4 + 2)) ?_
  rcases hwf.data with hu | ⟨hpv, hty, hnw, hne⟩
  · -- RDLENGTH 0
    have hup : r.rdata.isUpdate = true := by rw [hu]; rfl
    rw [if_pos hup] at hbody
    obtain ⟨h0, hb⟩ := hbody
    have hl0 : len = 0 := by omega
    subst hl0
    rw [if_neg (by omega), if_pos rfl]
    simp only [Nat.add_zero]
    refine Reads.pure' _ _ ?_
    simp [Record.fq, hu, RData.fq]
  · have hnu : ¬ r.rdata.isUpdate = true := by
      intro h
      cases hd : r.rdata <;> rw [hd] at h hpv <;> simp [RData.isUpdate, RData.proved] at h hpv
    rw [if_neg hnu] at hbody
    have hL := isLayout_rdata r.rdata hpv
    have hb := hL.bounds hbody
    have hpos := layRData_pos r.rdata hpv ⟨_, hty⟩ hne hbody
    rw [if_neg (by omega), if_neg (by omega)]
    have htr : layRData r.rdata H (buf.take (m4 + 2 + len)) (m4 + 2) (buf.take (m4 + 2 + len)).length := by
      have : (buf.take (m4 + 2 + len)).length = m4 + 2 + len := by
        simp only [List.length_take]; omega
      rw [this]
      exact hL.stable hbody (agreeOn_take _ (Nat.le_refl _) hb.2)
    have hrd := reads_readRData (opq := opq) (typeOK_not_meta hpv hty) (by simp only [List.length_take]; omega)
      (reads_rdataBody r.rdata hpv hty hnw htr)
    refine Reads.bind (Reads.splitOff hb.2 hrd) ?_
    exact Reads.pure' _ _ (by simp [Record.fq])
/-! ### sections: `emit_iter` when everything fits, and the decoder's loops -/

/-- layouts one after the other -/
def layAll : List Lay → Lay
  | [] => layEmpty
  | L :: Ls => laySeq L (layAll Ls)

theorem isLayout_all : ∀ (Ls : List Lay), (∀ L ∈ Ls, IsLayout L) → IsLayout (layAll Ls)
  | [], _ => isLayout_empty
  | L :: Ls, h => isLayout_seq (h L (by simp)) (isLayout_all Ls (fun x hx => h x (by simp [hx])))

/-- `emit_iter` that wrote every item leaves the items' layouts one after the other -/
theorem emitIterFrom_layout {α} (toEmit : α → Enc → ERes Unit) (toLay : α → Lay) :
    ∀ (xs : List α) (H : Nat × Nat → Prop) (e e' : Enc) (c n : Nat),
    (∀ x ∈ xs, Emits (toEmit x) (toLay x)) → (∀ x ∈ xs, IsLayout (toLay x)) →
    e.offset = e.buf.length → PtrInvH H e → (∀ a b, e.offset ≤ a → H (a, b)) → NoLower e →
    Enc.emitIterFrom e (xs.map toEmit) c = .ok n e' → EmitsPost H (layAll (xs.map toLay)) e e'
  | [], H, e, e', c, n, _, _, happ, hinv, _, _, h => by
    simp only [List.map_nil, Enc.emitIterFrom, ERes.ok.injEq] at h
    obtain ⟨_, rfl⟩ := h
    exact ⟨hinv, happ, Nat.le_refl _, by rw [happ]; simp, ⟨rfl, by omega⟩, rfl, rfl, rfl⟩
  | x :: xs, H, e, e', c, n, hE, hI, happ, hinv, hH, hnl, h => by
    simp only [List.map_cons] at h ⊢
    unfold Enc.emitIterFrom at h
    simp only at h
    cases hfe : toEmit x e with
    | ok u e1 =>
      rw [hfe] at h
      simp only at h
      have p1 := hE x (by simp) H e e1 happ hinv hH hnl hfe
      have hnl1 : NoLower e1 := ⟨by rw [p1.canon]; exact hnl.1, by rw [p1.ne]; exact hnl.2⟩
      have p2 := emitIterFrom_layout toEmit toLay xs H e1 e' (c + 1) n (fun y hy => hE y (by simp [hy]))
        (fun y hy => hI y (by simp [hy])) p1.app p1.inv (fun a b hab => hH a b (by have := p1.le; omega)) hnl1 h
      have hpre : e'.buf.take e1.buf.length = e1.buf := by rw [← p1.app]; exact p2.pre
      have hq1 : e1.offset ≤ e1.buf.length := by rw [p1.app]; exact Nat.le_refl _
      refine ⟨p2.inv, p2.app, by have := p1.le; have := p2.le; omega, ?_, ⟨e1.offset, ?_, p2.lay⟩,
        by rw [p2.canon, p1.canon], by rw [p2.ne, p1.ne], by rw [p2.max, p1.max]⟩
      · have := congrArg (List.take e.offset) p2.pre
        rw [List.take_take, Nat.min_eq_left p1.le] at this
        rw [this, p1.pre]
      · exact (hI x (by simp)).stable p1.lay (agreeOn_prefix hq1 hpre)
    | err k e1 => rw [hfe] at h; cases k <;> simp at h
    | panic s => rw [hfe] at h; simp at h

/-- the decoder's question loop over the questions' layouts -/
theorem reads_queries {H : Nat × Nat → Prop} {buf : Bytes} : ∀ (qs : List Query) (acc : List Query) (p e : Nat),
    (∀ q ∈ qs, q.name.WF ∧ q.qtype < 65536 ∧ q.qclass < 65536) →
    layAll (qs.map layQuery) H buf p e →
    Reads (readQueries qs.length acc) buf p
      (acc ++ qs.map fun q => { q with name := { q.name with fqdn := true } }) e
  | [], acc, p, e, _, h => by
    obtain ⟨rfl, _⟩ := h
    simp only [List.length_nil, readQueries, List.map_nil, List.append_nil]
    exact Reads.pure _ _ _
  | q :: qs, acc, p, e, hwf, h => by
    obtain ⟨m, l1, l2⟩ := h
    simp only [List.length_cons, readQueries]
    refine Reads.bind (fun t => ⟨t + 1, rfl⟩ : Reads (Rd.tick) buf p () p) ?_
    have hq := hwf q (by simp)
    refine Reads.bind (reads_query q hq.1 hq.2.1 hq.2.2 l1) ?_
    have := reads_queries qs (acc ++ [{ q with name := { q.name with fqdn := true } }]) m e
      (fun x hx => hwf x (by simp [hx])) l2
    simpa [List.append_assoc] using this

/-- a record that `read_records` passes on to the section's list (`isAdd`: the additional section).
Answer / authority: not OPT/SIG/TSIG-typed (the decoder refuses those there).  Additional: not OPT-typed
(that goes to `edns`); a SIG(0) record stays in the list; a TSIG-typed record stays only with empty
RDATA (a TSIG value goes to `signature`).  `Update0` only in UPDATE messages. -/
def SectionOK (op : Nat) (r : Record) (isAdd : Bool := false) : Prop :=
  RecWF r ∧ (isAdd = false → r.rtype ≠ T_SIG ∧ r.rtype ≠ T_TSIG) ∧
    (isAdd = true → r.rtype = T_TSIG → r.rdata.isUpdate = true) ∧
    (r.rdata.isUpdate = true → op = OP_UPDATE)

theorem fq_isUpdate (r : Record) : r.fq.rdata.isUpdate = r.rdata.isUpdate := by
  cases hd : r.rdata <;> simp [Record.fq, hd, RData.fq, RData.isUpdate]

/-- the decoder's record loop over the records' layouts (any section) -/
theorem reads_records {H : Nat × Nat → Prop} {opq : Nat → Rd Bytes} {buf : Bytes} (isAdd : Bool) (op : Nat) :
    ∀ (rs : List Record) (acc : List Record) (edns : Option Edns) (p e : Nat),
    (∀ r ∈ rs, SectionOK op r isAdd) → layAll (rs.map layRecord) H buf p e →
    Reads (readRecords opq isAdd op rs.length (acc, edns, none)) buf p
      (acc ++ rs.map Record.fq, edns, none) e
  | [], acc, edns, p, e, _, h => by
    obtain ⟨rfl, _⟩ := h
    simp only [List.length_nil, readRecords, List.map_nil, List.append_nil]
    exact Reads.pure _ _ _
  | r :: rs, acc, edns, p, e, hwf, h => by
    obtain ⟨m, l1, l2⟩ := h
    obtain ⟨hr, hs, hts, hup⟩ := hwf r (by simp)
    simp only [List.length_cons, readRecords]
    refine Reads.bind (fun t => ⟨t + 1, rfl⟩ : Reads (Rd.tick) buf p () p) ?_
    refine Reads.bind (reads_record r hr l1) ?_
    have ht : r.fq.rtype = r.rtype := rfl
    have ih := reads_records (opq := opq) isAdd op rs (acc ++ [r.fq]) edns m e (fun x hx => hwf x (by simp [hx])) l2
    have ih' : Reads (readRecords opq isAdd op rs.length (acc ++ [r.fq], edns, none)) buf m
        (acc ++ (r :: rs).map Record.fq, edns, none) e := by
      simpa [List.append_assoc] using ih
    rw [fq_isUpdate, ht]
    by_cases hu : r.rdata.isUpdate = true
    · have hop := hup hu
      rw [if_neg (by intro hc; exact hc.1 hop)]
      simp only [Option.isSome_none, Bool.false_eq_true, ↓reduceIte]
      rw [if_neg (by
        intro hc
        have hf : isAdd = false := by simpa using hc.1
        rcases hc.2 with h1 | h1 | h1
        · exact hr.rtype.2 h1
        · exact (hs hf).1 h1
        · exact (hs hf).2 h1)]
      cases isAdd with
      | false => simpa using ih'
      | true =>
        simp only [Bool.not_true, Bool.false_eq_true, ↓reduceIte]
        have hd : r.fq.rdata = .update0 r.rtype := by
          rcases hr.data with h1 | h1
          · simp [Record.fq, h1, RData.fq]
          · exfalso
            cases hdd : r.rdata <;> rw [hdd] at hu h1 <;> simp [RData.isUpdate, RData.proved] at hu h1
        rw [hd]
        simp only
        rw [if_neg hr.rtype.2]
        exact ih'
    · rw [if_neg (by intro hc; exact hu hc.2.2)]
      simp only [Option.isSome_none, Bool.false_eq_true, ↓reduceIte]
      rw [if_neg (by
        intro hc
        have hf : isAdd = false := by simpa using hc.1
        rcases hc.2 with h1 | h1 | h1
        · exact hr.rtype.2 h1
        · exact (hs hf).1 h1
        · exact (hs hf).2 h1)]
      cases isAdd with
      | false => simpa using ih'
      | true =>
        simp only [Bool.not_true, Bool.false_eq_true, ↓reduceIte]
        have hpv : r.rdata.proved = true ∧ r.rdata.typeOK r.rtype := by
          rcases hr.data with h1 | h1
          · exfalso; rw [h1] at hu; simp [RData.isUpdate] at hu
          · exact ⟨h1.1, h1.2.1⟩
        obtain ⟨hpv, hty⟩ := hpv
        cases hdd : r.rdata <;> rw [hdd] at hpv hty <;> simp [RData.proved] at hpv <;>
          first
          | (exfalso; exact hu (hts rfl hty.1))
          | (simp only [Record.fq, hdd, RData.fq]; simp only [Record.fq, hdd, RData.fq] at ih'; exact ih')
end HickoryVerif.C02
