/-
C02 — encode/decode round trip.  STAGE 2: whole messages, layer by layer.

* `Reads r buf p a q` : a small calculus for running the C01 decoder model (`Rd`) on a buffer;
* `reads_header` : `Header::read` inverts `Header::emit`;
* layouts (`Lay`, `IsLayout`) : what an emitter leaves in the buffer, in a form that survives later
  appends, back-patches outside it and truncation behind it; `Emits f L` : from every appending
  encoder state satisfying the candidate-table invariant, a successful `f` leaves layout `L`
  between the old and the new offset and re-establishes the invariant; closed under `?`-sequencing,
  the RDATA mode guards and the RDLENGTH pattern (`emits_*`);
* per layer: `emits_emitQuery` / `reads_query`, `emits_emitRecord` / `reads_record` for the RDATA
  types listed there.
-/
import HickoryVerif.Proofs.C02
import HickoryVerif.Proofs.C01
import HickoryVerif.Model.MessageEmit
namespace HickoryVerif.C02
open HickoryVerif HickoryVerif.Name HickoryVerif.Wire

/-! ## stage 2: reading back what the message emitters wrote -/

/-- reader `r`, run on `buf` from index `p`, returns `a` and stands at `q` (whatever the tick
counter) -/
def Reads {α} (r : Rd α) (buf : Bytes) (p : Nat) (a : α) (q : Nat) : Prop :=
  ∀ t, ∃ t', r buf { pos := p, ticks := t } = (.ok a, { pos := q, ticks := t' })

theorem Reads.pure {α} (a : α) (buf : Bytes) (p : Nat) : Reads (Pure.pure a : Rd α) buf p a p :=
  fun t => ⟨t, rfl⟩

theorem Reads.bind {α β} {x : Rd α} {f : α → Rd β} {buf : Bytes} {p q s : Nat} {a : α} {b : β}
    (hx : Reads x buf p a q) (hf : Reads (f a) buf q b s) : Reads (x >>= f) buf p b s := by
  intro t
  obtain ⟨t1, h1⟩ := hx t
  obtain ⟨t2, h2⟩ := hf t1
  exact ⟨t2, by show Rd.bind x f buf _ = _; simp only [Rd.bind, h1, h2]⟩

theorem Reads.run {α} {r : Rd α} {buf : Bytes} {p q : Nat} {a : α} (h : Reads r buf p a q) :
    Rd.run r buf p = .ok (a, q) := by
  obtain ⟨t', h'⟩ := h 0
  simp only [Rd.run]
  have : ({ pos := p } : DSt) = { pos := p, ticks := 0 } := rfl
  rw [this, h']

theorem Reads.pop {buf : Bytes} {p b : Nat} (h : buf[p]? = some b) : Reads Rd.pop buf p b (p + 1) := by
  intro t; exact ⟨t, by simp [Rd.pop, h]⟩

/-- `bs` stands in `buf` at index `p` -/
def SegAt (buf : Bytes) (p : Nat) (bs : Bytes) : Prop :=
  p + bs.length ≤ buf.length ∧ (buf.drop p).take bs.length = bs

theorem SegAt.getElem? {buf bs : Bytes} {p i : Nat} (h : SegAt buf p bs) (hi : i < bs.length) :
    buf[p + i]? = bs[i]? := by
  have := congrArg (fun l => l[i]?) h.2
  simp only [List.getElem?_take, List.getElem?_drop, hi, ↓reduceIte] at this
  exact this

theorem SegAt.append_left {buf a b : Bytes} {p : Nat} (h : SegAt buf p (a ++ b)) : SegAt buf p a := by
  refine ⟨by have := h.1; simp at this; omega, ?_⟩
  have := congrArg (List.take a.length) h.2
  simp only [List.take_take, List.length_append, List.take_left'] at this
  rw [Nat.min_eq_left (by omega)] at this
  simpa using this

theorem SegAt.append_right {buf a b : Bytes} {p : Nat} (h : SegAt buf p (a ++ b)) :
    SegAt buf (p + a.length) b := by
  refine ⟨by have := h.1; simp at this; omega, ?_⟩
  have := congrArg (List.drop a.length) h.2
  simp only [List.length_append, List.drop_left'] at this
  rw [List.drop_take, List.drop_drop] at this
  simpa [Nat.add_comm] using this

theorem Reads.readSlice {buf bs : Bytes} {p : Nat} (h : SegAt buf p bs) :
    Reads (Rd.readSlice bs.length) buf p bs (p + bs.length) := by
  intro t
  refine ⟨t, ?_⟩
  simp only [Rd.readSlice]
  rw [if_neg (by have := h.1; omega), h.2]

theorem Reads.readU16 {buf : Bytes} {p a b : Nat} (h : SegAt buf p [a, b]) :
    Reads Rd.readU16 buf p (a * 256 + b) (p + 2) := by
  have := Reads.readSlice h
  intro t
  obtain ⟨t', ht⟩ := this t
  simp only [List.length_cons, List.length_nil, Nat.zero_add, Nat.reduceAdd] at ht
  exact ⟨t', by simp only [Rd.readU16, Rd.bind, ht]; rfl⟩

theorem Reads.readU32 {buf : Bytes} {p a b c d : Nat} (h : SegAt buf p [a, b, c, d]) :
    Reads Rd.readU32 buf p (((a * 256 + b) * 256 + c) * 256 + d) (p + 4) := by
  have := Reads.readSlice h
  intro t
  obtain ⟨t', ht⟩ := this t
  simp only [List.length_cons, List.length_nil, Nat.zero_add, Nat.reduceAdd] at ht
  exact ⟨t', by simp only [Rd.readU32, Rd.bind, ht]; rfl⟩

/-- `Name::read` as a reader, from the layout relation -/
theorem Reads.name {H : Nat × Nat → Prop} {buf : Bytes} {p q : Nat} {ls : List Bytes}
    (h : LaidH H buf p ls q) (hlen : (flat ls).length + 1 ≤ 255) :
    Reads Rd.name buf p { labels := ls, fqdn := true } q := by
  have hr := readName_of_LaidH h hlen
  have hs := C01.readNameSteps_fst buf p
  intro t
  simp only [Rd.name]
  generalize hx : Name.readNameSteps buf p = x at hs
  obtain ⟨o, k⟩ := x
  simp only at hs
  rw [hr] at hs
  subst hs
  exact ⟨t + k, rfl⟩

theorem Reads.pure' {α} {a a' : α} (buf : Bytes) (p : Nat) (h : a = a') :
    Reads (Pure.pure a : Rd α) buf p a' p := h ▸ Reads.pure a buf p

theorem u16_split (x : Nat) (h : x < 65536) : x / 256 % 256 * 256 + x % 256 = x := by omega

theorem segAt_of_getElem {buf bs : Bytes} {p i b : Nat} (h : SegAt buf p bs) (hb : bs[i]? = some b) :
    buf[p + i]? = some b := by
  have hi : i < bs.length := (List.getElem?_eq_some_iff.1 hb).1
  rw [h.getElem? hi]; exact hb

/-- a sub-segment of a segment -/
theorem SegAt.sub {buf bs : Bytes} {p : Nat} (h : SegAt buf p bs) (i n : Nat) (hin : i + n ≤ bs.length) :
    SegAt buf (p + i) ((bs.drop i).take n) := by
  have hl : ((bs.drop i).take n).length = n := by simp; omega
  refine ⟨by rw [hl]; have := h.1; omega, ?_⟩
  rw [hl, ← h.2]
  simp only [List.drop_take, List.take_take, List.drop_drop]
  rw [Nat.min_eq_left (by omega)]

/-- the header fields are in range (what the Rust types guarantee: `u16` id and counts, 4-bit opcode) -/
def HeaderWF (md : Metadata) (c : Counts) : Prop :=
  md.id < 65536 ∧ md.op < 16 ∧ c.qd < 65536 ∧ c.an < 65536 ∧ c.ns < 65536 ∧ c.ar < 65536

theorem flag2_decode (md : Metadata) (hop : md.op < 16) :
    decide (flagOctet2 md % 256 / 128 = 1) = md.qr ∧ (flagOctet2 md % 256 / 8) % 16 = md.op ∧
    decide ((flagOctet2 md % 256 / 4) % 2 = 1) = md.aa ∧ decide ((flagOctet2 md % 256 / 2) % 2 = 1) = md.tc ∧
    decide (flagOctet2 md % 256 % 2 = 1) = md.rd := by
  unfold flagOctet2
  have : md.op % 16 = md.op := Nat.mod_eq_of_lt hop
  rw [this]
  cases md.qr <;> cases md.aa <;> cases md.tc <;> cases md.rd <;> simp <;> omega

theorem flag3_decode (md : Metadata) :
    decide (flagOctet3 md % 256 / 128 = 1) = md.ra ∧ decide ((flagOctet3 md % 256 / 32) % 2 = 1) = md.ad ∧
    decide ((flagOctet3 md % 256 / 16) % 2 = 1) = md.cd ∧ flagOctet3 md % 256 % 16 = md.rcode % 16 := by
  unfold flagOctet3
  cases md.ra <;> cases md.ad <;> cases md.cd <;> simp <;> omega


/-- **`Header::read` inverts `Header::emit`**: reading the twelve octets `headerBytes md c` gives back
every flag, the id, the opcode, the four counts, and the low four bits of the response code. -/
theorem reads_header {buf : Bytes} {p : Nat} (md : Metadata) (c : Counts) (hwf : HeaderWF md c)
    (h : SegAt buf p (headerBytes md c)) :
    Reads readHeader buf p ({ md with rcode := md.rcode % 16 }, c) (p + 12) := by
  obtain ⟨h1, h2, h3, h4, h5, h6⟩ := hwf
  obtain ⟨a1, a2, a3, a4, a5⟩ := flag2_decode md h2
  obtain ⟨b1, b2, b3, b4⟩ := flag3_decode md
  have s0 := h.sub 0 2 (by simp [headerBytes])
  have s4 := h.sub 4 2 (by simp [headerBytes])
  have s6 := h.sub 6 2 (by simp [headerBytes])
  have s8 := h.sub 8 2 (by simp [headerBytes])
  have s10 := h.sub 10 2 (by simp [headerBytes])
  have g2 := segAt_of_getElem (i := 2) h (by simp [headerBytes]; rfl)
  have g3 := segAt_of_getElem (i := 3) h (by simp [headerBytes]; rfl)
  simp only [headerBytes, List.drop, List.take] at s0 s4 s6 s8 s10
  unfold readHeader
  refine Reads.bind (Reads.readU16 s0) ?_
  refine Reads.bind (Reads.pop g2) ?_
  refine Reads.bind (Reads.pop g3) ?_
  refine Reads.bind (Reads.readU16 s4) ?_
  refine Reads.bind (Reads.readU16 s6) ?_
  refine Reads.bind (Reads.readU16 s8) ?_
  refine Reads.bind (Reads.readU16 s10) ?_
  refine Reads.pure' _ _ ?_
  rw [u16_split _ h1, u16_split _ h3, u16_split _ h4, u16_split _ h5, u16_split _ h6]
  simp only [a1, a2, a3, a4, a5, b1, b2, b3, b4]
/-! ### layouts -/

/-- a layout: a property of (footprint condition, buffer, start, end) -/
abbrev Lay := (Nat × Nat → Prop) → Bytes → Nat → Nat → Prop

/-- `b'` agrees with `b` on `[p, q)` and on every `H`-admitted run ending at or before `q` -/
def AgreeOn (H : Nat × Nat → Prop) (p q : Nat) (b b' : Bytes) : Prop :=
  q ≤ b'.length ∧ (∀ i, p ≤ i → i < q → b'[i]? = b[i]?) ∧
  (∀ iv : Nat × Nat, H iv → iv.2 ≤ q → ∀ i, iv.1 ≤ i → i < iv.2 → b'[i]? = b[i]?)

/-- the laws of a layout: it lies between its bounds inside the buffer, depends only on the octets
between its bounds and on admitted runs below its end, and is monotone in the footprint condition -/
structure IsLayout (L : Lay) : Prop where
  bounds : ∀ {H b p q}, L H b p q → p ≤ q ∧ q ≤ b.length
  stable : ∀ {H b b' p q}, L H b p q → AgreeOn H p q b b' → L H b' p q
  mono : ∀ {H H' : Nat × Nat → Prop} {b p q}, L H b p q →
    (∀ iv : Nat × Nat, iv.1 < iv.2 → iv.2 ≤ q → H iv → H' iv) → L H' b p q

theorem agreeOn_prefix {H : Nat × Nat → Prop} {p q : Nat} {b b' : Bytes} (hq : q ≤ b.length)
    (h : b'.take b.length = b) : AgreeOn H p q b b' := by
  have key : ∀ i, i < q → b'[i]? = b[i]? := by
    intro i hi
    have := congrArg (fun l => l[i]?) h
    simp only [List.getElem?_take] at this
    rw [if_pos (by omega)] at this
    exact this
  have hl : b.length ≤ b'.length := by
    have := congrArg List.length h
    simp only [List.length_take] at this; omega
  exact ⟨by omega, fun i _ hi => key i hi, fun iv _ hiv i _ hi => key i (by omega)⟩

theorem agreeOn_take {H : Nat × Nat → Prop} {p q : Nat} {b : Bytes} (k : Nat) (hk : q ≤ k)
    (hq : q ≤ b.length) :
    AgreeOn H p q b (b.take k) := by
  have key : ∀ i, i < q → (b.take k)[i]? = b[i]? := by
    intro i hi
    rw [List.getElem?_take, if_pos (by omega)]
  exact ⟨by simp only [List.length_take]; omega, fun i _ hi => key i hi,
    fun iv _ hiv i _ hi => key i (by omega)⟩

theorem AgreeOn.sub {H : Nat × Nat → Prop} {p q p' q' : Nat} {b b' : Bytes} (h : AgreeOn H p q b b')
    (hp : p ≤ p') (hq : q' ≤ q) : AgreeOn H p' q' b b' :=
  ⟨by have := h.1; omega, fun i h1 h2 => h.2.1 i (by omega) (by omega),
    fun iv hiv h2 i h3 h4 => h.2.2 iv hiv (by omega) i h3 h4⟩

/-- the octets `bs` -/
def laySeg (bs : Bytes) : Lay := fun _ b p q => SegAt b p bs ∧ q = p + bs.length

theorem segAt_congr {b b' bs : Bytes} {p : Nat} (h : SegAt b p bs) (hlen : p + bs.length ≤ b'.length)
    (hag : ∀ i, p ≤ i → i < p + bs.length → b'[i]? = b[i]?) : SegAt b' p bs := by
  refine ⟨hlen, ?_⟩
  have : (b'.drop p).take bs.length = (b.drop p).take bs.length := by
    apply List.ext_getElem?
    intro i
    simp only [List.getElem?_take, List.getElem?_drop]
    by_cases hi : i < bs.length
    · simp only [hi, ↓reduceIte]
      exact hag (p + i) (by omega) (by omega)
    · simp only [hi, ↓reduceIte]
  exact this.trans h.2

theorem isLayout_seg (bs : Bytes) : IsLayout (laySeg bs) where
  bounds := by
    intro H b p q h
    obtain ⟨h1, rfl⟩ := h
    exact ⟨by omega, h1.1⟩
  stable := by
    intro H b b' p q h hag
    obtain ⟨h1, rfl⟩ := h
    exact ⟨segAt_congr h1 hag.1 (fun i hi1 hi2 => hag.2.1 i hi1 hi2), rfl⟩
  mono := by intro H H' b p q h _; exact h

/-- the name with labels `ls` -/
def layName (ls : List Bytes) : Lay := fun H b p q => LaidH H b p ls q

theorem isLayout_name (ls : List Bytes) : IsLayout (layName ls) where
  bounds := by
    intro H b p q h
    obtain ⟨F, h1, _⟩ := h
    exact ⟨Nat.le_of_lt h1.pos_lt_end, h1.end_le_length⟩
  stable := by
    intro H b b' p q h hag
    obtain ⟨F, h1, h2⟩ := h
    refine ⟨F, h1.frame_footprint (Nat.le_refl _) ?_, h2⟩
    intro iv hiv i hi1 hi2
    have := h1.footprint_le (Nat.le_refl _) iv hiv
    exact hag.2.2 iv (h2 iv hiv) this.2 i hi1 hi2
  mono := by
    intro H H' b p q h himp
    exact LaidH.mono h himp

/-- `L1` followed by `L2` -/
def laySeq (L1 L2 : Lay) : Lay := fun H b p q => ∃ m, L1 H b p m ∧ L2 H b m q

theorem isLayout_seq {L1 L2 : Lay} (h1 : IsLayout L1) (h2 : IsLayout L2) : IsLayout (laySeq L1 L2) where
  bounds := by
    intro H b p q h
    obtain ⟨m, a1, a2⟩ := h
    have := h1.bounds a1; have := h2.bounds a2
    exact ⟨by omega, by omega⟩
  stable := by
    intro H b b' p q h hag
    obtain ⟨m, a1, a2⟩ := h
    have b1 := h1.bounds a1; have b2 := h2.bounds a2
    exact ⟨m, h1.stable a1 (hag.sub (Nat.le_refl _) b2.1), h2.stable a2 (hag.sub b1.1 (Nat.le_refl _))⟩
  mono := by
    intro H H' b p q h himp
    obtain ⟨m, a1, a2⟩ := h
    have b2 := h2.bounds a2
    exact ⟨m, h1.mono a1 (fun iv x y z => himp iv x (by omega) z), h2.mono a2 himp⟩

/-- nothing -/
def layEmpty : Lay := fun _ b p q => q = p ∧ p ≤ b.length

theorem isLayout_empty : IsLayout layEmpty where
  bounds := by intro H b p q h; obtain ⟨rfl, h2⟩ := h; exact ⟨Nat.le_refl _, h2⟩
  stable := by intro H b b' p q h hag; obtain ⟨rfl, h2⟩ := h; exact ⟨rfl, hag.1⟩
  mono := by intro H H' b p q h _; exact h

/-- a `u16` length `len`, then `L` over exactly `len` octets (the RDLENGTH pattern) -/
def layLen (L : Lay) : Lay := fun H b p q =>
  ∃ len, len ≤ 65535 ∧ SegAt b p [len / 256 % 256, len % 256] ∧ L H b (p + 2) q ∧ q = p + 2 + len

theorem isLayout_len {L : Lay} (hL : IsLayout L) : IsLayout (layLen L) where
  bounds := by
    intro H b p q h
    obtain ⟨len, _, _, a3, rfl⟩ := h
    have := hL.bounds a3
    exact ⟨by omega, this.2⟩
  stable := by
    intro H b b' p q h hag
    obtain ⟨len, a1, a2, a3, rfl⟩ := h
    have b3 := hL.bounds a3
    refine ⟨len, a1, segAt_congr a2 (by have := hag.1; simp; omega)
      (fun i h1 h2 => hag.2.1 i h1 (by simp at h2; omega)), hL.stable a3 (hag.sub (by omega) (Nat.le_refl _)), rfl⟩
  mono := by
    intro H H' b p q h himp
    obtain ⟨len, a1, a2, a3, rfl⟩ := h
    exact ⟨len, a1, a2, hL.mono a3 himp, rfl⟩

/-! ### emitters and the layouts they leave -/

/-- no mode that lower-cases names is on (messages are never emitted in DNSSEC canonical form) -/
def NoLower (e : Enc) : Prop := e.canonicalForm = false ∧ e.nameEncoding ≠ .uncompressedLowercase

structure EmitsPost (H : Nat × Nat → Prop) (L : Lay) (e e' : Enc) : Prop where
  inv : PtrInvH H e'
  app : e'.offset = e'.buf.length
  le : e.offset ≤ e'.offset
  pre : e'.buf.take e.offset = e.buf
  lay : L H e'.buf e.offset e'.offset
  canon : e'.canonicalForm = e.canonicalForm
  ne : e'.nameEncoding = e.nameEncoding

/-- from every appending state satisfying the candidate-table invariant (no lower-casing mode on),
a successful `f` leaves layout `L` between the old and the new offset, touches nothing below the
old offset, and re-establishes the invariant -/
def Emits (f : Enc → ERes Unit) (L : Lay) : Prop :=
  ∀ (H : Nat × Nat → Prop) (e e' : Enc), e.offset = e.buf.length → PtrInvH H e →
    (∀ a b, e.offset ≤ a → H (a, b)) → NoLower e → f e = .ok () e' → EmitsPost H L e e'

theorem segAt_append (b d : Bytes) : SegAt (b ++ d) b.length d :=
  ⟨by simp, by rw [List.drop_left, List.take_length]⟩

theorem emits_emitSlice (d : Bytes) : Emits (fun e => e.emitSlice d) (laySeg d) := by
  intro H e e' happ hinv _ _ h
  simp only at h
  obtain ⟨h1, h2, h3, h4⟩ := ptrInvH_emitSlice e e' d happ hinv h
  have hoff : e'.offset = e.offset + d.length := by rw [h2, h3, happ]; simp
  refine ⟨h1, h2, by omega, by rw [h3, happ]; simp, ⟨by rw [h3, happ]; exact segAt_append _ _, hoff⟩, ?_, ?_⟩
  all_goals
    rw [emitSlice_app _ _ happ] at h
    split at h
    · simp at h
    · simp only [ERes.ok.injEq, true_and] at h; rw [← h]

theorem emits_emitU8 (v : Nat) : Emits (fun e => e.emitU8 v) (laySeg [v % 256]) := emits_emitSlice _
theorem emits_emitU16 (v : Nat) : Emits (fun e => e.emitU16 v) (laySeg [v / 256 % 256, v % 256]) :=
  emits_emitSlice _
theorem emits_emitU32 (v : Nat) :
    Emits (fun e => e.emitU32 v) (laySeg [v / 16777216 % 256, v / 65536 % 256, v / 256 % 256, v % 256]) :=
  emits_emitSlice _

theorem emits_nothing : Emits emitNothing layEmpty := by
  intro H e e' happ hinv _ _ h
  simp only [emitNothing, ERes.ok.injEq, true_and] at h
  subst h
  exact ⟨hinv, happ, Nat.le_refl _, by rw [happ]; simp, ⟨rfl, by omega⟩, rfl, rfl⟩

theorem emits_emitName (n : Name) (hwf : n.WF) : Emits (fun e => Name.emit e n) (layName n.labels) := by
  intro H e e' happ hinv hH hnl h
  have hp := emit_post hwf happ hinv hH h
  have hem : (emitted e n).labels = n.labels := by simp [emitted, hnl.2]
  obtain ⟨x, hx⟩ := hp.ext
  refine ⟨hp.inv, hp.app, ?_, by rw [hx, happ]; simp, by rw [← hem]; exact hp.laid, hp.canon, hp.ne⟩
  obtain ⟨F, hl, _⟩ := hp.laid
  exact Nat.le_of_lt hl.pos_lt_end

theorem emits_seq {f g : Enc → ERes Unit} {L1 L2 : Lay} (hL1 : IsLayout L1) (hf : Emits f L1)
    (hg : Emits g L2) : Emits (Enc.seq f g) (laySeq L1 L2) := by
  intro H e e' happ hinv hH hnl h
  unfold Enc.seq at h
  cases hfe : f e with
  | ok u e1 =>
    rw [hfe] at h
    have p1 := hf H e e1 happ hinv hH hnl hfe
    have hnl1 : NoLower e1 := ⟨by rw [p1.canon]; exact hnl.1, by rw [p1.ne]; exact hnl.2⟩
    have p2 := hg H e1 e' p1.app p1.inv (fun a b hab => hH a b (by have := p1.le; omega)) hnl1 h
    have hpre : e'.buf.take e1.buf.length = e1.buf := by rw [← p1.app]; exact p2.pre
    have hq1 : e1.offset ≤ e1.buf.length := by rw [p1.app]; exact Nat.le_refl _
    refine ⟨p2.inv, p2.app, by have := p1.le; have := p2.le; omega, ?_, ⟨e1.offset, ?_, p2.lay⟩,
      by rw [p2.canon, p1.canon], by rw [p2.ne, p1.ne]⟩
    · have := congrArg (List.take e.offset) p2.pre
      rw [List.take_take, Nat.min_eq_left p1.le] at this
      rw [this, p1.pre]
    · exact hL1.stable p1.lay (agreeOn_prefix hq1 hpre)
  | err k e1 => rw [hfe] at h; simp at h
  | panic s => rw [hfe] at h; simp at h

theorem emits_withRdataBehavior {f : Enc → ERes Unit} {L : Lay} (hf : Emits f L) (r : RDataEncoding) :
    Emits (fun e => e.withRdataBehavior r f) L := by
  intro H e e' happ hinv hH hnl h
  simp only [Enc.withRdataBehavior] at h
  cases hfe : f { e with nameEncoding := Enc.rdataNameEncoding r e.canonicalForm e.nameEncoding } with
  | ok u e1 =>
    rw [hfe] at h
    simp only [Enc.restoreNameEncoding, ERes.ok.injEq, true_and] at h
    subst h
    have hnl' : NoLower { e with nameEncoding := Enc.rdataNameEncoding r e.canonicalForm e.nameEncoding } := by
      refine ⟨hnl.1, ?_⟩
      simp only [hnl.1]
      cases r <;> simp [Enc.rdataNameEncoding, hnl.2]
    have p := hf H { e with nameEncoding := Enc.rdataNameEncoding r e.canonicalForm e.nameEncoding } e1 happ hinv hH hnl' hfe
    exact ⟨p.inv, p.app, p.le, p.pre, p.lay, p.canon, rfl⟩
  | err k e1 => rw [hfe] at h; simp [Enc.restoreNameEncoding] at h
  | panic s => rw [hfe] at h; simp [Enc.restoreNameEncoding] at h

theorem emits_lenPrefixed {body : Enc → ERes Unit} {L : Lay} (hL : IsLayout L) (hb : Emits body L) :
    Emits (Enc.lenPrefixed body) (layLen L) := by
  intro H e e' happ hinv hH hnl h
  unfold Enc.lenPrefixed at h
  cases hpl : e.place 2 with
  | panic s => rw [hpl] at h; simp at h
  | err k e1 => rw [hpl] at h; simp at h
  | ok start e1 =>
    rw [hpl] at h
    simp only at h
    obtain ⟨hst, happ1, hoff1, hinv1⟩ := ptrInvH_place e e1 2 start happ hinv hpl
    subst hst
    have he1 : e1 = { e with buf := e.buf ++ List.replicate 2 0, offset := e.offset + 2 } := by
      rw [place_app _ _ happ] at hpl
      split at hpl
      · simp at hpl
      · simp only [ERes.ok.injEq] at hpl; exact hpl.2.symm
    have hnl1 : NoLower e1 := by rw [he1]; exact hnl
    cases hbody : body e1 with
    | panic s => rw [hbody] at h; simp at h
    | err k e2 => rw [hbody] at h; simp at h
    | ok u e2 =>
      rw [hbody] at h
      simp only at h
      have p2 := hb _ e1 e2 happ1 hinv1
        (fun a b hab => ⟨hH a b (by omega), Or.inr (by simp only; omega)⟩) hnl1 hbody
      have hoff2 := p2.le
      have happ2 := p2.app
      unfold Enc.lenSincePlace at h
      rw [if_neg (by omega)] at h
      simp only at h
      split at h
      · simp at h
      rename_i hlen
      have hin : e.offset + 2 ≤ e2.buf.length := by rw [← p2.app]; omega
      have hspec := placeReplace_spec e2 e' e.offset 2 _ (by simp) hin h
      obtain ⟨hinv3, hoff3, hlen3, _⟩ := ptrInvH_placeReplace e2 e' e.offset 2 _ (by simp) hin p2.inv
        (fun iv hiv => hiv.2) h
      have hsame : ∀ i, i < e.offset ∨ e.offset + 2 ≤ i → e'.buf[i]? = e2.buf[i]? := by
        intro i hi
        rw [hspec]
        exact getElem?_splice e2.buf _ e.offset 2 i (by simp) hin hi
      refine ⟨ptrInvH_mono hinv3 (fun iv _ _ hiv => hiv.1), by omega, by omega, ?_, ?_, ?_, ?_⟩
      · -- nothing below the old offset moved
        apply List.ext_getElem?
        intro i
        by_cases hi : i < e.offset
        · rw [List.getElem?_take_of_lt hi, hsame i (by omega)]
          have h1 := congrArg (fun l => l[i]?) p2.pre
          simp only [List.getElem?_take_of_lt (show i < e1.offset by omega)] at h1
          rw [h1, he1]
          simp only
          rw [List.getElem?_append_left (by omega)]
        · rw [List.getElem?_eq_none (by simp only [List.length_take]; omega),
            List.getElem?_eq_none (by omega)]
      · refine ⟨e2.offset - e.offset - 2, by omega, ?_, ?_, by omega⟩
        · rw [hspec]
          refine ⟨by simp; omega, ?_⟩
          simp only
          rw [List.append_assoc, List.drop_left' (by simp only [List.length_take]; omega)]
          exact List.take_left' (by simp)
        · have hl2 : L (fun iv => H iv ∧ (iv.2 ≤ e.offset ∨ e.offset + 2 ≤ iv.1)) e'.buf (e.offset + 2) e2.offset := by
            have := p2.lay
            rw [hoff1] at this
            refine hL.stable this ⟨by omega, fun i h1 _ => hsame i (Or.inr h1), ?_⟩
            intro iv hiv _ i h1 h2
            exact hsame i (by have := hiv.2; omega)
          rw [hoff3]
          exact hL.mono hl2 (fun iv _ _ hiv => hiv.1)
      · rw [hspec]; simp only; exact p2.canon.trans (by rw [he1])
      · rw [hspec]; simp only; exact p2.ne.trans (by rw [he1])
end HickoryVerif.C02
