/-
C06 for the **repaired** validation cache (repo-patches/C06-validation-cache-signature-span.diff;
model `SigCheck.serveFixed` / `validateFixed` / `runHistoryFixed`): the history theorem at full
strength — no `LifetimeCapped` hypothesis, no assumption on how the two clocks move — plus the TTL
clause for cached verdicts.  Becomes the property theorem of the check once the repair is committed
to /repo (repo-patches/C06-verif-switch-after-fix.diff).
-/
import HickoryVerif.Proofs.C06

namespace HickoryVerif.C06
open HickoryVerif HickoryVerif.Tbs HickoryVerif.SigCheck

theorem fresh_secure_isOk {sigValid : SigOracle} {r : Request}
    (h : (freshVerdict sigValid r).proof = .secure) : (freshVerdict sigValid r).isOk = true := by
  unfold freshVerdict at h ⊢
  split
  · rfl
  · rename_i hn
    rw [hn] at h
    cases h

/-- the authenticated TTL of a fresh Secure verdict is at most `expiration − now` -/
theorem fresh_secure_ttl {sigValid : SigOracle} {r : Request} (hnow : r.now < M)
    (hexp : r.rrsig.input.expiration < M)
    (h : (freshVerdict sigValid r).proof = .secure) :
    ∃ t, (freshVerdict sigValid r).adjustedTtl = some t ∧ t ≤ r.rrsig.input.expiration - r.now := by
  obtain ⟨k, _, hk⟩ := fresh_secure h
  obtain ⟨t, _, _, ht, _, _, _, _, hsub⟩ :=
    ttl_le_remaining sigValid k .secure r.rrsig r.keyName r.keyType r.records r.now _ hnow hexp hk
  exact ⟨t, ht, hsub⟩

/-- TTL clause: a Secure verdict never carries a TTL above the remaining signature lifetime -/
def TtlOK (r : Request) (v : Verdict) : Prop :=
  ∀ t, v.adjustedTtl = some t → t ≤ r.rrsig.input.expiration - r.now

/-- the clock arithmetic of the repaired `get`: validated inside the window at `t0`, served at `now`
with `now.wrapping_sub(t0) ≤ expiration.saturating_sub(t0)` -/
theorem span_window {t0 now inc exp : Nat} (ht0 : t0 < M) (hnow : now < M) (hinc : inc < M)
    (hexp : exp < M) (hwf : SerialLe inc exp) (hw : InWindow t0 inc exp)
    (hel : ¬ (now + M32 - t0) % M32 > exp - t0) :
    InWindow now inc exp ∧ (exp - t0) - (now + M32 - t0) % M32 ≤ exp - now := by
  unfold InWindow SerialLe M M32 HALF at *
  omega

theorem step_secure_fixed (sigValid : SigOracle) (cfg : CacheConfig)
    (past : List Request) (r : Request) (v : Verdict) (fresh : Bool)
    (hs : StepSound sigValid cfg serveFixed past r v fresh) (hsec : v.proof = .secure) (hb : Bounds r)
    (hpair : ∀ r' ∈ past, KeyFaithful r' r ∧ Bounds r') :
    SecureOK sigValid r ∧ TtlOK r v := by
  obtain ⟨hnow, hinc, hexp, hwf⟩ := hb
  rcases hs with ⟨_, hv⟩ | ⟨_, r', hr', hck, t, ht, hlive, hv⟩
  · subst hv
    obtain ⟨k, _, hk⟩ := fresh_secure hsec
    have hc := secure_implies_checks sigValid k .secure r.rrsig r.keyName r.keyType r.records r.now _
      hnow hinc hexp hk
    refine ⟨⟨hc.2.2.2.2.2.2.2.2.2.2.2.1, r.now, hnow, k, _, hk⟩, ?_⟩
    obtain ⟨t', ht', hle⟩ := fresh_secure_ttl hnow hexp hsec
    intro t0 h0
    rw [ht'] at h0
    simp only [Option.some.injEq] at h0
    omega
  · obtain ⟨hkf, hb'⟩ := hpair r' hr'
    obtain ⟨hsig, hkn, hkt, hrec⟩ := hkf hck
    obtain ⟨hnow', _, _, _⟩ := hb'
    -- the verdict served has the proof of the stored one
    have hsec' : (freshVerdict sigValid r').proof = .secure := by
      simp only [serveFixed, entryOf] at hv
      split at hv
      · split at hv
        · cases hv
        · split at hv <;> (simp only [Option.some.injEq] at hv; rw [← hv] at hsec; exact hsec)
      · simp only [Option.some.injEq] at hv; rw [← hv] at hsec; exact hsec
    have hok := fresh_secure_isOk hsec'
    have hspan : spanOf (freshVerdict sigValid r') r'
        = some (r'.now, r'.rrsig.input.expiration - r'.now) := by
      simp [spanOf, hok, hsec']
    obtain ⟨k, _, hk⟩ := fresh_secure hsec'
    rw [hsig, hkn, hkt, hrec] at hk
    have hc := secure_implies_checks sigValid k .secure r.rrsig r.keyName r.keyType r.records r'.now _
      hnow' hinc hexp hk
    obtain ⟨t', ht', _⟩ := fresh_secure_ttl hnow' (by rw [hsig]; exact hexp) hsec'
    simp only [serveFixed, entryOf, hspan, ht'] at hv
    split at hv
    · cases hv
    · rename_i hel
      rw [hsig] at hel
      obtain ⟨hwin, hleft⟩ :=
        span_window hnow' hnow hinc hexp hwf hc.2.2.2.2.2.2.2.2.2.2.2.1 hel
      refine ⟨⟨hwin, r'.now, hnow', k, _, hk⟩, ?_⟩
      simp only [Option.some.injEq] at hv
      intro t0 h0
      rw [← hv] at h0
      simp only [Option.some.injEq] at h0
      rw [hsig] at h0
      omega

/-- **History theorem, full strength, for the repaired cache (`cache_sound`).**  For every history
of validation requests answered from an initially empty cache — any interleaving of validate /
advance-clock (either clock, by any amount, forwards or backwards, across the 2³² wrap) /
re-validate, any configured positive/negative range — in which requests with equal cache keys
present the same signed content (`KeyFaithful`): every Secure verdict handed out, fresh or cached,
is for content that passed `verify_rrset_with_dnskey` (all of `secure_implies_checks`), the
validator's clock is inside `[inception, expiration]` at the moment it is handed out, and its TTL
does not exceed the remaining signature lifetime. -/
theorem cache_sound (sigValid : SigOracle) (cfg : CacheConfig) (hist : List Request)
    (hb : ∀ r ∈ hist, Bounds r) (hkey : hist.Pairwise KeyFaithful) :
    AllSecure (fun r v => SecureOK sigValid r ∧ TtlOK r v) hist
      (runHistoryFixed sigValid cfg [] hist) :=
  allSecure_of_sound sigValid cfg serveFixed _ KeyFaithful Bounds
    (fun past r v fresh hs hsec hb hp => step_secure_fixed sigValid cfg past r v fresh hs hsec hb hp)
    [] hist _ (cache_provenanceG sigValid cfg serveFixed hist)
    (fun r hr => ⟨hb r hr, hb r hr⟩) (by simp) hkey

/-- the history on which the current code fails, under the repaired cache: the cached answer
carries the reduced TTL, and once the validator's clock is past the expiration — although the entry
is still live on the monotonic clock — a fresh validation is made, which says Bogus -/
example :
    (runHistoryFixed acceptAll {} [] [reqA 3600 1000 0, reqA 3600 1005 5, reqA 3600 1020 20]).map
        (fun o => (o.1.proof, o.1.adjustedTtl, o.2))
      = [(.secure, some 10, true), (.secure, some 5, false), (.bogus, none, true)] ∧
    (runHistoryFixed acceptAll {} [] [reqA 3600 1000 0, reqA 3600 1020 0, reqA 3600 999 0]).map
        (fun o => (o.1.proof, o.2))
      = [(.secure, true), (.bogus, true), (.bogus, false)] := by
  decide

/-- the hypotheses of `cache_sound_partial` are satisfiable by a non-trivial history (second request
served from the cache), and the theorem then applies -/
example :
    AllSecure (fun r _ => SecureOK acceptAll r) [reqA 5 1000 0, reqA 5 1003 3]
      (runHistory acceptAll {} [] [reqA 5 1000 0, reqA 5 1003 3]) := by
  apply cache_sound_partial
  · intro r hr
    simp only [List.mem_cons, List.mem_nil_iff, or_false] at hr
    rcases hr with rfl | rfl <;> (unfold Bounds SerialLe M HALF; decide)
  · intro r hr t ht _
    simp only [List.mem_cons, List.mem_nil_iff, or_false] at hr
    rcases hr with rfl | rfl
    all_goals
      simp only [firstTtl, reqA, recA, List.head?_cons, Option.map_some, Option.some.injEq] at ht
      subst ht
      decide
  · simp only [List.pairwise_cons, List.mem_cons, or_false, forall_eq,
      List.not_mem_nil, false_imp_iff, implies_true, List.Pairwise.nil, and_true]
    intro _
    exact ⟨⟨rfl, rfl, rfl, rfl⟩, by decide, by decide, by decide⟩

/-- likewise for `cache_sound` (repaired cache): only `Bounds` and `KeyFaithful` are needed, whatever
the clocks do (here the wall clock jumps past the expiration while the monotonic clock stands still) -/
example :
    AllSecure (fun r v => SecureOK acceptAll r ∧ TtlOK r v) [reqA 3600 1000 0, reqA 3600 1005 0, reqA 3600 1020 0]
      (runHistoryFixed acceptAll {} [] [reqA 3600 1000 0, reqA 3600 1005 0, reqA 3600 1020 0]) := by
  apply cache_sound
  · intro r hr
    simp only [List.mem_cons, List.mem_nil_iff, or_false] at hr
    rcases hr with rfl | rfl | rfl <;> (unfold Bounds SerialLe M HALF; decide)
  · simp only [List.pairwise_cons, List.mem_cons, or_false, forall_eq_or_imp, forall_eq,
      List.not_mem_nil, false_imp_iff, implies_true, List.Pairwise.nil, and_true]
    refine ⟨⟨?_, ?_⟩, ?_⟩ <;> (intro _; exact ⟨rfl, rfl, rfl, rfl⟩)

end HickoryVerif.C06
