/-
C01 — Wire decoding is total: any bytes give Ok or Err, never a panic or hang; no decoded name
exceeds 255 octets and no label exceeds 63.

Part 1: `Name::read` (`read_inner`, Model/NameWire.lean) for every buffer and every offset —
no panic, bounds of the result, position, and the number of loop iterations.
Part 2: a small contract calculus (`Sat`) for the readers of Model/Decoder.lean and its use on
Model/Wire.lean: `Record::read`, `RData::read`, `Message::read`, the server's request path —
no panic, decoded names bounded, iterations linear in the input length.
-/
import HickoryVerif.Model.NameSteps
import HickoryVerif.Model.Wire
namespace HickoryVerif.C01
open HickoryVerif HickoryVerif.Name HickoryVerif.Wire

/-- the bounds every `Name` value is supposed to respect -/
def Bounded (n : Name) : Prop :=
  n.encodedLen ≤ 255 ∧ ∀ l ∈ n.labels, 1 ≤ l.length ∧ l.length ≤ 63

theorem lt_of_get {buf : Bytes} {i b : Nat} (h : buf[i]? = some b) : i < buf.length := by
  have := (List.getElem?_eq_some_iff.1 h).1; exact this

theorem extendName_ne_panic (n : Name) (l : Bytes) (s : String) : n.extendName l ≠ .panic s := by
  simp only [extendName]
  by_cases h : n.encodedLen + l.length + 1 > MAX_LENGTH <;> simp [h]

theorem encodedLen_append (n : Name) (l : Bytes) :
    ({ n with labels := n.labels ++ [l] } : Name).encodedLen = n.encodedLen + l.length + 1 := by
  simp [encodedLen, dataLen]; omega

theorem extendName_ok {n n' : Name} {l : Bytes} (h : n.extendName l = .ok n') :
    n' = { n with labels := n.labels ++ [l] } ∧ n.encodedLen + l.length + 1 ≤ 255 := by
  simp only [extendName, MAX_LENGTH] at h
  by_cases hc : n.encodedLen + l.length + 1 > 255
  · simp [hc] at h
  · simp [hc] at h; exact ⟨h.symm, by omega⟩

theorem readLabels_no_panic (buf : Bytes) (pos ns : Nat) (pm : Option Nat) (acc : Name)
    (hns : ns ≤ pos) (s : String) : readLabels buf pos ns pm acc ≠ .panic s := by
  fun_induction readLabels buf pos ns pm acc <;> simp_all
  case case5 _ _ _ _ _ _ _ hg _ _ _ hl hgt =>
    have := lt_of_get hg; omega
  case case10 ih => exact ih (by omega)
  case case12 h => exact absurd h (extendName_ne_panic _ _ _)

theorem readLabels_pos (buf : Bytes) (pos ns : Nat) (pm : Option Nat) (acc : Name) :
    ∀ (n : Name) (p : Nat), readLabels buf pos ns pm acc = .ok (n, p) →
    pos < p ∧ p ≤ buf.length := by
  fun_induction readLabels buf pos ns pm acc <;> intro n p h
  case case3 hg =>
    cases h; have := lt_of_get hg; omega
  case case6 =>
    cases h; have := lt_of_get ‹buf[_ + 1]? = some _›; omega
  case case10 ih =>
    have := ih n p h; omega
  all_goals cases h

theorem take_drop_len {buf : Bytes} {pos b : Nat} (h : pos + 1 + b ≤ buf.length) :
    ((buf.drop (pos + 1)).take b).length = b := by
  simp only [List.length_take, List.length_drop]; omega

theorem bounded_new : Bounded Name.new := by
  simp [Bounded, Name.new, encodedLen, dataLen]

theorem bounded_fqdn {n : Name} (h : Bounded n) (b : Bool) : Bounded { n with fqdn := b } := h

theorem readLabels_bounded (buf : Bytes) (pos ns : Nat) (pm : Option Nat) (acc : Name)
    (hacc : Bounded acc) :
    ∀ (n : Name) (p : Nat), readLabels buf pos ns pm acc = .ok (n, p) → Bounded n := by
  fun_induction readLabels buf pos ns pm acc <;> intro n p h
  case case3 => cases h; exact hacc
  case case6 hx ih => cases h; exact ih hacc _ _ hx
  case case10 b _ hb0 _ hb hfit acc' hext ih =>
    refine ih ?_ n p h
    obtain ⟨rfl, hlen⟩ := extendName_ok hext
    have hl := take_drop_len hfit
    rw [hl] at hlen
    refine ⟨by rw [encodedLen_append, hl]; omega, ?_⟩
    intro l hlmem
    simp only [List.mem_append, List.mem_singleton] at hlmem
    rcases hlmem with hm | rfl
    · exact hacc.2 l hm
    · rw [hl]; omega
  all_goals cases h

theorem readLabelsSteps_fst (buf : Bytes) (pos ns : Nat) (pm : Option Nat) (acc : Name) :
    (readLabelsSteps buf pos ns pm acc).1 = readLabels buf pos ns pm acc := by
  fun_induction readLabels buf pos ns pm acc
  all_goals (rw [readLabelsSteps.eq_def]; split <;> simp_all +zetaDelta)
  all_goals (try (rw [if_neg (by omega)]))
  all_goals (try (rw [if_neg (by omega)]))
  all_goals (try simp_all +zetaDelta)
  all_goals try (
    generalize hr : readLabelsSteps _ _ _ _ _ = r at *
    obtain ⟨o, k⟩ := r
    simp_all)
  all_goals (rw [if_neg (by omega)])

/-- one run of the body per label (each label adds ≥ 2 to `encodedLen ≤ 255`) and one per pointer
(each pointer strictly lowers `nameStart`). -/
theorem readLabelsSteps_le (buf : Bytes) (pos ns : Nat) (pm : Option Nat) (acc : Name) :
    (readLabelsSteps buf pos ns pm acc).2 ≤ (255 - acc.encodedLen) / 2 + ns + 1 := by
  fun_induction readLabelsSteps buf pos ns pm acc
  case case6 hx ih => rw [hx] at ih; simp only at ih ⊢; omega
  case case7 hx ih => rw [hx] at ih; simp only at ih ⊢; omega
  case case8 hx ih => rw [hx] at ih; simp only at ih ⊢; omega
  case case10 b _ hb0 _ hb hfit acc' hext r ih =>
    obtain ⟨rfl, hlen⟩ := extendName_ok hext
    rw [encodedLen_append] at ih
    rw [take_drop_len hfit] at ih hlen
    simp only [r]
    omega
  all_goals (simp only; omega)

/-- after the first pointer `nameStart` is a 14-bit offset, so the bound does not depend on `pos` -/
theorem readLabelsSteps_le' (buf : Bytes) (pos ns : Nat) (pm : Option Nat) (acc : Name) :
    (readLabelsSteps buf pos ns pm acc).2 ≤ (255 - acc.encodedLen) / 2 + 16384 + 1 := by
  fun_induction readLabelsSteps buf pos ns pm acc
  case case6 pos ns pm acc hpm b hg hb0 hb3 b1 hg1 loc hlt hle n snd k hx ih =>
    have h2 := readLabelsSteps_le buf loc loc (some ns) acc
    rw [hx] at h2; simp only at h2 ⊢
    have : loc < 16384 := Nat.mod_lt _ (by decide)
    omega
  case case7 pos ns pm acc hpm b hg hb0 hb3 b1 hg1 loc hlt hle k hx ih =>
    have h2 := readLabelsSteps_le buf loc loc (some ns) acc
    rw [hx] at h2; simp only at h2 ⊢
    have : loc < 16384 := Nat.mod_lt _ (by decide)
    omega
  case case8 pos ns pm acc hpm b hg hb0 hb3 b1 hg1 loc hlt hle s k hx ih =>
    have h2 := readLabelsSteps_le buf loc loc (some ns) acc
    rw [hx] at h2; simp only at h2 ⊢
    have : loc < 16384 := Nat.mod_lt _ (by decide)
    omega
  case case10 b _ hb0 _ hb hfit acc' hext r ih =>
    obtain ⟨rfl, hlen⟩ := extendName_ok hext
    rw [encodedLen_append] at ih
    rw [take_drop_len hfit] at ih hlen
    simp only [r]
    omega
  all_goals (simp only; omega)

theorem encodedLen_new : Name.new.encodedLen = 1 := by
  simp [Name.new, encodedLen, dataLen]

/-! ## the property theorems about `Name::read` -/

/-- **`Name::read` never panics**, whatever the buffer and the offset: the only panic site, the
slice `&buffer[ptr..]` in `BinDecoder::clone`, is unreachable because a pointer target is
strictly below `name_start ≤ index < buffer.len()`. -/
theorem readName_no_panic (buf : Bytes) (pos : Nat) (s : String) :
    readName buf pos ≠ .panic s := by
  unfold readName
  have := readLabels_no_panic buf pos pos none new (Nat.le_refl _)
  cases h : readLabels buf pos pos none new with
  | ok v => obtain ⟨n, p⟩ := v; simp only; split <;> simp
  | err => simp
  | panic s' => exact absurd h (this s')

/-- **A decoded name is ≤ 255 octets on the wire and every label is 1..63 octets.** -/
theorem readName_bounds (buf : Bytes) (pos : Nat) (n : Name) (p : Nat)
    (h : readName buf pos = .ok (n, p)) :
    n.encodedLen ≤ 255 ∧ ∀ l ∈ n.labels, 1 ≤ l.length ∧ l.length ≤ 63 := by
  unfold readName at h
  cases h' : readLabels buf pos pos none new with
  | ok v =>
    obtain ⟨n', p'⟩ := v
    rw [h'] at h; simp only at h
    split at h
    · cases h
    · cases h; exact readLabels_bounded buf pos pos none new bounded_new _ _ h'
  | err => rw [h'] at h; cases h
  | panic s' => rw [h'] at h; cases h

/-- **A successful read consumes at least one octet and stays inside the buffer.** -/
theorem readName_pos (buf : Bytes) (pos : Nat) (n : Name) (p : Nat)
    (h : readName buf pos = .ok (n, p)) : pos < p ∧ p ≤ buf.length := by
  unfold readName at h
  cases h' : readLabels buf pos pos none new with
  | ok v =>
    obtain ⟨n', p'⟩ := v
    rw [h'] at h; simp only at h
    split at h
    · cases h
    · cases h; exact readLabels_pos buf pos pos none new _ _ h'
  | err => rw [h'] at h; cases h
  | panic s' => rw [h'] at h; cases h

/-- the instrumented reader computes the same result -/
theorem readNameSteps_fst (buf : Bytes) (pos : Nat) :
    (readNameSteps buf pos).1 = readName buf pos := by
  unfold readNameSteps readName
  rw [← readLabelsSteps_fst]
  generalize readLabelsSteps buf pos pos none new = r
  obtain ⟨o, k⟩ := r
  cases o with
  | ok v => rfl
  | err => rfl
  | panic s => rfl

/-- **Pointer chasing is bounded**: the body of the label loop runs at most
`128 + min(pos, 16384)` times (≤ 127 labels, one root, and one run per pointer; every pointer
strictly lowers `name_start`, which starts at `pos` and is a 14-bit offset after the first jump).
One run of the body is two iterations of the Rust `loop`. -/
theorem readName_steps_le (buf : Bytes) (pos : Nat) :
    (readNameSteps buf pos).2 ≤ 128 + min pos 16384 := by
  have h1 := readLabelsSteps_le buf pos pos none new
  have h2 := readLabelsSteps_le' buf pos pos none new
  rw [encodedLen_new] at h1 h2
  have : (readNameSteps buf pos).2 = (readLabelsSteps buf pos pos none new).2 := by
    unfold readNameSteps
    generalize readLabelsSteps buf pos pos none new = r
    obtain ⟨o, k⟩ := r
    cases o with
    | ok v => rfl
    | err => rfl
    | panic s => rfl
  rw [this]; omega

/-! non-vacuity: a compressed name decodes; a pointer loop is an error, not a hang -/
example : readName [3, 97, 98, 99, 0, 1, 120, 0xC0, 0] 5 =
    .ok ({ labels := [[120], [97, 98, 99]], fqdn := true }, 9) := by
  simp [readName, readLabels, extendName, Name.new, encodedLen, dataLen, MAX_LENGTH, Name.len]
example : readName [0xC0, 0] 0 = .err := by simp [readName, readLabels]
example : readName [0xC0, 2, 0xC0, 0] 2 = .err := by simp [readName, readLabels]

/-! ## Part 2: a contract calculus for readers -/

/-- The contract of reader `r` started on buffer `buf` in state `st`:
never a panic; the index only moves forward and stays inside the buffer (also on `Err`);
on `Ok` at least `m` octets were consumed and the value satisfies `P`;
the loop iterations spent are at most `K` per octet consumed plus `c`. -/
def SatAt {α} (r : Rd α) (buf : Bytes) (st : DSt) (K c m : Nat) (P : α → Prop) : Prop :=
  match r buf st with
  | (.ok a, st') => st.pos + m ≤ st'.pos ∧ st'.pos ≤ buf.length ∧
      st'.ticks ≤ st.ticks + K * (st'.pos - st.pos) + c ∧ P a
  | (.err, st') => st.pos ≤ st'.pos ∧ st'.pos ≤ buf.length ∧
      st'.ticks ≤ st.ticks + K * (st'.pos - st.pos) + c
  | (.panic _, _) => False

/-- the contract for every buffer and every state inside it -/
def Sat {α} (r : Rd α) (K c m : Nat) (P : α → Prop) : Prop :=
  ∀ (buf : Bytes) (st : DSt), st.pos ≤ buf.length → SatAt r buf st K c m P

theorem mul_split (K : Nat) {p0 p1 p2 : Nat} (h01 : p0 ≤ p1) (h12 : p1 ≤ p2) :
    K * (p1 - p0) + K * (p2 - p1) = K * (p2 - p0) := by
  rw [← Nat.mul_add]; congr 1; omega

theorem SatAt.weaken {α} {r : Rd α} {buf st} {K c m K' c' m' : Nat} {P P' : α → Prop}
    (h : SatAt r buf st K c m P) (hK : K ≤ K') (hc : c ≤ c') (hm : m' ≤ m) (hP : ∀ a, P a → P' a) :
    SatAt r buf st K' c' m' P' := by
  unfold SatAt at h ⊢
  rcases hr : r buf st with ⟨o, st'⟩
  rw [hr] at h
  have hmul := Nat.mul_le_mul_right (st'.pos - st.pos) hK
  cases o with
  | ok a =>
    simp only at h ⊢
    obtain ⟨h1, h2, h3, h4⟩ := h
    exact ⟨by omega, h2, by omega, hP a h4⟩
  | err =>
    simp only at h ⊢
    obtain ⟨h1, h2, h3⟩ := h
    exact ⟨h1, h2, by omega⟩
  | panic s => exact h

theorem Sat.weaken {α} {r : Rd α} {K c m K' c' m' : Nat} {P P' : α → Prop}
    (h : Sat r K c m P) (hK : K ≤ K') (hc : c ≤ c') (hm : m' ≤ m) (hP : ∀ a, P a → P' a) :
    Sat r K' c' m' P' := fun buf st hst => (h buf st hst).weaken hK hc hm hP

/-- sequencing; the continuation may use the intermediate state -/
theorem SatAt.bind {α β} {x : Rd α} {f : α → Rd β} {buf st} {K c1 c2 m1 m2 : Nat}
    {P : α → Prop} {Q : β → Prop}
    (hx : SatAt x buf st K c1 m1 P)
    (hf : ∀ a st1, x buf st = (.ok a, st1) → P a → st.pos + m1 ≤ st1.pos → st1.pos ≤ buf.length →
      SatAt (f a) buf st1 K c2 m2 Q) :
    SatAt (Rd.bind x f) buf st K (c1 + c2) (m1 + m2) Q := by
  unfold SatAt at hx ⊢
  unfold Rd.bind
  rcases hr : x buf st with ⟨o, st1⟩
  rw [hr] at hx
  cases o with
  | ok a =>
    simp only at hx ⊢
    obtain ⟨a1, a2, a3, a4⟩ := hx
    have h2 := hf a st1 hr a4 a1 a2
    unfold SatAt at h2
    rcases hr2 : f a buf st1 with ⟨o2, st2⟩
    rw [hr2] at h2
    cases o2 with
    | ok b =>
      simp only at h2 ⊢
      obtain ⟨b1, b2, b3, b4⟩ := h2
      have := mul_split K (show st.pos ≤ st1.pos by omega) (show st1.pos ≤ st2.pos by omega)
      exact ⟨by omega, b2, by omega, b4⟩
    | err =>
      simp only at h2 ⊢
      obtain ⟨b1, b2, b3⟩ := h2
      have := mul_split K (show st.pos ≤ st1.pos by omega) (show st1.pos ≤ st2.pos by omega)
      exact ⟨by omega, b2, by omega⟩
    | panic s => exact h2
  | err =>
    simp only at hx ⊢
    obtain ⟨a1, a2, a3⟩ := hx
    exact ⟨a1, a2, by omega⟩
  | panic s => exact hx

theorem Sat.bind {α β} {x : Rd α} {f : α → Rd β} {K c1 c2 m1 m2 : Nat} {P : α → Prop} {Q : β → Prop}
    (hx : Sat x K c1 m1 P) (hf : ∀ a, P a → Sat (f a) K c2 m2 Q) :
    Sat (Rd.bind x f) K (c1 + c2) (m1 + m2) Q :=
  fun buf st hst => (hx buf st hst).bind fun _ st1 _ hP _ h2 => hf _ hP buf st1 h2

/-- `do`-notation is `Rd.bind` -/
theorem bind_eq {α β} (x : Rd α) (f : α → Rd β) : (x >>= f) = Rd.bind x f := rfl
theorem pure_eq {α} (a : α) : (Pure.pure a : Rd α) = Rd.pure a := rfl

theorem Sat.pure {α} (a : α) {P : α → Prop} (h : P a) : Sat (Rd.pure a) 0 0 0 P := by
  intro buf st hst; simp [SatAt, Rd.pure, h]; omega

theorem Sat.fail {α} {P : α → Prop} : Sat (Rd.fail : Rd α) 0 0 0 P := by
  intro buf st hst; simp [SatAt, Rd.fail]; omega

theorem Sat.tick (n : Nat) : Sat (Rd.tick n) 0 n 0 (fun _ => True) := by
  intro buf st hst; simp [SatAt, Rd.tick]; omega

theorem Sat.lift {α} {o : Outcome α} {P : α → Prop} (hp : ∀ s, o ≠ .panic s)
    (hP : ∀ a, o = .ok a → P a) : Sat (Rd.lift o) 0 0 0 P := by
  intro buf st hst
  unfold SatAt Rd.lift
  cases o with
  | ok a => simp only; exact ⟨by omega, hst, by omega, hP a rfl⟩
  | err => simp only; exact ⟨by omega, hst, by omega⟩
  | panic s => exact absurd rfl (hp s)

theorem Sat.attempt {α} {x : Rd α} {K c m : Nat} {P : α → Prop} (h : Sat x K c m P) :
    Sat (Rd.attempt x) K c 0 (fun o => ∀ a, o = some a → P a) := by
  intro buf st hst
  have := h buf st hst
  unfold SatAt at this ⊢
  unfold Rd.attempt
  rcases hr : x buf st with ⟨o, st'⟩
  rw [hr] at this
  cases o with
  | ok a =>
    simp only at this ⊢
    obtain ⟨h1, h2, h3, h4⟩ := this
    exact ⟨by omega, h2, h3, fun b hb => by cases hb; exact h4⟩
  | err =>
    simp only at this ⊢
    obtain ⟨h1, h2, h3⟩ := this
    exact ⟨by omega, h2, h3, fun b hb => by cases hb⟩
  | panic s => exact this

theorem Sat.index : Sat Rd.index 0 0 0 (fun _ => True) := by
  intro buf st hst; simp [SatAt, Rd.index]; omega
theorem Sat.remaining : Sat Rd.remaining 0 0 0 (fun _ => True) := by
  intro buf st hst; simp [SatAt, Rd.remaining]; omega
theorem Sat.isEmpty : Sat Rd.isEmpty 0 0 0 (fun _ => True) := by
  intro buf st hst; simp [SatAt, Rd.isEmpty]; omega

theorem Sat.pop : Sat Rd.pop 0 0 1 (fun _ => True) := by
  intro buf st hst
  unfold SatAt Rd.pop
  cases h : buf[st.pos]? with
  | some b => simp only; have := lt_of_get h; exact ⟨by omega, by omega, by omega, trivial⟩
  | none => simp only; exact ⟨by omega, hst, by omega⟩

theorem Sat.readSlice (n : Nat) : Sat (Rd.readSlice n) 0 0 n (fun _ => True) := by
  intro buf st hst
  unfold SatAt Rd.readSlice
  by_cases h : n > buf.length - st.pos
  · simp only [h, if_true]; exact ⟨by omega, hst, by omega⟩
  · simp only [h, if_false]; exact ⟨by omega, by omega, by omega, trivial⟩

theorem Sat.readVecToEnd : Sat Rd.readVecToEnd 0 0 0 (fun _ => True) := by
  intro buf st hst; simp [SatAt, Rd.readVecToEnd]; omega

theorem Sat.readCharacterData : Sat Rd.readCharacterData 0 0 1 (fun _ => True) := by
  have := Sat.bind Sat.pop (fun a _ => (Sat.readSlice a).weaken (Nat.le_refl _) (Nat.le_refl _) (Nat.zero_le _) (fun _ h => h))
  exact this

theorem Sat.readU16 : Sat Rd.readU16 0 0 2 (fun _ => True) := by
  intro buf st hst
  unfold SatAt Rd.readU16 Rd.bind Rd.readSlice
  by_cases h : 2 > buf.length - st.pos
  · simp only [h, if_true]; exact ⟨by omega, hst, by omega⟩
  · simp only [h, if_false]
    have hl : ((buf.drop st.pos).take 2).length = 2 := by
      simp only [List.length_take, List.length_drop]; omega
    match hs : (buf.drop st.pos).take 2, hl with
    | [_, _], _ => simp [Rd.pure]; omega

theorem Sat.readU32 : Sat Rd.readU32 0 0 4 (fun _ => True) := by
  intro buf st hst
  unfold SatAt Rd.readU32 Rd.bind Rd.readSlice
  by_cases h : 4 > buf.length - st.pos
  · simp only [h, if_true]; exact ⟨by omega, hst, by omega⟩
  · simp only [h, if_false]
    have hl : ((buf.drop st.pos).take 4).length = 4 := by
      simp only [List.length_take, List.length_drop]; omega
    match hs : (buf.drop st.pos).take 4, hl with
    | [_, _, _, _], _ => simp [Rd.pure]; omega

theorem Sat.readI32 : Sat Rd.readI32 0 0 4 (fun _ => True) :=
  Sat.bind Sat.readU32 (fun a _ => Sat.pure _ trivial)

theorem Sat.splitOff {α} {inner : Rd α} {K c m : Nat} {P : α → Prop} (n : Nat)
    (h : Sat inner K c m P) : Sat (Rd.splitOff n inner) K c 0 P := by
  intro buf st hst
  unfold SatAt Rd.splitOff
  by_cases h1 : n > buf.length - st.pos
  · simp only [h1, if_true]; exact ⟨by omega, hst, by omega⟩
  · have h2 : ¬ st.pos + n > buf.length := by omega
    simp only [h1, h2, if_false]
    have hlen : (buf.take (st.pos + n)).length = st.pos + n := by
      simp only [List.length_take]; omega
    have hi := h (buf.take (st.pos + n)) st (by omega)
    unfold SatAt at hi
    rcases hr : inner (buf.take (st.pos + n)) st with ⟨o, st'⟩
    rw [hr] at hi
    have hm : ∀ p, p ≤ st.pos + n → K * (p - st.pos) ≤ K * (st.pos + n - st.pos) :=
      fun p hp => Nat.mul_le_mul_left K (by omega)
    cases o with
    | ok a =>
      simp only at hi ⊢
      obtain ⟨a1, a2, a3, a4⟩ := hi
      have := hm st'.pos (by omega)
      exact ⟨by omega, by omega, by omega, a4⟩
    | err =>
      simp only at hi ⊢
      obtain ⟨a1, a2, a3⟩ := hi
      have := hm st'.pos (by omega)
      exact ⟨by omega, by omega, by omega⟩
    | panic s => exact hi

theorem Sat.sliceFrom (i : Nat) : Sat (Rd.sliceFrom i) 0 0 0 (fun _ => True) := by
  intro buf st hst
  unfold SatAt Rd.sliceFrom
  by_cases h1 : i > st.pos
  · simp only [h1, if_true]; exact ⟨by omega, hst, by omega⟩
  · have h2 : ¬ st.pos > buf.length := by omega
    simp only [h1, h2, if_false]; exact ⟨by omega, hst, by omega, trivial⟩

/-- `Name::read` as a reader: at most 16 512 iterations, at least one octet, a bounded name -/
theorem Sat.name : Sat Rd.name 0 16512 1 Bounded := by
  intro buf st hst
  unfold SatAt Rd.name
  have hfst := readNameSteps_fst buf st.pos
  have hcost := readName_steps_le buf st.pos
  have hmin : min st.pos 16384 ≤ 16384 := Nat.min_le_right _ _
  rcases hr : readNameSteps buf st.pos with ⟨o, k⟩
  rw [hr] at hfst hcost
  simp only at hfst hcost
  cases o with
  | ok v =>
    obtain ⟨n, p⟩ := v
    simp only
    have hp := readName_pos buf st.pos n p hfst.symm
    have hb := readName_bounds buf st.pos n p hfst.symm
    exact ⟨by omega, hp.2, by omega, hb⟩
  | err => simp only; exact ⟨by omega, hst, by omega⟩
  | panic s => exact absurd hfst.symm (readName_no_panic buf st.pos s)

/-- a pure parser run on everything that is left: one iteration per octet at most -/
theorem Sat.toEnd {α} {p : Bytes → Outcome α × Nat} {P : α → Prop}
    (hp : ∀ d s, (p d).1 ≠ .panic s) (hc : ∀ d, (p d).2 ≤ d.length)
    (hP : ∀ d a, (p d).1 = .ok a → P a) : Sat (Wire.toEnd p) 1 0 0 P := by
  intro buf st hst
  unfold SatAt Wire.toEnd
  simp only [bind_eq, Rd.bind, Rd.readVecToEnd, Rd.tick, Rd.lift]
  have hc' := hc (buf.drop st.pos)
  simp only [List.length_drop] at hc'
  cases ho : (p (buf.drop st.pos)).1 with
  | ok a => simp only; exact ⟨by omega, by omega, by omega, hP _ a ho⟩
  | err => simp only; exact ⟨by omega, by omega, by omega⟩
  | panic s => exact absurd ho (hp _ s)

/-- a pure parser that consumes a prefix of what is left: one iteration per octet consumed -/
theorem Sat.parsePrefix {α} {p : Bytes → Outcome α × Nat} {P : α → Prop}
    (hp : ∀ d s, (p d).1 ≠ .panic s) (hP : ∀ d a, (p d).1 = .ok a → P a) :
    Sat (Rd.parsePrefix p) 1 0 0 P := by
  intro buf st hst
  unfold SatAt Rd.parsePrefix
  simp only
  have hu : min (p (buf.drop st.pos)).2 (buf.drop st.pos).length ≤ buf.length - st.pos := by
    have := Nat.min_le_right (p (buf.drop st.pos)).2 (buf.drop st.pos).length
    simp only [List.length_drop] at this ⊢
    exact this
  generalize min (p (buf.drop st.pos)).2 (buf.drop st.pos).length = used at hu
  cases ho : (p (buf.drop st.pos)).1 with
  | ok a => simp only; exact ⟨by omega, by omega, by omega, hP _ a ho⟩
  | err => simp only; exact ⟨by omega, by omega, by omega⟩
  | panic s => exact absurd ho (hp _ s)

theorem Sat.liftK {α} {r : Rd α} {K c m : Nat} {P : α → Prop} (h : Sat r 0 c m P) : Sat r K c m P :=
  h.weaken (Nat.zero_le _) (Nat.le_refl _) (Nat.le_refl _) (fun _ h => h)

theorem Sat.ite {α} {r1 r2 : Rd α} {K c m : Nat} {P : α → Prop} (p : Prop) [Decidable p]
    (h1 : p → Sat r1 K c m P) (h2 : ¬ p → Sat r2 K c m P) : Sat (if p then r1 else r2) K c m P := by
  by_cases h : p
  · simp only [h, if_true]; exact h1 h
  · simp only [h, if_false]; exact h2 h

/-! ### the pure RDATA parsers -/

theorem parseTxt_ok (d : Bytes) : (∀ s, (parseTxt d).1 ≠ .panic s) ∧ (parseTxt d).2 ≤ d.length := by
  fun_induction parseTxt d
  case case1 => simp
  case case2 h _ _ hx ih => rw [hx] at ih; simp at ih ⊢; omega
  case case3 h _ hx ih => rw [hx] at ih; simp at ih ⊢; omega
  case case4 hx ih => rw [hx] at ih; exact absurd rfl (ih.1 _)
  case case5 => simp

theorem parseSubnet_ne_panic (d : Bytes) (s : String) : parseSubnet d ≠ .panic s := by
  unfold parseSubnet
  split
  · rename_i f0 f1 sp scope rest
    simp only
    by_cases h1 : f0 * 256 + f1 = 1 ∨ f0 * 256 + f1 = 2
    · simp only [h1, if_true]
      generalize (if f0 * 256 + f1 = 1 then 4 else 16) = w
      generalize (sp / 8 + if sp % 8 > 0 then 1 else 0) = al
      by_cases h2 : al > w
      · simp [h2]
      · by_cases h3 : al > rest.length <;> simp [h2, h3]
    · simp [h1]
  · simp

theorem mkOpt_ne_panic (code : Nat) (d : Bytes) (s : String) : mkOpt code d ≠ .panic s := by
  unfold mkOpt
  have := parseSubnet_ne_panic d
  repeat' split
  all_goals (cases h : parseSubnet d <;> simp_all [Outcome.map])

theorem parseOpt_ok (total : Nat) (d : Bytes) (acc : List OptEntry) :
    (∀ s, (parseOpt total d acc).1 ≠ .panic s) ∧ (parseOpt total d acc).2 ≤ d.length := by
  fun_induction parseOpt total d acc
  case case6 r ih => simp only [r]; simp at ih ⊢; exact ⟨ih.1, by omega⟩
  case case8 hx => exact absurd hx (mkOpt_ne_panic _ _ _)
  case case10 r ih => simp only [r]; simp at ih ⊢; exact ⟨ih.1, by omega⟩
  case case12 hx => exact absurd hx (mkOpt_ne_panic _ _ _)
  all_goals (simp; try omega)

/-! ### the names inside a decoded value -/

def rdataNames : RData → List Name
  | .name n => [n]
  | .mx _ n => [n]
  | .soa m r _ _ _ _ _ => [m, r]
  | .srv _ _ _ n => [n]
  | .sig _ _ _ _ _ _ _ n _ => [n]
  | .nsec n _ => [n]
  | .tsig n _ _ _ _ _ _ => [n]
  | .naptr _ _ _ _ _ n => [n]
  | .svcb _ n _ => [n]
  | _ => []

def recordNames (r : Record) : List Name := r.name :: rdataNames r.rdata

def sigNames : Option Record → List Name
  | some r => recordNames r
  | none => []

def messageNames (m : Message) : List Name :=
  m.queries.map (·.name) ++ m.answers.flatMap recordNames ++ m.authorities.flatMap recordNames ++
    m.additionals.flatMap recordNames ++ sigNames m.signature

def requestNames (m : Request) : List Name :=
  m.query.name :: (m.answers.flatMap recordNames ++ m.authorities.flatMap recordNames ++
    m.additionals.flatMap recordNames ++ sigNames m.signature)

def AllBounded (l : List Name) : Prop := ∀ n ∈ l, Bounded n

/-- what is assumed of the codecs that are not modelled: the same contract as the modelled ones -/
def OpqOK (opq : Nat → Rd Bytes) : Prop := ∀ t, Sat (opq t) 1 33024 0 (fun _ => True)

/-! ### contracts of the wire readers -/

theorem readHeader_sat : Sat readHeader 0 0 12 (fun _ => True) := by
  unfold readHeader
  simp only [bind_eq, pure_eq]
  exact (Sat.bind Sat.readU16 fun _ _ => Sat.bind Sat.pop fun _ _ => Sat.bind Sat.pop fun _ _ =>
    Sat.bind Sat.readU16 fun _ _ => Sat.bind Sat.readU16 fun _ _ => Sat.bind Sat.readU16 fun _ _ =>
    Sat.bind Sat.readU16 fun _ _ => Sat.pure _ trivial).weaken (Nat.le_refl _) (by omega) (by omega) (fun _ h => h)

theorem readQuery_sat : Sat readQuery 0 16512 5 (fun q => Bounded q.name) := by
  unfold readQuery
  simp only [bind_eq, pure_eq]
  have h := Sat.bind Sat.name fun n hn => Sat.bind Sat.readU16 fun t _ => Sat.bind Sat.readU16 fun c _ =>
    Sat.pure (P := fun q : Query => Bounded q.name) { name := n, qtype := t, qclass := c } hn
  exact h.weaken (Nat.le_refl _) (by omega) (by omega) (fun _ h => h)

/-- the variant agrees with the record type it was decoded for (what `record_type()` relies on) -/
def TypeOK (t : Nat) : RData → Prop
  | .opaque t' _ => t' = t
  | .opt _ => t = 41
  | .update0 t' => t' = t
  | .tsig _ _ _ _ _ _ _ => t = 250
  | _ => True

/-- postcondition on RDATA decoded for type `t`: every name inside is bounded, variant matches -/
def RP (t : Nat) (rd : RData) : Prop := AllBounded (rdataNames rd) ∧ TypeOK t rd

theorem RP_nil {t : Nat} {rd : RData} (h : rdataNames rd = []) (h2 : TypeOK t rd) : RP t rd := by
  refine ⟨?_, h2⟩
  unfold AllBounded; rw [h]; intro n hn; cases hn

macro "sat_done " h:term : tactic =>
  `(tactic| exact (Sat.weaken $h (Nat.le_refl _) (by omega) (by omega) (fun _ h => h)))

theorem satAt_bind_index {β} (f : Nat → Rd β) (buf : Bytes) (st : DSt) (K c m : Nat) (Q : β → Prop) :
    SatAt (Rd.bind Rd.index f) buf st K c m Q ↔ SatAt (f st.pos) buf st K c m Q := Iff.rfl

theorem satAt_bind_remaining {β} (f : Nat → Rd β) (buf : Bytes) (st : DSt) (K c m : Nat) (Q : β → Prop) :
    SatAt (Rd.bind Rd.remaining f) buf st K c m Q ↔ SatAt (f (buf.length - st.pos)) buf st K c m Q := Iff.rfl

/-- pointwise use of a contract, at rate 1 and without the minimum-consumption information -/
theorem Sat.at1 {α} {r : Rd α} {c m : Nat} {P : α → Prop} (h : Sat r 0 c m P) (buf : Bytes) (st : DSt)
    (hst : st.pos ≤ buf.length) : SatAt r buf st 1 c 0 P :=
  (h buf st hst).weaken (Nat.zero_le _) (Nat.le_refl _) (Nat.zero_le _) (fun _ h => h)

theorem parseBitmap_ne_panic (d : Bytes) (stt : BmState) (acc : List Nat) (s : String) :
    parseBitmap d stt acc ≠ .panic s := by
  fun_induction parseBitmap d stt acc <;> simp_all

theorem readTypeSet_sat : Sat readTypeSet 1 0 0 (fun _ => True) := by
  unfold readTypeSet
  exact Sat.toEnd (fun d s => by
    cases h : parseBitmap d .window [] with
    | ok v => simp [Outcome.map]
    | err => simp [Outcome.map]
    | panic s' => exact absurd h (parseBitmap_ne_panic d _ _ s')) (fun d => Nat.le_refl _) (fun _ _ _ => trivial)

/-- `TSIG::read_data`: `end_idx - decoder.index()` cannot underflow (`end_idx` is the buffer length) -/
theorem readTsig_sat : Sat readTsig 1 33024 0 (RP 250) := by
  intro buf st hst
  unfold readTsig
  simp only [bind_eq, pure_eq]
  rw [satAt_bind_remaining, satAt_bind_index]
  have hend : buf.length - st.pos + st.pos = buf.length := by omega
  simp only [hend]
  refine SatAt.weaken (SatAt.bind (c1 := 16512) (c2 := 0) (m1 := 0) (m2 := 0) (Sat.name.at1 buf st hst) ?_)
    (Nat.le_refl _) (by omega) (by omega) (fun _ h => h)
  intro alg st1 _ halg _ h1
  refine SatAt.weaken (SatAt.bind (c1 := 0) (c2 := 0) (m1 := 0) (m2 := 0) (Sat.readU16.at1 buf st1 h1) ?_)
    (Nat.le_refl _) (by omega) (by omega) (fun _ h => h)
  intro th st2 _ _ _ h2
  refine SatAt.weaken (SatAt.bind (c1 := 0) (c2 := 0) (m1 := 0) (m2 := 0) (Sat.readU32.at1 buf st2 h2) ?_)
    (Nat.le_refl _) (by omega) (by omega) (fun _ h => h)
  intro tl st3 _ _ _ h3
  refine SatAt.weaken (SatAt.bind (c1 := 0) (c2 := 0) (m1 := 0) (m2 := 0) (Sat.readU16.at1 buf st3 h3) ?_)
    (Nat.le_refl _) (by omega) (by omega) (fun _ h => h)
  intro fudge st4 _ _ _ h4
  refine SatAt.weaken (SatAt.bind (c1 := 0) (c2 := 0) (m1 := 0) (m2 := 0) (Sat.readU16.at1 buf st4 h4) ?_)
    (Nat.le_refl _) (by omega) (by omega) (fun _ h => h)
  intro macSize st5 _ _ _ h5
  rw [satAt_bind_index]
  have hno5 : ¬ buf.length < st5.pos := by omega
  simp only [hno5, if_false]
  by_cases hc : ¬ (st5.pos + macSize + 6 ≤ buf.length)
  · simp only [hc, if_true]
    exact Sat.fail.at1 buf st5 h5
  · simp only [hc, if_false]
    refine SatAt.weaken (SatAt.bind (c1 := 0) (c2 := 0) (m1 := 0) (m2 := 0) ((Sat.readSlice macSize).at1 buf st5 h5) ?_)
      (Nat.le_refl _) (by omega) (by omega) (fun _ h => h)
    intro mac st6 _ _ _ h6
    refine SatAt.weaken (SatAt.bind (c1 := 0) (c2 := 0) (m1 := 0) (m2 := 0) (Sat.readU16.at1 buf st6 h6) ?_)
      (Nat.le_refl _) (by omega) (by omega) (fun _ h => h)
    intro oid st7 _ _ _ h7
    refine SatAt.weaken (SatAt.bind (c1 := 0) (c2 := 0) (m1 := 0) (m2 := 0) (Sat.readU16.at1 buf st7 h7) ?_)
      (Nat.le_refl _) (by omega) (by omega) (fun _ h => h)
    intro err st8 _ _ _ h8
    refine SatAt.weaken (SatAt.bind (c1 := 0) (c2 := 0) (m1 := 0) (m2 := 0) (Sat.readU16.at1 buf st8 h8) ?_)
      (Nat.le_refl _) (by omega) (by omega) (fun _ h => h)
    intro otherLen st9 _ _ _ h9
    rw [satAt_bind_index]
    have hno9 : ¬ buf.length < st9.pos := by omega
    simp only [hno9, if_false]
    by_cases hc2 : ¬ (st9.pos + otherLen = buf.length)
    · simp only [hc2, if_true]
      exact Sat.fail.at1 buf st9 h9
    · simp only [hc2, if_false]
      refine SatAt.weaken (SatAt.bind (c1 := 0) (c2 := 0) (m1 := 0) (m2 := 0) ((Sat.readSlice otherLen).at1 buf st9 h9) ?_)
        (Nat.le_refl _) (by omega) (by omega) (fun _ h => h)
      intro other st10 _ _ _ h10
      refine (Sat.pure (P := RP 250) (RData.tsig { alg with fqdn := false } (th * 4294967296 + tl) fudge mac oid err other) ⟨?_, rfl⟩).at1 buf st10 h10
      intro x hx
      simp only [rdataNames, List.mem_singleton] at hx
      subst hx
      exact halg

theorem readNsec3Head_sat : Sat readNsec3Head 1 0 0 (fun _ => True) := by
  unfold readNsec3Head
  simp only [bind_eq, pure_eq]
  have h := Sat.bind (K := 1) (Q := fun _ : Bool × Nat × Bytes => True) Sat.pop.liftK fun alg _ =>
    Sat.ite (c := 0) (m := 0) (alg ≠ 1) (fun _ => Sat.fail.liftK) (fun _ =>
      (Sat.bind Sat.pop.liftK fun flags _ =>
        Sat.ite (c := 0) (m := 0) (flags / 2 ≠ 0) (fun _ => Sat.fail.liftK) (fun _ =>
          (Sat.bind Sat.readU16.liftK fun iter _ => Sat.bind Sat.pop.liftK fun saltLen _ =>
            Sat.bind Sat.remaining.liftK fun left _ =>
            Sat.ite (c := 0) (m := 0) (saltLen > left) (fun _ => Sat.fail.liftK) (fun _ =>
              (Sat.bind (Sat.readSlice saltLen).liftK fun salt _ =>
                (Sat.pure (P := fun _ : Bool × Nat × Bytes => True) (decide (flags % 2 = 1), iter, salt) trivial).liftK).weaken
                (Nat.le_refl _) (by omega) (by omega) (fun _ h => h))).weaken
            (Nat.le_refl _) (by omega) (by omega) (fun _ h => h))).weaken
        (Nat.le_refl _) (by omega) (by omega) (fun _ h => h))
  sat_done h

theorem map_ne_panic {α β} {o : Outcome α} {f : α → β} (h : ∀ s, o ≠ .panic s) (s : String) :
    o.map f ≠ .panic s := by
  cases o with
  | ok a => simp [Outcome.map]
  | err => simp [Outcome.map]
  | panic s' => exact absurd rfl (h s')

theorem svcKeys_ne_panic (d : Bytes) : ∀ s, svcKeys d ≠ .panic s := by
  fun_induction svcKeys d
  · simp
  · simp
  · rename_i ih; exact map_ne_panic ih

theorem svcAlpns_ne_panic (d : Bytes) : ∀ s, svcAlpns d ≠ .panic s := by
  fun_induction svcAlpns d
  · simp
  · rename_i ih; exact map_ne_panic ih
  · simp
  · simp

theorem svcValue_ne_panic (key : Nat) (d : Bytes) (s : String) : svcValue key d ≠ .panic s := by
  unfold svcValue
  have h1 := svcKeys_ne_panic d
  have h2 := svcAlpns_ne_panic d
  repeat' split
  all_goals first
    | (intro h; cases h; done)
    | (rename_i hh; first | exact absurd hh (h1 _) | exact absurd hh (h2 _))

theorem svcParams_ne_panic (d : Bytes) (last : Option Nat) (acc : List (Nat × SvcVal)) :
    ∀ s, (svcParams d last acc).1 ≠ .panic s := by
  fun_induction svcParams d last acc
  all_goals first
    | (simp; done)
    | (rename_i hx; exact fun s => absurd hx (svcValue_ne_panic _ _ _))
    | (rename_i r ih; exact ih)
    | skip

theorem readTag_sat : ∀ (n : Nat) (acc : Bytes), Sat (readTag n acc) 0 0 0 (fun _ => True) := by
  intro n
  induction n with
  | zero => intro acc; rw [readTag]; exact Sat.pure _ trivial
  | succ n ih =>
    intro acc
    rw [readTag]
    simp only [bind_eq]
    have h := Sat.bind (K := 0) Sat.pop fun c _ =>
      Sat.ite (c := 0) (m := 0) (isAlnum c = true) (fun _ => ih (acc ++ [c])) (fun _ => Sat.fail)
    sat_done h

/-- `DNSSECRData::read`: reached only for `is_dnssec()` types other than TSIG, all of which have an
arm — the `panic!("not a dnssec RecordType")` arm is dead. -/
theorem readDnssec_sat (t : Nat) (hd : isDnssec t = true)
    (ht : t ≠ 250) : Sat (readDnssec t) 1 33024 0 (RP t) := by
  unfold readDnssec
  simp only [bind_eq, pure_eq]
  have hds : Sat (Rd.readU16.bind fun tag => Rd.pop.bind fun alg => Rd.pop.bind fun dt =>
      Rd.readVecToEnd.bind fun d => Rd.pure (RData.ds tag alg dt d)) 1 33024 0 (RP t) := by
    have h := Sat.bind (K := 1) Sat.readU16.liftK fun tag _ => Sat.bind Sat.pop.liftK fun alg _ =>
      Sat.bind Sat.pop.liftK fun dt _ => Sat.bind Sat.readVecToEnd.liftK fun d _ =>
      (Sat.pure (P := RP t) (RData.ds tag alg dt d) (RP_nil rfl trivial)).liftK
    sat_done h
  have hkey : ∀ cd : Bool, Sat (Rd.readU16.bind fun flags => Rd.pop.bind fun proto =>
      if proto ≠ 3 then Rd.fail
      else Rd.pop.bind fun alg => Rd.readVecToEnd.bind fun k => Rd.pure (RData.dnskey cd flags alg k))
      1 33024 0 (RP t) := fun cd => by
    have h := Sat.bind (K := 1) Sat.readU16.liftK fun flags _ => Sat.bind Sat.pop.liftK fun proto _ =>
      Sat.ite (c := 0) (m := 0) (proto ≠ 3) (fun _ => Sat.fail.liftK) (fun _ =>
        (Sat.bind Sat.pop.liftK fun alg _ => Sat.bind Sat.readVecToEnd.liftK fun k _ =>
          (Sat.pure (P := RP t) (RData.dnskey cd flags alg k) (RP_nil rfl trivial)).liftK).weaken
          (Nat.le_refl _) (by omega) (by omega) (fun _ h => h))
    sat_done h
  refine Sat.ite _ (fun _ => hds) (fun h43 => ?_)
  refine Sat.ite _ (fun _ => hds) (fun h59 => ?_)
  refine Sat.ite _ (fun _ => hkey false) (fun h48 => ?_)
  refine Sat.ite _ (fun _ => hkey true) (fun h60 => ?_)
  refine Sat.ite _ (fun _ => ?_) (fun h46 => ?_)
  · have h := Sat.bind (K := 1) Sat.readU16.liftK fun covered _ => Sat.bind Sat.pop.liftK fun alg _ =>
      Sat.bind Sat.pop.liftK fun labels _ => Sat.bind Sat.readU32.liftK fun ottl _ =>
      Sat.bind Sat.readU32.liftK fun exp _ => Sat.bind Sat.readU32.liftK fun inc _ =>
      Sat.bind Sat.readU16.liftK fun tag _ => Sat.bind Sat.name.liftK fun signer hn =>
      Sat.bind Sat.readVecToEnd.liftK fun sg _ =>
      (Sat.pure (P := RP t) (RData.sig covered alg labels ottl exp inc tag signer sg)
        ⟨by intro x hx; simp [rdataNames] at hx; exact hx ▸ hn, trivial⟩).liftK
    sat_done h
  refine Sat.ite _ (fun _ => ?_) (fun h47 => ?_)
  · have h := Sat.bind (K := 1) Sat.name.liftK fun next hn => Sat.bind readTypeSet_sat fun ts _ =>
      (Sat.pure (P := RP t) (RData.nsec next ts)
        ⟨by intro x hx; simp [rdataNames] at hx; exact hx ▸ hn, trivial⟩).liftK
    sat_done h
  refine Sat.ite _ (fun _ => ?_) (fun h50 => ?_)
  · have h := Sat.bind (K := 1) readNsec3Head_sat fun x _ => Sat.bind Sat.pop.liftK fun hashLen _ =>
      Sat.bind Sat.remaining.liftK fun left _ =>
      Sat.ite (c := 0) (m := 0) (hashLen > left) (fun _ => Sat.fail.liftK) (fun _ =>
        (Sat.bind (Sat.readSlice hashLen).liftK fun hash _ => Sat.bind readTypeSet_sat fun ts _ =>
          (Sat.pure (P := RP t) (RData.nsec3 x.1 x.2.1 x.2.2 hash (b32Label hash) ts) (RP_nil rfl trivial)).liftK).weaken
          (Nat.le_refl _) (by omega) (by omega) (fun _ h => h))
    sat_done h
  refine Sat.ite _ (fun _ => ?_) (fun h51 => ?_)
  · have h := Sat.bind (K := 1) readNsec3Head_sat fun x _ =>
      (Sat.pure (P := RP t) (RData.nsec3param x.1 x.2.1 x.2.2) (RP_nil rfl trivial)).liftK
    sat_done h
  refine Sat.ite _ (fun _ => ?_) (fun h25 => ?_)
  · have h := Sat.bind (K := 1) Sat.readU16.liftK fun flags _ =>
      Sat.ite (c := 0) (m := 0) ((flags / 8192) % 2 ≠ 0 ∨ (flags / 1024) % 4 ≠ 0 ∨ (flags / 16) % 16 ≠ 0)
        (fun _ => Sat.fail.liftK) (fun _ =>
      Sat.ite (r1 := Rd.panic "KeyTrust::from:All other bit fields should have been cleared")
        ((flags / 16384) % 4 > 3) (fun h => absurd h (by omega)) (fun _ =>
      Sat.ite (r1 := Rd.panic "KeyUsage::from:All other bit fields should have been cleared")
        ((flags / 256) % 4 > 3) (fun h => absurd h (by omega)) (fun _ =>
      Sat.ite ((flags / 4096) % 2 = 1) (fun _ => Sat.fail.liftK) (fun _ =>
        (Sat.bind Sat.pop.liftK fun proto _ => Sat.bind Sat.pop.liftK fun alg _ =>
          Sat.bind Sat.readVecToEnd.liftK fun k _ =>
          (Sat.pure (P := RP t) (RData.key flags proto alg k) (RP_nil rfl trivial)).liftK).weaken
          (Nat.le_refl _) (by omega) (by omega) (fun _ h => h)))))
    sat_done h
  · exfalso
    simp only [isDnssec, List.contains_cons, List.contains_nil, Bool.or_false, Bool.or_eq_true, beq_iff_eq] at hd
    omega

theorem readRDataBody_sat (opq : Nat → Rd Bytes) (hq : OpqOK opq) (t : Nat) :
    Sat (readRDataBody opq t) 1 33024 0 (RP t) := by
  unfold readRDataBody
  simp only [bind_eq, pure_eq]
  refine Sat.ite _ (fun _ => ?_) (fun _ => ?_)
  · have h := Sat.bind (K := 1) Sat.pop.liftK fun a _ => Sat.bind Sat.pop.liftK fun b _ =>
      Sat.bind Sat.pop.liftK fun c _ => Sat.bind Sat.pop.liftK fun d _ =>
      (Sat.pure (P := RP t) (RData.a [a, b, c, d]) (RP_nil rfl trivial)).liftK
    sat_done h
  refine Sat.ite _ (fun _ => ?_) (fun _ => ?_)
  · have h := Sat.bind (K := 1) Sat.readU16.liftK fun a _ => Sat.bind Sat.readU16.liftK fun b _ =>
      Sat.bind Sat.readU16.liftK fun c _ => Sat.bind Sat.readU16.liftK fun d _ =>
      Sat.bind Sat.readU16.liftK fun e _ => Sat.bind Sat.readU16.liftK fun f _ =>
      Sat.bind Sat.readU16.liftK fun g _ => Sat.bind Sat.readU16.liftK fun h _ =>
      (Sat.pure (P := RP t) (RData.aaaa [a / 256, a % 256, b / 256, b % 256, c / 256, c % 256, d / 256, d % 256,
                 e / 256, e % 256, f / 256, f % 256, g / 256, g % 256, h / 256, h % 256]) (RP_nil rfl trivial)).liftK
    sat_done h
  refine Sat.ite _ (fun _ => ?_) (fun _ => ?_)
  · have h := Sat.bind (K := 1) Sat.name.liftK fun n hn =>
      (Sat.pure (P := RP t) (RData.name n) ⟨by intro x hx; simp [rdataNames] at hx; exact hx ▸ hn, trivial⟩).liftK
    sat_done h
  refine Sat.ite _ (fun _ => ?_) (fun _ => ?_)
  · have h := Sat.bind (K := 1) Sat.readU16.liftK fun p _ => Sat.bind Sat.name.liftK fun n hn =>
      (Sat.pure (P := RP t) (RData.mx p n) ⟨by intro x hx; simp [rdataNames] at hx; exact hx ▸ hn, trivial⟩).liftK
    sat_done h
  refine Sat.ite _ (fun _ => ?_) (fun _ => ?_)
  · have h := Sat.bind (K := 1) Sat.name.liftK fun m hm => Sat.bind Sat.name.liftK fun r hr =>
      Sat.bind Sat.readU32.liftK fun a _ => Sat.bind Sat.readI32.liftK fun b _ =>
      Sat.bind Sat.readI32.liftK fun c _ => Sat.bind Sat.readI32.liftK fun d _ =>
      Sat.bind Sat.readU32.liftK fun e _ =>
      (Sat.pure (P := RP t) (RData.soa m r a b c d e)
        ⟨by intro x hx; simp [rdataNames] at hx; rcases hx with rfl | rfl <;> assumption, trivial⟩).liftK
    sat_done h
  refine Sat.ite _ (fun _ => ?_) (fun _ => ?_)
  · have h := Sat.bind (K := 1)
      (Sat.toEnd (P := fun _ => True) (fun d s => (parseTxt_ok d).1 s) (fun d => (parseTxt_ok d).2) (fun _ _ _ => trivial))
      fun ss _ => (Sat.pure (P := RP t) (RData.txt ss) (RP_nil rfl trivial)).liftK
    sat_done h
  refine Sat.ite _ (fun _ => ?_) (fun _ => ?_)
  · have h := Sat.bind (K := 1) Sat.readU16.liftK fun p _ => Sat.bind Sat.readU16.liftK fun w _ =>
      Sat.bind Sat.readU16.liftK fun port _ => Sat.bind Sat.name.liftK fun n hn =>
      (Sat.pure (P := RP t) (RData.srv p w port n) ⟨by intro x hx; simp [rdataNames] at hx; exact hx ▸ hn, trivial⟩).liftK
    sat_done h
  refine Sat.ite _ (fun _ => ?_) (fun _ => ?_)
  · have h := Sat.bind (K := 1) Sat.readCharacterData.liftK fun a _ => Sat.bind Sat.readCharacterData.liftK fun b _ =>
      (Sat.pure (P := RP t) (RData.hinfo a b) (RP_nil rfl trivial)).liftK
    sat_done h
  refine Sat.ite _ (fun _ => ?_) (fun _ => ?_)
  · have h := Sat.bind (K := 1) Sat.readVecToEnd.liftK fun d _ =>
      (Sat.pure (P := RP t) (RData.null d) (RP_nil rfl trivial)).liftK
    sat_done h
  refine Sat.ite _ (fun h41 => ?_) (fun _ => ?_)
  · have h := Sat.bind (K := 1) Sat.remaining.liftK fun total _ => Sat.bind
      (Sat.toEnd (p := fun d => parseOpt total d []) (P := fun _ => True)
        (fun d s => (parseOpt_ok total d []).1 s) (fun d => (parseOpt_ok total d []).2) (fun _ _ _ => trivial))
      fun os _ => (Sat.pure (P := RP t) (RData.opt os) (RP_nil rfl h41)).liftK
    sat_done h
  refine Sat.ite _ (fun _ => ?_) (fun _ => ?_)
  · sat_done (Sat.pure (P := RP t) RData.zero (RP_nil rfl trivial)).liftK (K := 1)
  refine Sat.ite _ (fun h250 => ?_) (fun hn250 => ?_)
  · subst h250; exact readTsig_sat
  refine Sat.ite _ (fun _ => ?_) (fun _ => ?_)
  · have h := Sat.bind (K := 1) Sat.remaining.liftK fun left _ =>
      Sat.ite (c := 0) (m := 0) (left ≤ 5) (fun _ => Sat.fail.liftK) (fun _ =>
        (Sat.bind Sat.readU16.liftK fun ct _ => Sat.bind Sat.readU16.liftK fun tag _ =>
          Sat.bind Sat.pop.liftK fun alg _ => Sat.bind Sat.readVecToEnd.liftK fun d _ =>
          (Sat.pure (P := RP t) (RData.cert ct tag alg d) (RP_nil rfl trivial)).liftK).weaken
          (Nat.le_refl _) (by omega) (by omega) (fun _ h => h))
    sat_done h
  refine Sat.ite _ (fun _ => ?_) (fun _ => ?_)
  · have h := Sat.bind (K := 1) Sat.readU32.liftK fun serial _ => Sat.bind Sat.readU16.liftK fun flags _ =>
      Sat.ite (c := 0) (m := 0) ((flags % 256) / 4 ≠ 0) (fun _ => Sat.fail.liftK) (fun _ =>
        (Sat.bind readTypeSet_sat fun ts _ =>
          (Sat.pure (P := RP t) (RData.csync serial flags ts) (RP_nil rfl trivial)).liftK).weaken
          (Nat.le_refl _) (by omega) (by omega) (fun _ h => h))
    sat_done h
  refine Sat.ite _ (fun _ => ?_) (fun _ => ?_)
  · have h := Sat.bind (K := 1) Sat.pop.liftK fun u _ => Sat.bind Sat.pop.liftK fun sel _ =>
      Sat.bind Sat.pop.liftK fun m _ => Sat.bind Sat.readVecToEnd.liftK fun d _ =>
      (Sat.pure (P := RP t) (RData.tlsa u sel m d) (RP_nil rfl trivial)).liftK
    sat_done h
  refine Sat.ite _ (fun _ => ?_) (fun _ => ?_)
  · have h := Sat.bind (K := 1) Sat.pop.liftK fun a _ => Sat.bind Sat.pop.liftK fun f _ =>
      Sat.bind Sat.readVecToEnd.liftK fun d _ =>
      (Sat.pure (P := RP t) (RData.sshfp a f d) (RP_nil rfl trivial)).liftK
    sat_done h
  refine Sat.ite _ (fun _ => ?_) (fun _ => ?_)
  · have h := Sat.bind (K := 1) Sat.readVecToEnd.liftK fun d _ =>
      (Sat.pure (P := RP t) (RData.openpgpkey d) (RP_nil rfl trivial)).liftK
    sat_done h
  refine Sat.ite _ (fun _ => ?_) (fun _ => ?_)
  · have h := Sat.bind (K := 1) Sat.pop.liftK fun flags _ => Sat.bind Sat.pop.liftK fun tagLen _ =>
      Sat.ite (c := 0) (m := 0) (tagLen = 0 ∨ tagLen > 15) (fun _ => Sat.fail.liftK) (fun _ =>
        (Sat.bind (readTag_sat tagLen []).liftK fun tag _ => Sat.bind Sat.readVecToEnd.liftK fun v _ =>
          (Sat.pure (P := RP t) (RData.caa (decide (flags / 128 = 1)) (flags % 128) tag v) (RP_nil rfl trivial)).liftK).weaken
          (Nat.le_refl _) (by omega) (by omega) (fun _ h => h))
    sat_done h
  refine Sat.ite _ (fun _ => ?_) (fun _ => ?_)
  · have h := Sat.bind (K := 1) Sat.readU16.liftK fun order _ => Sat.bind Sat.readU16.liftK fun pref _ =>
      Sat.bind Sat.readCharacterData.liftK fun flags _ =>
      Sat.ite (c := 16512) (m := 0) ((!flags.all isAlnum) = true) (fun _ => Sat.fail.liftK.weaken (Nat.le_refl _) (by omega) (by omega) (fun _ h => h)) (fun _ =>
        (Sat.bind Sat.readCharacterData.liftK fun services _ => Sat.bind Sat.readCharacterData.liftK fun regexp _ =>
          Sat.bind Sat.name.liftK fun n hn =>
          (Sat.pure (P := RP t) (RData.naptr order pref flags services regexp n)
            ⟨by intro x hx; simp [rdataNames] at hx; exact hx ▸ hn, trivial⟩).liftK).weaken
          (Nat.le_refl _) (by omega) (by omega) (fun _ h => h))
    sat_done h
  refine Sat.ite _ (fun _ => ?_) (fun _ => ?_)
  · have h := Sat.bind (K := 1) Sat.readU16.liftK fun prio _ => Sat.bind Sat.name.liftK fun target hn =>
      Sat.bind (Sat.parsePrefix (p := fun d => svcParams d none []) (P := fun _ => True)
        (fun d s => svcParams_ne_panic d none [] s) (fun _ _ _ => trivial)) fun ps _ =>
      (Sat.pure (P := RP t) (RData.svcb prio target ps)
        ⟨by intro x hx; simp [rdataNames] at hx; exact hx ▸ hn, trivial⟩).liftK
    sat_done h
  refine Sat.ite _ (fun hd => ?_) (fun _ => ?_)
  · exact readDnssec_sat t hd hn250
  refine Sat.ite _ (fun _ => ?_) (fun _ => ?_)
  · have h := Sat.bind (hq t) fun v _ => (Sat.pure (P := RP t) (RData.opaque t v) (RP_nil rfl rfl)).liftK
    sat_done h
  · have h := Sat.bind (K := 1) Sat.readVecToEnd.liftK fun d _ =>
      (Sat.pure (P := RP t) (RData.unknown t d) (RP_nil rfl trivial)).liftK
    sat_done h


theorem index_eq {buf : Bytes} {st st1 : DSt} {i : Nat} (h : Rd.index buf st = (.ok i, st1)) :
    st.pos = i ∧ st = st1 := by
  simp [Rd.index] at h; exact ⟨h.1, h.2⟩

/-- `RData::read`: the `index() - start_idx` subtraction cannot underflow -/
theorem readRData_sat (opq : Nat → Rd Bytes) (hq : OpqOK opq) (t : Nat) :
    Sat (readRData opq t) 1 33024 0 (RP t) := by
  intro buf st hst
  unfold readRData
  simp only [bind_eq, pure_eq]
  refine SatAt.weaken (SatAt.bind (c1 := 0) (c2 := 33024) (m1 := 0) (m2 := 0)
    (Sat.index.liftK buf st hst) fun start st1 heq _ _ _ => ?_)
    (Nat.le_refl 1) (by omega) (by omega) (fun _ h => h)
  obtain ⟨hi, hs⟩ := index_eq heq; subst hi hs
  by_cases ht : t = 255 ∨ t = 252 ∨ t = 251
  · simp only [ht, if_true]
    exact (Sat.fail.weaken (Nat.zero_le _) (Nat.zero_le _) (Nat.le_refl _) (fun _ h => h)) buf st hst
  · simp only [ht, if_false]
    refine SatAt.weaken (SatAt.bind (c1 := 33024) (c2 := 0) (m1 := 0) (m2 := 0)
      ((readRDataBody_sat opq hq t).attempt buf st hst)
      fun result st2 _ hres h1 h2 => ?_) (Nat.le_refl 1) (by omega) (by omega) (fun _ h => h)
    refine SatAt.weaken (SatAt.bind (c1 := 0) (c2 := 0) (m1 := 0) (m2 := 0)
      (Sat.index.liftK buf st2 h2) fun idx st3 heq3 _ _ _ => ?_)
      (Nat.le_refl 1) (by omega) (by omega) (fun _ h => h)
    obtain ⟨hi, hs⟩ := index_eq heq3; subst hi hs
    have hnot : ¬ st2.pos < st.pos := by omega
    simp only [hnot, if_false]
    refine (Sat.weaken (Sat.bind (K := 1) (c1 := 0) (c2 := 0) (m1 := 0) (m2 := 0) (Q := RP t)
      Sat.isEmpty.liftK fun empty _ =>
        Sat.ite _ (fun _ => Sat.fail.liftK) (fun _ => ?_))
      (Nat.le_refl 1) (by omega) (by omega) (fun _ h => h)) buf st2 h2
    cases result with
    | some v => exact (Sat.pure v (hres v rfl)).liftK
    | none => exact Sat.fail.liftK

def RecP (r : Record) : Prop := AllBounded (recordNames r) ∧ TypeOK r.rtype r.rdata

theorem RecP_mk (n : Name) (t cls ttl : Nat) (rd : RData) (hn : Bounded n) (hr : RP t rd) :
    RecP { name := n, rtype := t, cls := cls, ttl := ttl, rdata := rd } := by
  refine ⟨?_, hr.2⟩
  intro x hx
  simp only [recordNames, List.mem_cons] at hx
  rcases hx with rfl | hx
  · exact hn
  · exact hr.1 x hx

/-- `Record::read` -/
theorem readRecord_sat (opq : Nat → Rd Bytes) (hq : OpqOK opq) :
    Sat (readRecord opq) 1 49536 1 RecP := by
  unfold readRecord
  simp only [bind_eq, pure_eq]
  have hcls : ∀ (n : Name) (t : Nat), Sat (readClass n t) 1 0 0 (fun _ => True) := fun n t => by
    unfold readClass
    simp only [bind_eq, pure_eq]
    exact Sat.ite _ (fun _ => Sat.ite _ (fun _ => Sat.fail.liftK) (fun _ =>
        (Sat.bind (K := 1) Sat.readU16.liftK fun _ _ => (Sat.pure _ trivial).liftK).weaken
          (Nat.le_refl _) (by omega) (by omega) (fun _ h => h)))
      (fun _ => Sat.readU16.liftK.weaken (Nat.le_refl _) (by omega) (by omega) (fun _ h => h))
  have h := Sat.bind (K := 1) (Q := RecP) Sat.name.liftK fun n hn => Sat.bind Sat.readU16.liftK fun t _ =>
    Sat.bind (hcls n t) fun cls _ => Sat.bind Sat.readU32.liftK fun ttl _ =>
    Sat.bind Sat.readU16.liftK fun rdlen _ => Sat.bind Sat.remaining.liftK fun left _ =>
    Sat.ite (c := 33024) (m := 0) (rdlen > left)
      (fun _ => Sat.fail.liftK.weaken (Nat.le_refl _) (by omega) (by omega) (fun _ h => h))
      (fun _ => Sat.ite (rdlen = 0)
        (fun _ => (Sat.pure (P := RecP) { name := n, rtype := t, cls := cls, ttl := ttl, rdata := RData.update0 t }
          (RecP_mk n t cls ttl (RData.update0 t) hn (RP_nil rfl rfl))).liftK.weaken (Nat.le_refl _) (by omega) (by omega) (fun _ h => h))
        (fun _ => (Sat.bind (Sat.splitOff rdlen (readRData_sat opq hq t)) fun rd hrd =>
          (Sat.pure (P := RecP) { name := n, rtype := t, cls := cls, ttl := ttl, rdata := rd }
            (RecP_mk n t cls ttl rd hn hrd)).liftK).weaken (Nat.le_refl _) (by omega) (by omega) (fun _ h => h)))
  sat_done h

/-! ### loops: one iteration pays for itself with the octets it consumes -/

theorem bind_assoc {α β γ} (x : Rd α) (f : α → Rd β) (g : β → Rd γ) :
    Rd.bind (Rd.bind x f) g = Rd.bind x (fun a => Rd.bind (f a) g) := by
  funext buf st
  unfold Rd.bind
  rcases x buf st with ⟨o, st'⟩
  cases o <;> rfl

/-- loop step: a body that consumes at least one octet (`m = 1`) at rate `Kb` plus `cb`, followed by
a continuation at rate `Kb + cb`, runs at rate `Kb + cb` — the additive cost of the body is paid by
the octet it consumed; only a failing body leaves an additive `cb`. -/
theorem SatAt.step {α β} {x : Rd α} {f : α → Rd β} {buf st} {Kb cb : Nat}
    {P : α → Prop} {Q : β → Prop}
    (hx : SatAt x buf st Kb cb 1 P)
    (hf : ∀ a st1, P a → st1.pos ≤ buf.length → SatAt (f a) buf st1 (Kb + cb) cb 0 Q) :
    SatAt (Rd.bind x f) buf st (Kb + cb) cb 0 Q := by
  unfold SatAt at hx ⊢
  unfold Rd.bind
  rcases hr : x buf st with ⟨o, st1⟩
  rw [hr] at hx
  cases o with
  | ok a =>
    simp only at hx ⊢
    obtain ⟨a1, a2, a3, a4⟩ := hx
    have h2 := hf a st1 a4 a2
    unfold SatAt at h2
    rcases hr2 : f a buf st1 with ⟨o2, st2⟩
    rw [hr2] at h2
    have hpay : Kb * (st1.pos - st.pos) + cb ≤ (Kb + cb) * (st1.pos - st.pos) := by
      rw [Nat.add_mul]
      have : cb * 1 ≤ cb * (st1.pos - st.pos) := Nat.mul_le_mul_left cb (by omega)
      omega
    cases o2 with
    | ok b =>
      simp only at h2 ⊢
      obtain ⟨b1, b2, b3, b4⟩ := h2
      have := mul_split (Kb + cb) (show st.pos ≤ st1.pos by omega) (show st1.pos ≤ st2.pos by omega)
      exact ⟨by omega, b2, by omega, b4⟩
    | err =>
      simp only at h2 ⊢
      obtain ⟨b1, b2, b3⟩ := h2
      have := mul_split (Kb + cb) (show st.pos ≤ st1.pos by omega) (show st1.pos ≤ st2.pos by omega)
      exact ⟨by omega, b2, by omega⟩
    | panic s => exact h2
  | err =>
    simp only at hx ⊢
    obtain ⟨a1, a2, a3⟩ := hx
    have : Kb * (st1.pos - st.pos) ≤ (Kb + cb) * (st1.pos - st.pos) :=
      Nat.mul_le_mul_right _ (Nat.le_add_right _ _)
    exact ⟨a1, a2, by omega⟩
  | panic s => exact hx

theorem Sat.step {α β} {x : Rd α} {f : α → Rd β} {Kb cb : Nat} {P : α → Prop} {Q : β → Prop}
    (hx : Sat x Kb cb 1 P) (hf : ∀ a, P a → Sat (f a) (Kb + cb) cb 0 Q) :
    Sat (Rd.bind x f) (Kb + cb) cb 0 Q :=
  fun buf st hst => (hx buf st hst).step fun a st1 hP h2 => hf a hP buf st1 h2

/-- invariant of the accumulator of `read_records` -/
def AccP (acc : RecAcc) : Prop :=
  AllBounded (acc.1.flatMap recordNames) ∧ AllBounded (sigNames acc.2.2)

theorem AccP_push {recs : List Record} {edns : Option Edns} {sig : Option Record} {r : Record} {e : Option Edns}
    (h : AccP (recs, edns, sig)) (hr : RecP r) : AccP (recs ++ [r], e, sig) := by
  refine ⟨?_, h.2⟩
  intro n hn
  simp only [List.flatMap_append, List.mem_append, List.flatMap_cons, List.flatMap_nil, List.append_nil] at hn
  rcases hn with hn | hn
  · exact h.1 n hn
  · exact hr.1 n hn

theorem AccP_edns {recs : List Record} {edns e : Option Edns} {sig : Option Record}
    (h : AccP (recs, edns, sig)) : AccP (recs, e, sig) := h

theorem AccP_sig {recs : List Record} {edns : Option Edns} {sig : Option Record} {r : Record}
    (h : AccP (recs, edns, sig)) (hr : RecP r) : AccP (recs, edns, some r) := ⟨h.1, hr.1⟩

theorem ednsFrom_ne_panic (r : Record) (ht : r.rtype = T_OPT)
    (hd : (∃ os, r.rdata = .opt os) ∨ (∃ t, r.rdata = .update0 t)) (s : String) :
    ednsFrom r ≠ .panic s := by
  unfold ednsFrom
  simp only [ht, ne_eq, not_true_eq_false, if_false]
  rcases hd with ⟨os, h⟩ | ⟨t, h⟩ <;> rw [h] <;> simp

/-- `Message::read_records`: every iteration reads a record (≥ 1 octet), so the whole loop runs at
49 538 iterations per octet, whatever the count field says. -/
theorem readRecords_sat (opq : Nat → Rd Bytes) (hq : OpqOK opq) (isAdd : Bool) (op : Nat) :
    ∀ (count : Nat) (acc : RecAcc), AccP acc →
      Sat (readRecords opq isAdd op count acc) 49538 49537 0 AccP := by
  intro count
  induction count with
  | zero =>
    intro acc hacc
    rw [readRecords]
    exact (Sat.pure acc hacc).weaken (Nat.zero_le _) (Nat.zero_le _) (Nat.le_refl _) (fun _ h => h)
  | succ count ih =>
    intro ⟨recs, edns, sig⟩ hacc
    rw [readRecords]
    simp only [bind_eq, pure_eq]
    rw [← bind_assoc]
    have hbody : Sat (Rd.bind Rd.tick fun _ => readRecord opq) 1 49537 1 RecP :=
      (Sat.bind (K := 1) (Sat.tick 1).liftK fun _ _ => readRecord_sat opq hq).weaken
        (Nat.le_refl _) (by omega) (by omega) (fun _ h => h)
    refine Sat.step (Kb := 1) (cb := 49537) hbody fun r hr => ?_
    have hF : Sat (Rd.fail : Rd RecAcc) (1 + 49537) 49537 0 AccP :=
      Sat.fail.weaken (Nat.zero_le _) (Nat.zero_le _) (Nat.le_refl _) (fun _ h => h)
    have hpush := ih (recs ++ [r], edns, sig) (AccP_push hacc hr)
    refine Sat.ite _ (fun _ => hF) (fun _ => ?_)
    refine Sat.ite _ (fun _ => hF) (fun _ => ?_)
    refine Sat.ite _ (fun _ => hF) (fun _ => ?_)
    refine Sat.ite _ (fun _ => hpush) (fun _ => ?_)
    cases hrd : r.rdata with
    | tsig _ _ _ _ _ _ _ =>
      simp only
      exact ih _ (AccP_sig hacc hr)
    | opt os =>
      simp only
      have hty : r.rtype = T_OPT := by have := hr.2; rw [hrd] at this; exact this
      refine Sat.ite _ (fun _ => hF) (fun _ => ?_)
      have h := Sat.bind (K := 1 + 49537) (Sat.lift (P := fun _ => True)
        (ednsFrom_ne_panic r hty (Or.inl ⟨os, hrd⟩)) (fun _ _ => trivial)).liftK
        fun e _ => ih (recs, some e, sig) (AccP_edns hacc)
      sat_done h
    | update0 t =>
      simp only
      have hty : t = r.rtype := by have := hr.2; rw [hrd] at this; exact this
      refine Sat.ite _ (fun h41 => ?_) (fun _ => hpush)
      refine Sat.ite _ (fun _ => hF) (fun _ => ?_)
      have h := Sat.bind (K := 1 + 49537) (Sat.lift (P := fun _ => True)
        (ednsFrom_ne_panic r (hty ▸ h41) (Or.inr ⟨t, hrd⟩)) (fun _ _ => trivial)).liftK
        fun e _ => ih (recs, some e, sig) (AccP_edns hacc)
      sat_done h
    | _ => simp only; exact hpush

/-- the question loop of `Message::read` -/
theorem readQueries_sat : ∀ (count : Nat) (acc : List Query), AllBounded (acc.map (·.name)) →
    Sat (readQueries count acc) 16513 16513 0 (fun qs => AllBounded (qs.map (·.name))) := by
  intro count
  induction count with
  | zero =>
    intro acc hacc
    rw [readQueries]
    exact (Sat.pure acc hacc).weaken (Nat.zero_le _) (Nat.zero_le _) (Nat.le_refl _) (fun _ h => h)
  | succ count ih =>
    intro acc hacc
    rw [readQueries]
    simp only [bind_eq]
    rw [← bind_assoc]
    have hbody : Sat (Rd.bind Rd.tick fun _ => readQuery) 0 16513 1 (fun q => Bounded q.name) :=
      (Sat.bind (K := 0) (Sat.tick 1) fun _ _ => readQuery_sat).weaken
        (Nat.le_refl _) (by omega) (by omega) (fun _ h => h)
    refine Sat.step (Kb := 0) (cb := 16513) hbody fun q hq => ?_
    refine ih (acc ++ [q]) ?_
    intro n hn
    simp only [List.map_append, List.mem_append, List.map_cons, List.map_nil, List.mem_singleton] at hn
    rcases hn with hn | rfl
    · exact hacc n hn
    · exact hq

def MsgP (m : Message) : Prop := AllBounded (messageNames m)
def ReqP (m : Request) : Prop := AllBounded (requestNames m)

theorem AccP_nil : AccP ([], none, none) := by
  constructor <;> intro n hn <;> simp [sigNames] at hn

theorem allBounded_append {a b : List Name} (ha : AllBounded a) (hb : AllBounded b) : AllBounded (a ++ b) := by
  intro n hn; rcases List.mem_append.1 hn with h | h
  · exact ha n h
  · exact hb n h

/-- `Message::read` -/
theorem readMessage_sat (opq : Nat → Rd Bytes) (hq : OpqOK opq) :
    Sat (readMessage opq) 49538 165124 12 MsgP := by
  unfold readMessage
  simp only [bind_eq, pure_eq]
  have h := Sat.bind (K := 49538) (Q := MsgP) readHeader_sat.liftK fun hd _ =>
    Sat.bind ((readQueries_sat hd.2.qd [] (by intro n hn; cases hn)).weaken (by omega) (Nat.le_refl _) (Nat.le_refl _) (fun _ h => h))
      fun queries hqs =>
    Sat.bind (readRecords_sat opq hq false hd.1.op hd.2.an _ AccP_nil) fun an han =>
    Sat.bind (readRecords_sat opq hq false hd.1.op hd.2.ns _ AccP_nil) fun ns hns =>
    Sat.bind (readRecords_sat opq hq true hd.1.op hd.2.ar _ AccP_nil) fun ar har =>
    (Sat.pure (P := MsgP)
      { md := mergeRcode hd.1 ar.2.1, queries := queries, answers := an.1, authorities := ns.1,
        additionals := ar.1, signature := ar.2.2, edns := ar.2.1 }
      (allBounded_append (allBounded_append (allBounded_append (allBounded_append hqs han.1) hns.1) har.1) har.2)).liftK
  sat_done h

/-- `Queries::read`, first half: the raw question is at least 5 octets long -/
theorem readQueryRaw_sat :
    Sat readQueryRaw 0 16512 5 (fun x => Bounded x.1.name ∧ 5 ≤ x.2.length) := by
  intro buf st hst
  unfold readQueryRaw
  simp only [bind_eq, pure_eq]
  rw [satAt_bind_index]
  refine SatAt.weaken (SatAt.bind (c1 := 16512) (c2 := 0) (m1 := 5) (m2 := 0) (readQuery_sat buf st hst) ?_)
    (Nat.le_refl _) (by omega) (by omega) (fun _ h => h)
  intro q st1 _ hq h1 h2
  unfold SatAt Rd.bind Rd.sliceFrom
  have hn1 : ¬ st.pos > st1.pos := by omega
  have hn2 : ¬ st1.pos > buf.length := by omega
  simp only [hn1, hn2, if_false, Rd.pure]
  refine ⟨by omega, h2, by omega, hq, ?_⟩
  simp only [List.length_take, List.length_drop]
  omega

/-- `Queries::read`, second half: `original[len - 4..]` is in range -/
theorem echoBytes_sat (q : Query) (raw : Bytes) (h : 5 ≤ raw.length) :
    Sat (echoBytes q raw) 0 0 0 (fun _ => True) := by
  unfold echoBytes
  simp only [pure_eq]
  exact Sat.ite _ (fun _ => Sat.ite (r1 := Rd.panic "Queries::read:original[len-4..]") _
    (fun hlt => absurd hlt (by omega)) (fun _ => Sat.pure _ trivial)) (fun _ => Sat.pure _ trivial)

/-- `Request::from_bytes` (`Header::read`, `Queries::read`, `MessageRequest::read_with_queries`) -/
theorem readRequest_sat (opq : Nat → Rd Bytes) (hq : OpqOK opq) :
    Sat (readRequest opq) 49538 165123 12 ReqP := by
  unfold readRequest
  simp only [bind_eq, pure_eq]
  have h := Sat.bind (K := 49538) (Q := ReqP) readHeader_sat.liftK fun hd _ =>
    Sat.ite (c := 165123) (m := 0) (hd.2.qd ≠ 1)
      (fun _ => Sat.fail.liftK.weaken (Nat.le_refl _) (by omega) (by omega) (fun _ h => h))
      (fun _ => (Sat.bind readQueryRaw_sat.liftK fun x hx =>
        Sat.bind (echoBytes_sat x.1 x.2 hx.2).liftK fun original _ =>
        Sat.bind (readRecords_sat opq hq false hd.1.op hd.2.an _ AccP_nil) fun an han =>
        Sat.bind (readRecords_sat opq hq false hd.1.op hd.2.ns _ AccP_nil) fun ns hns =>
        Sat.bind (readRecords_sat opq hq true hd.1.op hd.2.ar _ AccP_nil) fun ar har =>
        (Sat.pure (P := ReqP)
          { md := mergeRcode hd.1 ar.2.1, query := x.1, original := original, answers := an.1,
            authorities := ns.1, additionals := ar.1, signature := ar.2.2, edns := ar.2.1 }
          (by
            intro n hn
            simp only [requestNames, List.mem_cons] at hn
            rcases hn with rfl | hn
            · exact hx.1
            · exact allBounded_append (allBounded_append (allBounded_append han.1 hns.1) har.1) har.2 n hn)).liftK).weaken
        (Nat.le_refl _) (by omega) (by omega) (fun _ h => h))
  sat_done h

/-! ## the property theorems about records, RDATA, messages and requests

`opq` is the parameter that stands for RDATA codecs without a model.  `Wire.unmodelled` is now
empty, so the parameter is never consulted (`readRData_indep`) and the theorems hold for every
`opq`, without hypothesis. -/

theorem run_of_sat {α} {r : Rd α} {K c m : Nat} {P : α → Prop} (h : Sat r K c m P)
    (buf : Bytes) (pos : Nat) (hpos : pos ≤ buf.length) :
    (∀ s, Rd.run r buf pos ≠ .panic s) ∧
    (∀ a p, Rd.run r buf pos = .ok (a, p) → P a ∧ pos + m ≤ p ∧ p ≤ buf.length) ∧
    Rd.cost r buf pos ≤ K * (buf.length - pos) + c := by
  have h0 := h buf { pos := pos } hpos
  unfold SatAt at h0
  unfold Rd.run Rd.cost
  rcases hr : r buf { pos := pos } with ⟨o, st'⟩
  rw [hr] at h0
  cases o with
  | ok a =>
    simp only at h0 ⊢
    obtain ⟨h1, h2, h3, h4⟩ := h0
    have : K * (st'.pos - pos) ≤ K * (buf.length - pos) := Nat.mul_le_mul_left K (by omega)
    refine ⟨by simp, ?_, by omega⟩
    intro a' p' he
    simp only [Outcome.ok.injEq, Prod.mk.injEq] at he
    obtain ⟨rfl, rfl⟩ := he
    exact ⟨h4, h1, h2⟩
  | err =>
    simp only at h0 ⊢
    obtain ⟨h1, h2, h3⟩ := h0
    have : K * (st'.pos - pos) ≤ K * (buf.length - pos) := Nat.mul_le_mul_left K (by omega)
    exact ⟨by simp, by simp, by omega⟩
  | panic s => exact absurd h0 id

theorem opqFail_ok : OpqOK (fun _ => Rd.fail) := fun _ =>
  Sat.fail.weaken (Nat.zero_le _) (Nat.zero_le _) (Nat.le_refl _) (fun _ h => h)

/-- for a modelled record type the result does not depend on the parameter -/
theorem readRData_modelled_indep (opq opq' : Nat → Rd Bytes) (t : Nat) (ht : unmodelled.contains t = false) :
    readRData opq t = readRData opq' t := by
  unfold readRData readRDataBody
  simp only [ht]
  rfl

/-- every record type is modelled: the parameter is dead -/
theorem readRData_indep (opq opq' : Nat → Rd Bytes) : readRData opq = readRData opq' :=
  funext fun t => readRData_modelled_indep opq opq' t (by simp [unmodelled])

theorem readRecord_indep (opq opq' : Nat → Rd Bytes) : readRecord opq = readRecord opq' := by
  unfold readRecord; rw [readRData_indep opq opq']

theorem readRecords_indep (opq opq' : Nat → Rd Bytes) (isAdd : Bool) (op : Nat) :
    ∀ (count : Nat) (acc : RecAcc), readRecords opq isAdd op count acc = readRecords opq' isAdd op count acc := by
  intro count
  induction count with
  | zero => intro acc; rw [readRecords, readRecords]
  | succ n ih =>
    intro ⟨recs, edns, sig⟩
    rw [readRecords, readRecords, readRecord_indep opq opq']
    simp only [ih]

theorem readMessage_indep (opq opq' : Nat → Rd Bytes) : readMessage opq = readMessage opq' := by
  unfold readMessage
  simp only [readRecords_indep opq opq']

theorem readRequest_indep (opq opq' : Nat → Rd Bytes) : readRequest opq = readRequest opq' := by
  unfold readRequest
  simp only [readRecords_indep opq opq']

/-- **`RData::read` never panics**, for every record type code, buffer and start index. -/
theorem readRData_no_panic (opq : Nat → Rd Bytes) (t : Nat) (buf : Bytes) (pos : Nat)
    (hpos : pos ≤ buf.length) (s : String) : Rd.run (readRData opq t) buf pos ≠ .panic s := by
  rw [readRData_indep opq (fun _ => Rd.fail)]
  exact (run_of_sat (readRData_sat _ opqFail_ok t) buf pos hpos).1 s

/-- **`Record::read` never panics.** -/
theorem readRecord_no_panic (opq : Nat → Rd Bytes) (buf : Bytes) (pos : Nat)
    (hpos : pos ≤ buf.length) (s : String) : Rd.run (readRecord opq) buf pos ≠ .panic s := by
  rw [readRecord_indep opq (fun _ => Rd.fail)]
  exact (run_of_sat (readRecord_sat _ opqFail_ok) buf pos hpos).1 s

/-- **`Message::from_vec` never panics**, for every byte string. -/
theorem readMessage_no_panic (opq : Nat → Rd Bytes) (buf : Bytes) (s : String) :
    Rd.run (readMessage opq) buf 0 ≠ .panic s := by
  rw [readMessage_indep opq (fun _ => Rd.fail)]
  exact (run_of_sat (readMessage_sat _ opqFail_ok) buf 0 (Nat.zero_le _)).1 s

/-- **The server's `Request::from_bytes` never panics**, for every byte string. -/
theorem readRequest_no_panic (opq : Nat → Rd Bytes) (buf : Bytes) (s : String) :
    Rd.run (readRequest opq) buf 0 ≠ .panic s := by
  rw [readRequest_indep opq (fun _ => Rd.fail)]
  exact (run_of_sat (readRequest_sat _ opqFail_ok) buf 0 (Nat.zero_le _)).1 s

/-- **No decoded name exceeds 255 octets and no label 63**: every name of a decoded message
(question names, owner names, every name inside RDATA, the owner and algorithm of the TSIG record). -/
theorem decoded_names_bounded (opq : Nat → Rd Bytes) (buf : Bytes) (m : Message) (p : Nat)
    (h : Rd.run (readMessage opq) buf 0 = .ok (m, p)) :
    ∀ n ∈ messageNames m, n.encodedLen ≤ 255 ∧ ∀ l ∈ n.labels, 1 ≤ l.length ∧ l.length ≤ 63 := by
  rw [readMessage_indep opq (fun _ => Rd.fail)] at h
  exact ((run_of_sat (readMessage_sat _ opqFail_ok) buf 0 (Nat.zero_le _)).2.1 m p h).1

/-- the same for a decoded server request -/
theorem decoded_request_names_bounded (opq : Nat → Rd Bytes) (buf : Bytes) (m : Request)
    (p : Nat) (h : Rd.run (readRequest opq) buf 0 = .ok (m, p)) :
    ∀ n ∈ requestNames m, n.encodedLen ≤ 255 ∧ ∀ l ∈ n.labels, 1 ≤ l.length ∧ l.length ≤ 63 := by
  rw [readRequest_indep opq (fun _ => Rd.fail)] at h
  exact ((run_of_sat (readRequest_sat _ opqFail_ok) buf 0 (Nat.zero_le _)).2.1 m p h).1

/-- and for a single record, which moreover lies inside the buffer and is at least one octet long -/
theorem decoded_record_names_bounded (opq : Nat → Rd Bytes) (buf : Bytes) (pos : Nat)
    (hpos : pos ≤ buf.length) (r : Record) (p : Nat) (h : Rd.run (readRecord opq) buf pos = .ok (r, p)) :
    (∀ n ∈ recordNames r, n.encodedLen ≤ 255 ∧ ∀ l ∈ n.labels, 1 ≤ l.length ∧ l.length ≤ 63) ∧
      pos < p ∧ p ≤ buf.length := by
  rw [readRecord_indep opq (fun _ => Rd.fail)] at h
  have := (run_of_sat (readRecord_sat _ opqFail_ok) buf pos hpos).2.1 r p h
  exact ⟨this.1.1, by omega, this.2.2⟩

/-- **Decoding takes time proportional to the input**: the number of loop iterations (section
loops, name label/pointer loops, TXT / OPT / type-bitmap / SVCB-parameter loops; whatever the count
fields claim) is at most `49538 · |b| + 165124`.  (A name costs at most 16 512 iterations because
pointer targets are 14-bit and strictly decreasing; a record holds at most three names.) -/
theorem readMessage_steps_le (opq : Nat → Rd Bytes) (buf : Bytes) :
    Rd.cost (readMessage opq) buf 0 ≤ 49538 * buf.length + 165124 := by
  rw [readMessage_indep opq (fun _ => Rd.fail)]
  exact (run_of_sat (readMessage_sat _ opqFail_ok) buf 0 (Nat.zero_le _)).2.2

theorem readRequest_steps_le (opq : Nat → Rd Bytes) (buf : Bytes) :
    Rd.cost (readRequest opq) buf 0 ≤ 49538 * buf.length + 165123 := by
  rw [readRequest_indep opq (fun _ => Rd.fail)]
  exact (run_of_sat (readRequest_sat _ opqFail_ok) buf 0 (Nat.zero_le _)).2.2

/-! non-vacuity: the contract of the (dead) parameter is satisfiable; a header-only message decodes -/
example : OpqOK (fun _ => Rd.fail) := opqFail_ok
example : (Rd.run (readMessage (fun _ => Rd.fail)) [0x12, 0x34, 1, 0, 0, 0, 0, 0, 0, 0, 0, 0] 0).isOk = true := by
  decide

end HickoryVerif.C01
