/-
C01 — Wire decoding is total: any bytes give Ok or Err, never a panic or hang; no decoded name
exceeds 255 octets and no label exceeds 63.

Part 1 (this section): `Name::read` (`read_inner`, Model/NameWire.lean) for every buffer and
every offset — no panic, bounds of the result, position, and the number of loop iterations.
-/
import HickoryVerif.Model.NameSteps
namespace HickoryVerif.C01
open HickoryVerif HickoryVerif.Name

/-- the bounds every `Name` value is supposed to respect -/
def Bounded (n : Name) : Prop :=
  n.encodedLen ≤ 255 ∧ ∀ l ∈ n.labels, 1 ≤ l.length ∧ l.length ≤ 63

theorem lt_of_get {buf : Bytes} {i b : Nat} (h : buf[i]? = some b) : i < buf.length := by
  have := (List.getElem?_eq_some_iff.1 h).1; exact this

theorem extendName_ne_panic (n : Name) (l : Bytes) (s : String) : n.extendName l ≠ .panic s := by
  simp only [extendName]
  by_cases h : n.encodedLen + l.length + 1 > MAX_LENGTH <;> simp [h]

theorem encodedLen_append (n : Name) (l : Bytes) :
    ({ n with labels := n.labels ++ [l] } : Name).encodedLen = n.encodedLen + l.length + 1 := by
  simp [encodedLen, dataLen]; omega

theorem extendName_ok {n n' : Name} {l : Bytes} (h : n.extendName l = .ok n') :
    n' = { n with labels := n.labels ++ [l] } ∧ n.encodedLen + l.length + 1 ≤ 255 := by
  simp only [extendName, MAX_LENGTH] at h
  by_cases hc : n.encodedLen + l.length + 1 > 255
  · simp [hc] at h
  · simp [hc] at h; exact ⟨h.symm, by omega⟩

theorem readLabels_no_panic (buf : Bytes) (pos ns : Nat) (pm : Option Nat) (acc : Name)
    (hns : ns ≤ pos) (s : String) : readLabels buf pos ns pm acc ≠ .panic s := by
  fun_induction readLabels buf pos ns pm acc <;> simp_all
  case case5 _ _ _ _ _ _ _ hg _ _ _ hl hgt =>
    have := lt_of_get hg; omega
  case case10 ih => exact ih (by omega)
  case case12 h => exact absurd h (extendName_ne_panic _ _ _)

theorem readLabels_pos (buf : Bytes) (pos ns : Nat) (pm : Option Nat) (acc : Name) :
    ∀ (n : Name) (p : Nat), readLabels buf pos ns pm acc = .ok (n, p) →
    pos < p ∧ p ≤ buf.length := by
  fun_induction readLabels buf pos ns pm acc <;> intro n p h
  case case3 hg =>
    cases h; have := lt_of_get hg; omega
  case case6 =>
    cases h; have := lt_of_get ‹buf[_ + 1]? = some _›; omega
  case case10 ih =>
    have := ih n p h; omega
  all_goals cases h

theorem take_drop_len {buf : Bytes} {pos b : Nat} (h : pos + 1 + b ≤ buf.length) :
    ((buf.drop (pos + 1)).take b).length = b := by
  simp only [List.length_take, List.length_drop]; omega

theorem bounded_new : Bounded Name.new := by
  simp [Bounded, Name.new, encodedLen, dataLen]

theorem bounded_fqdn {n : Name} (h : Bounded n) (b : Bool) : Bounded { n with fqdn := b } := h

theorem readLabels_bounded (buf : Bytes) (pos ns : Nat) (pm : Option Nat) (acc : Name)
    (hacc : Bounded acc) :
    ∀ (n : Name) (p : Nat), readLabels buf pos ns pm acc = .ok (n, p) → Bounded n := by
  fun_induction readLabels buf pos ns pm acc <;> intro n p h
  case case3 => cases h; exact hacc
  case case6 hx ih => cases h; exact ih hacc _ _ hx
  case case10 b _ hb0 _ hb hfit acc' hext ih =>
    refine ih ?_ n p h
    obtain ⟨rfl, hlen⟩ := extendName_ok hext
    have hl := take_drop_len hfit
    rw [hl] at hlen
    refine ⟨by rw [encodedLen_append, hl]; omega, ?_⟩
    intro l hlmem
    simp only [List.mem_append, List.mem_singleton] at hlmem
    rcases hlmem with hm | rfl
    · exact hacc.2 l hm
    · rw [hl]; omega
  all_goals cases h

theorem readLabelsSteps_fst (buf : Bytes) (pos ns : Nat) (pm : Option Nat) (acc : Name) :
    (readLabelsSteps buf pos ns pm acc).1 = readLabels buf pos ns pm acc := by
  fun_induction readLabels buf pos ns pm acc
  all_goals (rw [readLabelsSteps.eq_def]; split <;> simp_all +zetaDelta)
  all_goals (try (rw [if_neg (by omega)]))
  all_goals (try (rw [if_neg (by omega)]))
  all_goals (try simp_all +zetaDelta)
  all_goals try (
    generalize hr : readLabelsSteps _ _ _ _ _ = r at *
    obtain ⟨o, k⟩ := r
    simp_all)
  all_goals (rw [if_neg (by omega)])

/-- one run of the body per label (each label adds ≥ 2 to `encodedLen ≤ 255`) and one per pointer
(each pointer strictly lowers `nameStart`). -/
theorem readLabelsSteps_le (buf : Bytes) (pos ns : Nat) (pm : Option Nat) (acc : Name) :
    (readLabelsSteps buf pos ns pm acc).2 ≤ (255 - acc.encodedLen) / 2 + ns + 1 := by
  fun_induction readLabelsSteps buf pos ns pm acc
  case case6 hx ih => rw [hx] at ih; simp only at ih ⊢; omega
  case case7 hx ih => rw [hx] at ih; simp only at ih ⊢; omega
  case case8 hx ih => rw [hx] at ih; simp only at ih ⊢; omega
  case case10 b _ hb0 _ hb hfit acc' hext r ih =>
    obtain ⟨rfl, hlen⟩ := extendName_ok hext
    rw [encodedLen_append] at ih
    rw [take_drop_len hfit] at ih hlen
    simp only [r]
    omega
  all_goals (simp only; omega)

/-- after the first pointer `nameStart` is a 14-bit offset, so the bound does not depend on `pos` -/
theorem readLabelsSteps_le' (buf : Bytes) (pos ns : Nat) (pm : Option Nat) (acc : Name) :
    (readLabelsSteps buf pos ns pm acc).2 ≤ (255 - acc.encodedLen) / 2 + 16384 + 1 := by
  fun_induction readLabelsSteps buf pos ns pm acc
  case case6 pos ns pm acc hpm b hg hb0 hb3 b1 hg1 loc hlt hle n snd k hx ih =>
    have h2 := readLabelsSteps_le buf loc loc (some ns) acc
    rw [hx] at h2; simp only at h2 ⊢
    have : loc < 16384 := Nat.mod_lt _ (by decide)
    omega
  case case7 pos ns pm acc hpm b hg hb0 hb3 b1 hg1 loc hlt hle k hx ih =>
    have h2 := readLabelsSteps_le buf loc loc (some ns) acc
    rw [hx] at h2; simp only at h2 ⊢
    have : loc < 16384 := Nat.mod_lt _ (by decide)
    omega
  case case8 pos ns pm acc hpm b hg hb0 hb3 b1 hg1 loc hlt hle s k hx ih =>
    have h2 := readLabelsSteps_le buf loc loc (some ns) acc
    rw [hx] at h2; simp only at h2 ⊢
    have : loc < 16384 := Nat.mod_lt _ (by decide)
    omega
  case case10 b _ hb0 _ hb hfit acc' hext r ih =>
    obtain ⟨rfl, hlen⟩ := extendName_ok hext
    rw [encodedLen_append] at ih
    rw [take_drop_len hfit] at ih hlen
    simp only [r]
    omega
  all_goals (simp only; omega)

theorem encodedLen_new : Name.new.encodedLen = 1 := by
  simp [Name.new, encodedLen, dataLen]

/-! ## the property theorems about `Name::read` -/

/-- **`Name::read` never panics**, whatever the buffer and the offset: the only panic site, the
slice `&buffer[ptr..]` in `BinDecoder::clone`, is unreachable because a pointer target is
strictly below `name_start ≤ index < buffer.len()`. -/
theorem readName_no_panic (buf : Bytes) (pos : Nat) (s : String) :
    readName buf pos ≠ .panic s := by
  unfold readName
  have := readLabels_no_panic buf pos pos none new (Nat.le_refl _)
  cases h : readLabels buf pos pos none new with
  | ok v => obtain ⟨n, p⟩ := v; simp only; split <;> simp
  | err => simp
  | panic s' => exact absurd h (this s')

/-- **A decoded name is ≤ 255 octets on the wire and every label is 1..63 octets.** -/
theorem readName_bounds (buf : Bytes) (pos : Nat) (n : Name) (p : Nat)
    (h : readName buf pos = .ok (n, p)) :
    n.encodedLen ≤ 255 ∧ ∀ l ∈ n.labels, 1 ≤ l.length ∧ l.length ≤ 63 := by
  unfold readName at h
  cases h' : readLabels buf pos pos none new with
  | ok v =>
    obtain ⟨n', p'⟩ := v
    rw [h'] at h; simp only at h
    split at h
    · cases h
    · cases h; exact readLabels_bounded buf pos pos none new bounded_new _ _ h'
  | err => rw [h'] at h; cases h
  | panic s' => rw [h'] at h; cases h

/-- **A successful read consumes at least one octet and stays inside the buffer.** -/
theorem readName_pos (buf : Bytes) (pos : Nat) (n : Name) (p : Nat)
    (h : readName buf pos = .ok (n, p)) : pos < p ∧ p ≤ buf.length := by
  unfold readName at h
  cases h' : readLabels buf pos pos none new with
  | ok v =>
    obtain ⟨n', p'⟩ := v
    rw [h'] at h; simp only at h
    split at h
    · cases h
    · cases h; exact readLabels_pos buf pos pos none new _ _ h'
  | err => rw [h'] at h; cases h
  | panic s' => rw [h'] at h; cases h

/-- the instrumented reader computes the same result -/
theorem readNameSteps_fst (buf : Bytes) (pos : Nat) :
    (readNameSteps buf pos).1 = readName buf pos := by
  unfold readNameSteps readName
  rw [← readLabelsSteps_fst]
  generalize readLabelsSteps buf pos pos none new = r
  obtain ⟨o, k⟩ := r
  cases o with
  | ok v => rfl
  | err => rfl
  | panic s => rfl

/-- **Pointer chasing is bounded**: the body of the label loop runs at most
`128 + min(pos, 16384)` times (≤ 127 labels, one root, and one run per pointer; every pointer
strictly lowers `name_start`, which starts at `pos` and is a 14-bit offset after the first jump).
One run of the body is two iterations of the Rust `loop`. -/
theorem readName_steps_le (buf : Bytes) (pos : Nat) :
    (readNameSteps buf pos).2 ≤ 128 + min pos 16384 := by
  have h1 := readLabelsSteps_le buf pos pos none new
  have h2 := readLabelsSteps_le' buf pos pos none new
  rw [encodedLen_new] at h1 h2
  have : (readNameSteps buf pos).2 = (readLabelsSteps buf pos pos none new).2 := by
    unfold readNameSteps
    generalize readLabelsSteps buf pos pos none new = r
    obtain ⟨o, k⟩ := r
    cases o with
    | ok v => rfl
    | err => rfl
    | panic s => rfl
  rw [this]; omega

/-! non-vacuity: a compressed name decodes; a pointer loop is an error, not a hang -/
example : readName [3, 97, 98, 99, 0, 1, 120, 0xC0, 0] 5 =
    .ok ({ labels := [[120], [97, 98, 99]], fqdn := true }, 9) := by
  simp [readName, readLabels, extendName, Name.new, encodedLen, dataLen, MAX_LENGTH, Name.len]
example : readName [0xC0, 0] 0 = .err := by simp [readName, readLabels]
example : readName [0xC0, 2, 0xC0, 0] 2 = .err := by simp [readName, readLabels]

end HickoryVerif.C01
