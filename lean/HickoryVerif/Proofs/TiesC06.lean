/-
Ties between the literals of `Model/SigCheck.lean` and the constants regenerated from /repo.
-/
import HickoryVerif.Generated.Consts
import HickoryVerif.Generated.Tables
import HickoryVerif.Model.SigCheck

namespace HickoryVerif.C06
open HickoryVerif

/-- `MAX_KEY_TAG_COLLISIONS` of crates/net/src/dnssec/mod.rs -/
theorem tie_max_key_tag_collisions :
    SigCheck.MAX_KEY_TAG_COLLISIONS = Generated.MAX_KEY_TAG_COLLISIONS := rfl
/-- `MAX_RRSIGS_PER_RRSET` of crates/net/src/dnssec/mod.rs -/
theorem tie_max_rrsigs_per_rrset :
    SigCheck.MAX_RRSIGS_PER_RRSET = Generated.MAX_RRSIGS_PER_RRSET := rfl
/-- `SERIAL_BITS_HALF = 1 << (u32::BITS - 1)` -/
theorem tie_serial_half : SigCheck.HALF = 2 ^ 31 := rfl
/-- the record-type codes the model tests literally: NSEC = 47, NSEC3 = 50, and class IN = 1 -/
theorem tie_codes :
    Generated.recordTypeToCode.lookup "NSEC" = some 47 ∧
    Generated.recordTypeToCode.lookup "NSEC3" = some 50 ∧
    Generated.dnsClassToCode.lookup "IN" = some 1 := by decide

end HickoryVerif.C06
