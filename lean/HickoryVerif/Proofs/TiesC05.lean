/-
Ties between the literals of `Model/Tbs.lean` and the constants regenerated from /repo on every run.
-/
import HickoryVerif.Generated.Consts
import HickoryVerif.Generated.Tables
import HickoryVerif.Model.Tbs

namespace HickoryVerif.C05
open HickoryVerif

/-- `COMPRESSION_CANDIDATE_LIMIT` of encoder.rs is the 64 the SOA sort-key model uses. -/
theorem tie_candidate_limit : Tbs.CANDIDATE_LIMIT = Generated.COMPRESSION_CANDIDATE_LIMIT := rfl
/-- a compression pointer is written only below 0x4000 (`loc & 0xC000 == 0`); the store bound is 0x3FFF -/
theorem tie_pointer_bound : Generated.POINTER_OFFSET_BOUND + 1 = 16384 := rfl
/-- the record-type codes of the structurally modelled RDATA tier -/
theorem tie_tier_type_codes :
    Generated.recordTypeToCode.lookup "A" = some 1 ∧ Generated.recordTypeToCode.lookup "NS" = some 2 ∧
    Generated.recordTypeToCode.lookup "CNAME" = some 5 ∧ Generated.recordTypeToCode.lookup "SOA" = some 6 ∧
    Generated.recordTypeToCode.lookup "PTR" = some 12 ∧ Generated.recordTypeToCode.lookup "MX" = some 15 ∧
    Generated.recordTypeToCode.lookup "TXT" = some 16 ∧ Generated.recordTypeToCode.lookup "AAAA" = some 28 ∧
    Generated.recordTypeToCode.lookup "SRV" = some 33 := by decide

end HickoryVerif.C05
