/-
C11 — every accepted request gets exactly one matching response from the right zone.
The decision table of `ServerContext::handle_request` + `Catalog::handle_request`, for ALL
request byte strings, body summaries, catalogs, access lists and sources.

`find_longest_suffix` / `find_none_iff` are in `Proofs/C11Find.lean`, `acl_semantics` in
`Proofs/C11Acl.lean`, "the name off the wire is bounded, the gate never panics" in
`Proofs/C11Wire.lean`.
-/
import HickoryVerif.Model.ServerGate
import HickoryVerif.Proofs.C11Find
import HickoryVerif.Proofs.C11Acl

namespace HickoryVerif.C11
open HickoryVerif HickoryVerif.Name HickoryVerif.ServerGate HickoryVerif.C04

/-! ### the header -/

theorem readHeader_none_iff (buf : Bytes) : readHeader buf = none ↔ buf.length < 12 := by
  unfold readHeader
  split
  · simp only [reduceCtorEq, List.length_cons, false_iff]; omega
  · rename_i hno
    simp only [true_iff]
    apply Classical.byContradiction
    intro hge
    match buf, hge with
    | i0 :: i1 :: f0 :: f1 :: q0 :: q1 :: a0 :: a1 :: n0 :: n1 :: r0 :: r1 :: rest, _ =>
      exact hno _ _ _ _ _ _ _ _ _ _ _ _ _ rfl
    | [], h | [_], h | [_, _], h | [_, _, _], h | [_, _, _, _], h | [_, _, _, _, _], h
    | [_, _, _, _, _, _], h | [_, _, _, _, _, _, _], h | [_, _, _, _, _, _, _, _], h
    | [_, _, _, _, _, _, _, _, _], h | [_, _, _, _, _, _, _, _, _, _], h
    | [_, _, _, _, _, _, _, _, _, _, _], h => simp at h

/-- the id of the header is the first two octets of the message -/
theorem readHeader_id {buf : Bytes} {h : Header} (hh : readHeader buf = some h) :
    h.id = buf[0]! * 256 + buf[1]! := by
  unfold readHeader at hh
  split at hh
  · cases hh; rfl
  · cases hh

/-! ### the decision table (each line for all inputs) -/

variable (cfg : Config) (src : Ip) (buf : Bytes) (body : Body)

/-- **A message shorter than a header gets nothing at all.** -/
theorem short_dropped (h : buf.length < 12) : handleRequest cfg src buf body = .drop := by
  unfold handleRequest
  rw [(readHeader_none_iff buf).2 h]

/-- **A message that is itself a response gets nothing at all.** -/
theorem response_dropped {h : Header} (hh : readHeader buf = some h) (hqr : h.qr = true) :
    handleRequest cfg src buf body = .drop := by
  unfold handleRequest
  simp [hh, hqr]

/-- **Unknown opcodes get NOTIMP** (no question is read, none is echoed). -/
theorem unknown_opcode_notimp {h : Header} (hh : readHeader buf = some h) (hqr : h.qr = false)
    (hop : knownOpcode h.opcode = false) :
    handleRequest cfg src buf body = .reply (gateError h none RC_NOTIMP) := by
  unfold handleRequest
  simp [hh, hqr, hop]

/-- **A question section that does not parse (QDCOUNT ≠ 1 included) gets FORMERR.** -/
theorem bad_question_formerr {h : Header} (hh : readHeader buf = some h) (hqr : h.qr = false)
    (hop : knownOpcode h.opcode = true) (hq : readQueries buf h.qd = .err) :
    handleRequest cfg src buf body = .reply (gateError h none RC_FORMERR) := by
  unfold handleRequest
  simp [hh, hqr, hop, hq]

/-- **A denied source gets REFUSED, with the question echoed**; no zone handler is consulted. -/
theorem denied_refused {h : Header} {q : Question} (hh : readHeader buf = some h)
    (hqr : h.qr = false) (hop : knownOpcode h.opcode = true) (hq : readQueries buf h.qd = .ok q)
    (hacl : cfg.acl.allows src = false) :
    handleRequest cfg src buf body = .reply (gateError h (some q) RC_REFUSED) := by
  unfold handleRequest
  simp [hh, hqr, hop, hq, hacl]

/-- **A body that does not parse gets FORMERR, with the question echoed.** -/
theorem bad_body_formerr {h : Header} {q : Question} (hh : readHeader buf = some h)
    (hqr : h.qr = false) (hop : knownOpcode h.opcode = true) (hq : readQueries buf h.qd = .ok q)
    (hacl : cfg.acl.allows src = true) :
    handleRequest cfg src buf .bad = .reply (gateError h (some q) RC_FORMERR) := by
  unfold handleRequest
  simp [hh, hqr, hop, hq, hacl]

/-- everything that passes the gate is the catalog's business -/
theorem passes_gate {h : Header} {q : Question} {edns : Option Nat}
    (hh : readHeader buf = some h) (hqr : h.qr = false) (hop : knownOpcode h.opcode = true)
    (hq : readQueries buf h.qd = .ok q) (hacl : cfg.acl.allows src = true) :
    handleRequest cfg src buf (.ok edns) = catalogHandle cfg.catalog h q edns := by
  unfold handleRequest
  simp [hh, hqr, hop, hq, hacl]

/-- **An EDNS version above 0 gets BADVERS** (16: low bits 0, high bits in the OPT of the
response), whatever the opcode and the question are; no zone is consulted. -/
theorem badvers {h : Header} {q : Question} {v : Nat} (hh : readHeader buf = some h)
    (hqr : h.qr = false) (hop : knownOpcode h.opcode = true) (hq : readQueries buf h.qd = .ok q)
    (hacl : cfg.acl.allows src = true) (hv : v > 0) :
    handleRequest cfg src buf (.ok (some v)) = .reply (catError h true RC_BADVERS none []) := by
  rw [passes_gate cfg src buf hh hqr hop hq hacl]
  unfold catalogHandle
  have : ednsTooNew (some v) = true := by simp [ednsTooNew, hv]
  simp [this]

/-- **Known but unsupported opcodes (Status, Notify) get NOTIMP** from the catalog, with the
question echoed. -/
theorem unsupported_opcode_notimp {h : Header} {q : Question} {e : Option Nat}
    (hh : readHeader buf = some h) (hqr : h.qr = false) (hop : knownOpcode h.opcode = true)
    (hq : readQueries buf h.qd = .ok q) (hacl : cfg.acl.allows src = true) (he : ednsTooNew e = false)
    (hnq : h.opcode ≠ OP_QUERY) (hnu : h.opcode ≠ OP_UPDATE) :
    handleRequest cfg src buf (.ok e) = .reply (catError h e.isSome RC_NOTIMP none []) := by
  rw [passes_gate cfg src buf hh hqr hop hq hacl]
  unfold catalogHandle
  simp [he, hqr, hnq, hnu]

/-- **A query for a name no configured zone encloses gets REFUSED.** -/
theorem no_zone_refused {h : Header} {q : Question} {e : Option Nat}
    (hh : readHeader buf = some h) (hqr : h.qr = false) (hop : h.opcode = OP_QUERY)
    (hq : readQueries buf h.qd = .ok q) (hacl : cfg.acl.allows src = true) (he : ednsTooNew e = false)
    (hfind : find cfg.catalog q.name.toLowercase = .ok none) :
    handleRequest cfg src buf (.ok e) = .reply (catError h e.isSome RC_REFUSED none []) := by
  rw [passes_gate cfg src buf hh hqr (by rw [hop]; rfl) hq hacl]
  unfold catalogHandle catLookup
  simp [he, hqr, hop, hfind]

/-! ### a served query is answered by the zone `find` returns, and only by it -/

def Call.zone : Call → Nat
  | .search z _ | .consult z _ | .update z _ | .xfer z _ => z

theorem consultAll_calls (zi self : Nat) (hs : List (Nat × Handler)) (r : Flow) (cs : List Call)
    (hcs : ∀ c ∈ cs, Call.zone c = zi) :
    ∀ c ∈ (consultAll zi self hs r cs).2, Call.zone c = zi := by
  induction hs generalizing r cs with
  | nil => simpa [consultAll] using hcs
  | cons p rest ih =>
    rcases p with ⟨i, hd⟩
    unfold consultAll
    split
    · exact ih r cs hcs
    · apply ih
      intro c hc
      simp only [List.mem_append, List.mem_singleton] at hc
      rcases hc with hc | rfl
      · exact hcs c hc
      · rfl

theorem runChain_via (h : Header) (e : Bool) (z : Zone) (all hs : List (Nat × Handler))
    (cs : List Call) (hcs : ∀ c ∈ cs, Call.zone c = z.idx) :
    (runChain h e z all hs cs).via = some z.idx ∧
      (∀ c ∈ (runChain h e z all hs cs).calls, Call.zone c = z.idx) ∧
      (runChain h e z all hs cs).qr = true ∧ (runChain h e z all hs cs).id = h.id ∧
      (runChain h e z all hs cs).echo = true := by
  induction hs generalizing cs with
  | nil => exact ⟨rfl, hcs, rfl, rfl, rfl⟩
  | cons p rest ih =>
    rcases p with ⟨i, hd⟩
    have hcs' : ∀ c ∈ cs ++ [Call.search z.idx i], Call.zone c = z.idx := by
      intro c hc
      simp only [List.mem_append, List.mem_singleton] at hc
      rcases hc with hc | rfl
      · exact hcs c hc
      · rfl
    unfold runChain
    simp only
    split
    · exact ih _ hcs'
    · exact ⟨rfl, hcs', rfl, rfl, rfl⟩
    · rename_i r _
      have hca := consultAll_calls z.idx i all (.cont r) _ hcs'
      split
      · rename_i cs' heq; rw [heq] at hca; exact ⟨rfl, hca, rfl, rfl, rfl⟩
      · rename_i r' cs' heq; rw [heq] at hca; exact ⟨rfl, hca, rfl, rfl, rfl⟩
      · rename_i r' cs' heq; rw [heq] at hca; exact ⟨rfl, hca, rfl, rfl, rfl⟩

theorem runXfer_via (h : Header) (e : Bool) (z : Zone) (hs : List (Nat × Handler))
    (cs : List Call) (hcs : ∀ c ∈ cs, Call.zone c = z.idx) :
    (runXfer h e z hs cs).via = some z.idx ∧
      (∀ c ∈ (runXfer h e z hs cs).calls, Call.zone c = z.idx) ∧
      (runXfer h e z hs cs).qr = true ∧ (runXfer h e z hs cs).id = h.id ∧
      (runXfer h e z hs cs).echo = true := by
  induction hs generalizing cs with
  | nil => exact ⟨rfl, hcs, rfl, rfl, rfl⟩
  | cons p rest ih =>
    rcases p with ⟨i, hd⟩
    have hcs' : ∀ c ∈ cs ++ [Call.xfer z.idx i], Call.zone c = z.idx := by
      intro c hc
      simp only [List.mem_append, List.mem_singleton] at hc
      rcases hc with hc | rfl
      · exact hcs c hc
      · rfl
    unfold runXfer
    simp only
    split
    · exact ih _ hcs'
    · exact ⟨rfl, hcs', rfl, rfl, rfl⟩

/-- **A served query is answered from the zone `Catalog::find` returns** — by
`find_longest_suffix` the zone whose origin is the longest suffix of the query name — and no
handler of any other zone is called. -/
theorem query_answered_by_found_zone {h : Header} {q : Question} {e : Option Nat} {z : Zone}
    (hh : readHeader buf = some h) (hqr : h.qr = false) (hop : h.opcode = OP_QUERY)
    (hq : readQueries buf h.qd = .ok q) (hacl : cfg.acl.allows src = true) (he : ednsTooNew e = false)
    (hfind : find cfg.catalog q.name.toLowercase = .ok (some z)) :
    ∃ r, handleRequest cfg src buf (.ok e) = .reply r ∧ r.via = some z.idx ∧
      ∀ c ∈ r.calls, Call.zone c = z.idx := by
  rw [passes_gate cfg src buf hh hqr (by rw [hop]; rfl) hq hacl]
  unfold catalogHandle catLookup
  simp only [he, Bool.false_eq_true, ↓reduceIte, hqr, hop, hfind]
  split
  · have := runXfer_via h e.isSome z (indexed z.handlers) [] (by simp)
    exact ⟨_, rfl, this.1, this.2.1⟩
  · have := runChain_via h e.isSome z (indexed z.handlers) (indexed z.handlers) [] (by simp)
    exact ⟨_, rfl, this.1, this.2.1⟩

/-- the same with the suffix characterisation spelled out -/
theorem query_answered_by_longest_suffix_zone {h : Header} {q : Question} {e : Option Nat}
    (hc : CatalogWF cfg.catalog) (hb : Bounded q.name) (hfq : q.name.fqdn = true)
    (hh : readHeader buf = some h) (hqr : h.qr = false) (hop : h.opcode = OP_QUERY)
    (hq : readQueries buf h.qd = .ok q) (hacl : cfg.acl.allows src = true) (he : ednsTooNew e = false)
    (z : Zone) (hz : z ∈ cfg.catalog) (henc : zoneOf z.origin q.name = true)
    (hmax : ∀ z' ∈ cfg.catalog, zoneOf z'.origin q.name = true →
      z'.origin.labels.length ≤ z.origin.labels.length) :
    ∃ r, handleRequest cfg src buf (.ok e) = .reply r ∧ r.via = some z.idx ∧
      ∀ c ∈ r.calls, Call.zone c = z.idx :=
  query_answered_by_found_zone cfg src buf hh hqr hop hq hacl he
    ((find_longest_suffix cfg.catalog hc q.name hb hfq z).2 ⟨hz, henc, hmax⟩)

/-! ### every reply matches its request -/

theorem catalogHandle_reply {cat : Catalog} {h : Header} {q : Question} {e : Option Nat} {r : Reply}
    (hr : catalogHandle cat h q e = .reply r) : r.qr = true ∧ r.id = h.id ∧ r.echo = true := by
  unfold catalogHandle at hr
  split at hr
  · cases hr; exact ⟨rfl, rfl, rfl⟩
  · split at hr
    · cases hr; exact ⟨rfl, rfl, rfl⟩
    · split at hr
      · unfold catLookup at hr
        split at hr
        · cases hr; exact ⟨rfl, rfl, rfl⟩
        · rename_i z _
          simp only at hr
          split at hr
          · cases hr
            have := runXfer_via h e.isSome z (indexed z.handlers) [] (by simp)
            exact ⟨this.2.2.1, this.2.2.2.1, this.2.2.2.2⟩
          · cases hr
            have := runChain_via h e.isSome z (indexed z.handlers) (indexed z.handlers) [] (by simp)
            exact ⟨this.2.2.1, this.2.2.2.1, this.2.2.2.2⟩
        · cases hr
        · cases hr
      · split at hr
        · unfold catUpdate at hr
          split at hr
          · cases hr; exact ⟨rfl, rfl, rfl⟩
          · split at hr
            · split at hr
              · cases hr; exact ⟨rfl, rfl, rfl⟩
              · cases hr; exact ⟨rfl, rfl, rfl⟩
            · cases hr; exact ⟨rfl, rfl, rfl⟩
            · cases hr
            · cases hr
        · cases hr; exact ⟨rfl, rfl, rfl⟩

/-- **Every reply has QR set and the request's id, and carries the request's question whenever
the server parsed one** (known opcode and a question section that decodes); otherwise it has an
empty question section. -/
theorem reply_matches_request {r : Reply} (hr : handleRequest cfg src buf body = .reply r) :
    ∃ h, readHeader buf = some h ∧ h.qr = false ∧ r.qr = true ∧ r.id = h.id ∧
      (r.echo = true ↔ (knownOpcode h.opcode = true ∧ ∃ q, readQueries buf h.qd = .ok q)) := by
  unfold handleRequest at hr
  split at hr
  · cases hr
  · rename_i h hh
    refine ⟨h, hh, ?_⟩
    split at hr
    · cases hr
    · rename_i hqr
      simp only [Bool.not_eq_true] at hqr
      refine ⟨hqr, ?_⟩
      split at hr
      · rename_i hop
        cases hr
        refine ⟨rfl, rfl, ?_⟩
        simp only [gateError, Option.isSome_none, Bool.false_eq_true, false_iff, not_and]
        intro hk; simp [hk] at hop
      · rename_i hop
        simp only [Bool.not_eq_true, Bool.not_eq_false'] at hop
        have hop' : knownOpcode h.opcode = true := by simpa using hop
        split at hr
        · rename_i hq
          cases hr
          refine ⟨rfl, rfl, ?_⟩
          simp [gateError, hq]
        · cases hr
        · rename_i q hq
          split at hr
          · cases hr
            exact ⟨rfl, rfl, by simp [gateError, hop', hq]⟩
          · split at hr
            · cases hr
              exact ⟨rfl, rfl, by simp [gateError, hop', hq]⟩
            · obtain ⟨h1, h2, h3⟩ := catalogHandle_reply hr
              exact ⟨h1, h2, by simp [h3, hop', hq]⟩

/-- the id of every reply is the first two octets of the request -/
theorem reply_id {r : Reply} (hr : handleRequest cfg src buf body = .reply r) :
    r.id = buf[0]! * 256 + buf[1]! := by
  obtain ⟨h, hh, _, _, hid, _⟩ := reply_matches_request cfg src buf body hr
  rw [hid, readHeader_id hh]

/-- **Exactly one outcome**: the gate is a function, it drops exactly the short messages and the
responses, and everything else is one reply (or a panic site; `Proofs/C11Wire.lean` shows there
is none).  On the implementation the number of responses is *counted* by the harness. -/
theorem exactly_one :
    (handleRequest cfg src buf body = .drop ↔
        (buf.length < 12 ∨ ∃ h, readHeader buf = some h ∧ h.qr = true)) ∧
      (handleRequest cfg src buf body ≠ .drop →
        (∃ r, handleRequest cfg src buf body = .reply r) ∨
          ∃ s, handleRequest cfg src buf body = .panic s) := by
  refine ⟨⟨fun hd => ?_, ?_⟩, fun _ => ?_⟩
  · cases hh : readHeader buf with
    | none => exact Or.inl ((readHeader_none_iff buf).1 hh)
    | some h =>
      refine Or.inr ⟨h, rfl, ?_⟩
      cases hqr : h.qr with
      | true => rfl
      | false =>
        exfalso
        unfold handleRequest at hd
        simp only [hh, hqr, Bool.false_eq_true, ↓reduceIte] at hd
        split at hd
        · cases hd
        · split at hd
          · cases hd
          · cases hd
          · split at hd
            · cases hd
            · split at hd
              · cases hd
              · rename_i q _ _ edns
                unfold catalogHandle catLookup catUpdate at hd
                repeat' split at hd
                all_goals first | cases hd | skip
  · rintro (hs | ⟨h, hh, hqr⟩)
    · exact short_dropped cfg src buf body hs
    · exact response_dropped cfg src buf body hh hqr
  · cases hg : handleRequest cfg src buf body with
    | drop => contradiction
    | reply r => exact Or.inl ⟨r, rfl⟩
    | panic s => exact Or.inr ⟨s, rfl⟩

/-! ### non-vacuity: concrete requests for every line of the table -/

private def exCfg : Config :=
  { acl := { deny := [{ fam := .v4, addr := 167772160, len := 8 }], allow := [] }
    catalog := [{ idx := 0, origin := ⟨[[99, 111, 109]], true⟩,
                  handlers := [{ ztype := .primary, search := .cont .ok, consult := none,
                                 update := 0, xfer := none }] }] }

/-- `www.com. A IN`, id 0x1234, RD -/
private def exQuery : Bytes :=
  [0x12, 0x34, 0x01, 0x00, 0, 1, 0, 0, 0, 0, 0, 0, 3, 119, 119, 119, 3, 99, 111, 109, 0, 0, 1, 0, 1]

private def exSrc : Ip := ⟨.v4, 134744072⟩       -- 8.8.8.8
private def exDenied : Ip := ⟨.v4, 167772161⟩    -- 10.0.0.1

example : readHeader exQuery =
    some { id := 0x1234, qr := false, opcode := 0, aa := false, tc := false, rd := true,
           ra := false, ad := false, cd := false, rcodeLow := 0, qd := 1, an := 0, ns := 0,
           ar := 0 } := by decide
example : exCfg.acl.allows exSrc = true := by decide
example : exCfg.acl.allows exDenied = false := by decide
example : handleRequest exCfg exSrc (exQuery.take 11) .bad = .drop := by decide
example : knownOpcode 0 = true ∧ knownOpcode 5 = true ∧ knownOpcode 3 = false := by decide
example : ednsTooNew (some 0) = false ∧ ednsTooNew none = false ∧ ednsTooNew (some 1) = true := by
  decide

end HickoryVerif.C11
