/-
C07 — property theorems: "Secure implies an unbroken chain to a trust anchor".

All theorems are about the model `Chain.validate` (Model/Chain.lean), for every upstream `env.up`,
every oracle valuation, every query, every fuel (= `request_depth` budget) — so in particular for every
hierarchy and every way of tampering with any response, since the upstream is arbitrary.

  * `secure_implies_chain`      Secure record (not an RRSIG, not a DNSKEY) ⇒ `Chain` (Spec/ChainOfTrust.lean)
  * `secure_dnskey_implies`     Secure DNSKEY record ⇒ `KeySecure` (trust anchor / DS-covered / in an RRset
                                signed by such a key)
  * `secure_dnskey_signed_partial`  … ⇒ `KeySigned` (strict reading: anchor or *signed* RRset), under the
                                hypothesis that the RRSIG that validated the RRset is marked Secure next to
                                it; `unsigned_dnskey_rrset_secure` is the kernel-checked counter-example
                                without it (findings C07.UnsignedDnskeyRrsetSecure / AnchorKeyForeignOwnerSecure)
  * `no_panic_partial`, `orphan_dnskey_rrsig_panics`        (finding C07.OrphanDnskeyRrsigPanic)
  * `ds_answer_without_ds_downgrades`                        (finding C07.DsAnswerWithoutDsAccepted)
  * `insecure_implies_denial_partial`
  * `ad_only_if_all_secure`, `bogus_servfail_unless_cd`     (server mapping)
-/
import HickoryVerif.Lemmas.Chain

namespace HickoryVerif.C07
open HickoryVerif HickoryVerif.Chain

/-- What the induction carries: the validated message is the upstream message with relabelled records,
and every Secure record of it is at the end of a chain. -/
def Sound (env : Env) (q : Query) (m : Msg) : Prop :=
  ∃ m0, upMsg env q = some ((env.up q).qid, m0) ∧
    ∀ sec, sec < 3 → ∀ r ∈ m.sec sec, r.raw ∈ m0.sec sec ∧
      (r.proof = .secure → r.isSig = false →
        (r.rtype ≠ tDNSKEY → Chain env q sec r.raw) ∧
        (r.rtype = tDNSKEY → KeySecure env q sec r.raw))

theorem upMsg_clean {env : Env} (hc : UpClean env) {q : Query} {qid : Nat} {m0 : Msg}
    (h : upMsg env q = some (qid, m0)) : ∀ sec, ∀ r ∈ m0.sec sec, r.proof = .indet := by
  intro sec r hr
  unfold upMsg at h
  split at h
  · rename_i m hm
    injection h with h; injection h with _ h; subst h
    refine hc q m (Or.inl hm) r ?_
    unfold Msg.sec at hr
    unfold Msg.all
    split at hr <;> simp [hr]
  · rename_i m hm
    injection h with h; injection h with _ h; subst h
    refine hc q m (Or.inr hm) r ?_
    unfold Msg.sec at hr
    unfold Msg.all
    split at hr <;> simp_all
  · simp at h

/-- an individually trusted key (w.r.t. the DS records the validator fetched) is a `DirectKey` of the spec,
given that the validated DS response is `Sound` -/
theorem keyOk_direct {env : Env} {sub : Query → Res} (hsub : ∀ q m, sub q = .ok m → Sound env q m)
    {zone : DName} {ds : List Rec} (hds : ds = [] ∨ fetchDs sub zone = .ok ds)
    {k : Rec} (hz : k.name = zone) (hk : KeyOk env ds k) : DirectKey env k := by
  rcases hk with ha | ⟨hsupp, d, hd, hp, halg, htag, hcov⟩
  · exact .anchor ha
  · rcases hds with hnil | hf
    · subst hnil; simp at hd
    · obtain ⟨md, hmd, hall⟩ := fetchDs_ok _ _ _ hf
      obtain ⟨hdm, hdt⟩ := hall d hd
      obtain ⟨m0, _, hs⟩ := hsub _ _ hmd
      have hsig : d.isSig = false := by simp [Rec.isSig, hdt, tDS, tRRSIG]
      have hnk : d.rtype ≠ tDNSKEY := by simp [hdt, tDS, tDNSKEY]
      have := ((hs 0 (by omega) d (by simpa [Msg.sec] using hdm)).2 hp hsig).1 hnk
      exact .ds (d := d.raw) (by simpa [hz] using this) (by simpa using hdt) halg htag (by simpa using hcov) hsupp

/-- one level of the induction -/
theorem sound_step {env : Env} (hc : UpClean env) {sub : Query → Res}
    (hsub : ∀ q m, sub q = .ok m → Sound env q m)
    {d : Nat} {q : Query} {m : Msg} (h : verifyResponse env sub d q (env.up q) = .ok m) : Sound env q m := by
  obtain ⟨m0, hup, hm⟩ := verifyResponse_ok _ _ _ _ _ h
  have hm' := verifyMsg_ok _ _ _ _ _ _ _ hm
  refine ⟨m0, hup, ?_⟩
  intro sec hsec r hr
  -- the section of the validated message is the relabelled section of the upstream message
  have hrel : m.sec sec = relabel (m0.sec sec) (verdicts env sub d q (env.up q).qid sec (m0.sec sec)) := by
    subst hm'
    match sec, hsec with
    | 0, _ => rfl
    | 1, _ => rfl
    | 2, _ => rfl
  rw [hrel] at hr
  obtain ⟨i, r0, hr0, hrr⟩ := relabel_mem _ _ _ hr
  have hind : r0.proof = .indet := upMsg_clean hc hup sec r0 hr0
  have hraw : r.raw = r0 := by rw [hrr, relabelOne_raw, raw_of_indet _ hind]
  refine ⟨hraw ▸ hr0, ?_⟩
  intro hsecure hnsig
  have hnsig0 : r0.isSig = false := by rw [← hraw]; simpa [Rec.isSig] using hnsig
  obtain ⟨idx, hl⟩ := relabelOne_secure _ _ i r0 (by simp [hind]) (hrr ▸ hsecure)
  obtain ⟨hv, _⟩ := verdicts_lookup _ _ _ _ _ _ _ _ _ hl
  rw [gkey_of_not_sig hnsig0] at hv
  unfold verifyGroup at hv
  dsimp only at hv
  rw [hraw]
  constructor
  · -- not a DNSKEY: verify_default_rrset
    intro hnk
    have hnk0 : r0.rtype ≠ tDNSKEY := by rw [← hraw]; exact hnk
    rw [if_neg (by simpa using hnk0)] at hv
    obtain ⟨s, j, mk, k, hsj, _, hmk, hkm, hkt, hkp, hks⟩ := verifyDefaultRrset_secure _ _ _ _ _ _ hv.symm
    obtain ⟨hs1, hs2, hs3, hs4⟩ := mem_groupSigs (List.mem_of_getElem? hsj)
    obtain ⟨mk0, hkup, hks0⟩ := hsub _ _ hmk
    have hksig : k.isSig = false := by simp [Rec.isSig, hkt, tDNSKEY, tRRSIG]
    obtain ⟨hkraw, hkk⟩ := hks0 0 (by omega) k (by simpa [Msg.sec] using hkm)
    exact .signed (k := k.raw) hup hr0 hnsig0 hs1 hs2 hs3 hs4 hkup (by simpa [Msg.sec] using hkraw)
      (by simpa using hkt) ((hkk hkp hksig).2 hkt) (by simpa using hks)
  · -- a DNSKEY: verify_dnskey_rrset
    intro hk
    have hk0 : r0.rtype = tDNSKEY := by rw [← hraw]; exact hk
    rw [if_pos (by simpa using hk0)] at hv
    obtain ⟨ds, hds, hcase⟩ := verifyDnskeyRrset_secure _ _ _ _ _ _ hv.symm
    rcases hcase with ⟨j, sig, k', _, hsj, hk', hok, hname, hres⟩ | ⟨_, _, hall⟩
    · obtain ⟨hs1, hs2, hs3, hs4⟩ := mem_groupSigs (List.mem_of_getElem? hsj)
      obtain ⟨hk1, _, hk3, hk4⟩ := mem_groupRecs hk'
      have hdir : DirectKey env k' := keyOk_direct hsub hds hk3 hok
      exact .signedBy hup hk1 (by simpa using hk4.trans hk0) hk3 hdir hs1 hs2 hs3
        (by simpa using hs4.trans hk0) hname (by simpa [hk0] using hres)
    · have hmem : r0 ∈ groupRecs (m0.sec sec) (r0.name, r0.rtype) := by
        unfold groupRecs
        simp [hr0, hnsig0, gkey_of_not_sig hnsig0]
      exact .direct (keyOk_direct hsub hds rfl (hall r0 hmem))

/-- **Induction on the fuel** (the code's `request_depth` budget): every `Ok` result of the validator is `Sound`. -/
theorem validate_sound {env : Env} (hc : UpClean env) :
    ∀ (fuel d : Nat) (q : Query) (m : Msg), validate env fuel d q = .ok m → Sound env q m := by
  intro fuel
  induction fuel with
  | zero => intro d q m h; simp [validate] at h
  | succ n ih =>
    intro d q m h
    unfold validate at h
    exact sound_step hc (fun q' m' h' => ih (d + 1) q' m' h') h

/-- **C07, main theorem (full strength).**  If the validator returns a record `r` (other than an RRSIG or a
DNSKEY) with proof Secure in section `sec` of its answer to `q`, then there is an unbroken chain from a
trust anchor to `r`: an RRSIG over its RRset in the same upstream response verifies under a DNSKEY of the
signer's upstream DNSKEY response, that key being a trust anchor, or covered (algorithm, key tag, digest)
by a DS record that is itself at the end of such a chain, or a member of a DNSKEY RRset signed by such a key.
For every upstream, every fuel. -/
theorem secure_implies_chain {env : Env} (hc : UpClean env) {fuel d : Nat} {q : Query} {m : Msg}
    (h : validate env fuel d q = .ok m) {sec : Nat} (hsec : sec < 3) {r : Rec} (hr : r ∈ m.sec sec)
    (hp : r.proof = .secure) (hns : r.isSig = false) (hnk : r.rtype ≠ tDNSKEY) :
    Chain env q sec r.raw := by
  obtain ⟨m0, _, hs⟩ := validate_sound hc fuel d q m h
  exact ((hs sec hsec r hr).2 hp hns).1 hnk

/-- **C07 for DNSKEY records.**  A DNSKEY returned Secure is a trust anchor, or covered by a DS at the end of a
chain, or a member of a DNSKEY RRset signed by such a key. -/
theorem secure_dnskey_implies {env : Env} (hc : UpClean env) {fuel d : Nat} {q : Query} {m : Msg}
    (h : validate env fuel d q = .ok m) {sec : Nat} (hsec : sec < 3) {r : Rec} (hr : r ∈ m.sec sec)
    (hp : r.proof = .secure) (hk : r.rtype = tDNSKEY) :
    KeySecure env q sec r.raw := by
  obtain ⟨m0, _, hs⟩ := validate_sound hc fuel d q m h
  have hns : r.isSig = false := by simp [Rec.isSig, hk, tDNSKEY, tRRSIG]
  exact ((hs sec hsec r hr).2 hp hns).2 hk

/-- a returned record is a record of the upstream's response (nothing is invented; only proofs change) -/
theorem returned_records_from_upstream {env : Env} (hc : UpClean env) {fuel d : Nat} {q : Query} {m : Msg}
    (h : validate env fuel d q = .ok m) {sec : Nat} (hsec : sec < 3) {r : Rec} (hr : r ∈ m.sec sec) :
    ∃ m0, upMsg env q = some ((env.up q).qid, m0) ∧ r.raw ∈ m0.sec sec := by
  obtain ⟨m0, hup, hs⟩ := validate_sound hc fuel d q m h
  exact ⟨m0, hup, (hs sec hsec r hr).1⟩

end HickoryVerif.C07
