/-
C07 — property theorems: "Secure implies an unbroken chain to a trust anchor", about the model
`Chain.validate` (Model/Chain.lean) of the validator *as repaired* by the fix commits aabfc01, e338561,
8ec5af8, cdd0f6a, 2bee91e, a0f75fc, 1223dc5, 207ce2a.  For every upstream `env.up`, every oracle valuation, every query,
every fuel (= `request_depth` budget) — so for every hierarchy and every way of tampering with any response.
All at full strength:

  * `secure_implies_chain`     Secure record (not an RRSIG, not a DNSKEY) ⇒ `Chain` (Spec/ChainOfTrust.lean)
  * `secure_dnskey_implies`    Secure DNSKEY ⇒ `KeySecure`
  * `secure_dnskey_signed`     Secure DNSKEY ⇒ `KeySigned` (trust anchor, or member of a *signed* RRset)
  * `no_panic`                 the validator never panics
  * `ok_exits`                 the five ways `verify_response` returns Ok
  * `insecure_implies_denial`  Insecure ⇒ for the record's owner or an ancestor of it, a validated NSEC/NSEC3 denial
                               of its DS, or a Secure DS RRset without usable record
  * `ad_only_if_all_secure`, `bogus_servfail_unless_cd`, `error_servfail`   (server mapping)
  * `regression_*`: the traces that replayed the ten repaired findings now end in Bogus / error / SERVFAIL
The open finding C07.AnchorKeyForeignOwnerSecure is inside the spec (`KeySigned`/`DirectKey`: "is a trust anchor").
-/
import HickoryVerif.Lemmas.Chain

namespace HickoryVerif.C07
open HickoryVerif HickoryVerif.Chain

/-- What the induction carries: the validated message is the upstream message with relabelled records,
and every Secure record of it is at the end of a chain. -/
def Sound (env : Env) (q : Query) (m : Msg) : Prop :=
  ∃ m0, upMsg env q = some ((env.up q).qid, m0) ∧
    ∀ sec, sec < 3 → ∀ r ∈ m.sec sec, r.raw ∈ m0.sec sec ∧
      (r.proof = .secure → r.isSig = false →
        (r.rtype ≠ tDNSKEY → Chain env q sec r.raw) ∧
        (r.rtype = tDNSKEY → KeySecure env q sec r.raw))

theorem upMsg_clean {env : Env} (hc : UpClean env) {q : Query} {qid : Nat} {m0 : Msg}
    (h : upMsg env q = some (qid, m0)) : ∀ sec, ∀ r ∈ m0.sec sec, r.proof = .indet := by
  intro sec r hr
  unfold upMsg at h
  split at h
  · rename_i m hm
    injection h with h; injection h with _ h; subst h
    refine hc q m (Or.inl hm) r ?_
    unfold Msg.sec at hr
    unfold Msg.all
    split at hr <;> simp [hr]
  · rename_i m hm
    injection h with h; injection h with _ h; subst h
    refine hc q m (Or.inr hm) r ?_
    unfold Msg.sec at hr
    unfold Msg.all
    split at hr <;> simp_all
  · simp at h

/-- an individually trusted key (w.r.t. the DS records the validator fetched) is a `DirectKey` of the spec,
given that the validated DS response is `Sound` -/
theorem keyOk_direct {env : Env} {sub : Query → Res} (hsub : ∀ q m, sub q = .ok m → Sound env q m)
    {zone : DName} {ds : List Rec} (hds : ds = [] ∨ fetchDs sub zone = .ok ds)
    {k : Rec} (hz : k.name = zone) (hk : KeyOk env ds k) : DirectKey env k := by
  rcases hk with ha | ⟨hsupp, d, hd, hp, halg, htag, hcov⟩
  · exact .anchor ha
  · rcases hds with hnil | hf
    · subst hnil; simp at hd
    · obtain ⟨md, hmd, hall⟩ := fetchDs_ok _ _ _ hf
      obtain ⟨hdm, hdt⟩ := hall d hd
      obtain ⟨m0, _, hs⟩ := hsub _ _ hmd
      have hsig : d.isSig = false := by simp [Rec.isSig, hdt, tDS, tRRSIG]
      have hnk : d.rtype ≠ tDNSKEY := by simp [hdt, tDS, tDNSKEY]
      have := ((hs 0 (by omega) d (by simpa [Msg.sec] using hdm)).2 hp hsig).1 hnk
      exact .ds (d := d.raw) (by simpa [hz] using this) (by simpa using hdt) halg htag (by simpa using hcov) hsupp

/-- one level of the induction -/
theorem sound_step {env : Env} (hc : UpClean env) {sub : Query → Res}
    (hsub : ∀ q m, sub q = .ok m → Sound env q m)
    {d : Nat} {q : Query} {m : Msg} (h : verifyResponse env sub d q (env.up q) = .ok m) : Sound env q m := by
  obtain ⟨m0, hup, hm⟩ := verifyResponse_ok _ _ _ _ _ h
  have hm' := verifyMsg_ok _ _ _ _ _ _ _ hm
  refine ⟨m0, hup, ?_⟩
  intro sec hsec r hr
  -- the section of the validated message is the relabelled section of the upstream message
  have hrel : m.sec sec = relabel (m0.sec sec) (verdicts env sub d q (env.up q).qid sec (m0.sec sec)) := by
    subst hm'
    match sec, hsec with
    | 0, _ => rfl
    | 1, _ => rfl
    | 2, _ => rfl
  rw [hrel] at hr
  obtain ⟨i, r0, hr0, hrr⟩ := relabel_mem _ _ _ hr
  have hind : r0.proof = .indet := upMsg_clean hc hup sec r0 hr0
  have hraw : r.raw = r0 := by rw [hrr, relabelOne_raw, raw_of_indet _ hind]
  refine ⟨hraw ▸ hr0, ?_⟩
  intro hsecure hnsig
  have hnsig0 : r0.isSig = false := by rw [← hraw]; simpa [Rec.isSig] using hnsig
  obtain ⟨idx, hl⟩ := relabelOne_secure _ _ i r0 (by simp [hind]) (hrr ▸ hsecure)
  obtain ⟨hv, _⟩ := verdicts_lookup _ _ _ _ _ _ _ _ _ hl
  rw [gkey_of_not_sig hnsig0] at hv
  unfold verifyGroup at hv
  dsimp only at hv
  rw [hraw]
  constructor
  · -- not a DNSKEY: verify_default_rrset
    intro hnk
    have hnk0 : r0.rtype ≠ tDNSKEY := by rw [← hraw]; exact hnk
    rw [if_neg (by simpa using hnk0)] at hv
    obtain ⟨s, j, mk, k, hsj, _, hmk, hkm, hkt, hkp, hks⟩ := verifyDefaultRrset_secure _ _ _ _ _ _ hv.symm
    obtain ⟨hs1, hs2, hs3, hs4⟩ := mem_groupSigs (List.mem_of_getElem? hsj)
    obtain ⟨mk0, hkup, hks0⟩ := hsub _ _ hmk
    have hksig : k.isSig = false := by simp [Rec.isSig, hkt, tDNSKEY, tRRSIG]
    obtain ⟨hkraw, hkk⟩ := hks0 0 (by omega) k (by simpa [Msg.sec] using hkm)
    exact .signed (k := k.raw) hup hr0 hnsig0 hs1 hs2 hs3 hs4 hkup (by simpa [Msg.sec] using hkraw)
      (by simpa using hkt) ((hkk hkp hksig).2 hkt) (by simpa using hks)
  · -- a DNSKEY: verify_dnskey_rrset
    intro hk
    have hk0 : r0.rtype = tDNSKEY := by rw [← hraw]; exact hk
    rw [if_pos (by simpa using hk0)] at hv
    obtain ⟨ds, hds, hcase⟩ := verifyDnskeyRrset_secure _ _ _ _ _ _ hv.symm
    rcases hcase with ⟨j, sig, k', _, hsj, hk', hok, hname, hres⟩ | ⟨_, _, hall⟩
    · obtain ⟨hs1, hs2, hs3, hs4⟩ := mem_groupSigs (List.mem_of_getElem? hsj)
      obtain ⟨hk1, _, hk3, hk4⟩ := mem_groupRecs hk'
      have hdir : DirectKey env k' := keyOk_direct hsub hds hk3 hok
      exact .signedBy hup hk1 (by simpa using hk4.trans hk0) hk3 hdir hs1 hs2 hs3
        (by simpa using hs4.trans hk0) hname (by simpa [hk0] using hres)
    · have hmem : r0 ∈ groupRecs (m0.sec sec) (r0.name, r0.rtype) := by
        unfold groupRecs
        simp [hr0, hnsig0, gkey_of_not_sig hnsig0]
      exact .direct (.anchor (hall r0 hmem))

/-- **Induction on the fuel** (the code's `request_depth` budget): every `Ok` result of the validator is `Sound`. -/
theorem validate_sound {env : Env} (hc : UpClean env) :
    ∀ (fuel d : Nat) (q : Query) (m : Msg), validate env fuel d q = .ok m → Sound env q m := by
  intro fuel
  induction fuel with
  | zero => intro d q m h; simp [validate] at h
  | succ n ih =>
    intro d q m h
    unfold validate at h
    exact sound_step hc (fun q' m' h' => ih (d + 1) q' m' h') h

/-- **C07, main theorem (full strength).**  If the validator returns a record `r` (other than an RRSIG or a
DNSKEY) with proof Secure in section `sec` of its answer to `q`, then there is an unbroken chain from a
trust anchor to `r`: an RRSIG over its RRset in the same upstream response verifies under a DNSKEY of the
signer's upstream DNSKEY response, that key being a trust anchor, or covered (algorithm, key tag, digest)
by a DS record that is itself at the end of such a chain, or a member of a DNSKEY RRset signed by such a key.
For every upstream, every fuel. -/
theorem secure_implies_chain {env : Env} (hc : UpClean env) {fuel d : Nat} {q : Query} {m : Msg}
    (h : validate env fuel d q = .ok m) {sec : Nat} (hsec : sec < 3) {r : Rec} (hr : r ∈ m.sec sec)
    (hp : r.proof = .secure) (hns : r.isSig = false) (hnk : r.rtype ≠ tDNSKEY) :
    Chain env q sec r.raw := by
  obtain ⟨m0, _, hs⟩ := validate_sound hc fuel d q m h
  exact ((hs sec hsec r hr).2 hp hns).1 hnk

/-- **C07 for DNSKEY records.**  A DNSKEY returned Secure is a trust anchor, or covered by a DS at the end of a
chain, or a member of a DNSKEY RRset signed by such a key. -/
theorem secure_dnskey_implies {env : Env} (hc : UpClean env) {fuel d : Nat} {q : Query} {m : Msg}
    (h : validate env fuel d q = .ok m) {sec : Nat} (hsec : sec < 3) {r : Rec} (hr : r ∈ m.sec sec)
    (hp : r.proof = .secure) (hk : r.rtype = tDNSKEY) :
    KeySecure env q sec r.raw := by
  obtain ⟨m0, _, hs⟩ := validate_sound hc fuel d q m h
  have hns : r.isSig = false := by simp [Rec.isSig, hk, tDNSKEY, tRRSIG]
  exact ((hs sec hsec r hr).2 hp hns).2 hk

/-- **C07 for DNSKEY records, strict reading (full strength).**  A DNSKEY returned Secure is a trust anchor, or a
member of a DNSKEY RRset *signed* by an individually trusted key of that RRset (`KeySigned`).  (Before fix
8ec5af8 this needed a hypothesis; the counter-example of then is `regression_unsigned_dnskey_rrset` below.) -/
theorem secure_dnskey_signed {env : Env} (hc : UpClean env) {fuel d : Nat} {q : Query} {m : Msg}
    (h : validate env fuel d q = .ok m) {sec : Nat} (hsec : sec < 3) {r : Rec} (hr : r ∈ m.sec sec)
    (hp : r.proof = .secure) (hk : r.rtype = tDNSKEY) :
    KeySigned env q sec r.raw := by
  cases fuel with
  | zero => simp [validate] at h
  | succ n =>
    unfold validate at h
    have hsub : ∀ q' m', validate env n (d + 1) q' = .ok m' → Sound env q' m' :=
      fun q' m' h' => validate_sound hc n (d + 1) q' m' h'
    obtain ⟨m0, hup, hm⟩ := verifyResponse_ok _ _ _ _ _ h
    have hm' := verifyMsg_ok _ _ _ _ _ _ _ hm
    have hrel : m.sec sec = relabel (m0.sec sec)
        (verdicts env (validate env n (d + 1)) (d + 1) q (env.up q).qid sec (m0.sec sec)) := by
      subst hm'
      match sec, hsec with
      | 0, _ => rfl
      | 1, _ => rfl
      | 2, _ => rfl
    rw [hrel] at hr
    obtain ⟨i, r0, hr0, hrr⟩ := relabel_mem _ _ _ hr
    have hind : r0.proof = .indet := upMsg_clean hc hup sec r0 hr0
    have hraw : r.raw = r0 := by rw [hrr, relabelOne_raw, raw_of_indet _ hind]
    have hnsig0 : r0.isSig = false := by rw [← hraw]; simp [Rec.isSig, hk, tDNSKEY, tRRSIG]
    have hk0 : r0.rtype = tDNSKEY := by rw [← hraw]; exact hk
    obtain ⟨idx, hl⟩ := relabelOne_secure _ _ i r0 (by simp [hind]) (hrr ▸ hp)
    obtain ⟨hv, _⟩ := verdicts_lookup _ _ _ _ _ _ _ _ _ hl
    rw [gkey_of_not_sig hnsig0] at hv
    unfold verifyGroup at hv
    dsimp only at hv
    rw [if_pos (by simpa using hk0)] at hv
    obtain ⟨ds, hds, hcase⟩ := verifyDnskeyRrset_secure _ _ _ _ _ _ hv.symm
    rw [hraw]
    rcases hcase with ⟨jx, sig, k', _, hsj, hk', hok, hname, hres⟩ | ⟨_, _, hall⟩
    · obtain ⟨hs1, hs2, hs3, hs4⟩ := mem_groupSigs (List.mem_of_getElem? hsj)
      obtain ⟨hk1, _, hk3, hk4⟩ := mem_groupRecs hk'
      have hdir : DirectKey env k' := keyOk_direct hsub hds hk3 hok
      exact Or.inr ⟨k', sig, _, m0, hup, hk1, by simpa using hk4.trans hk0, hk3, hdir, hs1, hs2, hs3,
        by simpa using hs4.trans hk0, hname, by simpa [hk0] using hres⟩
    · have hmem : r0 ∈ groupRecs (m0.sec sec) (r0.name, r0.rtype) := by
        unfold groupRecs
        simp [hr0, hnsig0, gkey_of_not_sig hnsig0]
      exact Or.inl (hall r0 hmem)

/-- a returned record is a record of the upstream's response (nothing is invented; only proofs change) -/
theorem returned_records_from_upstream {env : Env} (hc : UpClean env) {fuel d : Nat} {q : Query} {m : Msg}
    (h : validate env fuel d q = .ok m) {sec : Nat} (hsec : sec < 3) {r : Rec} (hr : r ∈ m.sec sec) :
    ∃ m0, upMsg env q = some ((env.up q).qid, m0) ∧ r.raw ∈ m0.sec sec := by
  obtain ⟨m0, hup, hs⟩ := validate_sound hc fuel d q m h
  exact ⟨m0, hup, (hs sec hsec r hr).1⟩

/-! ## the exits of `verify_response` -/

/-- exit 2 for the response to `q`: the NSEC/NSEC3 oracle says Secure on the denial records selected from owners
that have a Secure record -/
def NsecDenied (env : Env) (q : Query) (m' : Msg) : Prop :=
  ∃ mask, (mask = maskOf (selectDenial m'.ns tNSEC3) ∨ mask = maskOf (selectDenial m'.ns tNSEC)) ∧
    (selectDenial m'.ns tNSEC3 ≠ [] ∨ selectDenial m'.ns tNSEC ≠ []) ∧
    env.nsec (env.up q).qid mask (maskOf (m'.an.zipIdx.filter fun ri => ri.1.isSig && ri.1.proof == .secure)) = .secure

/-- the name whose zone must be provably insecure: the query name, for a DS query its parent -/
def dsNameOf (q : Query) : DName := if q.qtype == tDS then q.name.baseName else q.name

/-- **The exits of `verify_response`** (after fixes 2bee91e, a0f75fc, 1223dc5): a response is returned `Ok` only if
(1) its verified authority RRsets are Insecure throughout *and* `find_ds_records` proves the query name insecure,
(2) it is a plain positive answer: NOERROR, no wildcard expansion, in the answer section a record of the query
    name and type, or a CNAME at the query name while the authority section has no SOA (denial records attached
    to it are then not evaluated; 1223dc5),
(3) the NSEC/NSEC3 oracle says Secure on the denial records selected from Secure owners,
(4) there are no such records, no wildcard answer, and the answer section answers the question (a record of the
    queried type, or a CNAME, at the query name), or
(5) the answer section does not answer the question and `find_ds_records` proves the query name insecure. -/
theorem ok_exits (env : Env) (sub : Query → Res) (d : Nat) (q : Query) (m m' : Msg)
    (h : verifyMsg env sub d q (env.up q).qid m = .ok m') :
    (allAuthInsecure m'.ns (verdicts env sub d q (env.up q).qid 1 m.ns) = true ∧
      findDs env sub (dsNameOf q) = .err .insecure) ∨
    (m'.rcode = 0 ∧ plainAnswer q m'.an m'.ns = true) ∨
    NsecDenied env q m' ∨
    (selectDenial m'.ns tNSEC3 = [] ∧ selectDenial m'.ns tNSEC = [] ∧ answersTheQuestion q m'.an = true) ∨
    (answersTheQuestion q m'.an = false ∧ findDs env sub (dsNameOf q) = .err .insecure) := by
  have hm' := verifyMsg_ok _ _ _ _ _ _ _ h
  subst hm'
  unfold NsecDenied dsNameOf
  dsimp only
  unfold verifyMsg at h
  dsimp only at h
  split at h
  · simp at h
  · split at h
    · rename_i r hearly
      left
      split at hearly
      · rename_i hall
        split at hearly
        · injection hearly with hearly; subst hearly; simp at h
        · rename_i hf; exact ⟨hall, hf⟩
        · simp at hearly
      · simp at hearly
    · right
      split at h
      · rename_i hpos
        left
        simp only [Bool.and_eq_true, beq_iff_eq] at hpos
        exact ⟨hpos.1.2, hpos.2⟩
      right
      split at h
      · rename_i _ h3 h1
        split at h
        · rename_i hs
          left
          refine ⟨_, Or.inl rfl, Or.inl ?_, by simpa using hs⟩
          simpa using h3
        · simp at h
      · rename_i _ h3 h1
        split at h
        · rename_i hs
          left
          refine ⟨_, Or.inr rfl, Or.inr ?_, by simpa using hs⟩
          simpa using h1
        · simp at h
      · simp at h
      · simp at h
      · rename_i h3 h1 _
        right
        split at h
        · rename_i hne
          left
          exact ⟨by simpa using h3, by simpa using h1, hne⟩
        · rename_i hne
          right
          refine ⟨by simpa using hne, ?_⟩
          split at h
          · simp at h
          · rename_i hf; exact hf
          · simp at h

/-! ## Insecure ⇒ a validated denial of DS, or only unsupported DS -/

/-- The two reasons the property admits, at `zone`: the validator obtained (at some depth) a validated response
to `zone DS` that is (a) a negative answer proved by NSEC/NSEC3, or (b) a Secure DS RRset without a Secure record
of supported algorithm and digest type. -/
def DsDenied (env : Env) (zone : DName) : Prop :=
  ∃ fuel d md, validate env fuel d ⟨zone, tDS⟩ = .ok md ∧
    ((md.an = [] ∧ NsecDenied env ⟨zone, tDS⟩ md) ∨
     ((∃ x ∈ md.an, x.rtype = tDS ∧ x.proof = .secure) ∧ NoSecureSupportedDs md))

theorem denial_step {env : Env} (hc : UpClean env) (n : Nat)
    (ihI : ∀ d q m, validate env n d q = .ok m → ∀ sec, sec < 3 → ∀ r ∈ m.sec sec, r.proof = .insecure →
      ∃ zone, zone <:+ r.name ∧ DsDenied env zone)
    (ihJ : ∀ d zone, fetchDs (validate env n d) zone = .err .insecure → ∃ zone', zone' <:+ zone ∧ DsDenied env zone') :
    (∀ d q m, validate env (n + 1) d q = .ok m → ∀ sec, sec < 3 → ∀ r ∈ m.sec sec, r.proof = .insecure →
      ∃ zone, zone <:+ r.name ∧ DsDenied env zone) ∧
    (∀ d zone, fetchDs (validate env (n + 1) d) zone = .err .insecure →
      ∃ zone', zone' <:+ zone ∧ DsDenied env zone') := by
  constructor
  · -- records of a response validated with n+1 levels left
    intro d q m h sec hsec r hr hp
    unfold validate at h
    obtain ⟨m0, hup, hm⟩ := verifyResponse_ok _ _ _ _ _ h
    have hm' := verifyMsg_ok _ _ _ _ _ _ _ hm
    have hrel : m.sec sec = relabel (m0.sec sec)
        (verdicts env (validate env n (d + 1)) (d + 1) q (env.up q).qid sec (m0.sec sec)) := by
      subst hm'
      match sec, hsec with
      | 0, _ => rfl
      | 1, _ => rfl
      | 2, _ => rfl
    rw [hrel] at hr
    obtain ⟨i, r0, hr0, hrr⟩ := relabel_mem _ _ _ hr
    have hind : r0.proof = .indet := upMsg_clean hc hup sec r0 hr0
    have hname : r.name = r0.name := by
      have := relabelOne_raw (m0.sec sec)
        (verdicts env (validate env n (d + 1)) (d + 1) q (env.up q).qid sec (m0.sec sec)) i r0
      rw [← hrr] at this
      have h2 : r.raw.name = r0.raw.name := by rw [this]
      simpa using h2
    obtain ⟨idx, hl⟩ := relabelOne_proof _ _ i r0 .insecure (by simp [hind]) (hrr ▸ hp)
    obtain ⟨hv, _⟩ := verdicts_lookup _ _ _ _ _ _ _ _ _ hl
    unfold verifyGroup at hv
    dsimp only at hv
    have hgn : r0.gkey.1 = r0.name := rfl
    rw [hname]
    split at hv
    · rcases verifyDnskeyRrset_insecure_cases _ _ _ _ _ _ hv.symm with hf | ⟨md, hmd, hx, hno⟩
      · exact ihJ _ _ hf
      · exact ⟨r0.name, List.suffix_refl _, n, d + 1, md, hmd, Or.inr ⟨hx, hno⟩⟩
    · rcases verifyDefaultRrset_insecure_suffix _ _ _ _ _ _ hv.symm with
        ⟨zone, hz, hf⟩ | ⟨s, mk, k, _, hsig, _, hmk, hk, _, hkn, hkp⟩
      · obtain ⟨zone', hz', hd⟩ := ihJ _ _ hf
        exact ⟨zone', hz'.trans hz, hd⟩
      · -- inherited from an Insecure DNSKEY, owned by the signer, of the answer to "<signer> DNSKEY";
        -- the signer is the owner or an ancestor of the owner (fix 207ce2a)
        obtain ⟨zone, hz, hd⟩ := ihI _ _ _ hmk 0 (by omega) k (by simpa [Msg.sec] using hk) hkp
        exact ⟨zone, (hz.trans (hkn ▸ List.suffix_refl _)).trans hsig, hd⟩
  · -- the DS lookup with n+1 levels left
    intro d zone hf
    obtain ⟨md, hmd, hno, hcase⟩ := fetchDs_insecure_cases _ _ hf
    rcases hcase with hx | hempty
    · exact ⟨zone, List.suffix_refl _, n + 1, d, md, hmd, Or.inr ⟨hx, hno⟩⟩
    · have hmd' := hmd
      unfold validate at hmd'
      obtain ⟨m0, hup, hm⟩ := verifyResponse_ok _ _ _ _ _ hmd'
      have hds : dsNameOf ⟨zone, tDS⟩ = DName.baseName zone := by simp [dsNameOf]
      rcases ok_exits _ _ _ _ _ _ hm with h1 | h2 | h3 | h4 | h5
      · rw [hds] at h1
        obtain ⟨z2, hz2, hf2⟩ := findDs_insecure_suffix _ _ _ h1.2
        obtain ⟨zone', hz', hd⟩ := ihJ _ _ hf2
        exact ⟨zone', (hz'.trans hz2).trans (baseName_suffix _), hd⟩
      · rw [hempty] at h2
        simp [plainAnswer] at h2
      · exact ⟨zone, List.suffix_refl _, n + 1, d, md, hmd, Or.inl ⟨hempty, h3⟩⟩
      · rw [hempty] at h4
        simp [answersTheQuestion] at h4
      · rw [hds] at h5
        obtain ⟨z2, hz2, hf2⟩ := findDs_insecure_suffix _ _ _ h5.2
        obtain ⟨zone', hz', hd⟩ := ihJ _ _ hf2
        exact ⟨zone', (hz'.trans hz2).trans (baseName_suffix _), hd⟩

theorem denial_all {env : Env} (hc : UpClean env) : ∀ n : Nat,
    (∀ d q m, validate env n d q = .ok m → ∀ sec, sec < 3 → ∀ r ∈ m.sec sec, r.proof = .insecure →
      ∃ zone, zone <:+ r.name ∧ DsDenied env zone) ∧
    (∀ d zone, fetchDs (validate env n d) zone = .err .insecure → ∃ zone', zone' <:+ zone ∧ DsDenied env zone') := by
  intro n
  induction n with
  | zero =>
    refine ⟨fun d q m h => by simp [validate] at h, fun d zone hf => ?_⟩
    obtain ⟨md, hmd, _⟩ := fetchDs_insecure _ _ hf
    simp [validate] at hmd
  | succ n ih => exact denial_step hc n ih.1 ih.2

/-- **C07, Insecure ⇒ denial (full strength).**  If the validator returns any record `r` with proof Insecure then,
for a zone that is `r`'s owner or an ancestor of it (the owner of a DNSKEY, the zone cut `find_ds_records` found,
or the signer an RRSIG names — which is the owner or an ancestor since fix 207ce2a), it holds a *validated* response
to that zone's DS query which is a negative answer proved by NSEC/NSEC3, or a Secure DS RRset in which no Secure
record has a supported algorithm and digest type.  For every upstream, every oracle valuation, every fuel; by
induction on the fuel, mutually with the same statement for `fetch_ds_records`.  (History: under `DsAnswersHaveDs`
before aabfc01/2bee91e, under `SignerDiscipline` before 207ce2a; the counter-examples of then are the
`regression_*` theorems below.) -/
theorem insecure_implies_denial {env : Env} (hc : UpClean env)
    {fuel d : Nat} {q : Query} {m : Msg} (h : validate env fuel d q = .ok m) {sec : Nat} (hsec : sec < 3)
    {r : Rec} (hr : r ∈ m.sec sec) (hp : r.proof = .insecure) :
    ∃ zone, zone <:+ r.name ∧ DsDenied env zone :=
  (denial_all hc fuel).1 d q m h sec hsec r hr hp

/-- **… and for a DS RRset the zone is a *proper* ancestor** (the parent side of the cut; since fix 4f49cf9).  An
Insecure record of a DS RRset (the DS record or the RRSIG covering it) at a non-root owner is justified by a validated
denial / unsupported DS of a zone strictly above its owner: a DS RRset without RRSIG is Bogus, and an RRSIG over it must
name a proper ancestor as signer. -/
theorem insecure_ds_implies_denial_above {env : Env} (hc : UpClean env)
    {fuel d : Nat} {q : Query} {m : Msg} (h : validate env fuel d q = .ok m) {sec : Nat} (hsec : sec < 3)
    {r : Rec} (hr : r ∈ m.sec sec) (hp : r.proof = .insecure) (ht : r.gtype = tDS) (hroot : r.name ≠ []) :
    ∃ zone, zone <:+ r.name ∧ zone ≠ r.name ∧ DsDenied env zone := by
  cases fuel with
  | zero => simp [validate] at h
  | succ n =>
    unfold validate at h
    obtain ⟨m0, hup, hm⟩ := verifyResponse_ok _ _ _ _ _ h
    have hm' := verifyMsg_ok _ _ _ _ _ _ _ hm
    have hrel : m.sec sec = relabel (m0.sec sec)
        (verdicts env (validate env n (d + 1)) (d + 1) q (env.up q).qid sec (m0.sec sec)) := by
      subst hm'
      match sec, hsec with
      | 0, _ => rfl
      | 1, _ => rfl
      | 2, _ => rfl
    rw [hrel] at hr
    obtain ⟨i, r0, hr0, hrr⟩ := relabel_mem _ _ _ hr
    have hind : r0.proof = .indet := upMsg_clean hc hup sec r0 hr0
    obtain ⟨hgk, _, _⟩ := relabelOne_gkey (m0.sec sec)
      (verdicts env (validate env n (d + 1)) (d + 1) q (env.up q).qid sec (m0.sec sec)) i r0
    rw [← hrr] at hgk
    have hname : r.name = r0.name := congrArg Prod.fst hgk
    have htype : r0.gkey.2 = tDS := by
      have : r.gkey.2 = r0.gkey.2 := congrArg Prod.snd hgk
      rw [← this]; exact ht
    obtain ⟨idx, hl⟩ := relabelOne_proof _ _ i r0 .insecure (by simp [hind]) (hrr ▸ hp)
    obtain ⟨hv, _⟩ := verdicts_lookup _ _ _ _ _ _ _ _ _ hl
    unfold verifyGroup at hv
    dsimp only at hv
    have hgn : r0.gkey.1 = r0.name := rfl
    rw [hname]
    rw [if_neg (by rw [htype]; decide)] at hv
    obtain ⟨s, mk, k, _, hsig, hne, hmk, hk, _, hkn, hkp⟩ :=
      verifyDefaultRrset_insecure_ds _ _ _ _ _ _ htype hv.symm
    obtain ⟨zone, hz, hd⟩ := (denial_all hc n).1 _ _ _ hmk 0 (by omega) k (by simpa [Msg.sec] using hk) hkp
    have hs1 : s.signer <:+ r0.name := hsig
    have hs2 : s.signer ≠ r0.name := hne (by show r0.name ≠ []; rw [← hname]; exact hroot)
    have hzs : zone <:+ s.signer := hz.trans (hkn ▸ List.suffix_refl _)
    refine ⟨zone, hzs.trans hs1, ?_, hd⟩
    intro heq
    have hz' : r0.name <:+ s.signer := heq ▸ hzs
    exact hs2 (List.IsSuffix.eq_of_length_le hs1 hz'.length_le)

/-! ## no panic -/

theorem verdicts_no_panic {env : Env} {sub : Query → Res} (hsub : ∀ q, sub q ≠ .abort "panic")
    {d : Nat} {q : Query} {qid secNo : Nat} {sec : List Rec}
    {kv : GKey × GV} (hkv : kv ∈ verdicts env sub d q qid secNo sec) : kv.2 ≠ .abort "panic" := by
  intro hp
  obtain ⟨_, hv⟩ := mem_verdicts hkv
  rw [hv] at hp
  unfold verifyGroup at hp
  dsimp only at hp
  split at hp
  · obtain ⟨q', hq'⟩ := verifyDnskeyRrset_abort _ _ _ _ _ _ hp
    exact hsub q' hq'
  · rcases verifyDefaultRrset_abort _ _ _ _ _ _ hp with hm | ⟨q', hq'⟩
    · revert hm; decide
    · exact hsub q' hq'

/-- **No panic (full strength).**  For every upstream, every oracle valuation, every fuel: the validator does not
panic.  The one `unwrap()` of the validator (`dnskey_proofs.pop().unwrap()`) is unreachable since fix e338561
(`verifyDnskeyRrset_abort`).  (`abort "missing"` exists only in the driver: a query outside the replayed trace.) -/
theorem no_panic (env : Env) : ∀ (fuel d : Nat) (q : Query), validate env fuel d q ≠ .abort "panic" := by
  intro fuel
  induction fuel with
  | zero => intro d q; simp [validate]
  | succ n ih =>
    intro d q h
    unfold validate at h
    have hsub : ∀ q', validate env n (d + 1) q' ≠ .abort "panic" := ih (d + 1)
    have hfd : ∀ nm, findDs env (validate env n (d + 1)) nm ≠ .abort "panic" := by
      intro nm hf
      rcases findDs_abort _ _ _ _ hf with hm | ⟨q', hq'⟩
      · revert hm; decide
      · exact hsub q' hq'
    have key : ∀ m0, verifyMsg env (validate env n (d + 1)) (d + 1) q (env.up q).qid m0 ≠ .abort "panic" := by
      intro m0 hv
      unfold verifyMsg at hv
      dsimp only at hv
      split at hv
      · rename_i w hw
        injection hv with hv
        subst hv
        obtain ⟨kv, hkv, hp⟩ := firstAbort_panic hw
        simp only [List.mem_append] at hkv
        rcases hkv with (hkv | hkv) | hkv
        · exact verdicts_no_panic hsub hkv hp
        · exact verdicts_no_panic hsub hkv hp
        · exact verdicts_no_panic hsub hkv hp
      · split at hv
        · rename_i r hearly
          split at hearly
          · split at hearly
            · rename_i w hf
              injection hearly with hearly
              subst hearly
              injection hv with hv
              subst hv
              exact hfd _ hf
            · injection hearly with hearly; subst hearly; simp at hv
            · simp at hearly
          · simp at hearly
        · split at hv
          · simp at hv
          split at hv
          · split at hv <;> simp at hv
          · split at hv <;> simp at hv
          · simp at hv
          · simp at hv
          · split at hv
            · simp at hv
            · split at hv
              · rename_i w hf
                injection hv with hv
                subst hv
                exact hfd _ hf
              · simp at hv
              · simp at hv
    unfold verifyResponse at h
    split at h
    · simp at h
    · revert h; decide
    · exact key _ h
    · exact key _ h

/-! ## the server's mapping (`build_forwarded_response`) -/

theorem summaryGo_secure (rs : List Rec) (st : Option Bool) (h : summaryGo rs st = .secure) :
    (∀ r ∈ rs, r.proof = .secure) ∧ (rs ≠ [] ∨ st = some true) ∧ st ≠ some false := by
  induction rs generalizing st with
  | nil =>
    unfold summaryGo at h
    split at h
    · rename_i hs
      cases st with
      | none => simp at hs
      | some b => cases b <;> simp_all
    · simp at h
  | cons r rest ih =>
    unfold summaryGo at h
    split at h
    · rename_i hp
      obtain ⟨h1, _, h3⟩ := ih _ h
      refine ⟨?_, Or.inl (by simp), ?_⟩
      · intro x hx
        rcases List.mem_cons.mp hx with hx | hx
        · exact hx ▸ hp
        · exact h1 x hx
      · intro hst; subst hst; simp at h3
    · simp at h
    · obtain ⟨_, _, h3⟩ := ih _ h
      simp at h3

theorem summaryGo_bogus_of_mem (rs : List Rec) (st : Option Bool) (h : ∃ r ∈ rs, r.proof = .bogus) :
    summaryGo rs st = .bogus ∨ False := by
  left
  induction rs generalizing st with
  | nil => obtain ⟨r, hr, _⟩ := h; simp at hr
  | cons x rest ih =>
    obtain ⟨r, hr, hp⟩ := h
    unfold summaryGo
    rcases List.mem_cons.mp hr with hx | hx
    · subst hx; simp [hp]
    · split
      · exact ih _ ⟨r, hx, hp⟩
      · rfl
      · exact ih _ ⟨r, hx, hp⟩

/-- **AD only if all Secure (full strength).**  The forwarded response carries AD only when the validator returned
`Ok` and every summarised record is Secure, the summarised records being a non-empty list: the whole answer section
or, for a negative answer, the whole authority section the server forwards (non-SOA records and the SOA; before fix
cdd0f6a the SOA was left out and a negative answer without SOA was not looked at). -/
theorem ad_only_if_all_secure (cd : Bool) (q : Query) (r : Res) (h : (serverView cd q r).2 = true) :
    (∃ m, r = .ok m) ∧ summarised q r ≠ [] ∧ ∀ x ∈ summarised q r, x.proof = .secure := by
  have hok : ∃ m, r = .ok m := by
    cases r with
    | ok m => exact ⟨m, rfl⟩
    | _ => simp [serverView, forwarded] at h
  refine ⟨hok, ?_⟩
  unfold serverView at h
  split at h
  · simp at h
  · dsimp only at h
    split at h
    · rename_i hs
      obtain ⟨h1, h2, _⟩ := summaryGo_secure _ none hs
      exact ⟨by simpa using h2, h1⟩
    · split at h <;> simp at h
    · simp at h

/-- what the summary of a negative answer covers: every authority record except SOA records after the first -/
theorem summarised_noRecords_covers (q : Query) (m : Msg) (hf : forwarded q (.ok m) = .noRecords m)
    (x : Rec) (hx : x ∈ m.ns) (hns : x.rtype ≠ tSOA) : x ∈ summarised q (.ok m) := by
  unfold summarised
  rw [hf]
  simp [hx, hns]

/-- **Bogus ⇒ SERVFAIL unless CD**: a Bogus record among the summarised ones makes the response SERVFAIL
(without AD) for a client that did not set CD. -/
theorem bogus_servfail_unless_cd (q : Query) (r : Res) (h : ∃ x ∈ summarised q r, x.proof = .bogus) :
    serverView false q r = (2, false) := by
  rcases summaryGo_bogus_of_mem _ none h with hb | hf
  · unfold serverView
    split
    · rfl
    · simp [summary, hb]
  · exact hf.elim

/-- every error of the validator is SERVFAIL without AD, whatever the CD bit -/
theorem error_servfail (cd : Bool) (q : Query) (r : Res) (hok : ∀ m, r ≠ .ok m) : serverView cd q r = (2, false) := by
  cases r with
  | ok m => exact absurd rfl (hok m)
  | _ => simp [serverView, forwarded]

/-! ## concrete upstreams: non-vacuity, regression examples of the repaired findings, replays of the open ones -/

def cleanOut : UpOut → Bool
  | .ok m | .noRecords m => m.all.all (·.proof == .indet)
  | _ => true

theorem traceFind_mem (trace : List (Query × UpOut)) (i : Nat) (q : Query) (o : UpOut)
    (h : (traceFind trace i q).out = o) (hne : o ≠ .missing) : ∃ e ∈ trace, e.2 = o := by
  induction trace generalizing i with
  | nil => simp [traceFind] at h; exact absurd h.symm hne
  | cons e rest ih =>
    obtain ⟨q', o'⟩ := e
    unfold traceFind at h
    split at h
    · exact ⟨(q', o'), List.mem_cons_self, h⟩
    · obtain ⟨e, he, h'⟩ := ih _ h
      exact ⟨e, List.mem_cons_of_mem _ he, h'⟩

/-- a replayed trace of unvalidated records is a clean upstream -/
theorem upClean_of_trace (trace : List (Query × UpOut)) (anchor : Nat → Bool) (covers : Nat → Nat → Bool)
    (sigRes : Nat → Nat → GroupId → SigRes) (nsec : Nat → Nat → Nat → Proof)
    (h : trace.all (fun e => cleanOut e.2) = true) :
    UpClean { up := traceUp trace, anchor := anchor, covers := covers, sigRes := sigRes, nsec := nsec } := by
  intro q m hm r hr
  simp only [List.all_eq_true] at h
  rcases hm with hm | hm
  · obtain ⟨e, he, heq⟩ := traceFind_mem trace 0 q _ hm (by simp)
    have := h e he
    rw [heq] at this
    simp only [cleanOut, List.all_eq_true, beq_iff_eq] at this
    exact this r hr
  · obtain ⟨e, he, heq⟩ := traceFind_mem trace 0 q _ hm (by simp)
    have := h e he
    rw [heq] at this
    simp only [cleanOut, List.all_eq_true, beq_iff_eq] at this
    exact this r hr

theorem traceFind_mem' (trace : List (Query × UpOut)) (i : Nat) (q : Query) (o : UpOut)
    (h : (traceFind trace i q).out = o) (hne : o ≠ .missing) : ∃ e ∈ trace, e.1 = q ∧ e.2 = o := by
  induction trace generalizing i with
  | nil => simp [traceFind] at h; exact absurd h.symm hne
  | cons e rest ih =>
    obtain ⟨q', o'⟩ := e
    unfold traceFind at h
    split at h
    · rename_i hq
      exact ⟨(q', o'), List.mem_cons_self, by simpa using hq, h⟩
    · obtain ⟨e, he, h'⟩ := ih _ h
      exact ⟨e, List.mem_cons_of_mem _ he, h'⟩

/-- `UpClean` for any environment whose upstream replays a trace of unvalidated records -/
theorem upClean_of_up (env : Env) (trace : List (Query × UpOut)) (hup : env.up = traceUp trace)
    (h : trace.all (fun e => cleanOut e.2) = true) : UpClean env := by
  intro q m hm r hr
  simp only [List.all_eq_true] at h
  rw [hup] at hm
  rcases hm with hm | hm
  · obtain ⟨e, he, heq⟩ := traceFind_mem trace 0 q _ hm (by simp)
    have := h e he
    rw [heq] at this
    simp only [cleanOut, List.all_eq_true, beq_iff_eq] at this
    exact this r hr
  · obtain ⟨e, he, heq⟩ := traceFind_mem trace 0 q _ hm (by simp)
    have := h e he
    rw [heq] at this
    simp only [cleanOut, List.all_eq_true, beq_iff_eq] at this
    exact this r hr


namespace Ex
/-! A two-level hierarchy: the root (trust anchor `kr`) delegates `z.` with a DS `dsz` covering `kz`;
`www.z. A` is signed by `kz`.  Record ids: a 0, sigA 1, kz 2, sigKz 3, dsz 4, sigDs 5, kr 6, sigKr 7. -/
def a : Rec := { name := ["www", "z"], rtype := 1, rid := 0 }
def sigA : Rec := { name := ["www", "z"], rtype := 46, rid := 1, covered := 1, signer := ["z"], labels := 2 }
def kz : Rec := { name := ["z"], rtype := 48, rid := 2, tag := 7, alg := 15, algSupp := true }
def sigKz : Rec := { name := ["z"], rtype := 46, rid := 3, covered := 48, signer := ["z"], labels := 1 }
def dsz : Rec := { name := ["z"], rtype := 43, rid := 4, tag := 7, alg := 15, algSupp := true, digSupp := true }
def sigDs : Rec := { name := ["z"], rtype := 46, rid := 5, covered := 43, signer := [], labels := 1 }
def kr : Rec := { name := [], rtype := 48, rid := 6, tag := 9, alg := 15, algSupp := true }
def sigKr : Rec := { name := [], rtype := 46, rid := 7, covered := 48, signer := [], labels := 0 }

def msg (an : List Rec) : UpOut := .ok { rcode := 0, an := an, ns := [], ad := [] }

def qA : Query := ⟨["www", "z"], 1⟩
def qKz : Query := ⟨["z"], 48⟩
def qDs : Query := ⟨["z"], 43⟩
def qKr : Query := ⟨[], 48⟩

/-- the crypto oracles of the example: `kr` is the anchor, `dsz` covers `kz`, each RRSIG verifies under the
key that made it (over the RRset occurrence with the stated exchange index), and an RRSIG over an
*empty* RRset is `Ok((Bogus, None))` as in `verify_rrset_with_dnskey` (`dsAt`: the exchange whose DS RRset is intact) -/
def mkEnv (trace : List (Query × UpOut)) (dsAt : Option Nat := some 2) : Env where
  up := traceUp trace
  anchor rid := rid == 6
  covers d k := d == 4 && k == 2
  sigRes k s g :=
    if (k, s, g) = (2, 1, (⟨0, 0, ["www", "z"], 1⟩ : GroupId)) then .secure
    else if (k, s) = (2, 3) && g.rtype == 48 && g.name == ["z"] then .secure
    else if (k, s) = (6, 7) && g.rtype == 48 && g.name == [] then .secure
    else if (k, s) = (6, 5) && g.rtype == 43 then (if some g.qid == dsAt then .secure else .bogus)
    else .err
  nsec _ _ _ := .bogus

def traceGood : List (Query × UpOut) :=
  [(qA, msg [a, sigA]), (qKz, msg [kz, sigKz]), (qDs, msg [dsz, sigDs]), (qKr, msg [kr, sigKr])]

/-- (was F1) the DS record is removed from the answer to `z. DS`; its RRSIG stays -/
def traceNoDs : List (Query × UpOut) :=
  [(qA, msg [a, sigA]), (qKz, msg [kz, sigKz]), (qDs, msg [sigDs]), (qKr, msg [kr, sigKr])]

/-- (was F2) the root DNSKEY is removed from the answer to `. DNSKEY`; its RRSIG stays -/
def traceOrphan : List (Query × UpOut) := [(qKr, msg [sigKr])]

/-- (was F3) `z. DNSKEY` is answered with the DS-covered key alone, no RRSIG -/
def traceUnsignedKey : List (Query × UpOut) :=
  [(qKz, msg [kz]), (qDs, msg [dsz, sigDs]), (qKr, msg [kr, sigKr])]

def sec' (r : Rec) : Rec := { r with proof := .secure }
def ins' (r : Rec) : Rec := { r with proof := .insecure }
end Ex

namespace Ex
/-- (was F7) `alias.z. A` is answered with the (genuine, signed) A RRset of `www.z.`; the CNAME is gone -/
def qAlias : Query := ⟨["alias", "z"], 1⟩
def traceNoCname : List (Query × UpOut) :=
  [(qAlias, msg [a, sigA]), (qKz, msg [kz, sigKz]), (qDs, msg [dsz, sigDs]), (qKr, msg [kr, sigKr])]

/-- (was F8) `www.z. A` is answered NXDOMAIN with one authority record of the unsigned zone `u.` (NS RRset of the
delegation; its DS lookup is a validated NSEC denial).  Record ids: u 20, nsecU 21, sigN 22. -/
def u : Rec := { name := ["u"], rtype := 2, rid := 20 }
def nsecU : Rec := { name := ["u"], rtype := 47, rid := 21 }
def sigN : Rec := { name := ["u"], rtype := 46, rid := 22, covered := 47, signer := [], labels := 1 }
def traceForeignInsecure : List (Query × UpOut) :=
  [(qA, .ok { rcode := 3, an := [], ns := [u], ad := [] }),
   (⟨["u"], 2⟩, msg [u]),
   (⟨["u"], 43⟩, .ok { rcode := 0, an := [], ns := [nsecU, sigN], ad := [] }),
   (qKr, msg [kr, sigKr])]
def envForeignInsecure : Env :=
  { mkEnv traceForeignInsecure none with
    sigRes := fun k s g =>
      if (k, s) = (6, 7) && g.rtype == 48 && g.name == [] then .secure
      else if (k, s) = (6, 22) && g.rtype == 47 then .secure
      else .err
    nsec := fun qid mask _ => if qid == 2 && mask == 1 then .secure else .bogus }
end Ex

namespace Ex
def nsZ : Rec := { name := ["z"], rtype := 2, rid := 30 }
def emptyMsg : UpOut := .ok { rcode := 0, an := [], ns := [], ad := [] }
/-- the unvalidated NS answers `find_ds_records` walks over: `z.` is a zone cut, the names below it are not -/
def nsTrace : List (Query × UpOut) :=
  [(⟨["z"], 2⟩, msg [nsZ]), (⟨["alias", "z"], 2⟩, emptyMsg), (⟨["www", "z"], 2⟩, emptyMsg)]
/-- (was F9) `z. SOA` is answered with the RRSIG of the SOA alone -/
def sigSoaZ : Rec := { name := ["z"], rtype := 46, rid := 31, covered := 6, signer := ["z"], labels := 1 }
def qSoa : Query := ⟨["z"], 6⟩
def traceSoa : List (Query × UpOut) :=
  [(qSoa, msg [sigSoaZ]), (qKz, msg [kz, sigKz]), (qDs, msg [dsz, sigDs]), (qKr, msg [kr, sigKr])] ++ nsTrace
def bog' (r : Rec) : Rec := { r with proof := .bogus }

/-- open finding `C07.ForeignSignerInheritsInsecure`, route 1: the RRSIG over `www.z. A` replaced by one naming the
unsigned zone `u.` as signer; `u. DNSKEY` holds an (unsigned) key `ku`, `u. DS` is a validated NSEC denial.
Record ids: sigF 41, ku 40. -/
def sigF : Rec := { name := ["www", "z"], rtype := 46, rid := 41, covered := 1, signer := ["u"], labels := 2 }
def ku : Rec := { name := ["u"], rtype := 48, rid := 40, tag := 3, alg := 15, algSupp := true }
def traceForeignSigner : List (Query × UpOut) :=
  [(qA, msg [a, sigF]), (⟨["u"], 48⟩, msg [ku]),
   (⟨["u"], 43⟩, .ok { rcode := 0, an := [], ns := [nsecU, sigN], ad := [] }), (qKr, msg [kr, sigKr])]
/-- route 2: the honest RRSIG (signer `z.`), but the answer to `z. DNSKEY` replaced by a CNAME at `z.` (so that it
"answers the question") and the foreign key `ku` -/
def cnameZ : Rec := { name := ["z"], rtype := 5, rid := 42 }
def traceForeignKey : List (Query × UpOut) :=
  [(qA, msg [a, sigA]), (qKz, msg [cnameZ, ku]),
   (⟨["u"], 43⟩, .ok { rcode := 0, an := [], ns := [nsecU, sigN], ad := [] }), (qKr, msg [kr, sigKr])]
def envForeign (trace : List (Query × UpOut)) : Env := { envForeignInsecure with up := traceUp trace }
end Ex

/-! ### non-vacuity -/

open Ex in
/-- on the untampered hierarchy the validator returns the answer Secure … -/
theorem ex_good_secure :
    validate (mkEnv traceGood) 27 0 qA = .ok { rcode := 0, an := [sec' a, sec' sigA], ns := [], ad := [] } := by
  decide

open Ex in
theorem ex_good_clean : UpClean (Ex.mkEnv Ex.traceGood) := upClean_of_trace _ _ _ _ _ (by decide)

open Ex in
/-- … so `secure_implies_chain` applies to a concrete, non-trivial instance (three links: RRSIG by `kz`,
DS covering `kz` signed by the root key, root key = anchor). -/
example : Chain (mkEnv traceGood) qA 0 a :=
  secure_implies_chain ex_good_clean ex_good_secure (sec := 0) (by omega) (r := sec' a) (by simp [Msg.sec])
    rfl (by decide) (by decide)

open Ex in
theorem ex_good_dnskey :
    validate (mkEnv traceGood) 27 0 qKz = .ok { rcode := 0, an := [sec' kz, sec' sigKz], ns := [], ad := [] } := by
  decide

open Ex in
example : KeySigned (mkEnv traceGood) qKz 0 kz :=
  secure_dnskey_signed ex_good_clean ex_good_dnskey (sec := 0) (by omega) (r := sec' kz) (by simp [Msg.sec]) rfl rfl

open Ex in
example : KeySecure (mkEnv traceGood) qKz 0 kz :=
  secure_dnskey_implies ex_good_clean ex_good_dnskey (sec := 0) (by omega) (r := sec' kz) (by simp [Msg.sec]) rfl rfl

open Ex in
/-- the good answer is forwarded NOERROR with AD (hypothesis of `ad_only_if_all_secure`) -/
example : serverView false qA (validate (mkEnv traceGood) 27 0 qA) = (0, true) := by decide

open Ex in
example : ∃ x ∈ summarised qA (.ok { rcode := 0, an := [bog' a], ns := [], ad := [] }), x.proof = .bogus := by decide

open Ex in
/-- `validate … ≠ abort "panic"` on a concrete instance is what `no_panic` says for every instance -/
example : validate (mkEnv traceOrphan none) 27 0 qKr ≠ .abort "panic" := no_panic _ 27 0 qKr

/-! ### regression examples: the replays of the eight repaired findings -/

open Ex in
/-- (was `ds_answer_without_ds_downgrades`, fix aabfc01) the DS record removed from the DS answer: the answer is no
longer Insecure but Bogus, and the server answers SERVFAIL -/
theorem regression_ds_answer_without_ds :
    validate (mkEnv traceNoDs none) 27 0 qA = .ok { rcode := 0, an := [bog' a, sigA], ns := [], ad := [] } ∧
    serverView false qA (validate (mkEnv traceNoDs none) 27 0 qA) = (2, false) := by
  decide

open Ex in
/-- (was `orphan_dnskey_rrsig_panics`, fix e338561) an RRSIG covering DNSKEY without a DNSKEY: an error, no panic -/
theorem regression_orphan_dnskey_rrsig :
    validate (mkEnv traceOrphan none) 27 0 qKr = .errNsec .bogus := by
  decide

open Ex in
/-- (was `unsigned_dnskey_rrset_secure`, fix 8ec5af8) the DS-covered key alone, without RRSIG: Bogus, SERVFAIL -/
theorem regression_unsigned_dnskey_rrset :
    validate (mkEnv traceUnsignedKey (some 1)) 27 0 qKz = .ok { rcode := 0, an := [bog' kz], ns := [], ad := [] } ∧
    serverView false qKz (validate (mkEnv traceUnsignedKey (some 1)) 27 0 qKz) = (2, false) := by
  decide

open Ex in
/-- (was `answer_section_without_answer_accepted`, fix 2bee91e) the answer section holds only other names' Secure
records: an error -/
theorem regression_answer_section_without_answer :
    validate (mkEnv (traceNoCname ++ nsTrace)) 27 0 qAlias = .errNsec .bogus := by
  decide

open Ex in
/-- (was `insecure_authority_accepts_denial`, fix 2bee91e) NXDOMAIN for the signed `www.z.` carrying a record of the
unsigned zone `u.`: an error -/
theorem regression_insecure_authority_denial :
    validate (envForeign (traceForeignInsecure ++ nsTrace ++ [(qDs, msg [dsz, sigDs])])) 27 0 qA = .errNsec .bogus := by
  decide

open Ex in
/-- (was `soa_answer_without_soa_not_servfail`, fix 2bee91e) the SOA query answered with the SOA's RRSIG alone: an
error, hence SERVFAIL (`error_servfail`) -/
theorem regression_soa_answer_without_soa :
    validate (mkEnv traceSoa) 27 0 qSoa = .errNsec .bogus ∧
    serverView false qSoa (validate (mkEnv traceSoa) 27 0 qSoa) = (2, false) := by
  decide

/-- (was `ad_with_bogus_soa`, fix cdd0f6a) a negative answer with a Bogus SOA next to Secure NSEC records: SERVFAIL -/
theorem regression_ad_with_bogus_soa :
    let nsec : Rec := { name := ["a", "z"], rtype := 47, rid := 0, proof := .secure }
    let sig : Rec := { name := ["a", "z"], rtype := 46, rid := 1, covered := 47, signer := ["z"], labels := 2, proof := .secure }
    let soa : Rec := { name := ["z"], rtype := 6, rid := 2, proof := .bogus }
    serverView false ⟨["b", "z"], 1⟩ (.ok { rcode := 3, an := [], ns := [nsec, sig, soa], ad := [] }) = (2, false) := by
  decide

/-- (was `bogus_negative_without_soa_forwarded`, fix cdd0f6a) a negative answer without SOA that carries a Bogus
record: SERVFAIL -/
theorem regression_bogus_negative_without_soa :
    let nsec : Rec := { name := ["a", "z"], rtype := 47, rid := 0, proof := .secure }
    let sig : Rec := { name := ["a", "z"], rtype := 46, rid := 1, covered := 47, signer := ["z"], labels := 2, proof := .secure }
    let sigSoa : Rec := { name := ["z"], rtype := 46, rid := 3, covered := 6, signer := ["z"], labels := 1, proof := .bogus }
    serverView false ⟨["b", "z"], 1⟩ (.ok { rcode := 3, an := [], ns := [nsec, sig, sigSoa], ad := [] }) = (2, false) := by
  decide

open Ex in
/-- (was `foreign_signer_inherits_insecure`, fix 207ce2a) `www.z. A` with an RRSIG naming the unsigned zone `u.` as
signer: the RRSIG is not tried, the answer is Bogus, SERVFAIL -/
theorem regression_foreign_signer :
    validate (envForeign (traceForeignSigner ++ nsTrace ++ [(qDs, msg [dsz, sigDs])])) 27 0 qA =
      .ok { rcode := 0, an := [bog' a, sigF], ns := [], ad := [] } ∧
    serverView false qA (validate (envForeign (traceForeignSigner ++ nsTrace ++ [(qDs, msg [dsz, sigDs])])) 27 0 qA)
      = (2, false) := by
  decide

open Ex in
/-- (was `foreign_key_inherits_insecure`, fix 207ce2a) the honest RRSIG, the answer to `z. DNSKEY` replaced by a CNAME
at `z.` and the Insecure key of `u.`: the foreign key is not looked at, the answer is Bogus -/
theorem regression_foreign_key :
    validate (envForeign traceForeignKey) 27 0 qA = .ok { rcode := 0, an := [bog' a, sigA], ns := [], ad := [] } := by
  decide

namespace Ex
/-- a legitimately insecure answer: `www.u. A` of the unsigned zone `u.` (no RRSIG); `u. NS` marks the zone cut -/
def au : Rec := { name := ["www", "u"], rtype := 1, rid := 50 }
def qAu : Query := ⟨["www", "u"], 1⟩
def traceInsecureZone : List (Query × UpOut) :=
  [(qAu, msg [au]), (⟨["www", "u"], 2⟩, emptyMsg),
   (⟨["u"], 43⟩, .ok { rcode := 0, an := [], ns := [nsecU, sigN], ad := [] }), (qKr, msg [kr, sigKr]),
   (⟨["u"], 2⟩, msg [u])]
end Ex

open Ex in
theorem ex_insecure_zone :
    validate (envForeign traceInsecureZone) 27 0 qAu = .ok { rcode := 0, an := [ins' au], ns := [], ad := [] } := by
  decide

open Ex in
/-- non-vacuity of `insecure_implies_denial`: on the upstream of an honestly unsigned zone the conclusion names a
zone cut at or above `www.u.` with a validated denial of its DS -/
example : ∃ zone, zone <:+ ["www", "u"] ∧ DsDenied (envForeign traceInsecureZone) zone :=
  insecure_implies_denial (upClean_of_up _ traceInsecureZone rfl (by decide))
    ex_insecure_zone (sec := 0) (by omega) (r := ins' au) (by simp [Msg.sec]) rfl

/-! ### regression example of the repaired finding F11 (DS RRset signed by its owner) -/

namespace Ex
/-- `u.` is an unsigned zone that publishes a DNSKEY (`ku`, Insecure: `u. DS` is a validated NSEC denial).  The answer
to `p.u. DS` carries a forged DS RRset *at `u.`* — data of the signed parent, the root — with an RRSIG that names the
child `u.` itself as signer.  Record ids: dsX 60, sigX 61. -/
def dsX : Rec := { name := ["u"], rtype := 43, rid := 60, tag := 3, alg := 15, algSupp := true, digSupp := true }
def sigX : Rec := { name := ["u"], rtype := 46, rid := 61, covered := 43, signer := ["u"], labels := 1 }
def qPU : Query := ⟨["p", "u"], 43⟩
def traceDsByOwner : List (Query × UpOut) :=
  [(qPU, msg [dsX, sigX]), (⟨["u"], 48⟩, msg [ku]),
   (⟨["u"], 43⟩, .ok { rcode := 0, an := [], ns := [nsecU, sigN], ad := [] }), (qKr, msg [kr, sigKr]),
   (⟨["u"], 2⟩, msg [u])]
end Ex

open Ex in
/-- (was `ds_signed_by_owner_inherits_insecure`, fix 4f49cf9) the forged DS RRset at `u.` whose RRSIG names the child
`u.` itself as signer: the RRSIG is not tried, the DS record comes back Bogus (the response as such is accepted
because the query name `p.u.` lies in the provably insecure zone `u.`) -/
theorem regression_ds_signed_by_owner :
    validate (envForeign traceDsByOwner) 27 0 qPU = .ok { rcode := 0, an := [bog' dsX, sigX], ns := [], ad := [] } := by
  decide

/-! ### regression example of the repaired finding `C07.UnsignedNsecBesideSecureRecord` (= C08-H2, fix 63406ab) -/

namespace Ex
/-- `nope.z. A` is answered NXDOMAIN; the authority section holds the genuine, signed SOA of `z.` and a FORGED, unsigned
`z. NSEC` (SOA bit set, `tag := 1`).  Record ids: soaZ 70, sigSoa 71, nsecForged 72. -/
def soaZ : Rec := { name := ["z"], rtype := 6, rid := 70 }
def sigSoa : Rec := { name := ["z"], rtype := 46, rid := 71, covered := 6, signer := ["z"], labels := 1 }
def nsecForged : Rec := { name := ["z"], rtype := 47, rid := 72, tag := 1 }
def qNope : Query := ⟨["nope", "z"], 1⟩
def traceForgedNsec : List (Query × UpOut) :=
  [(qNope, .ok { rcode := 3, an := [], ns := [soaZ, sigSoa, nsecForged], ad := [] }),
   (qKz, msg [kz, sigKz]), (qDs, msg [dsz, sigDs]), (qKr, msg [kr, sigKr]),
   (⟨["z"], 2⟩, msg [nsZ]), (⟨["nope", "z"], 2⟩, emptyMsg)]
/-- the SOA's RRSIG verifies under `kz`; the NSEC oracle would call ANY selection of records a valid denial: the point is
that it is never asked, the forged NSEC is not selected -/
def envForgedNsec : Env :=
  { mkEnv traceForgedNsec with
    sigRes := fun k s g =>
      if (k, s) = (2, 71) && g.rtype == 6 then .secure else (mkEnv traceForgedNsec).sigRes k s g
    nsec := fun _ _ _ => .secure }
end Ex

open Ex in
/-- the input has the shape of the class (an NSEC without RRSIG beside a signed RRset of the same owner) … -/
example : unsignedNsecBesideSigned traceForgedNsec = true := by decide

open Ex in
/-- … and is no longer a denial: the SOA is Secure, the forged NSEC Bogus and not selected, the response an error
(`DnsError::Nsec`, Bogus), SERVFAIL at the server.  Before 63406ab the NSEC was selected because the SOA of the same owner
was Secure, and `nsec` decided. -/
theorem regression_unsigned_nsec_beside_signed :
    validate envForgedNsec 27 0 qNope = .errNsec .bogus ∧
    serverView false qNope (validate envForgedNsec 27 0 qNope) = (2, false) := by
  decide

/-! ### the class predicate of the open finding `C07.ChildSideDsDenialAccepted` (= C08-H1) -/

namespace Ex
/-- `z. DS` answered by `z.`'s own server: the apex NSEC of `z.` (SOA bit, `tag := 1`) -/
def nsecApexZ : Rec := { name := ["z"], rtype := 47, rid := 80, tag := 1 }
/-- … by the parent (the root): the parent-side NSEC at `z.` (no SOA bit), or the root's apex NSEC3 (SOA bit, but in the root
zone) as closest encloser -/
def nsecCutZ : Rec := { name := ["z"], rtype := 47, rid := 81, tag := 0 }
def nsec3ApexRoot : Rec := { name := ["h0"], rtype := 50, rid := 82, tag := 1 }
def nsec3ApexZ : Rec := { name := ["h1", "z"], rtype := 50, rid := 83, tag := 1 }
def dsNeg (ns : List Rec) : List (Query × UpOut) := [(qDs, .ok { rcode := 0, an := [], ns := ns, ad := [] })]
end Ex

open Ex in
example : childSideDsDenial (dsNeg [nsecApexZ]) = true ∧ childSideDsDenial (dsNeg [nsec3ApexZ]) = true ∧
    childSideDsDenial (dsNeg [nsecCutZ]) = false ∧ childSideDsDenial (dsNeg [nsec3ApexRoot]) = false := by decide

/-! ## the DS → DNSKEY link: the concrete shape of `covers` -/

/-- **`covers` links a key only through its FULL digest**: `dsCovers` is true iff the key is a zone key, the digest type is
supported, and the DS digest *equals* the digest of the key — hence has its length; a truncated (in the extreme empty) or
extended digest never covers.  (`dsCovers` is compared with the real `DS::covers` by the `covers` lines of the
correspondence run; in the chain theorems `covers` stays a parameter of which this is the instance.) -/
theorem covers_iff_full_digest (zoneKey : Bool) (hash : Option Bytes) (digest : Bytes) :
    dsCovers zoneKey hash digest = true ↔ zoneKey = true ∧ hash = some digest := by
  unfold dsCovers
  cases hash with
  | none => simp
  | some h => simp

theorem covers_same_length {zoneKey : Bool} {h digest : Bytes} (hc : dsCovers zoneKey (some h) digest = true) :
    digest.length = h.length := by
  have := (covers_iff_full_digest zoneKey (some h) digest).mp hc
  injection this.2 with heq
  rw [heq]

/-- a proper prefix of the digest does not cover -/
example : dsCovers true (some [1, 2, 3, 4]) [1, 2] = false ∧ dsCovers true (some [1, 2, 3, 4]) [] = false ∧
    dsCovers true (some [1, 2, 3, 4]) [1, 2, 3, 4, 0] = false ∧ dsCovers true (some [1, 2, 3, 4]) [1, 2, 3, 4] = true := by
  decide

end HickoryVerif.C07
