/-
C07 — property theorems: "Secure implies an unbroken chain to a trust anchor", about the model
`Chain.validate` (Model/Chain.lean) of the validator *as repaired* by the fix commits aabfc01, e338561,
8ec5af8, cdd0f6a, 2bee91e.  For every upstream `env.up`, every oracle valuation, every query, every fuel
(= `request_depth` budget) — so for every hierarchy and every way of tampering with any response.

  * `secure_implies_chain`        Secure record (not an RRSIG, not a DNSKEY) ⇒ `Chain` (Spec/ChainOfTrust.lean)   FULL
  * `secure_dnskey_implies`       Secure DNSKEY ⇒ `KeySecure`                                                     FULL
  * `secure_dnskey_signed`        Secure DNSKEY ⇒ `KeySigned` (trust anchor, or member of a *signed* RRset)        FULL
  * `no_panic`                    the validator never panics                                                      FULL
  * `ok_exits`                    the four ways `verify_response` returns Ok
  * `insecure_implies_justified`  Insecure ⇒ for some zone a validated NSEC/NSEC3 denial of its DS, or a Secure DS
                                  RRset without usable record                                                     FULL (no hypothesis)
  * `insecure_implies_denial_partial`  … and that zone is the record's owner or an ancestor of it, under
                                  `SignerDiscipline`; without it: `foreign_signer_inherits_insecure` (open finding
                                  C07.ForeignSignerInheritsInsecure)
  * `ad_only_if_all_secure`, `bogus_servfail_unless_cd`, `error_servfail`   (server mapping)                      FULL
  * regression examples: the traces that replayed the eight repaired findings now end in Bogus / error / SERVFAIL
-/
import HickoryVerif.Lemmas.Chain

namespace HickoryVerif.C07
open HickoryVerif HickoryVerif.Chain

/-- What the induction carries: the validated message is the upstream message with relabelled records,
and every Secure record of it is at the end of a chain. -/
def Sound (env : Env) (q : Query) (m : Msg) : Prop :=
  ∃ m0, upMsg env q = some ((env.up q).qid, m0) ∧
    ∀ sec, sec < 3 → ∀ r ∈ m.sec sec, r.raw ∈ m0.sec sec ∧
      (r.proof = .secure → r.isSig = false →
        (r.rtype ≠ tDNSKEY → Chain env q sec r.raw) ∧
        (r.rtype = tDNSKEY → KeySecure env q sec r.raw))

theorem upMsg_clean {env : Env} (hc : UpClean env) {q : Query} {qid : Nat} {m0 : Msg}
    (h : upMsg env q = some (qid, m0)) : ∀ sec, ∀ r ∈ m0.sec sec, r.proof = .indet := by
  intro sec r hr
  unfold upMsg at h
  split at h
  · rename_i m hm
    injection h with h; injection h with _ h; subst h
    refine hc q m (Or.inl hm) r ?_
    unfold Msg.sec at hr
    unfold Msg.all
    split at hr <;> simp [hr]
  · rename_i m hm
    injection h with h; injection h with _ h; subst h
    refine hc q m (Or.inr hm) r ?_
    unfold Msg.sec at hr
    unfold Msg.all
    split at hr <;> simp_all
  · simp at h

/-- an individually trusted key (w.r.t. the DS records the validator fetched) is a `DirectKey` of the spec,
given that the validated DS response is `Sound` -/
theorem keyOk_direct {env : Env} {sub : Query → Res} (hsub : ∀ q m, sub q = .ok m → Sound env q m)
    {zone : DName} {ds : List Rec} (hds : ds = [] ∨ fetchDs sub zone = .ok ds)
    {k : Rec} (hz : k.name = zone) (hk : KeyOk env ds k) : DirectKey env k := by
  rcases hk with ha | ⟨hsupp, d, hd, hp, halg, htag, hcov⟩
  · exact .anchor ha
  · rcases hds with hnil | hf
    · subst hnil; simp at hd
    · obtain ⟨md, hmd, hall⟩ := fetchDs_ok _ _ _ hf
      obtain ⟨hdm, hdt⟩ := hall d hd
      obtain ⟨m0, _, hs⟩ := hsub _ _ hmd
      have hsig : d.isSig = false := by simp [Rec.isSig, hdt, tDS, tRRSIG]
      have hnk : d.rtype ≠ tDNSKEY := by simp [hdt, tDS, tDNSKEY]
      have := ((hs 0 (by omega) d (by simpa [Msg.sec] using hdm)).2 hp hsig).1 hnk
      exact .ds (d := d.raw) (by simpa [hz] using this) (by simpa using hdt) halg htag (by simpa using hcov) hsupp

/-- one level of the induction -/
theorem sound_step {env : Env} (hc : UpClean env) {sub : Query → Res}
    (hsub : ∀ q m, sub q = .ok m → Sound env q m)
    {d : Nat} {q : Query} {m : Msg} (h : verifyResponse env sub d q (env.up q) = .ok m) : Sound env q m := by
  obtain ⟨m0, hup, hm⟩ := verifyResponse_ok _ _ _ _ _ h
  have hm' := verifyMsg_ok _ _ _ _ _ _ _ hm
  refine ⟨m0, hup, ?_⟩
  intro sec hsec r hr
  -- the section of the validated message is the relabelled section of the upstream message
  have hrel : m.sec sec = relabel (m0.sec sec) (verdicts env sub d q (env.up q).qid sec (m0.sec sec)) := by
    subst hm'
    match sec, hsec with
    | 0, _ => rfl
    | 1, _ => rfl
    | 2, _ => rfl
  rw [hrel] at hr
  obtain ⟨i, r0, hr0, hrr⟩ := relabel_mem _ _ _ hr
  have hind : r0.proof = .indet := upMsg_clean hc hup sec r0 hr0
  have hraw : r.raw = r0 := by rw [hrr, relabelOne_raw, raw_of_indet _ hind]
  refine ⟨hraw ▸ hr0, ?_⟩
  intro hsecure hnsig
  have hnsig0 : r0.isSig = false := by rw [← hraw]; simpa [Rec.isSig] using hnsig
  obtain ⟨idx, hl⟩ := relabelOne_secure _ _ i r0 (by simp [hind]) (hrr ▸ hsecure)
  obtain ⟨hv, _⟩ := verdicts_lookup _ _ _ _ _ _ _ _ _ hl
  rw [gkey_of_not_sig hnsig0] at hv
  unfold verifyGroup at hv
  dsimp only at hv
  rw [hraw]
  constructor
  · -- not a DNSKEY: verify_default_rrset
    intro hnk
    have hnk0 : r0.rtype ≠ tDNSKEY := by rw [← hraw]; exact hnk
    rw [if_neg (by simpa using hnk0)] at hv
    obtain ⟨s, j, mk, k, hsj, _, hmk, hkm, hkt, hkp, hks⟩ := verifyDefaultRrset_secure _ _ _ _ _ _ hv.symm
    obtain ⟨hs1, hs2, hs3, hs4⟩ := mem_groupSigs (List.mem_of_getElem? hsj)
    obtain ⟨mk0, hkup, hks0⟩ := hsub _ _ hmk
    have hksig : k.isSig = false := by simp [Rec.isSig, hkt, tDNSKEY, tRRSIG]
    obtain ⟨hkraw, hkk⟩ := hks0 0 (by omega) k (by simpa [Msg.sec] using hkm)
    exact .signed (k := k.raw) hup hr0 hnsig0 hs1 hs2 hs3 hs4 hkup (by simpa [Msg.sec] using hkraw)
      (by simpa using hkt) ((hkk hkp hksig).2 hkt) (by simpa using hks)
  · -- a DNSKEY: verify_dnskey_rrset
    intro hk
    have hk0 : r0.rtype = tDNSKEY := by rw [← hraw]; exact hk
    rw [if_pos (by simpa using hk0)] at hv
    obtain ⟨ds, hds, hcase⟩ := verifyDnskeyRrset_secure _ _ _ _ _ _ hv.symm
    rcases hcase with ⟨j, sig, k', _, hsj, hk', hok, hname, hres⟩ | ⟨_, _, hall⟩
    · obtain ⟨hs1, hs2, hs3, hs4⟩ := mem_groupSigs (List.mem_of_getElem? hsj)
      obtain ⟨hk1, _, hk3, hk4⟩ := mem_groupRecs hk'
      have hdir : DirectKey env k' := keyOk_direct hsub hds hk3 hok
      exact .signedBy hup hk1 (by simpa using hk4.trans hk0) hk3 hdir hs1 hs2 hs3
        (by simpa using hs4.trans hk0) hname (by simpa [hk0] using hres)
    · have hmem : r0 ∈ groupRecs (m0.sec sec) (r0.name, r0.rtype) := by
        unfold groupRecs
        simp [hr0, hnsig0, gkey_of_not_sig hnsig0]
      exact .direct (.anchor (hall r0 hmem))

/-- **Induction on the fuel** (the code's `request_depth` budget): every `Ok` result of the validator is `Sound`. -/
theorem validate_sound {env : Env} (hc : UpClean env) :
    ∀ (fuel d : Nat) (q : Query) (m : Msg), validate env fuel d q = .ok m → Sound env q m := by
  intro fuel
  induction fuel with
  | zero => intro d q m h; simp [validate] at h
  | succ n ih =>
    intro d q m h
    unfold validate at h
    exact sound_step hc (fun q' m' h' => ih (d + 1) q' m' h') h

/-- **C07, main theorem (full strength).**  If the validator returns a record `r` (other than an RRSIG or a
DNSKEY) with proof Secure in section `sec` of its answer to `q`, then there is an unbroken chain from a
trust anchor to `r`: an RRSIG over its RRset in the same upstream response verifies under a DNSKEY of the
signer's upstream DNSKEY response, that key being a trust anchor, or covered (algorithm, key tag, digest)
by a DS record that is itself at the end of such a chain, or a member of a DNSKEY RRset signed by such a key.
For every upstream, every fuel. -/
theorem secure_implies_chain {env : Env} (hc : UpClean env) {fuel d : Nat} {q : Query} {m : Msg}
    (h : validate env fuel d q = .ok m) {sec : Nat} (hsec : sec < 3) {r : Rec} (hr : r ∈ m.sec sec)
    (hp : r.proof = .secure) (hns : r.isSig = false) (hnk : r.rtype ≠ tDNSKEY) :
    Chain env q sec r.raw := by
  obtain ⟨m0, _, hs⟩ := validate_sound hc fuel d q m h
  exact ((hs sec hsec r hr).2 hp hns).1 hnk

/-- **C07 for DNSKEY records.**  A DNSKEY returned Secure is a trust anchor, or covered by a DS at the end of a
chain, or a member of a DNSKEY RRset signed by such a key. -/
theorem secure_dnskey_implies {env : Env} (hc : UpClean env) {fuel d : Nat} {q : Query} {m : Msg}
    (h : validate env fuel d q = .ok m) {sec : Nat} (hsec : sec < 3) {r : Rec} (hr : r ∈ m.sec sec)
    (hp : r.proof = .secure) (hk : r.rtype = tDNSKEY) :
    KeySecure env q sec r.raw := by
  obtain ⟨m0, _, hs⟩ := validate_sound hc fuel d q m h
  have hns : r.isSig = false := by simp [Rec.isSig, hk, tDNSKEY, tRRSIG]
  exact ((hs sec hsec r hr).2 hp hns).2 hk

/-- **C07 for DNSKEY records, strict reading (full strength).**  A DNSKEY returned Secure is a trust anchor, or a
member of a DNSKEY RRset *signed* by an individually trusted key of that RRset (`KeySigned`).  (Before fix
8ec5af8 this needed a hypothesis; the counter-example of then is `regression_unsigned_dnskey_rrset` below.) -/
theorem secure_dnskey_signed {env : Env} (hc : UpClean env) {fuel d : Nat} {q : Query} {m : Msg}
    (h : validate env fuel d q = .ok m) {sec : Nat} (hsec : sec < 3) {r : Rec} (hr : r ∈ m.sec sec)
    (hp : r.proof = .secure) (hk : r.rtype = tDNSKEY) :
    KeySigned env q sec r.raw := by
  cases fuel with
  | zero => simp [validate] at h
  | succ n =>
    unfold validate at h
    have hsub : ∀ q' m', validate env n (d + 1) q' = .ok m' → Sound env q' m' :=
      fun q' m' h' => validate_sound hc n (d + 1) q' m' h'
    obtain ⟨m0, hup, hm⟩ := verifyResponse_ok _ _ _ _ _ h
    have hm' := verifyMsg_ok _ _ _ _ _ _ _ hm
    have hrel : m.sec sec = relabel (m0.sec sec)
        (verdicts env (validate env n (d + 1)) (d + 1) q (env.up q).qid sec (m0.sec sec)) := by
      subst hm'
      match sec, hsec with
      | 0, _ => rfl
      | 1, _ => rfl
      | 2, _ => rfl
    rw [hrel] at hr
    obtain ⟨i, r0, hr0, hrr⟩ := relabel_mem _ _ _ hr
    have hind : r0.proof = .indet := upMsg_clean hc hup sec r0 hr0
    have hraw : r.raw = r0 := by rw [hrr, relabelOne_raw, raw_of_indet _ hind]
    have hnsig0 : r0.isSig = false := by rw [← hraw]; simp [Rec.isSig, hk, tDNSKEY, tRRSIG]
    have hk0 : r0.rtype = tDNSKEY := by rw [← hraw]; exact hk
    obtain ⟨idx, hl⟩ := relabelOne_secure _ _ i r0 (by simp [hind]) (hrr ▸ hp)
    obtain ⟨hv, _⟩ := verdicts_lookup _ _ _ _ _ _ _ _ _ hl
    rw [gkey_of_not_sig hnsig0] at hv
    unfold verifyGroup at hv
    dsimp only at hv
    rw [if_pos (by simpa using hk0)] at hv
    obtain ⟨ds, hds, hcase⟩ := verifyDnskeyRrset_secure _ _ _ _ _ _ hv.symm
    rw [hraw]
    rcases hcase with ⟨jx, sig, k', _, hsj, hk', hok, hname, hres⟩ | ⟨_, _, hall⟩
    · obtain ⟨hs1, hs2, hs3, hs4⟩ := mem_groupSigs (List.mem_of_getElem? hsj)
      obtain ⟨hk1, _, hk3, hk4⟩ := mem_groupRecs hk'
      have hdir : DirectKey env k' := keyOk_direct hsub hds hk3 hok
      exact Or.inr ⟨k', sig, _, m0, hup, hk1, by simpa using hk4.trans hk0, hk3, hdir, hs1, hs2, hs3,
        by simpa using hs4.trans hk0, hname, by simpa [hk0] using hres⟩
    · have hmem : r0 ∈ groupRecs (m0.sec sec) (r0.name, r0.rtype) := by
        unfold groupRecs
        simp [hr0, hnsig0, gkey_of_not_sig hnsig0]
      exact Or.inl (hall r0 hmem)

/-- a returned record is a record of the upstream's response (nothing is invented; only proofs change) -/
theorem returned_records_from_upstream {env : Env} (hc : UpClean env) {fuel d : Nat} {q : Query} {m : Msg}
    (h : validate env fuel d q = .ok m) {sec : Nat} (hsec : sec < 3) {r : Rec} (hr : r ∈ m.sec sec) :
    ∃ m0, upMsg env q = some ((env.up q).qid, m0) ∧ r.raw ∈ m0.sec sec := by
  obtain ⟨m0, hup, hs⟩ := validate_sound hc fuel d q m h
  exact ⟨m0, hup, (hs sec hsec r hr).1⟩

/-! ## the exits of `verify_response` -/

/-- exit 2 for the response to `q`: the NSEC/NSEC3 oracle says Secure on the denial records selected from owners
that have a Secure record -/
def NsecDenied (env : Env) (q : Query) (m' : Msg) : Prop :=
  ∃ mask, (mask = maskOf (selectDenial m'.ns tNSEC3) ∨ mask = maskOf (selectDenial m'.ns tNSEC)) ∧
    (selectDenial m'.ns tNSEC3 ≠ [] ∨ selectDenial m'.ns tNSEC ≠ []) ∧
    env.nsec (env.up q).qid mask (maskOf (m'.an.zipIdx.filter fun ri => ri.1.isSig && ri.1.proof == .secure)) = .secure

/-- the name whose zone must be provably insecure: the query name, for a DS query its parent -/
def dsNameOf (q : Query) : DName := if q.qtype == tDS then q.name.baseName else q.name

/-- **The exits of `verify_response`** (after fix 2bee91e): a response is returned `Ok` only if
(1) its verified authority RRsets are Insecure throughout *and* `find_ds_records` proves the query name insecure,
(2) the NSEC/NSEC3 oracle says Secure on the denial records selected from Secure owners,
(3) there are no such records, no wildcard answer, and the answer section answers the question (a record of the
    queried type, or a CNAME, at the query name), or
(4) the answer section does not answer the question and `find_ds_records` proves the query name insecure. -/
theorem ok_exits (env : Env) (sub : Query → Res) (d : Nat) (q : Query) (m m' : Msg)
    (h : verifyMsg env sub d q (env.up q).qid m = .ok m') :
    (allAuthInsecure m'.ns (verdicts env sub d q (env.up q).qid 1 m.ns) = true ∧
      findDs env sub (dsNameOf q) = .err .insecure) ∨
    NsecDenied env q m' ∨
    (selectDenial m'.ns tNSEC3 = [] ∧ selectDenial m'.ns tNSEC = [] ∧ answersTheQuestion q m'.an = true) ∨
    (answersTheQuestion q m'.an = false ∧ findDs env sub (dsNameOf q) = .err .insecure) := by
  have hm' := verifyMsg_ok _ _ _ _ _ _ _ h
  subst hm'
  unfold NsecDenied dsNameOf
  dsimp only
  unfold verifyMsg at h
  dsimp only at h
  split at h
  · simp at h
  · split at h
    · rename_i r hearly
      left
      split at hearly
      · rename_i hall
        split at hearly
        · injection hearly with hearly; subst hearly; simp at h
        · rename_i hf; exact ⟨hall, hf⟩
        · simp at hearly
      · simp at hearly
    · right
      split at h
      · rename_i _ h3 h1
        split at h
        · rename_i hs
          left
          refine ⟨_, Or.inl rfl, Or.inl ?_, by simpa using hs⟩
          simpa using h3
        · simp at h
      · rename_i _ h3 h1
        split at h
        · rename_i hs
          left
          refine ⟨_, Or.inr rfl, Or.inr ?_, by simpa using hs⟩
          simpa using h1
        · simp at h
      · simp at h
      · simp at h
      · rename_i h3 h1 _
        right
        split at h
        · rename_i hne
          left
          exact ⟨by simpa using h3, by simpa using h1, hne⟩
        · rename_i hne
          right
          refine ⟨by simpa using hne, ?_⟩
          split at h
          · simp at h
          · rename_i hf; exact hf
          · simp at h

/-! ## Insecure ⇒ a validated denial of DS, or only unsupported DS -/

/-- The two reasons the property admits, at `zone`: the validator obtained (at some depth) a validated response
to `zone DS` that is (a) a negative answer proved by NSEC/NSEC3, or (b) a Secure DS RRset without a Secure record
of supported algorithm and digest type. -/
def DsDenied (env : Env) (zone : DName) : Prop :=
  ∃ fuel d md, validate env fuel d ⟨zone, tDS⟩ = .ok md ∧
    ((md.an = [] ∧ NsecDenied env ⟨zone, tDS⟩ md) ∨
     ((∃ x ∈ md.an, x.rtype = tDS ∧ x.proof = .secure) ∧ NoSecureSupportedDs md))

/-- Hypothesis excluding the open finding `C07.ForeignSignerInheritsInsecure`: in the upstream's responses an
RRSIG names its owner or an ancestor of its owner as signer, and the answer to `z DNSKEY` holds DNSKEYs of `z`
only.  (On a trace: `foreignSigner trace = false`.) -/
def SignerDiscipline (env : Env) : Prop :=
  (∀ q qid m, upMsg env q = some (qid, m) → ∀ sec, sec < 3 → ∀ s ∈ m.sec sec, s.isSig = true → s.signer <:+ s.name) ∧
  (∀ z qid m, upMsg env ⟨z, tDNSKEY⟩ = some (qid, m) → ∀ k ∈ m.an, k.rtype = tDNSKEY → k.name = z)

theorem denial_step {env : Env} (hc : UpClean env) (n : Nat)
    (ihI : ∀ d q m, validate env n d q = .ok m → ∀ sec, sec < 3 → ∀ r ∈ m.sec sec, r.proof = .insecure →
      ∃ zone, DsDenied env zone ∧ (SignerDiscipline env → zone <:+ r.name))
    (ihJ : ∀ d zone, fetchDs (validate env n d) zone = .err .insecure → ∃ zone', DsDenied env zone' ∧ zone' <:+ zone) :
    (∀ d q m, validate env (n + 1) d q = .ok m → ∀ sec, sec < 3 → ∀ r ∈ m.sec sec, r.proof = .insecure →
      ∃ zone, DsDenied env zone ∧ (SignerDiscipline env → zone <:+ r.name)) ∧
    (∀ d zone, fetchDs (validate env (n + 1) d) zone = .err .insecure →
      ∃ zone', DsDenied env zone' ∧ zone' <:+ zone) := by
  constructor
  · -- records of a response validated with n+1 levels left
    intro d q m h sec hsec r hr hp
    unfold validate at h
    obtain ⟨m0, hup, hm⟩ := verifyResponse_ok _ _ _ _ _ h
    have hm' := verifyMsg_ok _ _ _ _ _ _ _ hm
    have hrel : m.sec sec = relabel (m0.sec sec)
        (verdicts env (validate env n (d + 1)) (d + 1) q (env.up q).qid sec (m0.sec sec)) := by
      subst hm'
      match sec, hsec with
      | 0, _ => rfl
      | 1, _ => rfl
      | 2, _ => rfl
    rw [hrel] at hr
    obtain ⟨i, r0, hr0, hrr⟩ := relabel_mem _ _ _ hr
    have hind : r0.proof = .indet := upMsg_clean hc hup sec r0 hr0
    have hname : r.name = r0.name := by
      have := relabelOne_raw (m0.sec sec)
        (verdicts env (validate env n (d + 1)) (d + 1) q (env.up q).qid sec (m0.sec sec)) i r0
      rw [← hrr] at this
      have h2 : r.raw.name = r0.raw.name := by rw [this]
      simpa using h2
    obtain ⟨idx, hl⟩ := relabelOne_proof _ _ i r0 .insecure (by simp [hind]) (hrr ▸ hp)
    obtain ⟨hv, _⟩ := verdicts_lookup _ _ _ _ _ _ _ _ _ hl
    unfold verifyGroup at hv
    dsimp only at hv
    have hgn : r0.gkey.1 = r0.name := rfl
    split at hv
    · rcases verifyDnskeyRrset_insecure_cases _ _ _ _ _ _ hv.symm with hf | ⟨md, hmd, hx, hno⟩
      · obtain ⟨zone', hd, hz⟩ := ihJ _ _ hf
        exact ⟨zone', hd, fun _ => by rw [hname]; exact hz⟩
      · exact ⟨r0.name, ⟨n, d + 1, md, hmd, Or.inr ⟨hx, hno⟩⟩, fun _ => by rw [hname]; exact List.suffix_refl _⟩
    · rcases verifyDefaultRrset_insecure_suffix _ _ _ _ _ _ hv.symm with
        ⟨zone, hz, hf⟩ | ⟨s, mk, k, hs, hmk, hk, hkt, hkp⟩
      · obtain ⟨zone', hd, hz'⟩ := ihJ _ _ hf
        exact ⟨zone', hd, fun _ => by rw [hname]; exact hz'.trans hz⟩
      · -- inherited from an Insecure DNSKEY of the answer to "<signer> DNSKEY"
        obtain ⟨zone, hd, hz⟩ := ihI _ _ _ hmk 0 (by omega) k (by simpa [Msg.sec] using hk) hkp
        refine ⟨zone, hd, fun hsd => ?_⟩
        obtain ⟨hs1, hs2, hs3, _⟩ := mem_groupSigs hs
        have hsig : s.signer <:+ s.name := hsd.1 q _ m0 hup sec hsec s hs1 hs2
        obtain ⟨mk0, hkup, hks⟩ := validate_sound hc n (d + 1) _ mk hmk
        have hkraw := (hks 0 (by omega) k (by simpa [Msg.sec] using hk)).1
        have hkn : k.name = s.signer := by
          have := hsd.2 s.signer _ mk0 hkup k.raw (by simpa [Msg.sec] using hkraw) (by simpa using hkt)
          simpa using this
        rw [hname, ← hgn, ← hs3]
        exact ((hz hsd).trans (hkn ▸ List.suffix_refl _)).trans hsig
  · -- the DS lookup with n+1 levels left
    intro d zone hf
    obtain ⟨md, hmd, hno, hcase⟩ := fetchDs_insecure_cases _ _ hf
    rcases hcase with hx | hempty
    · exact ⟨zone, ⟨n + 1, d, md, hmd, Or.inr ⟨hx, hno⟩⟩, List.suffix_refl _⟩
    · have hmd' := hmd
      unfold validate at hmd'
      obtain ⟨m0, hup, hm⟩ := verifyResponse_ok _ _ _ _ _ hmd'
      have hds : dsNameOf ⟨zone, tDS⟩ = DName.baseName zone := by simp [dsNameOf]
      rcases ok_exits _ _ _ _ _ _ hm with h1 | h2 | h3 | h4
      · rw [hds] at h1
        obtain ⟨z2, hz2, hf2⟩ := findDs_insecure_suffix _ _ _ h1.2
        obtain ⟨zone', hd, hz'⟩ := ihJ _ _ hf2
        exact ⟨zone', hd, (hz'.trans hz2).trans (baseName_suffix _)⟩
      · exact ⟨zone, ⟨n + 1, d, md, hmd, Or.inl ⟨hempty, h2⟩⟩, List.suffix_refl _⟩
      · rw [hempty] at h3
        simp [answersTheQuestion] at h3
      · rw [hds] at h4
        obtain ⟨z2, hz2, hf2⟩ := findDs_insecure_suffix _ _ _ h4.2
        obtain ⟨zone', hd, hz'⟩ := ihJ _ _ hf2
        exact ⟨zone', hd, (hz'.trans hz2).trans (baseName_suffix _)⟩

theorem denial_all {env : Env} (hc : UpClean env) : ∀ n : Nat,
    (∀ d q m, validate env n d q = .ok m → ∀ sec, sec < 3 → ∀ r ∈ m.sec sec, r.proof = .insecure →
      ∃ zone, DsDenied env zone ∧ (SignerDiscipline env → zone <:+ r.name)) ∧
    (∀ d zone, fetchDs (validate env n d) zone = .err .insecure → ∃ zone', DsDenied env zone' ∧ zone' <:+ zone) := by
  intro n
  induction n with
  | zero =>
    refine ⟨fun d q m h => by simp [validate] at h, fun d zone hf => ?_⟩
    obtain ⟨md, hmd, _⟩ := fetchDs_insecure _ _ hf
    simp [validate] at hmd
  | succ n ih => exact denial_step hc n ih.1 ih.2

/-- **Insecure ⇒ a validated denial (full strength, no hypothesis beyond `UpClean`).**  If the validator returns any
record with proof Insecure then, for some zone, it holds a validated response to that zone's DS query which is a
negative answer proved by NSEC/NSEC3, or a Secure DS RRset in which no Secure record has a supported algorithm and
digest type.  (Before fixes aabfc01 / 2bee91e this needed `DsAnswersHaveDs`.)  By induction on the fuel. -/
theorem insecure_implies_justified {env : Env} (hc : UpClean env) {fuel d : Nat} {q : Query} {m : Msg}
    (h : validate env fuel d q = .ok m) {sec : Nat} (hsec : sec < 3) {r : Rec} (hr : r ∈ m.sec sec)
    (hp : r.proof = .insecure) : ∃ zone, DsDenied env zone := by
  obtain ⟨zone, hd, _⟩ := (denial_all hc fuel).1 d q m h sec hsec r hr hp
  exact ⟨zone, hd⟩

/-- **Insecure ⇒ denial (partial).**  Full statement (`insecure_implies_denial`): a record is returned Insecure only
if, for a zone cut at or above the record's owner, the DS query returned no DS with a validated denial, or only
unsupported algorithms.  Proved under `SignerDiscipline`.  Without it the zone need not be related to the record:
`verify_rrsig_with_keys` lets an RRset inherit "Insecure" from any Insecure DNSKEY in the answer to
"<signer> DNSKEY", and the signer is whatever the RRSIG says — `foreign_signer_inherits_insecure`, open finding
`C07.ForeignSignerInheritsInsecure`.  (The two gaps of before the fixes are closed: "answers present" now has to
answer the question and "all authorities Insecure" now needs the query name to be provably insecure — `ok_exits`.) -/
theorem insecure_implies_denial_partial {env : Env} (hc : UpClean env) (hsd : SignerDiscipline env)
    {fuel d : Nat} {q : Query} {m : Msg} (h : validate env fuel d q = .ok m) {sec : Nat} (hsec : sec < 3)
    {r : Rec} (hr : r ∈ m.sec sec) (hp : r.proof = .insecure) :
    ∃ zone, zone <:+ r.name ∧ DsDenied env zone := by
  obtain ⟨zone, hd, hz⟩ := (denial_all hc fuel).1 d q m h sec hsec r hr hp
  exact ⟨zone, hz hsd, hd⟩

/-! ## no panic -/

theorem verdicts_no_panic {env : Env} {sub : Query → Res} (hsub : ∀ q, sub q ≠ .abort "panic")
    {d : Nat} {q : Query} {qid secNo : Nat} {sec : List Rec}
    {kv : GKey × GV} (hkv : kv ∈ verdicts env sub d q qid secNo sec) : kv.2 ≠ .abort "panic" := by
  intro hp
  obtain ⟨_, hv⟩ := mem_verdicts hkv
  rw [hv] at hp
  unfold verifyGroup at hp
  dsimp only at hp
  split at hp
  · obtain ⟨q', hq'⟩ := verifyDnskeyRrset_abort _ _ _ _ _ _ hp
    exact hsub q' hq'
  · rcases verifyDefaultRrset_abort _ _ _ _ _ _ hp with hm | ⟨q', hq'⟩
    · revert hm; decide
    · exact hsub q' hq'

/-- **No panic (full strength).**  For every upstream, every oracle valuation, every fuel: the validator does not
panic.  The one `unwrap()` of the validator (`dnskey_proofs.pop().unwrap()`) is unreachable since fix e338561
(`verifyDnskeyRrset_abort`).  (`abort "missing"` exists only in the driver: a query outside the replayed trace.) -/
theorem no_panic (env : Env) : ∀ (fuel d : Nat) (q : Query), validate env fuel d q ≠ .abort "panic" := by
  intro fuel
  induction fuel with
  | zero => intro d q; simp [validate]
  | succ n ih =>
    intro d q h
    unfold validate at h
    have hsub : ∀ q', validate env n (d + 1) q' ≠ .abort "panic" := ih (d + 1)
    have hfd : ∀ nm, findDs env (validate env n (d + 1)) nm ≠ .abort "panic" := by
      intro nm hf
      rcases findDs_abort _ _ _ _ hf with hm | ⟨q', hq'⟩
      · revert hm; decide
      · exact hsub q' hq'
    have key : ∀ m0, verifyMsg env (validate env n (d + 1)) (d + 1) q (env.up q).qid m0 ≠ .abort "panic" := by
      intro m0 hv
      unfold verifyMsg at hv
      dsimp only at hv
      split at hv
      · rename_i w hw
        injection hv with hv
        subst hv
        obtain ⟨kv, hkv, hp⟩ := firstAbort_panic hw
        simp only [List.mem_append] at hkv
        rcases hkv with (hkv | hkv) | hkv
        · exact verdicts_no_panic hsub hkv hp
        · exact verdicts_no_panic hsub hkv hp
        · exact verdicts_no_panic hsub hkv hp
      · split at hv
        · rename_i r hearly
          split at hearly
          · split at hearly
            · rename_i w hf
              injection hearly with hearly
              subst hearly
              injection hv with hv
              subst hv
              exact hfd _ hf
            · injection hearly with hearly; subst hearly; simp at hv
            · simp at hearly
          · simp at hearly
        · split at hv
          · split at hv <;> simp at hv
          · split at hv <;> simp at hv
          · simp at hv
          · simp at hv
          · split at hv
            · simp at hv
            · split at hv
              · rename_i w hf
                injection hv with hv
                subst hv
                exact hfd _ hf
              · simp at hv
              · simp at hv
    unfold verifyResponse at h
    split at h
    · simp at h
    · revert h; decide
    · exact key _ h
    · exact key _ h

/-! ## the server's mapping (`build_forwarded_response`) -/

theorem summaryGo_secure (rs : List Rec) (st : Option Bool) (h : summaryGo rs st = .secure) :
    (∀ r ∈ rs, r.proof = .secure) ∧ (rs ≠ [] ∨ st = some true) ∧ st ≠ some false := by
  induction rs generalizing st with
  | nil =>
    unfold summaryGo at h
    split at h
    · rename_i hs
      cases st with
      | none => simp at hs
      | some b => cases b <;> simp_all
    · simp at h
  | cons r rest ih =>
    unfold summaryGo at h
    split at h
    · rename_i hp
      obtain ⟨h1, _, h3⟩ := ih _ h
      refine ⟨?_, Or.inl (by simp), ?_⟩
      · intro x hx
        rcases List.mem_cons.mp hx with hx | hx
        · exact hx ▸ hp
        · exact h1 x hx
      · intro hst; subst hst; simp at h3
    · simp at h
    · obtain ⟨_, _, h3⟩ := ih _ h
      simp at h3

theorem summaryGo_bogus_of_mem (rs : List Rec) (st : Option Bool) (h : ∃ r ∈ rs, r.proof = .bogus) :
    summaryGo rs st = .bogus ∨ False := by
  left
  induction rs generalizing st with
  | nil => obtain ⟨r, hr, _⟩ := h; simp at hr
  | cons x rest ih =>
    obtain ⟨r, hr, hp⟩ := h
    unfold summaryGo
    rcases List.mem_cons.mp hr with hx | hx
    · subst hx; simp [hp]
    · split
      · exact ih _ ⟨r, hx, hp⟩
      · rfl
      · exact ih _ ⟨r, hx, hp⟩

/-- **AD only if all Secure (full strength).**  The forwarded response carries AD only when the validator returned
`Ok` and every summarised record is Secure, the summarised records being a non-empty list: the whole answer section
or, for a negative answer, the whole authority section the server forwards (non-SOA records and the SOA; before fix
cdd0f6a the SOA was left out and a negative answer without SOA was not looked at). -/
theorem ad_only_if_all_secure (cd : Bool) (q : Query) (r : Res) (h : (serverView cd q r).2 = true) :
    (∃ m, r = .ok m) ∧ summarised q r ≠ [] ∧ ∀ x ∈ summarised q r, x.proof = .secure := by
  have hok : ∃ m, r = .ok m := by
    cases r with
    | ok m => exact ⟨m, rfl⟩
    | _ => simp [serverView, forwarded] at h
  refine ⟨hok, ?_⟩
  unfold serverView at h
  split at h
  · simp at h
  · dsimp only at h
    split at h
    · rename_i hs
      obtain ⟨h1, h2, _⟩ := summaryGo_secure _ none hs
      exact ⟨by simpa using h2, h1⟩
    · split at h <;> simp at h
    · simp at h

/-- what the summary of a negative answer covers: every authority record except SOA records after the first -/
theorem summarised_noRecords_covers (q : Query) (m : Msg) (hf : forwarded q (.ok m) = .noRecords m)
    (x : Rec) (hx : x ∈ m.ns) (hns : x.rtype ≠ tSOA) : x ∈ summarised q (.ok m) := by
  unfold summarised
  rw [hf]
  simp [hx, hns]

/-- **Bogus ⇒ SERVFAIL unless CD**: a Bogus record among the summarised ones makes the response SERVFAIL
(without AD) for a client that did not set CD. -/
theorem bogus_servfail_unless_cd (q : Query) (r : Res) (h : ∃ x ∈ summarised q r, x.proof = .bogus) :
    serverView false q r = (2, false) := by
  rcases summaryGo_bogus_of_mem _ none h with hb | hf
  · unfold serverView
    split
    · rfl
    · simp [summary, hb]
  · exact hf.elim

/-- every error of the validator is SERVFAIL without AD, whatever the CD bit -/
theorem error_servfail (cd : Bool) (q : Query) (r : Res) (hok : ∀ m, r ≠ .ok m) : serverView cd q r = (2, false) := by
  cases r with
  | ok m => exact absurd rfl (hok m)
  | _ => simp [serverView, forwarded]

end HickoryVerif.C07
