/-
C07 — property theorems: "Secure implies an unbroken chain to a trust anchor".

All theorems are about the model `Chain.validate` (Model/Chain.lean), for every upstream `env.up`,
every oracle valuation, every query, every fuel (= `request_depth` budget) — so in particular for every
hierarchy and every way of tampering with any response, since the upstream is arbitrary.

  * `secure_implies_chain`      Secure record (not an RRSIG, not a DNSKEY) ⇒ `Chain` (Spec/ChainOfTrust.lean)
  * `secure_dnskey_implies`     Secure DNSKEY record ⇒ `KeySecure` (trust anchor / DS-covered / in an RRset
                                signed by such a key)
  * `secure_dnskey_signed_partial`  … ⇒ `KeySigned` (strict reading: anchor or *signed* RRset), under the
                                hypothesis that the RRSIG that validated the RRset is marked Secure next to
                                it; `unsigned_dnskey_rrset_secure` is the kernel-checked counter-example
                                without it (findings C07.UnsignedDnskeyRrsetSecure / AnchorKeyForeignOwnerSecure)
  * `no_panic_partial`, `orphan_dnskey_rrsig_panics`        (finding C07.OrphanDnskeyRrsigPanic)
  * `ds_answer_without_ds_downgrades`                        (finding C07.DsAnswerWithoutDsAccepted)
  * `insecure_implies_denial_partial`
  * `ad_only_if_all_secure_partial`, `ad_with_bogus_soa`, `bogus_servfail_unless_cd`, `error_servfail`  (server mapping)
-/
import HickoryVerif.Lemmas.Chain

namespace HickoryVerif.C07
open HickoryVerif HickoryVerif.Chain

/-- What the induction carries: the validated message is the upstream message with relabelled records,
and every Secure record of it is at the end of a chain. -/
def Sound (env : Env) (q : Query) (m : Msg) : Prop :=
  ∃ m0, upMsg env q = some ((env.up q).qid, m0) ∧
    ∀ sec, sec < 3 → ∀ r ∈ m.sec sec, r.raw ∈ m0.sec sec ∧
      (r.proof = .secure → r.isSig = false →
        (r.rtype ≠ tDNSKEY → Chain env q sec r.raw) ∧
        (r.rtype = tDNSKEY → KeySecure env q sec r.raw))

theorem upMsg_clean {env : Env} (hc : UpClean env) {q : Query} {qid : Nat} {m0 : Msg}
    (h : upMsg env q = some (qid, m0)) : ∀ sec, ∀ r ∈ m0.sec sec, r.proof = .indet := by
  intro sec r hr
  unfold upMsg at h
  split at h
  · rename_i m hm
    injection h with h; injection h with _ h; subst h
    refine hc q m (Or.inl hm) r ?_
    unfold Msg.sec at hr
    unfold Msg.all
    split at hr <;> simp [hr]
  · rename_i m hm
    injection h with h; injection h with _ h; subst h
    refine hc q m (Or.inr hm) r ?_
    unfold Msg.sec at hr
    unfold Msg.all
    split at hr <;> simp_all
  · simp at h

/-- an individually trusted key (w.r.t. the DS records the validator fetched) is a `DirectKey` of the spec,
given that the validated DS response is `Sound` -/
theorem keyOk_direct {env : Env} {sub : Query → Res} (hsub : ∀ q m, sub q = .ok m → Sound env q m)
    {zone : DName} {ds : List Rec} (hds : ds = [] ∨ fetchDs sub zone = .ok ds)
    {k : Rec} (hz : k.name = zone) (hk : KeyOk env ds k) : DirectKey env k := by
  rcases hk with ha | ⟨hsupp, d, hd, hp, halg, htag, hcov⟩
  · exact .anchor ha
  · rcases hds with hnil | hf
    · subst hnil; simp at hd
    · obtain ⟨md, hmd, hall⟩ := fetchDs_ok _ _ _ hf
      obtain ⟨hdm, hdt⟩ := hall d hd
      obtain ⟨m0, _, hs⟩ := hsub _ _ hmd
      have hsig : d.isSig = false := by simp [Rec.isSig, hdt, tDS, tRRSIG]
      have hnk : d.rtype ≠ tDNSKEY := by simp [hdt, tDS, tDNSKEY]
      have := ((hs 0 (by omega) d (by simpa [Msg.sec] using hdm)).2 hp hsig).1 hnk
      exact .ds (d := d.raw) (by simpa [hz] using this) (by simpa using hdt) halg htag (by simpa using hcov) hsupp

/-- one level of the induction -/
theorem sound_step {env : Env} (hc : UpClean env) {sub : Query → Res}
    (hsub : ∀ q m, sub q = .ok m → Sound env q m)
    {d : Nat} {q : Query} {m : Msg} (h : verifyResponse env sub d q (env.up q) = .ok m) : Sound env q m := by
  obtain ⟨m0, hup, hm⟩ := verifyResponse_ok _ _ _ _ _ h
  have hm' := verifyMsg_ok _ _ _ _ _ _ _ hm
  refine ⟨m0, hup, ?_⟩
  intro sec hsec r hr
  -- the section of the validated message is the relabelled section of the upstream message
  have hrel : m.sec sec = relabel (m0.sec sec) (verdicts env sub d q (env.up q).qid sec (m0.sec sec)) := by
    subst hm'
    match sec, hsec with
    | 0, _ => rfl
    | 1, _ => rfl
    | 2, _ => rfl
  rw [hrel] at hr
  obtain ⟨i, r0, hr0, hrr⟩ := relabel_mem _ _ _ hr
  have hind : r0.proof = .indet := upMsg_clean hc hup sec r0 hr0
  have hraw : r.raw = r0 := by rw [hrr, relabelOne_raw, raw_of_indet _ hind]
  refine ⟨hraw ▸ hr0, ?_⟩
  intro hsecure hnsig
  have hnsig0 : r0.isSig = false := by rw [← hraw]; simpa [Rec.isSig] using hnsig
  obtain ⟨idx, hl⟩ := relabelOne_secure _ _ i r0 (by simp [hind]) (hrr ▸ hsecure)
  obtain ⟨hv, _⟩ := verdicts_lookup _ _ _ _ _ _ _ _ _ hl
  rw [gkey_of_not_sig hnsig0] at hv
  unfold verifyGroup at hv
  dsimp only at hv
  rw [hraw]
  constructor
  · -- not a DNSKEY: verify_default_rrset
    intro hnk
    have hnk0 : r0.rtype ≠ tDNSKEY := by rw [← hraw]; exact hnk
    rw [if_neg (by simpa using hnk0)] at hv
    obtain ⟨s, j, mk, k, hsj, _, hmk, hkm, hkt, hkp, hks⟩ := verifyDefaultRrset_secure _ _ _ _ _ _ hv.symm
    obtain ⟨hs1, hs2, hs3, hs4⟩ := mem_groupSigs (List.mem_of_getElem? hsj)
    obtain ⟨mk0, hkup, hks0⟩ := hsub _ _ hmk
    have hksig : k.isSig = false := by simp [Rec.isSig, hkt, tDNSKEY, tRRSIG]
    obtain ⟨hkraw, hkk⟩ := hks0 0 (by omega) k (by simpa [Msg.sec] using hkm)
    exact .signed (k := k.raw) hup hr0 hnsig0 hs1 hs2 hs3 hs4 hkup (by simpa [Msg.sec] using hkraw)
      (by simpa using hkt) ((hkk hkp hksig).2 hkt) (by simpa using hks)
  · -- a DNSKEY: verify_dnskey_rrset
    intro hk
    have hk0 : r0.rtype = tDNSKEY := by rw [← hraw]; exact hk
    rw [if_pos (by simpa using hk0)] at hv
    obtain ⟨ds, hds, hcase⟩ := verifyDnskeyRrset_secure _ _ _ _ _ _ hv.symm
    rcases hcase with ⟨j, sig, k', _, hsj, hk', hok, hname, hres⟩ | ⟨_, _, hall⟩
    · obtain ⟨hs1, hs2, hs3, hs4⟩ := mem_groupSigs (List.mem_of_getElem? hsj)
      obtain ⟨hk1, _, hk3, hk4⟩ := mem_groupRecs hk'
      have hdir : DirectKey env k' := keyOk_direct hsub hds hk3 hok
      exact .signedBy hup hk1 (by simpa using hk4.trans hk0) hk3 hdir hs1 hs2 hs3
        (by simpa using hs4.trans hk0) hname (by simpa [hk0] using hres)
    · have hmem : r0 ∈ groupRecs (m0.sec sec) (r0.name, r0.rtype) := by
        unfold groupRecs
        simp [hr0, hnsig0, gkey_of_not_sig hnsig0]
      exact .direct (keyOk_direct hsub hds rfl (hall r0 hmem))

/-- **Induction on the fuel** (the code's `request_depth` budget): every `Ok` result of the validator is `Sound`. -/
theorem validate_sound {env : Env} (hc : UpClean env) :
    ∀ (fuel d : Nat) (q : Query) (m : Msg), validate env fuel d q = .ok m → Sound env q m := by
  intro fuel
  induction fuel with
  | zero => intro d q m h; simp [validate] at h
  | succ n ih =>
    intro d q m h
    unfold validate at h
    exact sound_step hc (fun q' m' h' => ih (d + 1) q' m' h') h

/-- **C07, main theorem (full strength).**  If the validator returns a record `r` (other than an RRSIG or a
DNSKEY) with proof Secure in section `sec` of its answer to `q`, then there is an unbroken chain from a
trust anchor to `r`: an RRSIG over its RRset in the same upstream response verifies under a DNSKEY of the
signer's upstream DNSKEY response, that key being a trust anchor, or covered (algorithm, key tag, digest)
by a DS record that is itself at the end of such a chain, or a member of a DNSKEY RRset signed by such a key.
For every upstream, every fuel. -/
theorem secure_implies_chain {env : Env} (hc : UpClean env) {fuel d : Nat} {q : Query} {m : Msg}
    (h : validate env fuel d q = .ok m) {sec : Nat} (hsec : sec < 3) {r : Rec} (hr : r ∈ m.sec sec)
    (hp : r.proof = .secure) (hns : r.isSig = false) (hnk : r.rtype ≠ tDNSKEY) :
    Chain env q sec r.raw := by
  obtain ⟨m0, _, hs⟩ := validate_sound hc fuel d q m h
  exact ((hs sec hsec r hr).2 hp hns).1 hnk

/-- **C07 for DNSKEY records.**  A DNSKEY returned Secure is a trust anchor, or covered by a DS at the end of a
chain, or a member of a DNSKEY RRset signed by such a key. -/
theorem secure_dnskey_implies {env : Env} (hc : UpClean env) {fuel d : Nat} {q : Query} {m : Msg}
    (h : validate env fuel d q = .ok m) {sec : Nat} (hsec : sec < 3) {r : Rec} (hr : r ∈ m.sec sec)
    (hp : r.proof = .secure) (hk : r.rtype = tDNSKEY) :
    KeySecure env q sec r.raw := by
  obtain ⟨m0, _, hs⟩ := validate_sound hc fuel d q m h
  have hns : r.isSig = false := by simp [Rec.isSig, hk, tDNSKEY, tRRSIG]
  exact ((hs sec hsec r hr).2 hp hns).2 hk

/-- **C07 for DNSKEY records, strict reading (partial).**  Full statement: a DNSKEY returned Secure is a trust
anchor or a member of a DNSKEY RRset *signed* by an individually trusted key (`KeySigned`) — false for the
code as it is (`unsigned_dnskey_rrset_secure`).  Proved under the hypothesis that the validated section shows,
next to the key, a Secure RRSIG over its RRset (`unsignedSecureDnskeyIn … = false`): then that RRSIG is the
one that validated the RRset. -/
theorem secure_dnskey_signed_partial {env : Env} (hc : UpClean env) {fuel d : Nat} {q : Query} {m : Msg}
    (h : validate env fuel d q = .ok m) {sec : Nat} (hsec : sec < 3) {r : Rec} (hr : r ∈ m.sec sec)
    (hp : r.proof = .secure) (hk : r.rtype = tDNSKEY) (hsig : unsignedSecureDnskeyIn (m.sec sec) = false) :
    KeySigned env q sec r.raw := by
  -- a Secure RRSIG over the key's RRset sits in the validated section
  have hex : ∃ s ∈ m.sec sec, s.isSig = true ∧ s.covered = tDNSKEY ∧ s.name = r.name ∧ s.proof = .secure := by
    unfold unsignedSecureDnskeyIn at hsig
    have hr' := (List.any_eq_false.mp hsig) r hr
    have hinner : ((m.sec sec).any fun s => s.isSig && s.covered == tDNSKEY && s.name == r.name && s.proof == .secure) = true := by
      cases hx : ((m.sec sec).any fun s => s.isSig && s.covered == tDNSKEY && s.name == r.name && s.proof == .secure) with
      | true => rfl
      | false => simp [hk, hp, hx] at hr'
    obtain ⟨s, hs, hcond⟩ := List.any_eq_true.mp hinner
    simp only [Bool.and_eq_true, beq_iff_eq] at hcond
    exact ⟨s, hs, hcond.1.1.1, hcond.1.1.2, hcond.1.2, hcond.2⟩
  obtain ⟨s, hs, hss, hsc, hsn, hsp⟩ := hex
  cases fuel with
  | zero => simp [validate] at h
  | succ n =>
    unfold validate at h
    have hsub : ∀ q' m', validate env n (d + 1) q' = .ok m' → Sound env q' m' :=
      fun q' m' h' => validate_sound hc n (d + 1) q' m' h'
    obtain ⟨m0, hup, hm⟩ := verifyResponse_ok _ _ _ _ _ h
    have hm' := verifyMsg_ok _ _ _ _ _ _ _ hm
    have hrel : m.sec sec = relabel (m0.sec sec)
        (verdicts env (validate env n (d + 1)) (d + 1) q (env.up q).qid sec (m0.sec sec)) := by
      subst hm'
      match sec, hsec with
      | 0, _ => rfl
      | 1, _ => rfl
      | 2, _ => rfl
    rw [hrel] at hr hs
    obtain ⟨i, r0, hr0, hrr⟩ := relabel_mem _ _ _ hr
    obtain ⟨j, s0, hs0, hsr⟩ := relabel_mem _ _ _ hs
    have hind : r0.proof = .indet := upMsg_clean hc hup sec r0 hr0
    have hinds : s0.proof = .indet := upMsg_clean hc hup sec s0 hs0
    have hraw : r.raw = r0 := by rw [hrr, relabelOne_raw, raw_of_indet _ hind]
    have hraws : s.raw = s0 := by rw [hsr, relabelOne_raw, raw_of_indet _ hinds]
    have hnsig0 : r0.isSig = false := by rw [← hraw]; simp [Rec.isSig, hk, tDNSKEY, tRRSIG]
    have hss0 : s0.isSig = true := by rw [← hraws]; simpa [Rec.isSig] using hss
    have hk0 : r0.rtype = tDNSKEY := by rw [← hraw]; exact hk
    obtain ⟨idx, hl⟩ := relabelOne_secure _ _ i r0 (by simp [hind]) (hrr ▸ hp)
    obtain ⟨jj, hls⟩ := relabelOne_proof_sig _ _ j s0 .secure hss0 (by simp [hinds]) (hsr ▸ hsp)
    -- both lookups hit the same RRset
    have hkey : s0.gkey = r0.gkey := by
      rw [gkey_of_not_sig hnsig0]
      have h1 : s0.name = r0.name := by rw [← hraws, ← hraw]; exact hsn
      have h2 : s0.covered = tDNSKEY := by rw [← hraws]; exact hsc
      simp [Rec.gkey, Rec.gtype, hss0, h1, h2, hk0]
    rw [hkey, hl] at hls
    injection hls with hls
    injection hls with _ hidx
    obtain ⟨hv, _⟩ := verdicts_lookup _ _ _ _ _ _ _ _ _ hl
    rw [gkey_of_not_sig hnsig0] at hv
    unfold verifyGroup at hv
    dsimp only at hv
    rw [if_pos (by simpa using hk0)] at hv
    obtain ⟨ds, hds, hcase⟩ := verifyDnskeyRrset_secure _ _ _ _ _ _ hv.symm
    rw [hraw]
    rcases hcase with ⟨jx, sig, k', _, hsj, hk', hok, hname, hres⟩ | ⟨hnone, _, _⟩
    · obtain ⟨hs1, hs2, hs3, hs4⟩ := mem_groupSigs (List.mem_of_getElem? hsj)
      obtain ⟨hk1, _, hk3, hk4⟩ := mem_groupRecs hk'
      have hdir : DirectKey env k' := keyOk_direct hsub hds hk3 hok
      exact Or.inr ⟨k', sig, _, m0, hup, hk1, by simpa using hk4.trans hk0, hk3, hdir, hs1, hs2, hs3,
        by simpa using hs4.trans hk0, hname, by simpa [hk0] using hres⟩
    · rw [hnone] at hidx
      simp at hidx

/-- a returned record is a record of the upstream's response (nothing is invented; only proofs change) -/
theorem returned_records_from_upstream {env : Env} (hc : UpClean env) {fuel d : Nat} {q : Query} {m : Msg}
    (h : validate env fuel d q = .ok m) {sec : Nat} (hsec : sec < 3) {r : Rec} (hr : r ∈ m.sec sec) :
    ∃ m0, upMsg env q = some ((env.up q).qid, m0) ∧ r.raw ∈ m0.sec sec := by
  obtain ⟨m0, hup, hs⟩ := validate_sound hc fuel d q m h
  exact ⟨m0, hup, (hs sec hsec r hr).1⟩

/-! ## Insecure -/

/-- What the induction for Insecure carries: some validated DS lookup (at some depth) came back without a
Secure DS record of supported algorithm and digest type. -/
def DsWithoutSecureSupported (env : Env) : Prop :=
  ∃ fuel d zone md, validate env fuel d ⟨zone, tDS⟩ = .ok md ∧ NoSecureSupportedDs md

theorem insecure_step {env : Env} (hc : UpClean env) {sub : Query → Res}
    (hsubv : ∃ fuel d, sub = validate env fuel d)
    (hsub : ∀ q m, sub q = .ok m → ∀ sec, sec < 3 → ∀ r ∈ m.sec sec, r.proof = .insecure →
      DsWithoutSecureSupported env)
    {d : Nat} {q : Query} {m : Msg} (h : verifyResponse env sub d q (env.up q) = .ok m)
    {sec : Nat} (hsec : sec < 3) {r : Rec} (hr : r ∈ m.sec sec) (hp : r.proof = .insecure) :
    DsWithoutSecureSupported env := by
  obtain ⟨fuel', d', hsubeq⟩ := hsubv
  obtain ⟨m0, hup, hm⟩ := verifyResponse_ok _ _ _ _ _ h
  have hm' := verifyMsg_ok _ _ _ _ _ _ _ hm
  have hrel : m.sec sec = relabel (m0.sec sec) (verdicts env sub d q (env.up q).qid sec (m0.sec sec)) := by
    subst hm'
    match sec, hsec with
    | 0, _ => rfl
    | 1, _ => rfl
    | 2, _ => rfl
  rw [hrel] at hr
  obtain ⟨i, r0, hr0, hrr⟩ := relabel_mem _ _ _ hr
  have hind : r0.proof = .indet := upMsg_clean hc hup sec r0 hr0
  obtain ⟨idx, hl⟩ := relabelOne_proof _ _ i r0 .insecure (by simp [hind]) (hrr ▸ hp)
  obtain ⟨hv, _⟩ := verdicts_lookup _ _ _ _ _ _ _ _ _ hl
  unfold verifyGroup at hv
  dsimp only at hv
  split at hv
  · obtain ⟨md, hmd, hno⟩ := verifyDnskeyRrset_insecure _ _ _ _ _ _ hv.symm
    exact ⟨fuel', d', _, md, hsubeq ▸ hmd, hno⟩
  · rcases verifyDefaultRrset_insecure _ _ _ _ _ _ hv.symm with ⟨zone, md, hmd, hno⟩ | ⟨s, mk, k, hmk, hk, hkp⟩
    · exact ⟨fuel', d', zone, md, hsubeq ▸ hmd, hno⟩
    · exact hsub _ _ hmk 0 (by omega) k (by simpa [Msg.sec] using hk) hkp

/-- **Insecure only with a DS lookup that found no usable DS** (proved part of `insecure_implies_denial`).
If the validator returns any record with proof Insecure, then for some zone the *validated* response to its
DS query — obtained by the validator itself at some depth — contains no Secure DS record with a supported
algorithm and digest type: either no DS at all among its answers, or only unsupported ones, or supported
ones that did not validate.  By induction on the fuel. -/
theorem insecure_implies_ds_without_secure_supported {env : Env} (hc : UpClean env) :
    ∀ (fuel d : Nat) (q : Query) (m : Msg), validate env fuel d q = .ok m →
      ∀ sec, sec < 3 → ∀ r ∈ m.sec sec, r.proof = .insecure → DsWithoutSecureSupported env := by
  intro fuel
  induction fuel with
  | zero => intro d q m h; simp [validate] at h
  | succ n ih =>
    intro d q m h sec hsec r hr hp
    unfold validate at h
    exact insecure_step hc ⟨n, d + 1, rfl⟩ (fun q' m' h' => ih (d + 1) q' m' h') h hsec hr hp

/-- **The exits of `verify_response`** (one-step): a response is returned `Ok` only if (1) its verified
authority RRsets are Insecure throughout, or (2) the NSEC/NSEC3 oracle says Secure on the denial records
selected from Secure owners, or (3) there are no such records, no wildcard answer, and the answer section
is not empty, or (4) likewise with an empty answer section and `find_ds_records` proving the name insecure.
Exit (3) is taken whatever the answers are — the root of finding `C07.DsAnswerWithoutDsAccepted`. -/
theorem ok_exits (env : Env) (sub : Query → Res) (d : Nat) (q : Query) (qid : Nat) (m m' : Msg)
    (h : verifyMsg env sub d q qid m = .ok m') :
    allAuthInsecure m'.ns (verdicts env sub d q qid 1 m.ns) = true ∨
    (∃ mask, (mask = maskOf (selectDenial m'.ns tNSEC3) ∨ mask = maskOf (selectDenial m'.ns tNSEC)) ∧
      (selectDenial m'.ns tNSEC3 ≠ [] ∨ selectDenial m'.ns tNSEC ≠ []) ∧
      env.nsec qid mask (maskOf (m'.an.zipIdx.filter fun ri => ri.1.isSig && ri.1.proof == .secure)) = .secure) ∨
    (selectDenial m'.ns tNSEC3 = [] ∧ selectDenial m'.ns tNSEC = [] ∧ m'.an ≠ []) ∨
    (m'.an = [] ∧ findDs env sub (if q.qtype == tDS then q.name.baseName else q.name) = .err .insecure) := by
  have hm' := verifyMsg_ok _ _ _ _ _ _ _ h
  subst hm'
  dsimp only
  unfold verifyMsg at h
  dsimp only at h
  split at h
  · simp at h
  · split at h
    · rename_i hall
      exact Or.inl hall
    · right
      split at h
      · rename_i _ h3 h1
        split at h
        · rename_i hs
          left
          refine ⟨_, Or.inl rfl, Or.inl ?_, by simpa using hs⟩
          simpa using h3
        · simp at h
      · rename_i _ h3 h1
        split at h
        · rename_i hs
          left
          refine ⟨_, Or.inr rfl, Or.inr ?_, by simpa using hs⟩
          simpa using h1
        · simp at h
      · simp at h
      · simp at h
      · rename_i h3 h1 _
        right
        split at h
        · rename_i hne
          left
          exact ⟨by simpa using h3, by simpa using h1, by simpa using hne⟩
        · rename_i hne
          right
          refine ⟨by simpa using hne, ?_⟩
          split at h
          · simp at h
          · rename_i hf; exact hf
          · simp at h

/-! ## Insecure ⇒ a validated denial of DS, or only unsupported DS (partial) -/

/-- exit 2 of `ok_exits` for the response to `q`: the NSEC/NSEC3 oracle says Secure on the denial records
selected from owners that have a Secure record -/
def NsecDenied (env : Env) (q : Query) (m' : Msg) : Prop :=
  ∃ mask, (mask = maskOf (selectDenial m'.ns tNSEC3) ∨ mask = maskOf (selectDenial m'.ns tNSEC)) ∧
    (selectDenial m'.ns tNSEC3 ≠ [] ∨ selectDenial m'.ns tNSEC ≠ []) ∧
    env.nsec (env.up q).qid mask (maskOf (m'.an.zipIdx.filter fun ri => ri.1.isSig && ri.1.proof == .secure)) = .secure

/-- The two reasons the property admits: for some zone the validator obtained a validated DS response that is
(a) a negative answer proved by NSEC/NSEC3, or (b) a Secure DS RRset without a Secure record of supported
algorithm and digest type. -/
def Justified (env : Env) : Prop :=
  ∃ fuel d zone md, validate env fuel d ⟨zone, tDS⟩ = .ok md ∧
    ((md.an = [] ∧ NsecDenied env ⟨zone, tDS⟩ md) ∨
     ((∃ x ∈ md.an, x.rtype = tDS ∧ x.proof = .secure) ∧ NoSecureSupportedDs md))

/-- hypothesis excluding finding `C07.DsAnswerWithoutDsAccepted`: a DS response of the upstream with a non-empty
answer section has a DS record in it (on a trace: `dsAnswerWithoutDs trace = false`) -/
def DsAnswersHaveDs (env : Env) : Prop :=
  ∀ zone qid m, upMsg env ⟨zone, tDS⟩ = some (qid, m) → m.an ≠ [] → ∃ x ∈ m.an, x.rtype = tDS

theorem validated_ds_answers {env : Env} (hH : DsAnswersHaveDs env) {fuel d : Nat} {zone : DName} {md : Msg}
    (h : validate env fuel d ⟨zone, tDS⟩ = .ok md) (hno : ∀ x ∈ md.an, x.rtype ≠ tDS) : md.an = [] := by
  cases fuel with
  | zero => simp [validate] at h
  | succ n =>
    unfold validate at h
    obtain ⟨m0, hup, hm⟩ := verifyResponse_ok _ _ _ _ _ h
    have hm' := verifyMsg_ok _ _ _ _ _ _ _ hm
    have han : md.an = relabel m0.an (verdicts env (validate env n (d + 1)) (d + 1) ⟨zone, tDS⟩
        (env.up ⟨zone, tDS⟩).qid 0 m0.an) := by rw [hm']
    cases h0 : m0.an with
    | nil => rw [han, h0]; rfl
    | cons y ys =>
      exfalso
      obtain ⟨x, hx, ht⟩ := hH zone _ m0 hup (by simp [h0])
      obtain ⟨i, hi⟩ := mem_relabel_of_mem m0.an
        (verdicts env (validate env n (d + 1)) (d + 1) ⟨zone, tDS⟩ (env.up ⟨zone, tDS⟩).qid 0 m0.an) x hx
      rw [← han] at hi
      exact hno _ hi ((relabelOne_gkey _ _ i x).2.2.trans ht)

theorem denial_step {env : Env} (hc : UpClean env) (hH : DsAnswersHaveDs env) (n : Nat)
    (ihI : ∀ d q m, validate env n d q = .ok m → ∀ sec, sec < 3 → ∀ r ∈ m.sec sec, r.proof = .insecure → Justified env)
    (ihJ : ∀ d zone, fetchDs (validate env n d) zone = .err .insecure → Justified env) :
    (∀ d q m, validate env (n + 1) d q = .ok m → ∀ sec, sec < 3 → ∀ r ∈ m.sec sec, r.proof = .insecure →
      Justified env) ∧
    (∀ d zone, fetchDs (validate env (n + 1) d) zone = .err .insecure → Justified env) := by
  -- I(n+1)
  have hI : ∀ d q m, validate env (n + 1) d q = .ok m → ∀ sec, sec < 3 → ∀ r ∈ m.sec sec,
      r.proof = .insecure → Justified env := by
    intro d q m h sec hsec r hr hp
    unfold validate at h
    obtain ⟨m0, hup, hm⟩ := verifyResponse_ok _ _ _ _ _ h
    have hm' := verifyMsg_ok _ _ _ _ _ _ _ hm
    have hrel : m.sec sec = relabel (m0.sec sec)
        (verdicts env (validate env n (d + 1)) (d + 1) q (env.up q).qid sec (m0.sec sec)) := by
      subst hm'
      match sec, hsec with
      | 0, _ => rfl
      | 1, _ => rfl
      | 2, _ => rfl
    rw [hrel] at hr
    obtain ⟨i, r0, hr0, hrr⟩ := relabel_mem _ _ _ hr
    have hind : r0.proof = .indet := upMsg_clean hc hup sec r0 hr0
    obtain ⟨idx, hl⟩ := relabelOne_proof _ _ i r0 .insecure (by simp [hind]) (hrr ▸ hp)
    obtain ⟨hv, _⟩ := verdicts_lookup _ _ _ _ _ _ _ _ _ hl
    unfold verifyGroup at hv
    dsimp only at hv
    split at hv
    · rcases verifyDnskeyRrset_insecure_cases _ _ _ _ _ _ hv.symm with hf | ⟨md, hmd, hx, hno⟩
      · exact ihJ _ _ hf
      · exact ⟨n, d + 1, _, md, hmd, Or.inr ⟨hx, hno⟩⟩
    · rcases verifyDefaultRrset_insecure_cases _ _ _ _ _ _ hv.symm with ⟨zone, hf⟩ | ⟨s, mk, k, hmk, hk, hkp⟩
      · exact ihJ _ _ hf
      · exact ihI _ _ _ hmk 0 (by omega) k (by simpa [Msg.sec] using hk) hkp
  refine ⟨hI, ?_⟩
  -- J(n+1)
  intro d zone hf
  obtain ⟨md, hmd, hno, hcase⟩ := fetchDs_insecure_cases _ _ hf
  rcases hcase with hx | hnods
  · exact ⟨n + 1, d, zone, md, hmd, Or.inr ⟨hx, hno⟩⟩
  · have hempty : md.an = [] := validated_ds_answers hH hmd hnods
    have hmd' := hmd
    unfold validate at hmd'
    obtain ⟨m0, hup, hm⟩ := verifyResponse_ok _ _ _ _ _ hmd'
    have hmeq := verifyMsg_ok _ _ _ _ _ _ _ hm
    rcases ok_exits _ _ _ _ _ _ _ hm with h1 | h2 | h3 | h4
    · -- all authorities Insecure: an Insecure record in the validated authority section
      have hns : md.ns = relabel m0.ns (verdicts env (validate env n (d + 1)) (d + 1) ⟨zone, tDS⟩
          (env.up ⟨zone, tDS⟩).qid 1 m0.ns) := by rw [hmeq]
      rw [hns] at h1
      obtain ⟨x, hx, hxp⟩ := allAuthInsecure_exists _ _ _ _ _ _ h1
      rw [← hns] at hx
      exact hI d _ md hmd 1 (by omega) x (by simpa [Msg.sec] using hx) hxp
    · exact ⟨n + 1, d, zone, md, hmd, Or.inl ⟨hempty, h2⟩⟩
    · exact absurd hempty h3.2.2
    · obtain ⟨zone', hf'⟩ := findDs_insecure _ _ _ h4.2
      exact ihJ _ _ hf'

/-- **Insecure ⇒ denial (partial).**  Full statement (`insecure_implies_denial`): a record is returned Insecure
only if, for a zone cut *above the record*, the DS query returned no DS with a Secure denial, or only
unsupported algorithms.  For the code as it is that is false twice over: without `DsAnswersHaveDs` any DS
answer without a DS downgrades (`ds_answer_without_ds_downgrades`), and the zone need not be related to the
record (`insecure_authority_accepts_denial`).  Proved, by induction on the fuel, under `DsAnswersHaveDs`:
an Insecure record implies that for *some* zone the validator holds a validated DS response that is an
NSEC/NSEC3-proved negative answer or a Secure DS RRset without a usable record (`Justified`). -/
theorem insecure_implies_denial_partial {env : Env} (hc : UpClean env) (hH : DsAnswersHaveDs env) :
    ∀ (fuel d : Nat) (q : Query) (m : Msg), validate env fuel d q = .ok m →
      ∀ sec, sec < 3 → ∀ r ∈ m.sec sec, r.proof = .insecure → Justified env := by
  have key : ∀ n : Nat,
      (∀ d q m, validate env n d q = .ok m → ∀ sec, sec < 3 → ∀ r ∈ m.sec sec, r.proof = .insecure →
        Justified env) ∧
      (∀ d zone, fetchDs (validate env n d) zone = .err .insecure → Justified env) := by
    intro n
    induction n with
    | zero =>
      refine ⟨fun d q m h => by simp [validate] at h, fun d zone hf => ?_⟩
      obtain ⟨md, hmd, _⟩ := fetchDs_insecure _ _ hf
      simp [validate] at hmd
    | succ n ih => exact denial_step hc hH n ih.1 ih.2
  intro fuel d q m h
  exact (key fuel).1 d q m h

/-! ## no panic -/

/-- no response of the upstream has an RRSIG covering DNSKEY without a DNSKEY of that owner in its section -/
def NoOrphan (env : Env) : Prop :=
  ∀ q qid m, upMsg env q = some (qid, m) → ∀ sec, sec < 3 → orphanDnskeyRrsigIn (m.sec sec) = false

theorem verdicts_no_panic {env : Env} {sub : Query → Res} (hsub : ∀ q, sub q ≠ .abort "panic")
    {d : Nat} {q : Query} {qid secNo : Nat} {sec : List Rec} (hno : orphanDnskeyRrsigIn sec = false)
    {kv : GKey × GV} (hkv : kv ∈ verdicts env sub d q qid secNo sec) : kv.2 ≠ .abort "panic" := by
  intro hp
  obtain ⟨hk, hv⟩ := mem_verdicts hkv
  rw [hv] at hp
  unfold verifyGroup at hp
  dsimp only at hp
  split at hp
  · rename_i ht
    rcases verifyDnskeyRrset_abort _ _ _ _ _ _ hp with ⟨q', hq'⟩ | he
    · exact hsub q' hq'
    · have := orphan_of_empty_group hk (by simpa using ht) he
      rw [hno] at this
      simp at this
  · rcases verifyDefaultRrset_abort _ _ _ _ _ _ hp with hm | ⟨q', hq'⟩
    · revert hm; decide
    · exact hsub q' hq'

/-- **No panic (partial).**  Full statement: `validate env fuel d q ≠ .abort "panic"` for every upstream — false
for the code as it is (`orphan_dnskey_rrsig_panics`).  Proved under `NoOrphan env`: the only panic site of
the validator (`dnskey_proofs.pop().unwrap()`) is reached exactly through an RRSIG covering DNSKEY that
comes without a DNSKEY record. -/
theorem no_panic_partial {env : Env} (hno : NoOrphan env) :
    ∀ (fuel d : Nat) (q : Query), validate env fuel d q ≠ .abort "panic" := by
  intro fuel
  induction fuel with
  | zero => intro d q; simp [validate]
  | succ n ih =>
    intro d q h
    unfold validate at h
    have hsub : ∀ q', validate env n (d + 1) q' ≠ .abort "panic" := ih (d + 1)
    -- the message being verified
    have key : ∀ m0, upMsg env q = some ((env.up q).qid, m0) →
        verifyMsg env (validate env n (d + 1)) (d + 1) q (env.up q).qid m0 ≠ .abort "panic" := by
      intro m0 hup hv
      have hsec := hno q _ m0 hup
      unfold verifyMsg at hv
      dsimp only at hv
      split at hv
      · rename_i w hw
        injection hv with hv
        subst hv
        obtain ⟨kv, hkv, hp⟩ := firstAbort_panic hw
        simp only [List.mem_append] at hkv
        rcases hkv with (hkv | hkv) | hkv
        · exact verdicts_no_panic hsub (by simpa [Msg.sec] using hsec 0 (by omega)) hkv hp
        · exact verdicts_no_panic hsub (by simpa [Msg.sec] using hsec 1 (by omega)) hkv hp
        · exact verdicts_no_panic hsub (by simpa [Msg.sec] using hsec 2 (by omega)) hkv hp
      · split at hv
        · simp at hv
        · split at hv
          · split at hv <;> simp at hv
          · split at hv <;> simp at hv
          · simp at hv
          · simp at hv
          · split at hv
            · simp at hv
            · split at hv
              · rename_i w hf
                injection hv with hv
                subst hv
                rcases findDs_abort _ _ _ _ hf with hm | ⟨q', hq'⟩
                · revert hm; decide
                · exact hsub q' hq'
              · simp at hv
              · simp at hv
    unfold verifyResponse at h
    split at h
    · simp at h
    · revert h; decide
    · rename_i m hm
      exact key _ (by unfold upMsg; rw [hm]) h
    · rename_i m hm
      exact key _ (by unfold upMsg; rw [hm]) h

/-! ## the server's mapping (`build_forwarded_response`) -/

theorem summaryGo_secure (rs : List Rec) (st : Option Bool) (h : summaryGo rs st = .secure) :
    (∀ r ∈ rs, r.proof = .secure) ∧ (rs ≠ [] ∨ st = some true) ∧ st ≠ some false := by
  induction rs generalizing st with
  | nil =>
    unfold summaryGo at h
    split at h
    · rename_i hs
      cases st with
      | none => simp at hs
      | some b => cases b <;> simp_all
    · simp at h
  | cons r rest ih =>
    unfold summaryGo at h
    split at h
    · rename_i hp
      obtain ⟨h1, _, h3⟩ := ih _ h
      refine ⟨?_, Or.inl (by simp), ?_⟩
      · intro x hx
        rcases List.mem_cons.mp hx with hx | hx
        · exact hx ▸ hp
        · exact h1 x hx
      · intro hst; subst hst; simp at h3
    · simp at h
    · obtain ⟨_, _, h3⟩ := ih _ h
      simp at h3

theorem summaryGo_bogus_of_mem (rs : List Rec) (st : Option Bool) (h : ∃ r ∈ rs, r.proof = .bogus) :
    summaryGo rs st = .bogus ∨ False := by
  left
  induction rs generalizing st with
  | nil => obtain ⟨r, hr, _⟩ := h; simp at hr
  | cons x rest ih =>
    obtain ⟨r, hr, hp⟩ := h
    unfold summaryGo
    rcases List.mem_cons.mp hr with hx | hx
    · subst hx; simp [hp]
    · split
      · exact ih _ ⟨r, hx, hp⟩
      · rfl
      · exact ih _ ⟨r, hx, hp⟩

/-- **AD only if all Secure** (as far as the code goes): the forwarded response carries AD only when the
validator returned `Ok` and every summarised record — a non-empty list: the answers, or for a negative answer
with a SOA the authority records *other than the SOA* — is Secure.  The full statement ("every record of the
forwarded answer / authority section is Secure") fails for the SOA of a negative answer: `ad_with_bogus_soa`. -/
theorem ad_only_if_all_secure_partial (cd : Bool) (q : Query) (r : Res) (h : (serverView cd q r).2 = true) :
    (∃ m, r = .ok m) ∧ summarised q r ≠ [] ∧ ∀ x ∈ summarised q r, x.proof = .secure := by
  have hok : ∃ m, r = .ok m := by
    cases r with
    | ok m => exact ⟨m, rfl⟩
    | _ => simp [serverView, forwarded] at h
  refine ⟨hok, ?_⟩
  unfold serverView at h
  split at h
  · simp at h
  · dsimp only at h
    split at h
    · rename_i hs
      obtain ⟨h1, h2, _⟩ := summaryGo_secure _ none hs
      exact ⟨by simpa using h2, h1⟩
    · split at h <;> simp at h
    · simp at h

/-- **Bogus ⇒ SERVFAIL unless CD**: a Bogus record among the summarised ones makes the response SERVFAIL
(without AD) for a client that did not set CD. -/
theorem bogus_servfail_unless_cd (q : Query) (r : Res) (h : ∃ x ∈ summarised q r, x.proof = .bogus) :
    serverView false q r = (2, false) := by
  rcases summaryGo_bogus_of_mem _ none h with hb | hf
  · unfold serverView
    split
    · rfl
    · simp [summary, hb]
  · exact hf.elim

/-- every error of the validator is SERVFAIL without AD, whatever the CD bit -/
theorem error_servfail (cd : Bool) (q : Query) (r : Res) (hok : ∀ m, r ≠ .ok m) : serverView cd q r = (2, false) := by
  cases r with
  | ok m => exact absurd rfl (hok m)
  | _ => simp [serverView, forwarded]

/-- **Replay of `C07.AdIgnoresSoaProof`** (kernel-checked): a negative answer whose SOA is Bogus (say, its RRSIG
was stripped) while the NSEC records are Secure is forwarded with AD set and NXDOMAIN, the Bogus SOA included. -/
theorem ad_with_bogus_soa :
    let nsec : Rec := { name := ["a", "z"], rtype := 47, rid := 0, proof := .secure }
    let sig : Rec := { name := ["a", "z"], rtype := 46, rid := 1, covered := 47, signer := ["z"], labels := 2, proof := .secure }
    let soa : Rec := { name := ["z"], rtype := 6, rid := 2, proof := .bogus }
    let m : Msg := { rcode := 3, an := [], ns := [nsec, sig, soa], ad := [] }
    soaOnlyNotSecure m = true ∧ serverView false ⟨["b", "z"], 1⟩ (.ok m) = (3, true) := by
  decide

/-- **Replay of `C07.BogusNegativeWithoutSoaForwarded`** (kernel-checked): a negative answer without a SOA record
is forwarded to a CD=0 client with the upstream's NXDOMAIN although it carries a Bogus record (here the orphaned
RRSIG of the SOA that was taken out). -/
theorem bogus_negative_without_soa_forwarded :
    let nsec : Rec := { name := ["a", "z"], rtype := 47, rid := 0, proof := .secure }
    let sig : Rec := { name := ["a", "z"], rtype := 46, rid := 1, covered := 47, signer := ["z"], labels := 2, proof := .secure }
    let sigSoa : Rec := { name := ["z"], rtype := 46, rid := 3, covered := 6, signer := ["z"], labels := 1, proof := .bogus }
    let m : Msg := { rcode := 3, an := [], ns := [nsec, sig, sigSoa], ad := [] }
    bogusNegativeWithoutSoa m = true ∧ serverView false ⟨["b", "z"], 1⟩ (.ok m) = (3, false) := by
  decide

/-! ## concrete upstreams: non-vacuity and the kernel-checked replays of the findings -/

def cleanOut : UpOut → Bool
  | .ok m | .noRecords m => m.all.all (·.proof == .indet)
  | _ => true

theorem traceFind_mem (trace : List (Query × UpOut)) (i : Nat) (q : Query) (o : UpOut)
    (h : (traceFind trace i q).out = o) (hne : o ≠ .missing) : ∃ e ∈ trace, e.2 = o := by
  induction trace generalizing i with
  | nil => simp [traceFind] at h; exact absurd h.symm hne
  | cons e rest ih =>
    obtain ⟨q', o'⟩ := e
    unfold traceFind at h
    split at h
    · exact ⟨(q', o'), List.mem_cons_self, h⟩
    · obtain ⟨e, he, h'⟩ := ih _ h
      exact ⟨e, List.mem_cons_of_mem _ he, h'⟩

/-- a replayed trace of unvalidated records is a clean upstream -/
theorem upClean_of_trace (trace : List (Query × UpOut)) (anchor : Nat → Bool) (covers : Nat → Nat → Bool)
    (sigRes : Nat → Nat → GroupId → SigRes) (nsec : Nat → Nat → Nat → Proof)
    (h : trace.all (fun e => cleanOut e.2) = true) :
    UpClean { up := traceUp trace, anchor := anchor, covers := covers, sigRes := sigRes, nsec := nsec } := by
  intro q m hm r hr
  simp only [List.all_eq_true] at h
  rcases hm with hm | hm
  · obtain ⟨e, he, heq⟩ := traceFind_mem trace 0 q _ hm (by simp)
    have := h e he
    rw [heq] at this
    simp only [cleanOut, List.all_eq_true, beq_iff_eq] at this
    exact this r hr
  · obtain ⟨e, he, heq⟩ := traceFind_mem trace 0 q _ hm (by simp)
    have := h e he
    rw [heq] at this
    simp only [cleanOut, List.all_eq_true, beq_iff_eq] at this
    exact this r hr

theorem traceFind_mem' (trace : List (Query × UpOut)) (i : Nat) (q : Query) (o : UpOut)
    (h : (traceFind trace i q).out = o) (hne : o ≠ .missing) : ∃ e ∈ trace, e.1 = q ∧ e.2 = o := by
  induction trace generalizing i with
  | nil => simp [traceFind] at h; exact absurd h.symm hne
  | cons e rest ih =>
    obtain ⟨q', o'⟩ := e
    unfold traceFind at h
    split at h
    · rename_i hq
      exact ⟨(q', o'), List.mem_cons_self, by simpa using hq, h⟩
    · obtain ⟨e, he, h'⟩ := ih _ h
      exact ⟨e, List.mem_cons_of_mem _ he, h'⟩

/-- `UpClean` for any environment whose upstream replays a trace of unvalidated records -/
theorem upClean_of_up (env : Env) (trace : List (Query × UpOut)) (hup : env.up = traceUp trace)
    (h : trace.all (fun e => cleanOut e.2) = true) : UpClean env := by
  intro q m hm r hr
  simp only [List.all_eq_true] at h
  rw [hup] at hm
  rcases hm with hm | hm
  · obtain ⟨e, he, heq⟩ := traceFind_mem trace 0 q _ hm (by simp)
    have := h e he
    rw [heq] at this
    simp only [cleanOut, List.all_eq_true, beq_iff_eq] at this
    exact this r hr
  · obtain ⟨e, he, heq⟩ := traceFind_mem trace 0 q _ hm (by simp)
    have := h e he
    rw [heq] at this
    simp only [cleanOut, List.all_eq_true, beq_iff_eq] at this
    exact this r hr

/-- `DsAnswersHaveDs` for a replayed trace on which the class predicate of `C07.DsAnswerWithoutDsAccepted` is false -/
theorem dsAnswersHaveDs_of_up (env : Env) (trace : List (Query × UpOut)) (hup : env.up = traceUp trace)
    (h : dsAnswerWithoutDs trace = false) : DsAnswersHaveDs env := by
  intro zone qid m hupm hne
  unfold dsAnswerWithoutDs at h
  simp only [List.any_eq_false] at h
  unfold upMsg at hupm
  rw [hup] at hupm
  split at hupm
  · rename_i m' hm
    obtain ⟨e, he, heq1, heq2⟩ := traceFind_mem' trace 0 _ _ hm (by simp)
    have := h e he
    rw [heq1, heq2] at this
    injection hupm with hupm; injection hupm with _ hupm; subst hupm
    simp only [tDS, beq_self_eq_true, Bool.true_and, Bool.and_eq_true, Bool.not_eq_true', not_and,
      Bool.not_eq_false, List.isEmpty_eq_false_iff, ne_eq] at this
    have hany := this hne
    simp only [List.any_eq_true, beq_iff_eq] at hany
    exact hany
  · rename_i m' hm
    injection hupm with hupm; injection hupm with _ hupm; subst hupm
    simp at hne
  · simp at hupm

namespace Ex
/-! A two-level hierarchy: the root (trust anchor `kr`) delegates `z.` with a DS `dsz` covering `kz`;
`www.z. A` is signed by `kz`.  Record ids: a 0, sigA 1, kz 2, sigKz 3, dsz 4, sigDs 5, kr 6, sigKr 7. -/
def a : Rec := { name := ["www", "z"], rtype := 1, rid := 0 }
def sigA : Rec := { name := ["www", "z"], rtype := 46, rid := 1, covered := 1, signer := ["z"], labels := 2 }
def kz : Rec := { name := ["z"], rtype := 48, rid := 2, tag := 7, alg := 15, algSupp := true }
def sigKz : Rec := { name := ["z"], rtype := 46, rid := 3, covered := 48, signer := ["z"], labels := 1 }
def dsz : Rec := { name := ["z"], rtype := 43, rid := 4, tag := 7, alg := 15, algSupp := true, digSupp := true }
def sigDs : Rec := { name := ["z"], rtype := 46, rid := 5, covered := 43, signer := [], labels := 1 }
def kr : Rec := { name := [], rtype := 48, rid := 6, tag := 9, alg := 15, algSupp := true }
def sigKr : Rec := { name := [], rtype := 46, rid := 7, covered := 48, signer := [], labels := 0 }

def msg (an : List Rec) : UpOut := .ok { rcode := 0, an := an, ns := [], ad := [] }

def qA : Query := ⟨["www", "z"], 1⟩
def qKz : Query := ⟨["z"], 48⟩
def qDs : Query := ⟨["z"], 43⟩
def qKr : Query := ⟨[], 48⟩

/-- the crypto oracles of the example: `kr` is the anchor, `dsz` covers `kz`, each RRSIG verifies under the
key that made it (over the RRset occurrence with the stated exchange index), and an RRSIG over an
*empty* RRset is `Ok((Bogus, None))` as in `verify_rrset_with_dnskey` (`dsAt`: the exchange whose DS RRset is intact) -/
def mkEnv (trace : List (Query × UpOut)) (dsAt : Option Nat := some 2) : Env where
  up := traceUp trace
  anchor rid := rid == 6
  covers d k := d == 4 && k == 2
  sigRes k s g :=
    if (k, s, g) = (2, 1, (⟨0, 0, ["www", "z"], 1⟩ : GroupId)) then .secure
    else if (k, s) = (2, 3) && g.rtype == 48 && g.name == ["z"] then .secure
    else if (k, s) = (6, 7) && g.rtype == 48 && g.name == [] then .secure
    else if (k, s) = (6, 5) && g.rtype == 43 then (if some g.qid == dsAt then .secure else .bogus)
    else .err
  nsec _ _ _ := .bogus

def traceGood : List (Query × UpOut) :=
  [(qA, msg [a, sigA]), (qKz, msg [kz, sigKz]), (qDs, msg [dsz, sigDs]), (qKr, msg [kr, sigKr])]

/-- F1: the DS record is removed from the answer to `z. DS`; its RRSIG stays -/
def traceNoDs : List (Query × UpOut) :=
  [(qA, msg [a, sigA]), (qKz, msg [kz, sigKz]), (qDs, msg [sigDs]), (qKr, msg [kr, sigKr])]

/-- F2: the root DNSKEY is removed from the answer to `. DNSKEY`; its RRSIG stays -/
def traceOrphan : List (Query × UpOut) := [(qKr, msg [sigKr])]

/-- F3: `z. DNSKEY` is answered with the DS-covered key alone, no RRSIG -/
def traceUnsignedKey : List (Query × UpOut) :=
  [(qKz, msg [kz]), (qDs, msg [dsz, sigDs]), (qKr, msg [kr, sigKr])]

def sec' (r : Rec) : Rec := { r with proof := .secure }
def ins' (r : Rec) : Rec := { r with proof := .insecure }
end Ex

open Ex in
/-- non-vacuity: on the untampered hierarchy the validator returns the answer Secure … -/
theorem ex_good_secure :
    validate (mkEnv traceGood) 27 0 qA = .ok { rcode := 0, an := [sec' a, sec' sigA], ns := [], ad := [] } := by
  decide

open Ex in
theorem ex_good_clean : UpClean (Ex.mkEnv Ex.traceGood) := upClean_of_trace _ _ _ _ _ (by decide)

open Ex in
/-- … so `secure_implies_chain` applies to a concrete, non-trivial instance (three links: RRSIG by `kz`,
DS covering `kz` signed by the root key, root key = anchor). -/
example : Chain (mkEnv traceGood) qA 0 a :=
  secure_implies_chain ex_good_clean ex_good_secure (sec := 0) (by omega) (r := sec' a) (by simp [Msg.sec])
    rfl (by decide) (by decide)

open Ex in
/-- non-vacuity of `secure_dnskey_implies` / `secure_dnskey_signed_partial`: the signed DNSKEY RRset of `z.` -/
theorem ex_good_dnskey :
    validate (mkEnv traceGood) 27 0 qKz = .ok { rcode := 0, an := [sec' kz, sec' sigKz], ns := [], ad := [] } := by
  decide

open Ex in
example : KeySigned (mkEnv traceGood) qKz 0 kz :=
  secure_dnskey_signed_partial ex_good_clean ex_good_dnskey (sec := 0) (by omega) (r := sec' kz)
    (by simp [Msg.sec]) rfl rfl (by decide)

open Ex in
example : KeySecure (mkEnv traceGood) qKz 0 kz :=
  secure_dnskey_implies ex_good_clean ex_good_dnskey (sec := 0) (by omega) (r := sec' kz) (by simp [Msg.sec]) rfl rfl

open Ex in
/-- non-vacuity of the server lemmas: the good answer is forwarded NOERROR with AD; every summarised record Secure -/
example : serverView false qA (validate (mkEnv traceGood) 27 0 qA) = (0, true) := by decide

open Ex in
example : ∃ x ∈ summarised qA (.ok { rcode := 0, an := [{ a with proof := .bogus }], ns := [], ad := [] }),
    x.proof = .bogus := by decide

open Ex in
/-- **Replay of finding `C07.DsAnswerWithoutDsAccepted`** (kernel-checked): the same hierarchy, the DS record
removed from the DS answer (class predicate holds) — the signed answer comes back *Insecure*, with no error
(`Ok`), and the server forwards it as NOERROR without AD instead of SERVFAIL. -/
theorem ds_answer_without_ds_downgrades :
    dsAnswerWithoutDs traceNoDs = true ∧
    validate (mkEnv traceNoDs none) 27 0 qA = .ok { rcode := 0, an := [ins' a, ins' sigA], ns := [], ad := [] } ∧
    serverView false qA (validate (mkEnv traceNoDs none) 27 0 qA) = (0, false) := by
  decide

open Ex in
/-- non-vacuity of `insecure_implies_ds_without_secure_supported` (its hypotheses hold of the downgraded run) -/
example : DsWithoutSecureSupported (mkEnv traceNoDs none) :=
  insecure_implies_ds_without_secure_supported (upClean_of_trace _ _ _ _ _ (by decide)) 27 0 qA _
    ds_answer_without_ds_downgrades.2.1 0 (by omega) (ins' a) (by simp [Msg.sec]) rfl

/-- a replayed trace without orphan DNSKEY RRSIGs -/
theorem noOrphan_of_trace (trace : List (Query × UpOut)) (anchor : Nat → Bool) (covers : Nat → Nat → Bool)
    (sigRes : Nat → Nat → GroupId → SigRes) (nsec : Nat → Nat → Nat → Proof)
    (h : orphanDnskeyRrsig trace = false) :
    NoOrphan { up := traceUp trace, anchor := anchor, covers := covers, sigRes := sigRes, nsec := nsec } := by
  intro q qid m hup sec hsec
  unfold orphanDnskeyRrsig at h
  simp only [List.any_eq_false] at h
  unfold upMsg at hup
  split at hup
  · rename_i m' hm
    obtain ⟨e, he, heq⟩ := traceFind_mem trace 0 q _ hm (by simp)
    have := h e he
    rw [heq] at this
    simp only [Bool.or_eq_true, not_or, Bool.not_eq_true] at this
    injection hup with hup; injection hup with _ hup; subst hup
    match sec, hsec with
    | 0, _ => exact this.1.1
    | 1, _ => exact this.1.2
    | 2, _ => exact this.2
  · rename_i m' hm
    obtain ⟨e, he, heq⟩ := traceFind_mem trace 0 q _ hm (by simp)
    have := h e he
    rw [heq] at this
    simp only [Bool.or_eq_true, not_or, Bool.not_eq_true] at this
    injection hup with hup; injection hup with _ hup; subst hup
    match sec, hsec with
    | 0, _ => simp [Msg.sec, orphanDnskeyRrsigIn]
    | 1, _ => exact this.1.2
    | 2, _ => simp [Msg.sec, orphanDnskeyRrsigIn]
  · simp at hup

open Ex in
/-- non-vacuity of `no_panic_partial` -/
example : validate (mkEnv traceGood) 27 0 qA ≠ .abort "panic" :=
  no_panic_partial (noOrphan_of_trace _ _ _ _ _ (by decide)) 27 0 qA

open Ex in
/-- **Replay of finding `C07.OrphanDnskeyRrsigPanic`** (kernel-checked): an RRSIG covering DNSKEY without a
DNSKEY record panics the validator. -/
theorem orphan_dnskey_rrsig_panics :
    orphanDnskeyRrsig traceOrphan = true ∧ validate (mkEnv traceOrphan none) 27 0 qKr = .abort "panic" := by
  decide

namespace Ex
/-- F7: `alias.z. A` is answered with the (genuine, signed) A RRset of `www.z.`; the CNAME is gone -/
def qAlias : Query := ⟨["alias", "z"], 1⟩
def traceNoCname : List (Query × UpOut) :=
  [(qAlias, msg [a, sigA]), (qKz, msg [kz, sigKz]), (qDs, msg [dsz, sigDs]), (qKr, msg [kr, sigKr])]

/-- F8: `www.z. A` is answered NXDOMAIN with one authority record of the unsigned zone `u.` (NS RRset of the
delegation; its DS lookup is a validated NSEC denial).  Record ids: u 20, nsecU 21, sigN 22. -/
def u : Rec := { name := ["u"], rtype := 2, rid := 20 }
def nsecU : Rec := { name := ["u"], rtype := 47, rid := 21 }
def sigN : Rec := { name := ["u"], rtype := 46, rid := 22, covered := 47, signer := [], labels := 1 }
def traceForeignInsecure : List (Query × UpOut) :=
  [(qA, .ok { rcode := 3, an := [], ns := [u], ad := [] }),
   (⟨["u"], 2⟩, msg [u]),
   (⟨["u"], 43⟩, .ok { rcode := 0, an := [], ns := [nsecU, sigN], ad := [] }),
   (qKr, msg [kr, sigKr])]
def envForeignInsecure : Env :=
  { mkEnv traceForeignInsecure none with
    sigRes := fun k s g =>
      if (k, s) = (6, 7) && g.rtype == 48 && g.name == [] then .secure
      else if (k, s) = (6, 22) && g.rtype == 47 then .secure
      else .err
    nsec := fun qid mask _ => if qid == 2 && mask == 1 then .secure else .bogus }
end Ex

open Ex in
/-- **Replay of finding `C07.AnswerSectionWithoutAnswerAccepted`** (kernel-checked): the answer section holds
genuine Secure records of another name and nothing for the query name; the validator returns `Ok`, the server
forwards NOERROR with AD. -/
theorem answer_section_without_answer_accepted :
    validate (mkEnv traceNoCname) 27 0 qAlias = .ok { rcode := 0, an := [sec' a, sec' sigA], ns := [], ad := [] } ∧
    answerSectionWithoutAnswer qAlias { rcode := 0, an := [sec' a, sec' sigA], ns := [], ad := [] } = true ∧
    serverView false qAlias (validate (mkEnv traceNoCname) 27 0 qAlias) = (0, true) := by
  decide

open Ex in
/-- **Replay of finding `C07.InsecureAuthorityAcceptsDenial`** (kernel-checked): an NXDOMAIN for the signed name
`www.z.` that carries nothing but a record of the unrelated unsigned zone `u.` is accepted (`Ok`, the record
rightly Insecure) and forwarded as NXDOMAIN, not SERVFAIL. -/
theorem insecure_authority_accepts_denial :
    validate envForeignInsecure 27 0 qA = .ok { rcode := 3, an := [], ns := [ins' u], ad := [] } ∧
    insecureAuthorityDenial { rcode := 3, an := [], ns := [ins' u], ad := [] } = true ∧
    serverView false qA (validate envForeignInsecure 27 0 qA) = (3, false) := by
  decide

open Ex in
/-- non-vacuity of `insecure_implies_denial_partial`: in that run no DS answer lacks a DS (`DsAnswersHaveDs`), and
the Insecure record is indeed `Justified` — by the validated NSEC denial of `u. DS`, a zone unrelated to `www.z.`,
which is exactly what the full statement would forbid. -/
example : Justified envForeignInsecure :=
  insecure_implies_denial_partial
    (upClean_of_up envForeignInsecure traceForeignInsecure rfl (by decide))
    (dsAnswersHaveDs_of_up envForeignInsecure traceForeignInsecure rfl (by decide))
    27 0 qA _ insecure_authority_accepts_denial.1 1 (by omega) (ins' u) (by simp [Msg.sec]) rfl

/-- **Replay of finding `C07.SoaAnswerWithoutSoaNotServfail`** (kernel-checked): a SOA query answered with the
orphaned, Bogus RRSIG of the SOA alone reaches the server as "no records" and is forwarded NOERROR. -/
theorem soa_answer_without_soa_not_servfail :
    let sigSoa : Rec := { name := ["z"], rtype := 46, rid := 3, covered := 6, signer := ["z"], labels := 1, proof := .bogus }
    let m : Msg := { rcode := 0, an := [sigSoa], ns := [], ad := [] }
    soaAnswerWithoutSoa ⟨["z"], 6⟩ m = true ∧ serverView false ⟨["z"], 6⟩ (.ok m) = (0, false) := by
  decide

/-- the strict reading needs a signature in the section -/
theorem keySigned_needs_sig {env : Env} {q : Query} {sec : Nat} {k : Rec} (h : KeySigned env q sec k) :
    env.anchor k.rid = true ∨ ∃ qid m, upMsg env q = some (qid, m) ∧ ∃ s ∈ m.sec sec, s.isSig = true := by
  rcases h with h | ⟨_, sig, qid, m, hup, _, _, _, _, hs, hsig, _⟩
  · exact Or.inl h
  · exact Or.inr ⟨qid, m, hup, sig, hs, hsig⟩

open Ex in
/-- **Replay of finding `C07.UnsignedDnskeyRrsetSecure`** (kernel-checked): a DNSKEY RRset holding only the
DS-covered key, with no RRSIG at all, is returned Secure (and the server sets AD), although the key is
not a trust anchor and its RRset is not signed: `KeySigned` fails. -/
theorem unsigned_dnskey_rrset_secure :
    validate (mkEnv traceUnsignedKey (some 1)) 27 0 qKz = .ok { rcode := 0, an := [sec' kz], ns := [], ad := [] } ∧
    unsignedSecureDnskeyIn [sec' kz] = true ∧
    serverView false qKz (validate (mkEnv traceUnsignedKey (some 1)) 27 0 qKz) = (0, true) ∧
    ¬ KeySigned (mkEnv traceUnsignedKey (some 1)) qKz 0 kz := by
  refine ⟨by decide, by decide, by decide, ?_⟩
  intro h
  rcases keySigned_needs_sig h with h | ⟨qid, m, hup, s, hs, hsig⟩
  · revert h; decide
  · have : upMsg (mkEnv traceUnsignedKey (some 1)) qKz = some (0, { rcode := 0, an := [kz], ns := [], ad := [] }) := by decide
    rw [this] at hup
    injection hup with hup; injection hup with _ hm; subst hm
    simp only [Msg.sec, List.mem_singleton] at hs
    subst hs
    revert hsig; decide

end HickoryVerif.C07
