/-
C09 — the base32hex encoder of the model (`Nsec3.base32hex`, = `data_encoding::BASE32_DNSSEC`) is an
order embedding: comparing two encoded octet strings as `Label`s gives the byte-wise lexicographic
order of the octet strings — for all octet strings, of any (also different) lengths.

Route: octets → bits (8 per octet, msb first) → zero-padded to a multiple of 5 → 5-bit groups →
group values → characters.  Every step preserves `compare`; the only delicate one is the padding,
where the lengths being multiples of 8 matters (a proper prefix is at least 8 bits shorter, more than
the at most 4 padding bits).
-/
import HickoryVerif.Proofs.C04
import HickoryVerif.Model.Nsec3

namespace HickoryVerif.C09
open HickoryVerif HickoryVerif.Nsec3 Std

/-! ### generic facts about `compare` on lists of naturals -/

theorem compare_append_eq_len (p p' u v : List Nat) (h : p.length = p'.length) :
    compare (p ++ u) (p' ++ v) = (compare p p').then (compare u v) := by
  induction p generalizing p' with
  | nil =>
    cases p' with
    | nil => simp [ReflCmp.compare_self]
    | cons _ _ => simp at h
  | cons a p ih =>
    cases p' with
    | nil => simp at h
    | cons b p' =>
      simp only [List.cons_append, List.compare_cons_cons, ih p' (by simpa using h),
        Ordering.then_assoc]

theorem compare_replicate_zero_lt (m : Nat) (t : List Nat) (h : m < t.length) :
    compare (List.replicate m 0) t = .lt := by
  induction m generalizing t with
  | zero =>
    cases t with
    | nil => simp at h
    | cons _ _ => rfl
  | succ m ih =>
    cases t with
    | nil => simp at h
    | cons b t =>
      simp only [List.replicate_succ, List.compare_cons_cons]
      rcases Nat.eq_zero_or_pos b with rfl | hb
      · simp [ih t (by simpa using h)]
      · rw [Nat.compare_eq_lt.mpr hb]; rfl

theorem compare_gt_replicate_zero (m : Nat) (t : List Nat) (h : m < t.length) :
    compare t (List.replicate m 0) = .gt := by
  rw [OrientedCmp.eq_swap (cmp := (compare : List Nat → List Nat → Ordering)),
    compare_replicate_zero_lt m t h]
  rfl

/-- zero padding does not change the order of two lists whose lengths agree modulo 8 -/
theorem compare_pad (u v : List Nat) (m n : Nat) (hlen : u.length % 8 = v.length % 8)
    (hm : m < 8) (hn : n < 8) (hmn : u.length = v.length → m = n) :
    compare (u ++ List.replicate m 0) (v ++ List.replicate n 0) = compare u v := by
  induction u generalizing v with
  | nil =>
    cases v with
    | nil =>
      have := hmn rfl
      subst this
      simp [ReflCmp.compare_self]
    | cons b v =>
      have hl : 8 ≤ (b :: v).length := by simp at hlen ⊢; omega
      simp only [List.nil_append]
      rw [compare_replicate_zero_lt m _ (by simp at hl ⊢; omega)]
      rfl
  | cons a u ih =>
    cases v with
    | nil =>
      have hl : 8 ≤ (a :: u).length := by simp at hlen ⊢; omega
      simp only [List.nil_append]
      rw [compare_gt_replicate_zero n _ (by simp at hl ⊢; omega)]
      rfl
    | cons b v =>
      simp only [List.cons_append, List.compare_cons_cons]
      rw [ih v (by simp at hlen; omega) (fun h => hmn (by simp [h]))]

/-- a strictly monotone map preserves `compare` -/
theorem compare_map_mono (f : Nat → Nat) (hf : ∀ a b, compare (f a) (f b) = compare a b)
    (l r : List Nat) : compare (l.map f) (r.map f) = compare l r := by
  induction l generalizing r with
  | nil => cases r <;> rfl
  | cons a l ih =>
    cases r with
    | nil => rfl
    | cons b r => simp only [List.map_cons, List.compare_cons_cons, hf, ih]

/-! ### octets → bits -/

def Bits (u : List Nat) : Prop := ∀ b ∈ u, b ≤ 1

def nibBits (n : Nat) : List Nat := [n / 8 % 2, n / 4 % 2, n / 2 % 2, n % 2]

theorem nib_cmp : ∀ a b : Fin 16, compare (nibBits a.val) (nibBits b.val) = compare a.val b.val := by
  decide

theorem byteBits_nib (b : Nat) : byteBits b = nibBits (b / 16 % 16) ++ nibBits (b % 16) := by
  have h1 : b / 128 % 2 = b / 16 % 16 / 8 % 2 := by omega
  have h2 : b / 64 % 2 = b / 16 % 16 / 4 % 2 := by omega
  have h3 : b / 32 % 2 = b / 16 % 16 / 2 % 2 := by omega
  have h4 : b / 16 % 2 = b / 16 % 16 % 2 := by omega
  have h5 : b / 8 % 2 = b % 16 / 8 % 2 := by omega
  have h6 : b / 4 % 2 = b % 16 / 4 % 2 := by omega
  have h7 : b / 2 % 2 = b % 16 / 2 % 2 := by omega
  have h8 : b % 2 = b % 16 % 2 := by omega
  simp only [byteBits, nibBits, List.cons_append, List.nil_append]
  rw [h1, h2, h3, h4, h5, h6, h7, ← h8]

theorem nat_cmp_split (a b : Nat) (ha : a < 256) (hb : b < 256) :
    compare a b = (compare (a / 16 % 16) (b / 16 % 16)).then (compare (a % 16) (b % 16)) := by
  rcases Nat.lt_trichotomy (a / 16 % 16) (b / 16 % 16) with h | h | h
  · rw [Nat.compare_eq_lt.mpr h, Nat.compare_eq_lt.mpr (by omega)]; rfl
  · rw [h, Nat.compare_eq_eq.mpr rfl]
    simp only [Ordering.then]
    rcases Nat.lt_trichotomy (a % 16) (b % 16) with h' | h' | h'
    · rw [Nat.compare_eq_lt.mpr h', Nat.compare_eq_lt.mpr (by omega)]
    · rw [Nat.compare_eq_eq.mpr h', Nat.compare_eq_eq.mpr (by omega)]
    · rw [Nat.compare_eq_gt.mpr h', Nat.compare_eq_gt.mpr (by omega)]
  · rw [Nat.compare_eq_gt.mpr h, Nat.compare_eq_gt.mpr (by omega)]; rfl

theorem byte_cmp (a b : Nat) (ha : a < 256) (hb : b < 256) :
    compare (byteBits a) (byteBits b) = compare a b := by
  rw [byteBits_nib, byteBits_nib,
    compare_append_eq_len (nibBits (a / 16 % 16)) (nibBits (b / 16 % 16)) _ _ (by simp [nibBits]),
    nat_cmp_split a b ha hb]
  have e1 := nib_cmp ⟨a / 16 % 16, by omega⟩ ⟨b / 16 % 16, by omega⟩
  have e2 := nib_cmp ⟨a % 16, by omega⟩ ⟨b % 16, by omega⟩
  simp only at e1 e2
  rw [e1, e2]

theorem bits_cmp (x y : Bytes) (hx : Bytes.WF x) (hy : Bytes.WF y) :
    compare (x.flatMap byteBits) (y.flatMap byteBits) = compare x y := by
  induction x generalizing y with
  | nil =>
    cases y with
    | nil => rfl
    | cons b y => rfl
  | cons a x ih =>
    cases y with
    | nil => rfl
    | cons b y =>
      simp only [List.flatMap_cons, List.compare_cons_cons]
      rw [compare_append_eq_len (byteBits a) (byteBits b) _ _ (by simp [byteBits]),
        byte_cmp a b (hx a (by simp)) (hy b (by simp)),
        ih y (fun z hz => hx z (by simp [hz])) (fun z hz => hy z (by simp [hz]))]

theorem bits_flatMap (x : Bytes) : Bits (x.flatMap byteBits) := by
  intro b hb
  simp only [List.mem_flatMap, byteBits] at hb
  obtain ⟨a, _, ha⟩ := hb
  simp only [List.mem_cons, List.not_mem_nil, or_false] at ha
  omega

theorem length_flatMap_bits (x : Bytes) : (x.flatMap byteBits).length = 8 * x.length := by
  induction x with
  | nil => rfl
  | cons a x ih => simp only [List.flatMap_cons, List.length_append, ih, byteBits]; simp; omega

/-! ### bits → 5-bit groups -/

def padAmt (n : Nat) : Nat := (5 - n % 5) % 5

theorem exists_five (U : List Nat) (h : 5 ≤ U.length) :
    ∃ a b c d e U', U = a :: b :: c :: d :: e :: U' := by
  match U, h with
  | a :: b :: c :: d :: e :: U', _ => exact ⟨a, b, c, d, e, U', rfl⟩

theorem groups5_pad_aux (n : Nat) : ∀ u : List Nat, u.length = n →
    groups5 u = groups5 (u ++ List.replicate (padAmt u.length) 0) := by
  induction n using Nat.strongRecOn with
  | _ n ih =>
    intro u hn
    by_cases h5 : 5 ≤ u.length
    · obtain ⟨a, b, c, d, e, u', rfl⟩ := exists_five u h5
      have hp : padAmt (a :: b :: c :: d :: e :: u').length = padAmt u'.length := by
        simp only [padAmt, List.length_cons]; omega
      rw [hp]
      simp only [List.cons_append, groups5]
      rw [← ih u'.length (by subst hn; simp; omega) u' rfl]
    · match u, h5 with
      | [], _ => rfl
      | [a], _ => rfl
      | [a, b], _ => rfl
      | [a, b, c], _ => rfl
      | [a, b, c, d], _ => rfl
      | _ :: _ :: _ :: _ :: _ :: _, h => simp at h

/-- `groups5` pads the last group with zero bits -/
theorem groups5_pad (u : List Nat) :
    groups5 u = groups5 (u ++ List.replicate (padAmt u.length) 0) :=
  groups5_pad_aux u.length u rfl

theorem group_cmp : ∀ a b c d e a' b' c' d' e' : Fin 2,
    compare [a.val, b.val, c.val, d.val, e.val] [a'.val, b'.val, c'.val, d'.val, e'.val] =
    compare (bitsVal [a.val, b.val, c.val, d.val, e.val])
      (bitsVal [a'.val, b'.val, c'.val, d'.val, e'.val]) := by
  decide

/-- on whole groups the group values compare like the bits -/
theorem groups_cmp (n : Nat) : ∀ U V : List Nat, U.length = 5 * n → V.length % 5 = 0 →
    Bits U → Bits V →
    compare ((groups5 U).map bitsVal) ((groups5 V).map bitsVal) = compare U V := by
  induction n with
  | zero =>
    intro U V hU hV _ _
    have : U = [] := List.eq_nil_of_length_eq_zero (by omega)
    subst this
    by_cases h5 : 5 ≤ V.length
    · obtain ⟨a, b, c, d, e, V', rfl⟩ := exists_five V h5
      simp [groups5]
    · have : V = [] := List.eq_nil_of_length_eq_zero (by omega)
      subst this
      rfl
  | succ n ih =>
    intro U V hU hV bU bV
    obtain ⟨a, b, c, d, e, U', rfl⟩ := exists_five U (by omega)
    by_cases h5 : 5 ≤ V.length
    · obtain ⟨a', b', c', d', e', V', rfl⟩ := exists_five V h5
      have ha : a < 2 := by have := bU a (by simp); omega
      have hb : b < 2 := by have := bU b (by simp); omega
      have hc : c < 2 := by have := bU c (by simp); omega
      have hd : d < 2 := by have := bU d (by simp); omega
      have he : e < 2 := by have := bU e (by simp); omega
      have ha' : a' < 2 := by have := bV a' (by simp); omega
      have hb' : b' < 2 := by have := bV b' (by simp); omega
      have hc' : c' < 2 := by have := bV c' (by simp); omega
      have hd' : d' < 2 := by have := bV d' (by simp); omega
      have he' : e' < 2 := by have := bV e' (by simp); omega
      have g := group_cmp ⟨a, ha⟩ ⟨b, hb⟩ ⟨c, hc⟩ ⟨d, hd⟩ ⟨e, he⟩ ⟨a', ha'⟩ ⟨b', hb'⟩ ⟨c', hc'⟩
        ⟨d', hd'⟩ ⟨e', he'⟩
      simp only at g
      have hsplit : compare (a :: b :: c :: d :: e :: U') (a' :: b' :: c' :: d' :: e' :: V') =
          (compare [a, b, c, d, e] [a', b', c', d', e']).then (compare U' V') :=
        compare_append_eq_len [a, b, c, d, e] [a', b', c', d', e'] U' V' rfl
      rw [hsplit, g]
      simp only [groups5, List.map_cons, List.compare_cons_cons]
      rw [ih U' V' (by simp at hU; omega) (by simp at hV; omega)
        (fun z hz => bU z (by simp [hz])) (fun z hz => bV z (by simp [hz]))]
    · have : V = [] := List.eq_nil_of_length_eq_zero (by omega)
      subst this
      simp [groups5]

/-! ### group values → characters -/

theorem b32Char_cmp (a b : Nat) : compare (b32Char a) (b32Char b) = compare a b := by
  unfold b32Char
  rcases Nat.lt_trichotomy a b with h | h | h
  · rw [Nat.compare_eq_lt.mpr h, Nat.compare_eq_lt.mpr (by split <;> split <;> omega)]
  · subst h; simp
  · rw [Nat.compare_eq_gt.mpr h, Nat.compare_eq_gt.mpr (by split <;> split <;> omega)]

theorem lower_b32 (l : List Nat) : Name.lowerLabel (l.map b32Char) = l.map b32Char := by
  simp only [Name.lowerLabel, List.map_map]
  apply List.map_congr_left
  intro a _
  simp only [Function.comp, Name.lowerByte, b32Char]
  split <;> split <;> omega

/-! ### the theorem -/

/-- **base32hex is an order embedding** of octet strings (of any lengths) into labels. -/
theorem base32hex_order (x y : Bytes) (hx : Bytes.WF x) (hy : Bytes.WF y) :
    Name.cmpLabel true (base32hex x) (base32hex y) = compare x y := by
  have hmap : ∀ z : Bytes, base32hex z = ((groups5 (z.flatMap byteBits)).map bitsVal).map b32Char := by
    intro z; simp [base32hex, List.map_map, Function.comp]
  rw [C04.cmpLabel_ci, hmap, hmap, lower_b32, lower_b32, compare_map_mono _ b32Char_cmp,
    groups5_pad (x.flatMap byteBits), groups5_pad (y.flatMap byteBits)]
  have lx := length_flatMap_bits x
  have ly := length_flatMap_bits y
  have hbits : ∀ z : Bytes, Bits (z.flatMap byteBits ++
      List.replicate (padAmt (z.flatMap byteBits).length) 0) := by
    intro z b hb
    rcases List.mem_append.mp hb with h | h
    · exact bits_flatMap z b h
    · have := List.eq_of_mem_replicate h; omega
  have hl5 : ∀ z : Bytes, (z.flatMap byteBits ++
      List.replicate (padAmt (z.flatMap byteBits).length) 0).length % 5 = 0 := by
    intro z
    simp only [List.length_append, List.length_replicate, padAmt]
    omega
  obtain ⟨n, hn⟩ : ∃ n, (x.flatMap byteBits ++
      List.replicate (padAmt (x.flatMap byteBits).length) 0).length = 5 * n :=
    ⟨_, (Nat.mul_div_cancel' (Nat.dvd_of_mod_eq_zero (hl5 x))).symm⟩
  rw [groups_cmp n _ _ hn (hl5 y) (hbits x) (hbits y),
    compare_pad _ _ _ _ (by omega) (by simp only [padAmt]; omega) (by simp only [padAmt]; omega)
      (fun h => by rw [h]),
    bits_cmp x y hx hy]

end HickoryVerif.C09
