/-
C13, part 7 — one `TSigVerifier` fed a sequence of messages (multi-message replies).

The contract of the code (stricter than RFC 8945 §5.3.1, which would allow unsigned intermediate
messages that are folded into the next digest): **every message the verifier accepts is
authenticated by the chain** — it ends with a TSIG RR naming the verifier's key and algorithm whose
full-length MAC the key's oracle accepts over
    u16(|P|) ‖ P ‖ message (header with Original ID, ARCOUNT − 1) ‖ TSIG variables   (first accepted message)
    u16(|P|) ‖ P ‖ message (…)                                   ‖ time ‖ fudge      (later ones)
where P is the MAC of the previously accepted message (the request MAC at the beginning); its
time signed is not smaller than that of the previously accepted message, and the request time
lies in its window.  A message without TSIG RR is rejected in every state; a rejected message
leaves the state untouched.
-/
import HickoryVerif.Model.Tsig
import HickoryVerif.Proofs.C13
import HickoryVerif.Proofs.C13Panic

namespace HickoryVerif.C13
open HickoryVerif HickoryVerif.Tsig

/-- what acceptance of one message in state `v` means -/
structure StepAuthenticated (v : Verifier) (buf : Bytes) (rdok : Bool) (v' : Verifier) : Prop where
  ex : ∃ tbs r, signedBitmessageToBuf buf (some v.previous) (v.remoteTime == 0) rdok = .ok (tbs, r) ∧
    Name.eq r.name v.signer.name = true ∧ algIs r.data.algName v.signer.alg = true ∧
    outLen v.signer.alg ≤ r.data.mac.length ∧
    v.signer.macOK tbs r.data.mac = true ∧
    v.remoteTime ≤ r.data.time ∧
    r.data.time - r.data.fudge ≤ v.requestTime ∧ v.requestTime < r.data.time + r.data.fudge ∧
    v' = { v with previous := r.data.mac, remoteTime := r.data.time }

theorem verify_ok_authenticated {v v' : Verifier} {buf : Bytes} {rdok pok : Bool}
    (h : v.verify buf rdok pok = .ok v') : StepAuthenticated v buf rdok v' := by
  unfold Verifier.verify at h
  split at h
  · rename_i r hv
    obtain ⟨tbs, rec, hs, h1, h2, h3, h4, hr⟩ := verifyMessageByte_ok hv
    split at h
    · rename_i hc
      split at h
      · simp only [Outcome.ok.injEq] at h
        subst hr
        exact ⟨tbs, rec, hs, h1, h2, h3, h4, hc.1, hc.2.1, hc.2.2, h.symm⟩
      · simp at h
    · simp at h
  · simp at h
  · simp at h

/-- **A message without a TSIG RR (ARCOUNT = 0) is rejected in every verifier state** — there is no
"unsigned intermediate message" path. -/
theorem unsigned_rejected (v : Verifier) {buf : Bytes} {h : Hdr} (rdok pok : Bool)
    (hh : readHdr buf = some h) (har : h.ar = 0) : v.verify buf rdok pok = .err := by
  unfold Verifier.verify verifyMessageByte signedBitmessageToBuf
  rw [hh]
  simp [har]

/-- … and so is anything too short to have a header -/
theorem headerless_rejected (v : Verifier) {buf : Bytes} (rdok pok : Bool)
    (hh : readHdr buf = none) : v.verify buf rdok pok = .err := by
  unfold Verifier.verify verifyMessageByte signedBitmessageToBuf
  rw [hh]

/-- the run of a verifier over a sequence: accepted steps are authenticated and move the state,
rejected steps leave it untouched -/
inductive ChainRun : Verifier → List (Bytes × Bool × Bool) → List Bool → Verifier → Prop
  | nil (v : Verifier) : ChainRun v [] [] v
  | accept {v v' vf : Verifier} {buf : Bytes} {rdok pok : Bool} {rest vs} :
      StepAuthenticated v buf rdok v' → ChainRun v' rest vs vf →
      ChainRun v ((buf, rdok, pok) :: rest) (true :: vs) vf
  | reject {v vf : Verifier} {buf : Bytes} {rdok pok : Bool} {rest vs} :
      v.verify buf rdok pok = .err → ChainRun v rest vs vf →
      ChainRun v ((buf, rdok, pok) :: rest) (false :: vs) vf

/-- **Every message a verifier accepts in a sequence is authenticated by the chain.** -/
theorem verifySeq_chain : ∀ (msgs : List (Bytes × Bool × Bool)) (v vf : Verifier) (vs : List Bool),
    v.verifySeq msgs = .ok (vf, vs) → ChainRun v msgs vs vf := by
  intro msgs
  induction msgs with
  | nil =>
    intro v vf vs h
    simp only [Verifier.verifySeq, Outcome.ok.injEq, Prod.mk.injEq] at h
    obtain ⟨rfl, rfl⟩ := h
    exact .nil v
  | cons m rest ih =>
    intro v vf vs h
    obtain ⟨buf, rdok, pok⟩ := m
    rw [Verifier.verifySeq] at h
    split at h
    · rename_i v' hv
      split at h
      · rename_i vf' vs' hr
        simp only [Outcome.ok.injEq, Prod.mk.injEq] at h
        obtain ⟨rfl, rfl⟩ := h
        exact .accept (verify_ok_authenticated hv) (ih _ _ _ hr)
      · simp at h
      · simp at h
    · rename_i hv
      split at h
      · rename_i vf' vs' hr
        simp only [Outcome.ok.injEq, Prod.mk.injEq] at h
        obtain ⟨rfl, rfl⟩ := h
        exact .reject hv (ih _ _ _ hr)
      · simp at h
      · simp at h
    · simp at h

/-- the sequence runner never panics and never fails as a whole -/
theorem verifySeq_total : ∀ (msgs : List (Bytes × Bool × Bool)) (v : Verifier),
    ∃ vf vs, v.verifySeq msgs = .ok (vf, vs) ∧ vs.length = msgs.length := by
  intro msgs
  induction msgs with
  | nil => intro v; exact ⟨v, [], rfl, rfl⟩
  | cons m rest ih =>
    intro v
    obtain ⟨buf, rdok, pok⟩ := m
    rw [Verifier.verifySeq]
    split
    · rename_i v' _
      obtain ⟨vf, vs, h, hl⟩ := ih v'
      rw [h]; exact ⟨vf, true :: vs, rfl, by simp [hl]⟩
    · obtain ⟨vf, vs, h, hl⟩ := ih v
      rw [h]; exact ⟨vf, false :: vs, rfl, by simp [hl]⟩
    · rename_i m hm; exact absurd hm (verifier_no_panic _ _ _ _ _)

/-- In particular an unsigned message injected anywhere into a sequence is not accepted: its
verdict is `false` (and by `ChainRun.reject` the messages after it are judged as if it had not been
there). -/
theorem injected_unsigned_not_accepted {v vf : Verifier} {pre post : List (Bytes × Bool × Bool)}
    {buf : Bytes} {rdok pok : Bool} {h : Hdr} {vs : List Bool}
    (hh : readHdr buf = some h) (har : h.ar = 0)
    (hr : v.verifySeq (pre ++ (buf, rdok, pok) :: post) = .ok (vf, vs)) :
    vs[pre.length]? = some false := by
  induction pre generalizing v vs with
  | nil =>
    rw [List.nil_append, Verifier.verifySeq, unsigned_rejected v rdok pok hh har] at hr
    simp only at hr
    split at hr
    · simp only [Outcome.ok.injEq, Prod.mk.injEq] at hr
      obtain ⟨_, rfl⟩ := hr; rfl
    · simp at hr
    · simp at hr
  | cons m pre ih =>
    obtain ⟨b', r', p'⟩ := m
    rw [List.cons_append, Verifier.verifySeq] at hr
    split at hr
    · split at hr
      · rename_i hrest
        simp only [Outcome.ok.injEq, Prod.mk.injEq] at hr
        obtain ⟨rfl, rfl⟩ := hr
        simpa using ih hrest
      · simp at hr
      · simp at hr
    · split at hr
      · rename_i hrest
        simp only [Outcome.ok.injEq, Prod.mk.injEq] at hr
        obtain ⟨rfl, rfl⟩ := hr
        simpa using ih hrest
      · simp at hr
      · simp at hr
    · simp at hr

/-! ### the multiplexer: histories on one outstanding signed request, across failures -/

theorem muxStep_ok {v v' : Verifier} {rid : Nat} {buf : Bytes} {rdok pok : Bool}
    (h : muxStep v rid buf rdok pok = .ok (v', .ok)) : StepAuthenticated v buf rdok v' := by
  unfold muxStep at h
  split at h
  · simp at h
  · split at h
    · simp at h
    · split at h
      · rename_i v'' hv
        simp only [Outcome.ok.injEq, Prod.mk.injEq, and_true] at h
        subst h
        exact verify_ok_authenticated hv
      · simp at h
      · simp at h

/-- a message that is not delivered as `Ok` leaves the verifier exactly as it was — in particular it
stays in place: there is no "request is no longer signed" state -/
theorem muxStep_not_ok {v v' : Verifier} {rid : Nat} {buf : Bytes} {rdok pok : Bool} {d : Delivery}
    (h : muxStep v rid buf rdok pok = .ok (v', d)) (hd : d ≠ .ok) : v' = v := by
  unfold muxStep at h
  split at h
  · simp only [Outcome.ok.injEq, Prod.mk.injEq] at h; exact h.1.symm
  · split at h
    · simp only [Outcome.ok.injEq, Prod.mk.injEq] at h; exact h.1.symm
    · split at h
      · simp only [Outcome.ok.injEq, Prod.mk.injEq] at h; exact absurd h.2.symm hd
      · simp only [Outcome.ok.injEq, Prod.mk.injEq] at h; exact h.1.symm
      · simp at h

/-- an unsigned message never comes out `Ok` on a signed request, whatever happened before -/
theorem muxStep_unsigned_not_ok (v : Verifier) (rid : Nat) {buf : Bytes} {hd : Hdr}
    (rdok pok : Bool) (hh : readHdr buf = some hd) (har : hd.ar = 0) :
    ∀ v', muxStep v rid buf rdok pok ≠ .ok (v', .ok) := by
  intro v' h
  have := muxStep_ok h
  obtain ⟨tbs, r, hs, _⟩ := this.ex
  unfold signedBitmessageToBuf at hs
  rw [hh] at hs
  simp [har] at hs

/-- the run of the multiplexer over a history: every `Ok` delivery is authenticated from the state
left by the previous `Ok` delivery; every other message (dropped or delivered as error) leaves the
state untouched -/
inductive MuxChain (rid : Nat) :
    Verifier → List (Bytes × Bool × Bool) → List Delivery → Verifier → Prop
  | nil (v : Verifier) : MuxChain rid v [] [] v
  | ok {v v' vf : Verifier} {buf : Bytes} {rdok pok : Bool} {rest ds} :
      StepAuthenticated v buf rdok v' → MuxChain rid v' rest ds vf →
      MuxChain rid v ((buf, rdok, pok) :: rest) (.ok :: ds) vf
  | other {v vf : Verifier} {buf : Bytes} {rdok pok : Bool} {d : Delivery} {rest ds} :
      d ≠ .ok → MuxChain rid v rest ds vf →
      MuxChain rid v ((buf, rdok, pok) :: rest) (d :: ds) vf

/-- **`∀ history, delivered Ok ⇒ verifies against the chain state before it`** — by induction over
the history for the multiplexer step function, across failures: a failure never turns later
unverified messages into accepted ones. -/
theorem muxRun_chain (rid : Nat) : ∀ (msgs : List (Bytes × Bool × Bool)) (v vf : Verifier)
    (ds : List Delivery), muxRun v rid msgs = .ok (vf, ds) → MuxChain rid v msgs ds vf := by
  intro msgs
  induction msgs with
  | nil =>
    intro v vf ds h
    simp only [muxRun, Outcome.ok.injEq, Prod.mk.injEq] at h
    obtain ⟨rfl, rfl⟩ := h
    exact .nil v
  | cons m rest ih =>
    intro v vf ds h
    obtain ⟨buf, rdok, pok⟩ := m
    rw [muxRun] at h
    split at h
    · rename_i v' d hstep
      split at h
      · rename_i vf' ds' hr
        simp only [Outcome.ok.injEq, Prod.mk.injEq] at h
        obtain ⟨rfl, rfl⟩ := h
        by_cases hd : d = .ok
        · subst hd
          exact .ok (muxStep_ok hstep) (ih _ _ _ hr)
        · have := muxStep_not_ok hstep hd
          subst this
          exact .other hd (ih _ _ _ hr)
      · simp at h
      · simp at h
    · simp at h
    · simp at h

theorem muxStep_no_panic (v : Verifier) (rid : Nat) (buf : Bytes) (rdok pok : Bool) (s : String) :
    muxStep v rid buf rdok pok ≠ .panic s := by
  unfold muxStep
  split
  · simp
  · split
    · simp
    · split
      · simp
      · simp
      · rename_i m hm; exact absurd hm (verifier_no_panic _ _ _ _ _)

theorem muxStep_total (v : Verifier) (rid : Nat) (buf : Bytes) (rdok pok : Bool) :
    ∃ v' d, muxStep v rid buf rdok pok = .ok (v', d) := by
  unfold muxStep
  split
  · exact ⟨_, _, rfl⟩
  · split
    · exact ⟨_, _, rfl⟩
    · split
      · exact ⟨_, _, rfl⟩
      · exact ⟨_, _, rfl⟩
      · rename_i m hm; exact absurd hm (verifier_no_panic _ _ _ _ _)

/-- every history has a run (no panic, no global failure), one delivery verdict per message -/
theorem muxRun_total (rid : Nat) : ∀ (msgs : List (Bytes × Bool × Bool)) (v : Verifier),
    ∃ vf ds, muxRun v rid msgs = .ok (vf, ds) ∧ ds.length = msgs.length := by
  intro msgs
  induction msgs with
  | nil => intro v; exact ⟨v, [], rfl, rfl⟩
  | cons m rest ih =>
    intro v
    obtain ⟨buf, rdok, pok⟩ := m
    obtain ⟨v', d, hs⟩ := muxStep_total v rid buf rdok pok
    obtain ⟨vf, ds, hr, hl⟩ := ih v'
    rw [muxRun, hs]
    simp only
    rw [hr]
    exact ⟨vf, d :: ds, rfl, by simp [hl]⟩

/-- an unsigned message at any position of any history — after any number of earlier failures — is
not delivered as `Ok` -/
theorem mux_unsigned_never_ok {rid : Nat} {v vf : Verifier} {pre post : List (Bytes × Bool × Bool)}
    {buf : Bytes} {rdok pok : Bool} {hd : Hdr} {ds : List Delivery}
    (hh : readHdr buf = some hd) (har : hd.ar = 0)
    (hr : muxRun v rid (pre ++ (buf, rdok, pok) :: post) = .ok (vf, ds)) :
    ds[pre.length]? ≠ some .ok := by
  induction pre generalizing v ds with
  | nil =>
    rw [List.nil_append, muxRun] at hr
    split at hr
    · rename_i v' d hstep
      split at hr
      · simp only [Outcome.ok.injEq, Prod.mk.injEq] at hr
        obtain ⟨rfl, rfl⟩ := hr
        intro hc
        simp only [List.length_nil, List.getElem?_cons_zero, Option.some.injEq] at hc
        subst hc
        exact muxStep_unsigned_not_ok v rid rdok pok hh har v' hstep
      · simp at hr
      · simp at hr
    · simp at hr
    · simp at hr
  | cons m pre ih =>
    obtain ⟨b', r', p'⟩ := m
    rw [List.cons_append, muxRun] at hr
    split at hr
    · split at hr
      · rename_i hrest
        simp only [Outcome.ok.injEq, Prod.mk.injEq] at hr
        obtain ⟨rfl, rfl⟩ := hr
        simpa using ih hrest
      · simp at hr
      · simp at hr
    · simp at hr
    · simp at hr

/-! ### the UDP client -/

/-- **`udp_ok_implies_verified`**: whatever datagrams arrive for a signed request (at most three
are looked at), `UdpRequest::send` returns `Ok` only for a datagram that the request's
`TSigVerifier` authenticated — as the first message of the chain, against the request MAC.  No
header bit of the reply (TC, AA, RA, rcode, …) bypasses the verifier. -/
theorem udp_ok_implies_verified {v v' : Verifier} {rid : Nat} :
    ∀ (k : Nat) (ds : List (Bytes × Bool × Bool × Bool)),
      udpRecv v rid k ds = .ok (some v') →
      ∃ buf rdok pok qok, (buf, rdok, pok, qok) ∈ ds ∧ StepAuthenticated v buf rdok v' := by
  intro k
  induction k with
  | zero => intro ds h; simp [udpRecv] at h
  | succ k ih =>
    intro ds h
    cases ds with
    | nil => simp [udpRecv] at h
    | cons d rest =>
      obtain ⟨buf, rdok, pok, qok⟩ := d
      rw [udpRecv] at h
      split at h
      · simp at h
      · split at h
        · obtain ⟨b, r, p, q, hm, hs⟩ := ih rest h
          exact ⟨b, r, p, q, List.mem_cons_of_mem _ hm, hs⟩
        · split at h
          · obtain ⟨b, r, p, q, hm, hs⟩ := ih rest h
            exact ⟨b, r, p, q, List.mem_cons_of_mem _ hm, hs⟩
          · split at h
            · rename_i v'' hv
              simp only [Outcome.ok.injEq, Option.some.injEq] at h
              subst h
              exact ⟨buf, rdok, pok, qok, List.mem_cons_self, verify_ok_authenticated hv⟩
            · simp at h
            · simp at h

/-- an unsigned datagram (ARCOUNT 0) — e.g. a forgery with TC set — is never the one returned -/
theorem udp_unsigned_not_returned {v v' : Verifier} {rid k : Nat}
    {ds : List (Bytes × Bool × Bool × Bool)} (h : udpRecv v rid k ds = .ok (some v')) :
    ∃ buf rdok pok qok, (buf, rdok, pok, qok) ∈ ds ∧
      ∀ hd, readHdr buf = some hd → hd.ar ≠ 0 := by
  obtain ⟨buf, rdok, pok, qok, hm, hs⟩ := udp_ok_implies_verified k ds h
  refine ⟨buf, rdok, pok, qok, hm, ?_⟩
  intro hd hh har
  obtain ⟨tbs, r, hsb, _⟩ := hs.ex
  unfold signedBitmessageToBuf at hsb
  rw [hh] at hsb
  simp [har] at hsb

theorem udpRecv_no_panic (v : Verifier) (rid : Nat) :
    ∀ (k : Nat) (ds : List (Bytes × Bool × Bool × Bool)) (s : String),
      udpRecv v rid k ds ≠ .panic s := by
  intro k
  induction k with
  | zero => intro ds s; simp [udpRecv]
  | succ k ih =>
    intro ds s
    cases ds with
    | nil => simp [udpRecv]
    | cons d rest =>
      obtain ⟨buf, rdok, pok, qok⟩ := d
      rw [udpRecv]
      split
      · simp
      · split
        · exact ih _ _
        · split
          · exact ih _ _
          · split
            · simp
            · simp
            · rename_i m hm; exact absurd hm (verifier_no_panic _ _ _ _ _)

end HickoryVerif.C13
