/-
C18 — the sharing clause, task by task (`Share` machine of Model/Pool.lean): concurrent identical queries
share one upstream exchange while the task that created the shared lookup is alive.
-/
import HickoryVerif.Model.Pool

namespace HickoryVerif.C18
open HickoryVerif HickoryVerif.Pool

/-- invariant of the map: an alive creator's lookup is the registered one, and there is at most one
alive creator -/
structure ShareWF (s : Share) : Prop where
  reg : ∀ t ∈ s.tasks, t.creator = true → s.entry = some t.lookup
  uniq : ∀ t1 ∈ s.tasks, ∀ t2 ∈ s.tasks, t1.creator = true → t2.creator = true → t1 = t2

theorem shareWF_init : ShareWF {} := ⟨by simp, by simp⟩

theorem shareWF_step (s : Share) (ev : SEv) (h : ShareWF s) : ShareWF (s.step ev) := by
  cases ev with
  | start x =>
    simp only [Share.step]
    cases he : s.entry with
    | some l =>
      simp only
      split
      · exact ⟨by simpa [he] using h.reg, h.uniq⟩
      · constructor
        · intro t ht hc
          simp only [List.mem_append, List.mem_singleton] at ht
          rcases ht with ht | ht
          · simpa [he] using h.reg t ht hc
          · rw [ht] at hc; simp at hc
        · intro t1 h1 t2 h2 c1 c2
          simp only [List.mem_append, List.mem_singleton] at h1 h2
          rcases h1 with h1 | h1
          · rcases h2 with h2 | h2
            · exact h.uniq t1 h1 t2 h2 c1 c2
            · rw [h2] at c2; simp at c2
          · rw [h1] at c1; simp at c1
    | none =>
      have hno : ∀ t ∈ s.tasks, t.creator = true → False := by
        intro t ht hc
        have := h.reg t ht hc
        rw [he] at this
        simp at this
      simp only
      split
      · exact ⟨fun t ht hc => (hno t ht hc).elim, h.uniq⟩
      · constructor
        · intro t ht hc
          simp only [List.mem_append, List.mem_singleton] at ht
          rcases ht with ht | ht
          · exact (hno t ht hc).elim
          · rw [ht]
        · intro t1 h1 t2 h2 c1 c2
          simp only [List.mem_append, List.mem_singleton] at h1 h2
          rcases h1 with h1 | h1
          · exact (hno t1 h1 c1).elim
          · rcases h2 with h2 | h2
            · exact (hno t2 h2 c2).elim
            · rw [h1, h2]
  | drop x =>
    simp only [Share.step]
    constructor
    · intro t ht hc
      simp only [List.mem_filter, decide_eq_true_eq] at ht
      split
      · rename_i hany
        simp only [List.any_eq_true, Bool.and_eq_true, decide_eq_true_eq] at hany
        obtain ⟨t0, ht0, hid, hc0⟩ := hany
        have := h.uniq t ht.1 t0 ht0 hc hc0
        rw [this] at ht
        exact absurd hid ht.2
      · exact h.reg t ht.1 hc
    · intro t1 h1 t2 h2 c1 c2
      simp only [List.mem_filter] at h1 h2
      exact h.uniq t1 h1.1 t2 h2.1 c1 c2
  | release l => exact ⟨h.reg, h.uniq⟩
  | poll x =>
    simp only [Share.step]
    split
    · exact h
    · rename_i t hf
      have htm : t ∈ s.tasks := List.mem_of_find?_eq_some hf
      have hid : t.id = x := by simpa using List.find?_some hf
      split
      · constructor
        · intro t' ht' hc
          simp only [List.mem_filter, decide_eq_true_eq] at ht'
          split
          · rename_i hct
            have := h.uniq t' ht'.1 t htm hc hct
            rw [this] at ht'
            exact absurd hid ht'.2
          · exact h.reg t' ht'.1 hc
        · intro t1 h1 t2 h2 c1 c2
          simp only [List.mem_filter] at h1 h2
          exact h.uniq t1 h1.1 t2 h2.1 c1 c2
      · exact h

/-- the invariant holds in every state any schedule can reach -/
theorem shareWF_run (evs : List SEv) (s : Share) (h : ShareWF s) : ShareWF (s.run evs) := by
  induction evs generalizing s with
  | nil => simpa [Share.run]
  | cons ev evs ih =>
    simp only [Share.run, List.foldl_cons]
    exact ih _ (shareWF_step s ev h)

/-- **sharing**: while the task that created lookup `l` is alive (in particular while `l` is in flight
for it), every identical query joins `l`: no further upstream exchange is started, the map is left
alone, and the newcomer either waits for `l` or has already been handed `l`'s result -/
theorem shared_while_creator_alive (s : Share) (h : ShareWF s) (l : Nat)
    (hc : ∃ t ∈ s.tasks, t.creator = true ∧ t.lookup = l) (x : Nat) :
    (s.step (.start x)).started = s.started ∧ (s.step (.start x)).entry = s.entry ∧
    ((⟨x, l, false⟩ : Task) ∈ (s.step (.start x)).tasks ∨ (x, l) ∈ (s.step (.start x)).served) := by
  obtain ⟨t, ht, hct, hl⟩ := hc
  have he : s.entry = some l := by rw [← hl]; exact h.reg t ht hct
  simp only [Share.step, he]
  split
  · exact ⟨rfl, he.symm ▸ rfl, Or.inr (by simp)⟩
  · exact ⟨rfl, he.symm ▸ rfl, Or.inl (by simp)⟩

/-- … for every schedule from the empty map -/
theorem shared_while_creator_alive_run (evs : List SEv) (l x : Nat)
    (hc : ∃ t ∈ (Share.run {} evs).tasks, t.creator = true ∧ t.lookup = l) :
    ((Share.run {} evs).step (.start x)).started = (Share.run {} evs).started :=
  (shared_while_creator_alive _ (shareWF_run evs {} shareWF_init) l hc x).1

/-- a waiter's drop, and a waiter's return however late it is resumed, never change the map (nor start
anything): only the creator holds the clean-up guard -/
theorem waiter_never_changes_map (s : Share) (x : Nat)
    (hx : ∀ t ∈ s.tasks, t.id = x → t.creator = false) :
    (s.step (.drop x)).entry = s.entry ∧ (s.step (.drop x)).started = s.started ∧
    (s.step (.poll x)).entry = s.entry ∧ (s.step (.poll x)).started = s.started := by
  refine ⟨?_, rfl, ?_, ?_⟩
  · simp only [Share.step]
    split
    · rename_i hany
      simp only [List.any_eq_true, Bool.and_eq_true, decide_eq_true_eq] at hany
      obtain ⟨t0, ht0, hid, hc0⟩ := hany
      have := hx t0 ht0 hid
      rw [this] at hc0
      simp at hc0
    · rfl
  · simp only [Share.step]
    split
    · rfl
    · rename_i t hf
      have htm : t ∈ s.tasks := List.mem_of_find?_eq_some hf
      have hid : t.id = x := by simpa using List.find?_some hf
      have := hx t htm hid
      split <;> simp [this]
  · simp only [Share.step]
    split
    · rfl
    · split <;> rfl

/-- the two schedules of the seeded change that the run must keep apart from the known finding:
(a) a waiter dropped mid-flight, (b) a waiter resumed after a newer lookup was registered -/
example : (Share.run {} [.start 0, .start 1, .drop 1, .start 2, .release 1, .poll 0, .poll 2]).started = 1 := by
  decide
example :
    let s := Share.run {} [.start 0, .start 1, .release 1, .poll 0, .start 2, .poll 1, .start 3,
      .release 2, .poll 2, .poll 3]
    s.started = 2 ∧ s.served = [(0, 1), (1, 1), (2, 2), (3, 2)] := by decide

/-- the deviation (finding C18-F3), at task level: the CREATOR dropped while a waiter still waits —
the key is gone although lookup 1 is still running for task 1, and task 2 starts lookup 2 -/
theorem share_split_after_creator_drop :
    let s := Share.run {} [.start 0, .start 1, .drop 0, .start 2]
    s.started = 2 ∧ s.tasks = [⟨1, 1, false⟩, ⟨2, 2, true⟩] := by decide

end HickoryVerif.C18
