/-
C02 — `rdata_preserved`, the decoder half (stage 3).

`Plain buf pos q` : the octets from `pos` to `q` are a name in pointer-free wire form.
`readName_plain`  : a name read from such octets is read to `q`, and the octets are its `Name.wire`.
`readRData_preserved` : for the RDATA kinds whose names are never compressed on output (SRV —
  `RDataEncoding::Canonical` —, ANAME — `Other` —) and the name-free A / NULL / unknown types: if the
  original RDATA used no compression pointer, the RDATA octets the decoder consumed are `rdataWire d`.
`rdata_preserved_record_partial` : both halves at the level of one record — the positions are the ones
  the two walks yield: the decoder finds the RDATA of the record at `[p, p + len)` of the original; the
  encoder, from ANY appending state (any candidate table, offset, compressed-name count), leaves
  `RDLENGTH ++ RDATA` as the last `2 + len'` octets of its buffer; the two RDATA strings are equal.
-/
import HickoryVerif.Proofs.C02Dec
namespace HickoryVerif.C02
open HickoryVerif HickoryVerif.Name HickoryVerif.Wire HickoryVerif.C03

/-- the octets from `pos` are a name in pointer-free wire form ending at `q` -/
inductive Plain (buf : Bytes) : Nat → Nat → Prop
  | root {pos : Nat} : buf[pos]? = some 0 → Plain buf pos (pos + 1)
  | label {pos b q : Nat} : buf[pos]? = some b → 1 ≤ b → b ≤ 63 → Plain buf (pos + 1 + b) q → Plain buf pos q

theorem Plain.bounds {buf : Bytes} {pos q : Nat} (h : Plain buf pos q) : pos < q ∧ q ≤ buf.length := by
  induction h with
  | @root pos h => have := (List.getElem?_eq_some_iff.1 h).1; omega
  | label _ _ _ _ ih => omega

theorem drop_eq_cons {buf : Bytes} {pos b : Nat} (h : buf[pos]? = some b) : buf.drop pos = b :: buf.drop (pos + 1) := by
  obtain ⟨hlt, hb⟩ := List.getElem?_eq_some_iff.1 h
  rw [List.drop_eq_getElem_cons hlt, hb]

theorem readLabels_plain {buf : Bytes} {pos q : Nat} (h : Plain buf pos q) :
    ∀ (acc : Name) (ns : Nat) (n : Name) (q' : Nat), readLabels buf pos ns none acc = .ok (n, q') →
      q' = q ∧ ∃ ls, n.labels = acc.labels ++ ls ∧ (buf.drop pos).take (q - pos) = flat ls ++ [0] := by
  induction h with
  | @root pos h =>
    intro acc ns n q' hr
    rw [readLabels.eq_def] at hr
    simp only [Bool.false_eq_true, ↓reduceIte, h] at hr
    simp only [Outcome.ok.injEq, Prod.mk.injEq] at hr
    refine ⟨hr.2.symm, [], by rw [← hr.1]; simp, ?_⟩
    rw [drop_eq_cons h]
    simp
  | @label pos b q h hb1 hb2 hp ih =>
    intro acc ns n q' hr
    have hbd := hp.bounds
    rw [readLabels.eq_def] at hr
    have hne : b ≠ 0 := by omega
    have h0 : b / 64 = 0 := by omega
    have hfit : pos + 1 + b ≤ buf.length := by omega
    simp only [Bool.false_eq_true, ↓reduceIte, h, hne, h0, hfit, ↓reduceDIte] at hr
    cases hext : acc.extendName ((buf.drop (pos + 1)).take b) with
    | ok acc' =>
      rw [hext] at hr
      simp only at hr
      obtain ⟨hq, ls, hls, hbytes⟩ := ih acc' ns n q' hr
      obtain ⟨hacc', _⟩ := C01.extendName_ok hext
      refine ⟨hq, ((buf.drop (pos + 1)).take b) :: ls, ?_, ?_⟩
      · rw [hls, hacc']; simp
      · have hlen : ((buf.drop (pos + 1)).take b).length = b := C01.take_drop_len hfit
        rw [flat_cons, hlen, drop_eq_cons h]
        have e1 : q - pos = (b + (q - (pos + 1 + b))) + 1 := by omega
        rw [e1, List.take_succ_cons, List.take_add, List.drop_drop]
        rw [hbytes]
        simp
    | err => rw [hext] at hr; simp at hr
    | panic s => rw [hext] at hr; simp at hr

/-- **A name read from pointer-free octets**: the reader stops where the octets stop, and they are the
uncompressed wire form of the name it returns. -/
theorem readName_plain {buf : Bytes} {pos q : Nat} (h : Plain buf pos q) (n : Name) (q' : Nat)
    (hr : readName buf pos = .ok (n, q')) : q' = q ∧ (buf.drop pos).take (q - pos) = Name.wire n := by
  unfold readName at hr
  cases h' : readLabels buf pos pos none Name.new with
  | ok v =>
    obtain ⟨n', p'⟩ := v
    rw [h'] at hr; simp only at hr
    split at hr
    · cases hr
    · simp only [Outcome.ok.injEq, Prod.mk.injEq] at hr
      obtain ⟨hq, ls, hls, hb⟩ := readLabels_plain h Name.new pos n' p' h'
      rw [← hr.1, ← hr.2]
      refine ⟨hq, ?_⟩
      rw [hb]
      simp only [Name.new, List.nil_append] at hls
      simp only [Name.wire, hls, flat]
  | err => rw [h'] at hr; cases hr
  | panic s => rw [h'] at hr; cases hr

/-! ### inversion of the primitive readers -/

theorem name_inv {buf : Bytes} {st st1 : DSt} {n : Name} (h : Rd.name buf st = (.ok n, st1)) :
    readName buf st.pos = .ok (n, st1.pos) := by
  unfold Rd.name at h
  have hfst := C01.readNameSteps_fst buf st.pos
  cases hs : Name.readNameSteps buf st.pos with
  | mk o k =>
    rw [hs] at h hfst
    simp only at hfst
    cases o with
    | ok v =>
      obtain ⟨n', p⟩ := v
      simp only [Prod.mk.injEq, Outcome.ok.injEq] at h
      rw [← hfst, ← h.1, ← h.2]
    | err => simp at h
    | panic s => simp at h

theorem u16b_of_bytes {a b : Nat} (ha : a < 256) (hb : b < 256) : u16b (a * 256 + b) = [a, b] := by
  simp only [u16b]; congr 1
  · omega
  · congr 1; omega

/-! ### the decoder half -/

/-- the RDATA kinds `rdata_preserved` is about: the covered variants whose names are never compressed
on output (SRV: `RDataEncoding::Canonical`; ANAME: `Other`) and the covered name-free ones -/
def PreservedKind (t : Nat) : RData → Prop
  | .a _ | .null _ | .unknown _ _ | .srv _ _ _ _ => True
  | .name _ => t = 65305
  | _ => False

/-- "the original RDATA used no compression pointer": where the type has a name, it is in plain form -/
def PlainRData (t : Nat) (sub : Bytes) (pos : Nat) : Prop :=
  (t = 65305 → ∃ q, Plain sub pos q) ∧ (t = 33 → ∃ q, Plain sub (pos + 6) q)

theorem drop_all {α} {l : List α} {n : Nat} (h : l.length ≤ n) : l.drop n = [] := List.drop_eq_nil_of_le h

/-- **Decoder half of `rdata_preserved`**: the RDATA octets the decoder consumed (all of the clamped
sub-decoder from its start) are the fixed uncompressed form `rdataWire d` of the value it returned. -/
theorem readRData_preserved (opq : Nat → Rd Bytes) (t : Nat) (sub : Bytes) (st st' : DSt) (d : RData)
    (hb : Bytes.WF sub) (h : readRData opq t sub st = (.ok d, st')) (hk : PreservedKind t d)
    (hplain : PlainRData t sub st.pos) : sub.drop st.pos = rdataWire d := by
  obtain ⟨_, hty, _⟩ := post_rdata opq t sub st d st' hb h
  obtain ⟨st1, hbody, hend, hmeta⟩ := readRData_body h
  cases d <;> first | (simp [PreservedKind] at hk; done) | skip
  case a x =>
    obtain ⟨⟨rfl, _⟩, _⟩ := hty rfl
    unfold readRDataBody at hbody
    simp only [↓reduceIte, C01.bind_eq, C01.pure_eq] at hbody
    obtain ⟨a, s1, p1, g1⟩ := bind_ok hbody
    obtain ⟨b, s2, p2, g2⟩ := bind_ok g1
    obtain ⟨c, s3, p3, g3⟩ := bind_ok g2
    obtain ⟨e, s4, p4, g4⟩ := bind_ok g3
    obtain ⟨hv, hs⟩ := pure_inv g4
    obtain ⟨a1, a2⟩ := pop_inv p1
    obtain ⟨b1, b2⟩ := pop_inv p2
    obtain ⟨c1, c2⟩ := pop_inv p3
    obtain ⟨e1, e2⟩ := pop_inv p4
    rw [b2] at c1 c2; rw [a2] at b1 c1 c2; rw [c2] at e1 e2
    rw [drop_eq_cons a1, drop_eq_cons b1, drop_eq_cons c1, drop_eq_cons e1]
    rw [drop_all (by rw [hs] at hend; omega)]
    simp only [RData.a.injEq] at hv
    simp only [rdataWire, hv]
  case null x =>
    have ht : t = 10 := (hty rfl).1
    subst ht
    unfold readRDataBody at hbody
    simp only [Nat.reduceEqDiff, ↓reduceIte, or_self, C01.bind_eq, C01.pure_eq, Rd.bind,
      Rd.readVecToEnd, Rd.pure, Prod.mk.injEq, Outcome.ok.injEq, RData.null.injEq] at hbody
    simp only [rdataWire, hbody.1]
  case unknown c x =>
    obtain ⟨⟨rfl, hu1, hu2⟩, _⟩ := hty rfl
    simp only [List.mem_cons, List.not_mem_nil, or_false, not_or] at hu1
    obtain ⟨n1, n2, n3, n4, n5, n6, n7, n8, n9, n10, n11, n12, n13, n14, n15, n16, n17, n18, n19, n20, n21,
      n22, n23, n24, n25, _⟩ := hu1
    unfold readRDataBody at hbody
    simp only [n1, n2, n3, n4, n5, n6, n7, n8, n9, n10, n11, n12, n13, n14, n15, n16, n17, n18, n19, n20,
      n21, n22, n23, n24, n25, hu2, unmodelled, ↓reduceIte, or_self, Bool.false_eq_true,
      List.contains_nil, C01.bind_eq, C01.pure_eq, Rd.bind,
      Rd.readVecToEnd, Rd.pure, Prod.mk.injEq, Outcome.ok.injEq, RData.unknown.injEq] at hbody
    simp only [rdataWire, hbody.1.2]
  case name n =>
    have ht : t = 65305 := hk
    subst ht
    obtain ⟨q, hq⟩ := hplain.1 rfl
    unfold readRDataBody at hbody
    simp only [Nat.reduceEqDiff, ↓reduceIte, true_or, C01.bind_eq, C01.pure_eq] at hbody
    obtain ⟨n', s1, p1, g1⟩ := bind_ok hbody
    obtain ⟨hv, hs⟩ := pure_inv g1
    simp only [RData.name.injEq] at hv
    subst hv
    obtain ⟨hq', hw⟩ := readName_plain hq n' s1.pos (name_inv p1)
    have hqb := hq.bounds
    have hqe : q = sub.length := by rw [hs] at hend; omega
    simp only [rdataWire, ← hw]
    rw [List.take_of_length_le (by simp only [List.length_drop]; omega)]
  case srv p w port n =>
    obtain ⟨⟨rfl, _⟩, _⟩ := hty rfl
    obtain ⟨q, hq⟩ := hplain.2 rfl
    unfold readRDataBody at hbody
    simp only [Nat.reduceEqDiff, ↓reduceIte, or_self, C01.bind_eq, C01.pure_eq] at hbody
    obtain ⟨p', s1, p1, g1⟩ := bind_ok hbody
    obtain ⟨w', s2, p2, g2⟩ := bind_ok g1
    obtain ⟨port', s3, p3, g3⟩ := bind_ok g2
    obtain ⟨n', s4, p4, g4⟩ := bind_ok g3
    obtain ⟨hv, hs⟩ := pure_inv g4
    simp only [RData.srv.injEq] at hv
    obtain ⟨rfl, rfl, rfl, rfl⟩ := hv
    obtain ⟨a1, a2, ha, rfl, hp1, hl1⟩ := readU16_inv p1
    obtain ⟨b1, b2, hb', rfl, hp2, hl2⟩ := readU16_inv p2
    obtain ⟨c1, c2, hc, rfl, hp3, hl3⟩ := readU16_inv p3
    have hpos3 : s3.pos = st.pos + 6 := by omega
    have hnm := name_inv p4
    rw [hpos3] at hnm
    obtain ⟨hq', hw⟩ := readName_plain hq n' s4.pos hnm
    have hqb := hq.bounds
    have hqe : q = sub.length := by rw [hs] at hend; omega
    have split2 : ∀ p : Nat, sub.drop p = (sub.drop p).take 2 ++ sub.drop (p + 2) := by
      intro p
      have := (List.take_append_drop 2 (sub.drop p)).symm
      rwa [List.drop_drop] at this
    have mem2 : ∀ (p x y : Nat), (sub.drop p).take 2 = [x, y] → x < 256 ∧ y < 256 := by
      intro p x y hxy
      have hx : x ∈ (sub.drop p).take 2 := by rw [hxy]; simp
      have hy : y ∈ (sub.drop p).take 2 := by rw [hxy]; simp
      exact ⟨hb x (List.mem_of_mem_drop (List.mem_of_mem_take hx)),
        hb y (List.mem_of_mem_drop (List.mem_of_mem_take hy))⟩
    rw [hp1] at hb'
    rw [hp2, hp1] at hc
    have m1 := mem2 _ _ _ ha
    have m2 := mem2 _ _ _ hb'
    have m3 := mem2 _ _ _ hc
    rw [split2 st.pos, split2 (st.pos + 2), split2 (st.pos + 2 + 2), ha, hb', hc]
    simp only [rdataWire, u16b_of_bytes m1.1 m1.2, u16b_of_bytes m2.1 m2.2, u16b_of_bytes m3.1 m3.2, ← hw]
    have e6 : st.pos + 2 + 2 + 2 = st.pos + 6 := by omega
    rw [e6, List.take_of_length_le (by simp only [List.length_drop]; omega)]
    simp

/-! ### the two halves at the level of one record -/

/-- what the encoder half needs of the value: names inside are well-formed; ANAME is the name-only
type whose RDATA behaviour is `Other` -/
def PresWF (t : Nat) (d : RData) : Prop :=
  match d with
  | .a _ | .null _ | .unknown _ _ => True
  | .srv _ _ _ n => n.WF
  | .name n => n.WF ∧ t = 65305
  | _ => False

/-- **Encoder half, one record**: from ANY appending state satisfying the candidate-table invariant and
not in DNSSEC canonical form, `Record::emit` leaves `RDLENGTH ++ RDATA` as the last octets of the
buffer, `RDATA = rdataWire d` (no pointer, case preserved); `q` is the offset of the RDLENGTH field. -/
theorem emitRecord_rdata_tail (r : Record) (e e' : Enc) (hname : r.name.WF) (hd : PresWF r.rtype r.rdata)
    (happ : e.offset = e.buf.length) (hinv : PtrInv e) (hcanon : e.canonicalForm = false)
    (h : emitRecord r e = .ok () e') :
    ∃ q, e.buf.length + 8 < q ∧ e'.buf.length = q + 2 + (rdataWire r.rdata).length ∧
      (e'.buf.drop q).take 2 = u16b (rdataWire r.rdata).length ∧
      e'.buf.drop (q + 2) = rdataWire r.rdata ∧ e'.buf.take e.buf.length = e.buf := by
  have slice : ∀ (x : Bytes) (e0 e1 : Enc), e0.offset = e0.buf.length → e0.emitSlice x = .ok () e1 →
      e1.buf = e0.buf ++ x ∧ e1.offset = e1.buf.length ∧ e1.canonicalForm = e0.canonicalForm := by
    intro x e0 e1 ha hs
    rw [emitSlice_app _ _ ha] at hs
    split at hs
    · simp at hs
    · simp only [ERes.ok.injEq, true_and] at hs; subst hs; exact ⟨rfl, by simp [ha], rfl⟩
  have hnu : r.rdata.isUpdate = false := by
    cases hdd : r.rdata <;> rw [hdd] at hd <;> simp [PresWF] at hd <;> rfl
  simp only [emitRecord, seqAll, Enc.seq, emitNothing, hnu, Bool.false_eq_true, ↓reduceIte] at h
  cases h1 : Name.emit e r.name with
  | panic s => rw [h1] at h; simp at h
  | err k e1 => rw [h1] at h; simp at h
  | ok u1 e1 =>
    rw [h1] at h; simp only at h
    have hp := emit_post (H := fun _ => True) hname happ hinv (fun _ _ _ => trivial) h1
    obtain ⟨x1, hx1⟩ := hp.ext
    have hlt1 : e.offset < e1.offset := by
      obtain ⟨F, hl, _⟩ := hp.laid; exact hl.pos_lt_end
    cases h2 : e1.emitU16 r.rtype with
    | panic s => rw [h2] at h; simp at h
    | err k e2 => rw [h2] at h; simp at h
    | ok u2 e2 =>
      rw [h2] at h; simp only at h
      obtain ⟨b2, a2, c2⟩ := slice _ e1 e2 hp.app h2
      cases h3 : e2.emitU16 r.cls with
      | panic s => rw [h3] at h; simp at h
      | err k e3 => rw [h3] at h; simp at h
      | ok u3 e3 =>
        rw [h3] at h; simp only at h
        obtain ⟨b3, a3, c3⟩ := slice _ e2 e3 a2 h3
        cases h4 : e3.emitU32 r.ttl with
        | panic s => rw [h4] at h; simp at h
        | err k e4 => rw [h4] at h; simp at h
        | ok u4 e4 =>
          rw [h4] at h; simp only at h
          obtain ⟨b4, a4, c4⟩ := slice _ e3 e4 a3 h4
          simp only [Enc.lenPrefixed] at h
          rw [place_app _ _ a4] at h
          by_cases hfit : e4.maxSize < e4.offset + 2
          · simp [hfit] at h
          simp only [hfit, ↓reduceIte] at h
          generalize hE5 : ({ e4 with buf := e4.buf ++ List.replicate 2 0, offset := e4.offset + 2 } : Enc) = e5 at h
          have a5 : e5.offset = e5.buf.length := by rw [← hE5]; simp [a4]
          have c5 : e5.canonicalForm = false := by rw [← hE5]; show e4.canonicalForm = false; rw [c4, c3, c2, hp.canon, hcanon]
          have b5 : e5.buf = e4.buf ++ [0, 0] := by rw [← hE5]; rfl
          cases hb : emitRData r.rtype r.rdata e5 with
          | panic s => rw [hb] at h; simp at h
          | err k e6 => rw [hb] at h; simp at h
          | ok u6 e6 =>
            rw [hb] at h; simp only at h
            obtain ⟨b6, a6⟩ := rdata_preserved_partial r.rtype r.rdata e5 e6 hd a5 c5 hb
            have hoff6 : e6.offset = e4.offset + 2 + (rdataWire r.rdata).length := by
              rw [a6, b6, b5, a4]
              simp only [List.length_append, List.length_cons, List.length_nil]
            have hlsp : e6.lenSincePlace e4.offset 2 = .ok (rdataWire r.rdata).length := by
              simp only [Enc.lenSincePlace]
              rw [if_neg (by omega)]
              congr 1; omega
            rw [hlsp] at h
            simp only at h
            by_cases hbig : (rdataWire r.rdata).length > 65535
            · simp [hbig] at h
            simp only [hbig, ↓reduceIte] at h
            cases hpr : e6.placeReplace e4.offset 2 (fun x => x.emitU16 (rdataWire r.rdata).length) with
            | panic s => rw [hpr] at h; simp at h
            | err k e7 => rw [hpr] at h; simp at h
            | ok u7 e7 =>
            rw [hpr] at h
            simp only [ERes.ok.injEq, true_and] at h
            subst h
            have hspec := placeReplace_spec e6 e7 e4.offset 2
              [(rdataWire r.rdata).length / 256 % 256, (rdataWire r.rdata).length % 256] rfl
              (by rw [b6, b5, a4]; simp) hpr
            have hb' : e7.buf = e4.buf ++ u16b (rdataWire r.rdata).length ++ rdataWire r.rdata := by
              rw [hspec]
              simp only [b6, b5, a4, u16b]
              have t1 : (e4.buf ++ [0, 0] ++ rdataWire r.rdata).take e4.buf.length = e4.buf := by
                rw [List.append_assoc]; exact List.take_left' rfl
              have t2 : (e4.buf ++ [0, 0] ++ rdataWire r.rdata).drop (e4.buf.length + 2) = rdataWire r.rdata := by
                have : e4.buf.length + 2 = (e4.buf ++ [0, 0]).length := by simp
                rw [this]; exact List.drop_left' rfl
              rw [t1, t2]
            have hl4 : e4.buf.length = e1.buf.length + 8 := by
              rw [b4, b3, b2]; simp
            have hl1 : e.buf.length < e1.buf.length := by rw [← hp.app, ← happ]; exact hlt1
            refine ⟨e4.buf.length, by omega, ?_, ?_, ?_, ?_⟩
            · rw [hb']; simp [u16b]; omega
            · rw [hb', List.append_assoc, List.drop_left' rfl]
              simp [u16b]
            · rw [hb']
              have : e4.buf.length + 2 = (e4.buf ++ u16b (rdataWire r.rdata).length).length := by simp [u16b]
              rw [this, List.drop_left' rfl]
            · rw [hb', b4, b3, b2, hx1]
              simp only [List.append_assoc]
              exact List.take_left' rfl

theorem splitOff_inv {α} {inner : Rd α} {n : Nat} {buf : Bytes} {st st1 : DSt} {a : α}
    (h : Rd.splitOff n inner buf st = (.ok a, st1)) :
    st.pos + n ≤ buf.length ∧ st1.pos = st.pos + n ∧ ∃ st2, inner (buf.take (st.pos + n)) st = (.ok a, st2) := by
  unfold Rd.splitOff at h
  by_cases h1 : n > buf.length - st.pos
  · simp [h1] at h
  · by_cases h2 : st.pos + n > buf.length
    · simp [h1, h2] at h
    · simp only [h1, h2, ↓reduceIte, Prod.mk.injEq] at h
      exact ⟨by omega, by rw [← h.2], _, Prod.ext h.1 rfl⟩

/-- the decoder's walk over one record with non-empty RDATA: where the RDATA is -/
theorem readRecord_rdata_at {opq : Nat → Rd Bytes} {buf : Bytes} {st st' : DSt} {r : Record}
    (h : readRecord opq buf st = (.ok r, st')) (hnu : r.rdata.isUpdate = false) :
    ∃ (stp st2 : DSt) (len : Nat), 0 < len ∧ stp.pos + len ≤ buf.length ∧ st'.pos = stp.pos + len ∧
      readRData opq r.rtype (buf.take (stp.pos + len)) stp = (.ok r.rdata, st2) := by
  unfold readRecord at h
  simp only [C01.bind_eq, C01.pure_eq] at h
  obtain ⟨n, s1, _, g1⟩ := bind_ok h
  obtain ⟨t, s2, _, g2⟩ := bind_ok g1
  obtain ⟨cls, s3, _, g3⟩ := bind_ok g2
  obtain ⟨ttl, s4, _, g4⟩ := bind_ok g3
  obtain ⟨rdlen, s5, _, g5⟩ := bind_ok g4
  obtain ⟨left, s6, hrem, g6⟩ := bind_ok g5
  have hs6 : s6 = s5 := by simp only [Rd.remaining, Prod.mk.injEq] at hrem; exact hrem.2.symm
  subst hs6
  split at g6
  · simp [Rd.fail] at g6
  split at g6
  · obtain ⟨hv, _⟩ := pure_inv g6
    rw [← hv] at hnu
    cases hnu
  rename_i hne
  obtain ⟨rd, s7, hsp, g7⟩ := bind_ok g6
  obtain ⟨hv, hs⟩ := pure_inv g7
  obtain ⟨hle, hpos, st2, hin⟩ := splitOff_inv hsp
  refine ⟨s6, st2, rdlen, by omega, hle, by rw [hs, hpos], ?_⟩
  rw [← hv]
  exact hin

/-
FULL STATEMENT (kept visible):
  rdata_preserved : readMessage b = .ok m → for every record of a type whose RDataEncoding is Other or
  Canonical (or unknown), the RDATA octets of the re-encoding equal those of `b`, provided the original
  RDATA used no compression pointer.
Proved: `rdata_preserved_record_partial` — both halves for one record of the kinds SRV (Canonical),
ANAME (Other), A, NULL, unknown types, with the positions the two walks yield; the other
non-compressible types (their emitters: stage 3 item 3) and the composition over the whole message
(the record's octets are only appended to afterwards, and the header back-patch touches octets 0..12)
are not stated here.
-/

/-- **`rdata_preserved`, one record, both halves.**  The decoder's walk over `b` reads record `r` and
finds its RDATA at `[p, p + len)`.  If that RDATA used no compression pointer, it is `rdataWire r.rdata`;
and the encoder's walk — `Record::emit` of `r` from ANY appending state satisfying the candidate-table
invariant, not in DNSSEC canonical form — puts RDLENGTH at some offset `q` and leaves, as the last octets
of its buffer, `RDLENGTH = len` and RDATA octets EQUAL TO THE ORIGINAL ONES. -/
theorem rdata_preserved_record_partial (opq : Nat → Rd Bytes) (b : Bytes) (st st' : DSt) (r : Record)
    (hb : Bytes.WF b) (hdec : readRecord opq b st = (.ok r, st')) (hk : PreservedKind r.rtype r.rdata) :
    ∃ p len, 0 < len ∧ p + len = st'.pos ∧ p + len ≤ b.length ∧
      (PlainRData r.rtype (b.take (p + len)) p →
        (b.drop p).take len = rdataWire r.rdata ∧
        ∀ (e e' : Enc), e.offset = e.buf.length → PtrInv e → e.canonicalForm = false →
          emitRecord r e = .ok () e' →
          ∃ q, e.buf.length + 8 < q ∧ e'.buf.length = q + 2 + len ∧ (e'.buf.drop q).take 2 = u16b len ∧
            e'.buf.drop (q + 2) = (b.drop p).take len ∧ e'.buf.take e.buf.length = e.buf) := by
  have hrv := post_record opq b st r st' hb hdec
  have hpv : r.rdata.proved = true := by
    cases hd : r.rdata <;> rw [hd] at hk <;> simp [PreservedKind] at hk <;> rfl
  have hnu : r.rdata.isUpdate = false := by
    cases hd : r.rdata <;> rw [hd] at hk <;> simp [PreservedKind] at hk <;> rfl
  obtain ⟨_, hnw, _, _⟩ := hrv.data hpv
  have hpw : PresWF r.rtype r.rdata := by
    cases hd : r.rdata <;> rw [hd] at hk hnw <;> simp [PreservedKind] at hk <;> simp only [PresWF]
    · exact ⟨hnw, hk⟩
    · exact hnw
  obtain ⟨stp, st2, len, hlen, hle, hpos, hrd⟩ := readRecord_rdata_at hdec hnu
  refine ⟨stp.pos, len, hlen, hpos.symm, hle, fun hplain => ?_⟩
  have hsub : Bytes.WF (b.take (stp.pos + len)) := fun x hx => hb x (List.mem_of_mem_take hx)
  have hw := readRData_preserved opq r.rtype (b.take (stp.pos + len)) stp st2 r.rdata hsub hrd hk hplain
  have horig : (b.drop stp.pos).take len = rdataWire r.rdata := by
    rw [← hw, List.drop_take]
    congr 1; omega
  refine ⟨horig, fun e e' happ hinv hcanon hemit => ?_⟩
  obtain ⟨q, h1, h2, h3, h4, h5⟩ := emitRecord_rdata_tail r e e' hrv.name hpw happ hinv hcanon hemit
  have hl : (rdataWire r.rdata).length = len := by
    rw [← horig, List.length_take, List.length_drop]; omega
  exact ⟨q, h1, by rw [h2, hl], by rw [h3, hl], by rw [h4, horig], h5⟩

end HickoryVerif.C02

namespace HickoryVerif.C02
/-- non-vacuity: `abc.` in plain wire form -/
example : Plain [3, 97, 98, 99, 0] 0 5 :=
  Plain.label (b := 3) rfl (by decide) (by decide) (Plain.root rfl)
end HickoryVerif.C02
