/-
C11 (part 2) — what `AccessControl::allow` implements, for all addresses and prefix sets.
-/
import HickoryVerif.Model.ServerGate

namespace HickoryVerif.C11
open HickoryVerif HickoryVerif.ServerGate

/-! ### longest-prefix match -/

theorem lpm_eq_none_iff (s : List Prefix) (ip : Ip) :
    lpm s ip = none ↔ ∀ p ∈ s, p.contains ip = false := by
  induction s with
  | nil => simp [lpm]
  | cons p ps ih =>
    simp only [lpm, List.mem_cons, forall_eq_or_imp]
    cases h : lpm ps ip with
    | none =>
      have := ih.1 h
      by_cases hc : p.contains ip = true
      · simp [hc]
      · simp only [hc, Bool.false_eq_true, ↓reduceIte, true_iff]
        exact ⟨trivial, this⟩
    | some k =>
      have : ¬ ∀ p ∈ ps, p.contains ip = false := fun hh => by rw [ih.2 hh] at h; cases h
      by_cases hc : (p.contains ip && decide (k < p.len)) = true <;> simp [hc, this]

/-- `lpm` returns the length of a matching prefix and no matching prefix is longer. -/
theorem lpm_eq_some_iff (s : List Prefix) (ip : Ip) (k : Nat) :
    lpm s ip = some k ↔
      (∃ p ∈ s, p.contains ip = true ∧ p.len = k) ∧ ∀ p ∈ s, p.contains ip = true → p.len ≤ k := by
  induction s generalizing k with
  | nil => simp [lpm]
  | cons p ps ih =>
    simp only [lpm, List.mem_cons, forall_eq_or_imp, exists_eq_or_imp]
    cases h : lpm ps ip with
    | none =>
      have hn := (lpm_eq_none_iff ps ip).1 h
      by_cases hc : p.contains ip = true
      · simp only [hc, ↓reduceIte, Option.some.injEq, true_and, forall_const]
        constructor
        · rintro rfl
          exact ⟨Or.inl rfl, Nat.le_refl _, fun q hq hq' => by simp [hn q hq] at hq'⟩
        · rintro ⟨h1 | ⟨q, hq, hq', _⟩, _⟩
          · exact h1
          · simp [hn q hq] at hq'
      · simp only [hc, Bool.false_eq_true, ↓reduceIte, reduceCtorEq, false_and, false_or,
          false_implies, true_and, false_iff, not_and]
        rintro ⟨q, hq, hq', _⟩
        simp [hn q hq] at hq'
    | some j =>
      obtain ⟨⟨q, hq, hqc, hql⟩, hmax⟩ := (ih j).1 h
      by_cases hc : p.contains ip = true
      · by_cases hlt : j < p.len
        · simp only [hc, hlt, decide_true, Bool.and_self, ↓reduceIte, Option.some.injEq, true_and,
            forall_const]
          constructor
          · rintro rfl
            exact ⟨Or.inl rfl, Nat.le_refl _, fun r hr hr' => by have := hmax r hr hr'; omega⟩
          · rintro ⟨h1 | ⟨r, hr, hr', hrl⟩, h2, h3⟩
            · exact h1
            · have := hmax r hr hr'; omega
        · simp only [hc, hlt, decide_false, Bool.and_false, Bool.false_eq_true, ↓reduceIte,
            Option.some.injEq, true_and, forall_const]
          constructor
          · rintro rfl
            exact ⟨Or.inr ⟨q, hq, hqc, hql⟩, by omega, hmax⟩
          · rintro ⟨h1 | ⟨r, hr, hr', hrl⟩, h2, h3⟩
            · have := h3 q hq hqc; omega
            · have := hmax r hr hr'; have := h3 q hq hqc; omega
      · simp only [hc, Bool.false_and, Bool.false_eq_true, ↓reduceIte, Option.some.injEq, false_and,
          false_or, false_implies, true_and]
        constructor
        · rintro rfl
          exact ⟨⟨q, hq, hqc, hql⟩, hmax⟩
        · rintro ⟨⟨r, hr, hr', hrl⟩, h3⟩
          have := hmax r hr hr'; have := h3 q hq hqc; omega

/-! ### the per-family sets do not change what matches -/

theorem contains_fam {p : Prefix} {ip : Ip} (h : p.contains ip = true) : p.fam = ip.fam := by
  unfold Prefix.contains at h
  simp only [Bool.and_eq_true, beq_iff_eq] at h
  exact h.1

theorem mem_famSet (s : List Prefix) (f : Family) (p : Prefix) :
    p ∈ famSet s f ↔ p ∈ s ∧ p.fam = f := by
  simp [famSet]

theorem famSet_isEmpty (s : List Prefix) (f : Family) :
    (famSet s f).isEmpty = true ↔ ∀ p ∈ s, p.fam ≠ f := by
  rw [List.isEmpty_iff]
  constructor
  · intro h p hp hf
    have : p ∈ famSet s f := (mem_famSet s f p).2 ⟨hp, hf⟩
    rw [h] at this; cases this
  · intro h
    apply List.eq_nil_iff_forall_not_mem.2
    intro p hp
    obtain ⟨h1, h2⟩ := (mem_famSet s f p).1 hp
    exact h p h1 h2

/-- matching in the per-family set is matching in the whole list -/
theorem match_famSet (s : List Prefix) (c : Ip) (p : Prefix) :
    (p ∈ famSet s c.fam ∧ p.contains c = true) ↔ (p ∈ s ∧ p.contains c = true) := by
  rw [mem_famSet]
  constructor
  · rintro ⟨⟨h1, _⟩, h2⟩; exact ⟨h1, h2⟩
  · rintro ⟨h1, h2⟩; exact ⟨⟨h1, contains_fam h2⟩, h2⟩

/-- **What `AccessControl::allow` implements.**  With `c` the canonical form of the source
(`::ffff:a.b.c.d` counts as the IPv4 address `a.b.c.d`) the source is allowed iff

* some allow prefix contains `c` and is *strictly* longer than every deny prefix containing `c`
  (so the same prefix in both lists denies), or
* no allow prefix and no deny prefix contains `c`, and the lists of `c`'s address family either
  contain a deny entry or contain no allow entry (an allow-only list denies everything else;
  the lists of the other family do not matter). -/
theorem acl_semantics (acl : Acl) (ip : Ip) :
    acl.allows ip = true ↔
      (∃ a ∈ acl.allow, a.contains (toCanonical ip) = true ∧
          ∀ d ∈ acl.deny, d.contains (toCanonical ip) = true → d.len < a.len) ∨
      ((∀ a ∈ acl.allow, a.contains (toCanonical ip) = false) ∧
        (∀ d ∈ acl.deny, d.contains (toCanonical ip) = false) ∧
        ((∃ d ∈ acl.deny, d.fam = (toCanonical ip).fam) ∨
          ∀ a ∈ acl.allow, a.fam ≠ (toCanonical ip).fam)) := by
  unfold Acl.allows
  show innerAllow (famSet acl.deny (toCanonical ip).fam) (famSet acl.allow (toCanonical ip).fam)
    (toCanonical ip) = true ↔ _
  generalize toCanonical ip = c
  -- facts about the two lookups, phrased on the whole lists
  have hnone : ∀ s : List Prefix, lpm (famSet s c.fam) c = none ↔ ∀ p ∈ s, p.contains c = false := by
    intro s
    rw [lpm_eq_none_iff]
    constructor
    · intro h p hp
      by_cases hc : p.contains c = true
      · have := h p ((match_famSet s c p).2 ⟨hp, hc⟩).1
        rw [this] at hc; cases hc
      · simpa using hc
    · intro h p hp; exact h p ((mem_famSet s c.fam p).1 hp).1
  have hsome : ∀ (s : List Prefix) (k : Nat), lpm (famSet s c.fam) c = some k ↔
      (∃ p ∈ s, p.contains c = true ∧ p.len = k) ∧ ∀ p ∈ s, p.contains c = true → p.len ≤ k := by
    intro s k
    rw [lpm_eq_some_iff]
    constructor
    · rintro ⟨⟨p, hp, hc, hl⟩, hmax⟩
      exact ⟨⟨p, ((mem_famSet s c.fam p).1 hp).1, hc, hl⟩,
        fun q hq hqc => hmax q ((match_famSet s c q).2 ⟨hq, hqc⟩).1 hqc⟩
    · rintro ⟨⟨p, hp, hc, hl⟩, hmax⟩
      exact ⟨⟨p, ((match_famSet s c p).2 ⟨hp, hc⟩).1, hc, hl⟩,
        fun q hq hqc => hmax q ((mem_famSet s c.fam q).1 hq).1 hqc⟩
  unfold innerAllow
  cases hd : lpm (famSet acl.deny c.fam) c with
  | some d =>
    obtain ⟨⟨pd, hpd, hpdc, hpdl⟩, hdmax⟩ := (hsome _ _).1 hd
    cases ha : lpm (famSet acl.allow c.fam) c with
    | some a =>
      obtain ⟨⟨pa, hpa, hpac, hpal⟩, hamax⟩ := (hsome _ _).1 ha
      simp only [gt_iff_lt, decide_eq_true_eq]
      constructor
      · intro hlt
        exact Or.inl ⟨pa, hpa, hpac, fun q hq hqc => by have := hdmax q hq hqc; omega⟩
      · rintro (⟨q, hq, hqc, hall⟩ | ⟨hno, _⟩)
        · have := hall pd hpd hpdc; have := hamax q hq hqc; omega
        · simp [hno pa hpa] at hpac
    | none =>
      have hno := (hnone _).1 ha
      simp only [Bool.false_eq_true, false_iff]
      rintro (⟨q, hq, hqc, _⟩ | ⟨_, hnd, _⟩)
      · simp [hno q hq] at hqc
      · simp [hnd pd hpd] at hpdc
  | none =>
    have hnd := (hnone _).1 hd
    cases ha : lpm (famSet acl.allow c.fam) c with
    | some a =>
      obtain ⟨⟨pa, hpa, hpac, hpal⟩, hamax⟩ := (hsome _ _).1 ha
      simp only [true_iff]
      exact Or.inl ⟨pa, hpa, hpac, fun q hq hqc => by simp [hnd q hq] at hqc⟩
    | none =>
      have hna := (hnone _).1 ha
      have hde := famSet_isEmpty acl.deny c.fam
      have hae := famSet_isEmpty acl.allow c.fam
      cases hde' : (famSet acl.deny c.fam).isEmpty <;> cases hae' : (famSet acl.allow c.fam).isEmpty <;>
        simp only [Bool.not_false, Bool.not_true, true_iff, Bool.false_eq_true, false_iff]
      · -- deny entries of this family exist
        refine Or.inr ⟨hna, hnd, Or.inl ?_⟩
        have : ¬ ∀ p ∈ acl.deny, p.fam ≠ c.fam := fun h => by rw [hde.2 h] at hde'; cases hde'
        apply Classical.byContradiction
        intro hne
        exact this fun p hp hf => hne ⟨p, hp, hf⟩
      · refine Or.inr ⟨hna, hnd, Or.inl ?_⟩
        have : ¬ ∀ p ∈ acl.deny, p.fam ≠ c.fam := fun h => by rw [hde.2 h] at hde'; cases hde'
        apply Classical.byContradiction
        intro hne
        exact this fun p hp hf => hne ⟨p, hp, hf⟩
      · -- only allow entries of this family
        rintro (⟨q, hq, hqc, _⟩ | ⟨_, _, ⟨q, hq, hqf⟩ | hall⟩)
        · simp [hna q hq] at hqc
        · exact hde.1 hde' q hq hqf
        · rw [hae.2 hall] at hae'; cases hae'
      · exact Or.inr ⟨hna, hnd, Or.inr (hae.1 hae')⟩

/-- the same prefix in both lists denies the addresses it contains (the `>` is strict) -/
theorem acl_same_prefix_denies (p : Prefix) (ip : Ip) (h : p.contains (toCanonical ip) = true) :
    ({ deny := [p], allow := [p] } : Acl).allows ip = false := by
  apply Bool.eq_false_iff.2
  intro hal
  rcases (acl_semantics _ _).1 hal with ⟨a, ha, _, hall⟩ | ⟨hno, _⟩
  · simp only [List.mem_singleton] at ha
    subst ha
    have := hall a (by simp) h
    omega
  · simp [hno p (by simp)] at h

/-- an empty access list allows everybody -/
theorem acl_empty_allows (ip : Ip) : ({ deny := [], allow := [] } : Acl).allows ip = true := by
  rw [acl_semantics]; exact Or.inr ⟨by simp, by simp, Or.inr (by simp)⟩

/-! ### non-vacuity / examples (`10.0.0.0/8` denied, `10.1.0.0/16` allowed) -/

private def ten8 : Prefix := { fam := .v4, addr := 167772160, len := 8 }
private def ten1_16 : Prefix := { fam := .v4, addr := 167837696, len := 16 }
private def exAcl : Acl := { deny := [ten8], allow := [ten1_16] }

-- 10.1.2.3 allowed, 10.2.3.4 denied, ::ffff:10.2.3.4 denied as well, 8.8.8.8 allowed,
-- 2001:db8::1 allowed (no IPv6 entries)
example : exAcl.allows ⟨.v4, 167838211⟩ = true := by decide
example : exAcl.allows ⟨.v4, 167904004⟩ = false := by decide
example : exAcl.allows ⟨.v6, 0xFFFF * 2 ^ 32 + 167904004⟩ = false := by decide
example : exAcl.allows ⟨.v4, 134744072⟩ = true := by decide
example : exAcl.allows ⟨.v6, 0x20010db8000000000000000000000001⟩ = true := by decide
-- allow-only list: everything else of that family is denied
example : ({ deny := [], allow := [ten1_16] } : Acl).allows ⟨.v4, 134744072⟩ = false := by decide

end HickoryVerif.C11
